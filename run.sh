#!/bin/sh
# usage: ./run.sh <Cxx> [quick|thorough]
# Decides one property on /repo's current working tree (static analysis only:
# the tree is loaded and type-checked, never built or executed).
#   quick:    every rule of the property.
#   thorough: the same rules, then the self-validation of this property's check: its committed mutants,
#             seeded breakage and behaviour-preserving refactors are applied to scratch copies (outside /repo
#             and /verif, removed afterwards) and must be reported / stay silent.  Self-validation never
#             changes the verdict about /repo; it is recorded in the evidence and printed as SELF-CHECK lines.
cd "$(dirname "$0")"
prop="$1"; tier="${2:-${VERIF_TIER:-quick}}"
if [ ! -x bin/amverif ] || [ -n "$(find checker -newer bin/amverif \( -name '*.go' -o -name '*.txt' \) 2>/dev/null | head -1)" ]; then
  ./setup.sh >/dev/null || { echo "run.sh: cannot build the checker" >&2; exit 2; }
fi
if [ "$tier" != "thorough" ]; then
  exec bin/amverif check "$prop" "$tier"
fi
bin/amverif check "$prop" thorough
rc=$?
if [ $rc -eq 0 ] && command -v python3 >/dev/null 2>&1 && command -v rsync >/dev/null 2>&1 && command -v patch >/dev/null 2>&1; then
  python3 tools/selfcheck.py "$prop" "${AMVERIF_OUT:-evidence}" || echo "SELF-CHECK $prop: the scratch machinery could not evaluate every variant (verdict about /repo unaffected)"
fi
exit $rc
