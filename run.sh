#!/bin/sh
# usage: ./run.sh <Cxx> [quick|thorough]
# Decides one property on /repo's current working tree (static analysis only:
# the tree is loaded and type-checked, never built or executed).
cd "$(dirname "$0")"
prop="$1"; tier="${2:-${VERIF_TIER:-quick}}"
if [ ! -x bin/amverif ] || [ -n "$(find checker -newer bin/amverif -name '*.go' 2>/dev/null | head -1)" ]; then
  ./setup.sh >/dev/null || { echo "run.sh: cannot build the checker" >&2; exit 2; }
fi
exec bin/amverif check "$prop" "$tier"
