#!/bin/sh
# Build the checker offline from /verif/checker (x/tools v0.29.0 from the module cache).
set -e
cd "$(dirname "$0")"
. tools/findgo.sh
mkdir -p bin evidence
(cd checker && go build -o ../bin/amverif .)
echo "setup: built bin/amverif with $(go env GOVERSION)"
