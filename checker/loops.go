package main

import (
	"go/constant"
	"go/token"
	"go/types"
	"sort"

	"golang.org/x/tools/go/ssa"
)

// Loop is a natural loop of a function.
type Loop struct {
	Fn     *ssa.Function
	Header *ssa.BasicBlock
	Blocks map[int]bool
	Back   [][2]int // back edges [from,to=header]
	Exits  [][2]int // [block index in loop, successor index] leaving the loop
}

// Loops computes the natural loops of fn (one per header).
func (e *Eng) Loops(fn *ssa.Function) []*Loop {
	byHeader := map[int]*Loop{}
	for _, b := range fn.Blocks {
		for _, s := range b.Succs {
			if dominates(s, b) { // back edge b -> s
				l := byHeader[s.Index]
				if l == nil {
					l = &Loop{Fn: fn, Header: s, Blocks: map[int]bool{s.Index: true}}
					byHeader[s.Index] = l
				}
				l.Back = append(l.Back, [2]int{b.Index, s.Index})
				// collect body: nodes that reach b without passing header
				stack := []*ssa.BasicBlock{b}
				for len(stack) > 0 {
					x := stack[len(stack)-1]
					stack = stack[:len(stack)-1]
					if l.Blocks[x.Index] {
						continue
					}
					l.Blocks[x.Index] = true
					stack = append(stack, x.Preds...)
				}
			}
		}
	}
	var out []*Loop
	for _, l := range byHeader {
		for bi := range l.Blocks {
			b := fn.Blocks[bi]
			for si, s := range b.Succs {
				if !l.Blocks[s.Index] {
					l.Exits = append(l.Exits, [2]int{bi, si})
				}
			}
		}
		sort.Slice(l.Exits, func(i, j int) bool {
			if l.Exits[i][0] != l.Exits[j][0] {
				return l.Exits[i][0] < l.Exits[j][0]
			}
			return l.Exits[i][1] < l.Exits[j][1]
		})
		out = append(out, l)
	}
	sort.Slice(out, func(i, j int) bool { return out[i].Header.Index < out[j].Header.Index })
	return out
}

// LoopOf returns the innermost loop containing the instruction, or nil.
func (e *Eng) LoopOf(in ssa.Instruction) *Loop {
	var best *Loop
	for _, l := range e.Loops(in.Parent()) {
		if l.Blocks[in.Block().Index] {
			if best == nil || len(l.Blocks) < len(best.Blocks) {
				best = l
			}
		}
	}
	return best
}

// Contains reports whether the instruction lies in the loop.
func (l *Loop) Contains(in ssa.Instruction) bool { return l.Blocks[in.Block().Index] }

// HeaderExit returns the exit edge taken from the loop header (exhaustion /
// loop condition false), as (succ index, ok).
func (l *Loop) HeaderExit() (int, bool) {
	for si, s := range l.Header.Succs {
		if !l.Blocks[s.Index] {
			return si, true
		}
	}
	return 0, false
}

// BodyEntry returns the successor of the header that stays in the loop.
func (l *Loop) BodyEntry() (int, bool) {
	for si, s := range l.Header.Succs {
		if l.Blocks[s.Index] && len(l.Header.Succs) == 2 {
			return si, true
		}
	}
	return 0, false
}

// RangeOver describes what a range loop iterates over: the canonical rendering
// of the ranged collection, and whether the loop is a go/ssa range lowering
// (index loop over slice/array, or map/string/channel iterator) or a manual
// ascending index loop "for i := 0; i < len(x); i++".
func (e *Eng) RangeOver(l *Loop) (coll string, kind string) {
	h := l.Header
	if len(h.Instrs) == 0 {
		return "", ""
	}
	iff, ok := h.Instrs[len(h.Instrs)-1].(*ssa.If)
	if !ok {
		return "", ""
	}
	fn := l.Fn
	switch c := iff.Cond.(type) {
	case *ssa.BinOp:
		if c.Op == token.LSS {
			if isInduction(c.X) {
				if call, ok := c.Y.(*ssa.Call); ok {
					if b, ok := call.Call.Value.(*ssa.Builtin); ok && b.Name() == "len" {
						return e.X(fn, call.Call.Args[0]), "index"
					}
				}
				return e.X(fn, c.Y), "count"
			}
		}
	case *ssa.Extract:
		if nx, ok := c.Tuple.(*ssa.Next); ok && c.Index == 0 {
			if r, ok := nx.Iter.(*ssa.Range); ok {
				return e.X(fn, r.X), "iter"
			}
		}
	}
	// channel range: "t = <-ch (commaok); if ok"
	return "", ""
}

// IndexLoopFrom recognises "for i := start; i < len(x); i++" and returns x and start.
func (e *Eng) IndexLoopFrom(l *Loop) (coll, start string, ok bool) {
	h := l.Header
	if len(h.Instrs) == 0 {
		return "", "", false
	}
	iff, isIf := h.Instrs[len(h.Instrs)-1].(*ssa.If)
	if !isIf {
		return "", "", false
	}
	c, isB := iff.Cond.(*ssa.BinOp)
	if !isB || c.Op != token.LSS {
		return "", "", false
	}
	phi, isP := c.X.(*ssa.Phi)
	call, isC := c.Y.(*ssa.Call)
	if !isP || !isC || phi.Block() != h {
		return "", "", false
	}
	if b, isBu := call.Call.Value.(*ssa.Builtin); !isBu || b.Name() != "len" {
		return "", "", false
	}
	var init ssa.Value
	step := false
	for i, ed := range phi.Edges {
		if l.Blocks[h.Preds[i].Index] {
			// from inside the loop: must be phi+1
			bo, ok := ed.(*ssa.BinOp)
			if !ok || bo.Op != token.ADD || bo.X != ssa.Value(phi) || !isIntConst(bo.Y, 1) {
				return "", "", false
			}
			step = true
		} else {
			if init != nil && init != ed {
				return "", "", false
			}
			init = ed
		}
	}
	if !step || init == nil {
		return "", "", false
	}
	return e.X(l.Fn, call.Call.Args[0]), e.X(l.Fn, init), true
}

// isInduction recognises i (manual loop: phi(0, i+1)) and i+1 (range lowering: phi(-1, i+1) + 1).
func isInduction(v ssa.Value) bool {
	if b, ok := v.(*ssa.BinOp); ok && b.Op == token.ADD {
		if k, ok := b.Y.(*ssa.Const); ok && k.Value != nil && k.Value.Kind() == constant.Int {
			if i, _ := constant.Int64Val(k.Value); i == 1 {
				if p, ok := b.X.(*ssa.Phi); ok {
					return inductionPhi(p, -1)
				}
			}
		}
	}
	if p, ok := v.(*ssa.Phi); ok {
		return inductionPhi(p, 0)
	}
	return false
}

func inductionPhi(p *ssa.Phi, init int64) bool {
	if len(p.Edges) < 2 {
		return false
	}
	hasInit, hasStep := false, false
	for _, ed := range p.Edges {
		switch x := ed.(type) {
		case *ssa.Const:
			if x.Value != nil && x.Value.Kind() == constant.Int {
				if i, _ := constant.Int64Val(x.Value); i == init {
					hasInit = true
				}
			}
		case *ssa.BinOp:
			if x.Op == token.ADD && x.X == p {
				if k, ok := x.Y.(*ssa.Const); ok && k.Value != nil {
					if i, _ := constant.Int64Val(k.Value); i == 1 {
						hasStep = true
						continue
					}
				}
			}
			return false
		default:
			return false
		}
	}
	return hasInit && hasStep
}

// AppendParts decomposes a slice value built by append into its base values
// and the appended parts.  Each part is either a spread slice (Spread=true,
// V the slice) or single elements (the values stored into the varargs array).
type AppendPart struct {
	Spread bool
	V      ssa.Value
	Call   *ssa.Call
}

func (e *Eng) AppendParts(v ssa.Value) (bases []ssa.Value, parts []AppendPart) {
	return e.AppendPartsUnder(nil, v)
}

// AppendPartsUnder is AppendParts restricted to the phi edges and variable stores reached by r.
func (e *Eng) AppendPartsUnder(r *Reached, v ssa.Value) (bases []ssa.Value, parts []AppendPart) {
	seen := map[ssa.Value]bool{}
	var rec func(v ssa.Value)
	rec = func(v ssa.Value) {
		if seen[v] {
			return
		}
		seen[v] = true
		switch x := v.(type) {
		case *ssa.MakeInterface:
			rec(x.X)
			return
		case *ssa.ChangeType:
			rec(x.X)
			return
		case *ssa.Phi:
			for i, ed := range x.Edges {
				if r == nil || r.Edge[[2]int{x.Block().Preds[i].Index, x.Block().Index}] {
					rec(ed)
				}
			}
			return
		case *ssa.UnOp:
			if a, ok := x.X.(*ssa.Alloc); ok && x.Op == token.MUL {
				sts, esc := e.boxStores(a)
				if !esc && len(sts) > 0 {
					n := 0
					for _, st := range sts {
						if (r == nil || r.Instr[st]) && e.storeReaches(r, st, x, sts) {
							n++
							rec(st.Val)
						}
					}
					if n > 0 {
						return
					}
				}
			}
		case *ssa.Call:
			if b, ok := x.Call.Value.(*ssa.Builtin); ok && b.Name() == "append" && len(x.Call.Args) == 2 {
				rec(x.Call.Args[0])
				arg := x.Call.Args[1]
				if els, ok := varargElems(arg); ok {
					for _, el := range els {
						parts = append(parts, AppendPart{false, el, x})
					}
				} else {
					parts = append(parts, AppendPart{true, arg, x})
				}
				return
			}
		}
		bases = append(bases, v)
	}
	rec(v)
	return
}

// varargElems: if v is slice(&varargs-array) returns the values stored into the array.
func varargElems(v ssa.Value) ([]ssa.Value, bool) {
	sl, ok := v.(*ssa.Slice)
	if !ok {
		return nil, false
	}
	a, ok := sl.X.(*ssa.Alloc)
	if !ok {
		return nil, false
	}
	var out []ssa.Value
	refs := a.Referrers()
	if refs == nil {
		return nil, false
	}
	for _, r := range *refs {
		if ia, ok := r.(*ssa.IndexAddr); ok {
			if rr := ia.Referrers(); rr != nil {
				for _, u := range *rr {
					if st, ok := u.(*ssa.Store); ok && st.Addr == ia {
						out = append(out, st.Val)
					}
				}
			}
		}
	}
	return out, len(out) > 0
}

// IsEmptySlice reports whether v is a freshly made empty slice or nil:
// nil, make([]T, 0, n), []T{}.
func IsEmptySlice(v ssa.Value) bool {
	switch x := v.(type) {
	case *ssa.Const:
		return x.Value == nil
	case *ssa.MakeSlice:
		if k, ok := x.Len.(*ssa.Const); ok && k.Value != nil {
			if i, _ := constant.Int64Val(k.Value); i == 0 {
				return true
			}
		}
	case *ssa.Slice:
		if _, ok := x.X.(*ssa.Alloc); !ok {
			return false
		}
		if x.High != nil {
			if k, ok := x.High.(*ssa.Const); ok && k.Value != nil {
				if i, _ := constant.Int64Val(k.Value); i == 0 {
					return true
				}
			}
			return false
		}
		// slicelit of length 0
		if p, ok := x.X.Type().Underlying().(*types.Pointer); ok {
			if a, ok := p.Elem().Underlying().(*types.Array); ok && a.Len() == 0 {
				return true
			}
		}
	}
	return false
}

// IndexLoopDown recognises "for i := len(x)-1; i >= 0; i--" (every index of x, last to first) and returns x.
func (e *Eng) IndexLoopDown(l *Loop) (coll string, ok bool) {
	h := l.Header
	if len(h.Instrs) == 0 {
		return "", false
	}
	iff, isIf := h.Instrs[len(h.Instrs)-1].(*ssa.If)
	if !isIf {
		return "", false
	}
	c, isB := iff.Cond.(*ssa.BinOp)
	if !isB {
		return "", false
	}
	// i >= 0  or  i > -1
	var phi *ssa.Phi
	switch {
	case c.Op == token.GEQ && isIntConst(c.Y, 0), c.Op == token.GTR && isIntConst(c.Y, -1):
		phi, _ = c.X.(*ssa.Phi)
	case c.Op == token.LEQ && isIntConst(c.X, 0), c.Op == token.LSS && isIntConst(c.X, -1):
		phi, _ = c.Y.(*ssa.Phi)
	}
	if phi == nil || phi.Block() != h {
		return "", false
	}
	// the loop must continue on the true branch
	if len(h.Succs) != 2 || !l.Blocks[h.Succs[0].Index] {
		return "", false
	}
	var init ssa.Value
	step := false
	for i, ed := range phi.Edges {
		if l.Blocks[h.Preds[i].Index] {
			bo, ok := ed.(*ssa.BinOp)
			if !ok || bo.X != ssa.Value(phi) || !(bo.Op == token.SUB && isIntConst(bo.Y, 1) || bo.Op == token.ADD && isIntConst(bo.Y, -1)) {
				return "", false
			}
			step = true
		} else {
			if init != nil && init != ed {
				return "", false
			}
			init = ed
		}
	}
	if !step || init == nil {
		return "", false
	}
	// init = len(x) - 1
	bo, isBo := init.(*ssa.BinOp)
	if !isBo || bo.Op != token.SUB || !isIntConst(bo.Y, 1) {
		return "", false
	}
	call, isC := bo.X.(*ssa.Call)
	if !isC {
		return "", false
	}
	if b, isBu := call.Call.Value.(*ssa.Builtin); !isBu || b.Name() != "len" {
		return "", false
	}
	return e.X(l.Fn, call.Call.Args[0]), true
}

// CoversAll reports whether loop l visits every index of the collection rendered as coll (range, counting up from 0,
// or counting down from len-1).
func (e *Eng) CoversAll(l *Loop, coll string) bool {
	if c, kind := e.RangeOver(l); c == coll && (kind == "index" || kind == "iter") {
		return true
	}
	if c, start, ok := e.IndexLoopFrom(l); ok && c == coll && start == "0" {
		return true
	}
	if c, ok := e.IndexLoopDown(l); ok && c == coll {
		return true
	}
	return false
}
