package main

import (
	"encoding/json"
	"fmt"
	"os"
	"path/filepath"
	"sort"
	"strconv"
	"strings"
	"time"

	"golang.org/x/tools/go/ssa"
)

func usage() {
	fmt.Fprintln(os.Stderr, `usage:
  amverif check <Cxx> [quick|thorough]     decide one property on $AMVERIF_REPO (default /repo)
  amverif all [quick|thorough]             decide every property with one load
  amverif explain <replay.json>            re-evaluate the property of a replay file and print the obligation
  amverif dump <func-name-regexp>          print the resolved form of matching functions (rule authoring aid)
  amverif list                             list registered rules`)
	os.Exit(2)
}

func env(k, d string) string {
	if v := os.Getenv(k); v != "" {
		return v
	}
	return d
}

func props() []string {
	set := map[string]bool{}
	for _, r := range registry {
		set[r.Prop] = true
	}
	var out []string
	for k := range set {
		out = append(out, k)
	}
	sort.Strings(out)
	return out
}

func main() {
	if len(os.Args) < 2 {
		usage()
	}
	start := time.Now()
	repo := env("AMVERIF_REPO", "/repo")
	verif := env("AMVERIF_HOME", "/verif")
	out := env("AMVERIF_OUT", filepath.Join(verif, "evidence"))
	seed, _ := strconv.ParseInt(env("VERIF_SEED", "0"), 10, 64)

	code := func() (code int) {
		defer func() {
			if x := recover(); x != nil {
				fmt.Fprintf(os.Stderr, "amverif: internal error: %v\n", x)
				code = 2
			}
		}()
		switch os.Args[1] {
		case "list":
			for _, r := range registry {
				t := ""
				if r.Thorough {
					t = " (thorough)"
				}
				fmt.Printf("%s %s [%s]%s %s\n", r.Prop, r.ID, r.Template, t, r.Desc)
			}
			return 0
		case "funcs":
			// the function inventory of the tree (the reference list of transparent-helper inlining)
			os.Setenv("AMVERIF_NOINLINE", "1")
			e, err := Load(repo, nil)
			if err != nil {
				fmt.Fprintf(os.Stderr, "amverif: load failed: %v\n", err)
				return 2
			}
			set := map[string]bool{}
			for f := range e.allSSA {
				if strings.HasPrefix(fnPkgPath(f), Mod) && !(f.Synthetic != "" && f.Origin() == nil) {
					// a function literal is listed with its signature: its ordinal name alone does not
					// identify it once another literal is written before it
					if f.Parent() != nil {
						set[fnName(f)+"\t"+f.Signature.String()] = true
						continue
					}
					set[fnName(f)] = true
				}
			}
			var names []string
			for n := range set {
				names = append(names, n)
			}
			sort.Strings(names)
			for _, n := range names {
				fmt.Println(n)
			}
			return 0
		case "check", "all", "explain", "dump":
		default:
			usage()
		}
		tier := "quick"
		var which []string
		switch os.Args[1] {
		case "check":
			if len(os.Args) < 3 {
				usage()
			}
			which = []string{os.Args[2]}
			if len(os.Args) > 3 {
				tier = os.Args[3]
			}
		case "all":
			which = props()
			if len(os.Args) > 2 {
				tier = os.Args[2]
			}
		case "explain":
			if len(os.Args) < 3 {
				usage()
			}
			b, err := os.ReadFile(os.Args[2])
			if err != nil {
				fmt.Fprintln(os.Stderr, err)
				return 2
			}
			var rp map[string]any
			json.Unmarshal(b, &rp)
			fmt.Printf("replaying %s: rule %v at %v\n  %v\n", os.Args[2], rp["key"], rp["site"], rp["message"])
			p, _ := rp["property"].(string)
			which = []string{p}
			tier = "thorough"
			out = filepath.Join(os.TempDir(), "amverif-explain")
			defer os.RemoveAll(out)
		}
		if tier != "quick" && tier != "thorough" {
			usage()
		}
		e, err := Load(repo, nil)
		if err != nil {
			fmt.Fprintf(os.Stderr, "amverif: load failed: %v\n", err)
			return 2
		}
		if len(e.Pkgs) < 20 || len(e.allFuncs) < 1000 {
			fmt.Fprintf(os.Stderr, "amverif: implausibly small load: %d packages, %d functions\n", len(e.Pkgs), len(e.allFuncs))
			return 2
		}
		if os.Args[1] == "dump" {
			if len(os.Args) < 3 {
				usage()
			}
			dump(e, os.Args[2])
			return 0
		}
		rc := 0
		for _, p := range which {
			c := runProperty(e, p, tier, out, verif, seed, start, false)
			if c > rc {
				rc = c
			}
		}
		return rc
	}()
	os.Exit(code)
}

// dump prints, for every function whose canonical name matches, the blocks with
// branch literals, calls, stores and returns in canonical form.
func dump(e *Eng, pat string) {
	for _, fn := range e.allFuncs {
		if !strings.Contains(fnName(fn), pat) {
			continue
		}
		fmt.Printf("=== %s  (%s)\n", fnName(fn), e.Pos(fn.Pos()))
		ls := e.Locksets(fn, lockset{})
		for _, b := range fn.Blocks {
			var preds, succs []string
			for _, p := range b.Preds {
				preds = append(preds, strconv.Itoa(p.Index))
			}
			for _, s := range b.Succs {
				succs = append(succs, strconv.Itoa(s.Index))
			}
			fmt.Printf(" b%d (%s) preds=%v succs=%v\n", b.Index, b.Comment, preds, succs)
			for _, in := range b.Instrs {
				held := ""
				if l := ls[in]; len(l) > 0 {
					held = " " + l.String()
				}
				switch v := in.(type) {
				case *ssa.If:
					l := e.CondLit(fn, v.Cond)
					fmt.Printf("    if %s -> b%d else b%d\n", l, b.Succs[0].Index, b.Succs[1].Index)
				case *ssa.Call:
					fmt.Printf("    call %s   @%s%s\n", e.X(fn, v), e.InstrPos(in), held)
				case *ssa.Go:
					fmt.Printf("    go %s\n", (&rctx{e: e, fn: fn, seen: map[ssa.Value]bool{}}).call(&v.Call))
				case *ssa.Defer:
					fmt.Printf("    defer %s\n", (&rctx{e: e, fn: fn, seen: map[ssa.Value]bool{}}).call(&v.Call))
				case *ssa.Store:
					fmt.Printf("    store %s := %s%s\n", e.X(fn, v.Addr), e.X(fn, v.Val), held)
				case *ssa.MapUpdate:
					fmt.Printf("    mapupdate %s[%s] = %s%s\n", e.X(fn, v.Map), e.X(fn, v.Key), e.X(fn, v.Value), held)
				case *ssa.Send:
					fmt.Printf("    send %s <- %s\n", e.X(fn, v.Chan), e.X(fn, v.X))
				case *ssa.Return:
					var rs []string
					for _, r := range v.Results {
						rs = append(rs, e.X(fn, r))
					}
					fmt.Printf("    return %s\n", strings.Join(rs, ", "))
				case *ssa.Panic:
					fmt.Printf("    panic %s\n", e.X(fn, v.X))
				case *ssa.Select:
					fmt.Printf("    %s\n", e.X(fn, v))
				case *ssa.RunDefers:
					fmt.Printf("    rundefers\n")
				case *ssa.Phi:
					fmt.Printf("    %s = %s\n", v.Name(), e.X(fn, v))
				}
			}
		}
	}
}
