package main

import (
	"strings"

	"golang.org/x/tools/go/ssa"
)

func gcAlertsRule(o *Ob) {
	for i := range registry {
		if registry[i].ID == "C03.9" {
			registry[i].Run(o)
			return
		}
	}
	o.Fail("missing", "rule C03.9 not registered", nil)
}

func init() {
	propInfos["C13"] = &propInfo{
		Explanation: "Decides the ingestion path's structure: (1) the POST handler stamps UpdatedAt with the receive time, defaults a missing start to the receive time (or to the end when one is given) and a missing end to receive time + resolve_timeout with the timeout flag; (2) best effort: empty labels are removed before validation, an invalid alert is skipped, every valid alert reaches Put, Put is called whatever the validation errors, and Put skips (never aborts on) an alert that cannot be stored; (3) Validate's table (start required; end, when set, not before start; labels required); (4) Put merges iff an alert with the same fingerprint is stored and the activity ranges overlap, with old.Merge(new); Merge's table (younger wins, earliest start, end by the resolved/timeout rules); (5) GET filters out exactly the alerts whose end is set and before now; (6) only resolved alerts are garbage collected; GET /alerts reports per alert the receivers of the routes matched for that alert, in a list of its own; subscribers are handed the stored (merged) version.",
		NotDecided:  "the numeric merge contract over all submission histories; JSON decoding of the request.",
	}

	reg("C13", "C13.1", "T6", "POST defaulting: UpdatedAt=now; start missing → now (or the given end); end missing → now+resolve_timeout with Timeout=true", func(o *Ob) {
		e := o.E
		fn := o.Fn("(*am/api/v2.API).postAlertsHandler")
		conv := o.One(e.Calls(fn, "am/api/v2.OpenAPIAlertsToAlerts"), "convert", "the handler must convert the posted alerts", fn)
		A := e.X(fn, conv.(*ssa.Call)) + "[i]"
		zs := L("(time.Time).IsZero("+A+".Alert.StartsAt)", true)
		ze := L("(time.Time).IsZero("+A+".Alert.EndsAt)", true)
		now := "time.Now()"
		find := func(addr string) []*ssa.Store { return e.StoresTo(fn, A+addr) }
		upd := find(".UpdatedAt")
		o.Check(len(upd) == 1 && e.X(fn, upd[0].Val) == now, "updatedat", "every posted alert must be stamped with the receive time", nil)
		var l *Loop
		if len(upd) == 1 {
			o.Site(upd[0], "UpdatedAt := now")
			l = e.LoopOf(upd[0])
			if o.Check(l != nil, "default-loop", "alerts are not defaulted in a loop", upd[0]) {
				coll, kind := e.RangeOver(l)
				o.Check(coll == e.X(fn, conv.(*ssa.Call)) && kind == "index" && len(e.EarlyExits(l)) == 0, "default-range", "every posted alert must be defaulted", upd[0])
				o.Check(!loopBackWithout(o, l, IsInstr(upd[0]), nil), "updatedat-skipped", "an alert can skip the receive-time stamp", upd[0])
			}
		}
		nStart := 0
		for _, st := range find(".Alert.StartsAt") {
			v := e.X(fn, st.Val)
			o.Site(st, "StartsAt := "+v)
			o.Guarded(st, "start-guard", "overwriting a given start time", zs)
			switch v {
			case now:
				nStart++
				o.Guarded(st, "start-now-guard", "defaulting the start to the receive time although an end is given", ze)
			case A + ".Alert.EndsAt":
				nStart++
				o.Guarded(st, "start-end-guard", "defaulting the start to the end although no end is given", ze.Neg())
			default:
				o.Fail("start-value", "a missing start is defaulted to "+v, st)
			}
		}
		o.Check(nStart == 2, "start-cases", "a missing start must become the receive time, or the end when one is given", nil)
		ends := find(".Alert.EndsAt")
		o.Check(len(ends) == 1, "end-default", "a missing end must be defaulted exactly once", nil)
		for _, st := range ends {
			v := e.X(fn, st.Val)
			o.Site(st, "EndsAt := "+v)
			o.Guarded(st, "end-guard", "overwriting a given end time", ze)
			o.Check(v == "(time.Time).Add("+now+", recv.alertmanagerConfig.Global.ResolveTimeout)", "end-value", "a missing end must become receive time + resolve_timeout, becomes "+v, st)
		}
		to := find(".Timeout")
		o.Check(len(to) == 1 && e.X(fn, to[0].Val) == "true", "timeout-flag", "a defaulted end must be flagged as timeout (so that re-sends push it forward)", nil)
		for _, st := range to {
			o.Guarded(st, "timeout-guard", "flagging an explicit end as timeout", ze)
		}
		if l != nil {
			isStart := func(in ssa.Instruction) bool {
				st, ok := in.(*ssa.Store)
				return ok && e.X(fn, st.Addr) == A+".Alert.StartsAt"
			}
			isEnd := func(in ssa.Instruction) bool {
				st, ok := in.(*ssa.Store)
				return ok && e.X(fn, st.Addr) == A+".Alert.EndsAt"
			}
			o.Check(!loopBackWithout(o, l, isStart, e.CutContradicting(zs)), "start-forced", "an alert without start time can stay without one", nil)
			o.Check(!loopBackWithout(o, l, isEnd, e.CutContradicting(ze)), "end-forced", "an alert without end time can stay without one (it would never time out)", nil)
		}
		// resolve timeout read under the lock
		for _, in := range AllInstrs(fn) {
			if fa, ok := in.(*ssa.FieldAddr); ok && fieldName(fa.X.Type(), fa.Field) == "alertmanagerConfig" {
				held, why := e.HeldAt(in, fn.Params[0], "mtx", 'R', 0)
				o.Check(held, "config-lock", "the configuration is read without the API lock: "+why, in)
			}
		}
		o.MinSites(4)
	})

	reg("C13", "C13.2", "T8,T2", "best effort: empty labels removed before validation; invalid alerts skipped; every valid alert reaches Put; Put is always called; Put skips what it cannot store", func(o *Ob) {
		e := o.E
		fn := o.Fn("(*am/api/v2.API).postAlertsHandler")
		val := o.One(e.Calls(fn, "(*am/alert.Alert).Validate"), "validate", "posted alerts must be validated", fn)
		rm := o.One(e.Calls(fn, "am/api/v2.removeEmptyLabels"), "remove-empty", "empty labels must be removed", fn)
		put := o.One(e.Calls(fn, "invoke:am/provider.Alerts.Put"), "put", "valid alerts must be stored", fn)
		o.Site(val, "Validate")
		o.Site(put, "Put")
		o.Check(InstrDominates(rm, val) && rm.Block() == val.Block(), "remove-before-validate", "empty labels must be removed before validation (an alert with an empty-valued label is valid)", val)
		o.Check(strings.HasSuffix(e.Arg(rm, 0), "[i].Alert.Labels") && strings.HasSuffix(e.Arg(val, 0), "[i]"), "validate-arg", "the alert of the iteration must be cleaned and validated", val)
		vOK := L("("+e.X(fn, val.(*ssa.Call))+" == nil)", true)
		l := e.LoopOf(val)
		o.Require(l != nil, "validate-loop", "alerts are not validated in a loop", val)
		o.Check(len(e.EarlyExits(l)) == 0, "validate-early-exit", "an invalid alert aborts the batch: the valid alerts after it are lost", val)
		batch := put.Common().Args[len(put.Common().Args)-1]
		_, parts := e.AppendParts(batch)
		o.Check(len(parts) == 1, "valid-collect", "the stored batch must be the collected valid alerts", put)
		for _, p := range parts {
			o.Guarded(p.Call, "valid-guard", "storing an alert", vOK)
			o.Check(!loopBackWithout(o, l, IsInstr(p.Call), e.CutContradicting(vOK)), "valid-dropped", "a valid alert can be left out of the stored batch", p.Call)
			o.Check(strings.HasSuffix(e.X(fn, p.V), "[i]"), "valid-elem", "the collected alert must be the validated one", p.Call)
		}
		// Put is called on every path (not only when validation passed)
		o.Check(len((&Walk{Fn: fn, Barrier: IsInstr(put)}).FromEntry().Returns()) == 0, "put-skipped", "a validation error prevents the valid alerts of the batch from being stored", put)
		putFanoutRule(o)
		o.MinSites(3)
	})

	reg("C13", "C13.3", "T6", "Alert.Validate: start required; end, when set, not before start (equal allowed); at least one label", func(o *Ob) {
		fn := o.Fn("(*am/alert.Alert).Validate")
		zs := L("(time.Time).IsZero(recv.Alert.StartsAt)", true)
		ze := L("(time.Time).IsZero(recv.Alert.EndsAt)", true)
		inv := L("(recv.Alert.EndsAt <t recv.Alert.StartsAt)", true)
		nol := L("(len(recv.Alert.Labels) == 0)", true)
		lsOK := L("(am/alert.validateLs(recv.Alert.Labels) == nil)", true)
		anOK := L("(am/alert.validateLs(recv.Alert.Annotations) == nil)", true)
		E := [][]string{Vals(anyErr)}
		o.Table(fn, "Validate", []Row{
			{Name: "no start", Assume: A(zs), Ret: E},
			{Name: "end before start", Assume: A(zs.Neg(), ze.Neg(), inv), Ret: E},
			{Name: "no labels", Assume: A(zs.Neg(), ze, nol), Ret: E},
			{Name: "ok without end", Assume: A(zs.Neg(), ze, nol.Neg(), lsOK, anOK), Ret: [][]string{Vals("nil")}},
			{Name: "ok with end not before start", Assume: A(zs.Neg(), ze.Neg(), inv.Neg(), nol.Neg(), lsOK, anOK), Ret: [][]string{Vals("nil")}},
		})
		o.MinSites(5)
	})

	reg("C13", "C13.4", "T1,T6", "Put merges iff the alert is stored and the ranges overlap, as old.Merge(new); Merge: younger wins, earliest start, end by resolved/timeout rules", func(o *Ob) {
		e := o.E
		fn := o.Fn("(*am/provider/mem.Alerts).Put")
		mg := o.One(e.Calls(fn, "(*am/alert.Alert).Merge"), "merge", "Put must merge overlapping submissions", fn)
		o.Site(mg, "old.Merge(new)")
		get := o.One(e.Calls(fn, "(*am/store.Alerts).Get"), "get", "Put must look up the stored alert", fn)
		gx := e.X(fn, get.(*ssa.Call))
		o.Check(strings.HasPrefix(e.Arg(mg, 0), "(*am/store.Alerts).Get(recv.alerts,") && strings.HasSuffix(e.Arg(mg, 0), "#0"), "merge-recv", "the stored alert must be the receiver of Merge", mg)
		o.Check(strings.Contains(e.Arg(mg, 1), "p1[i]"), "merge-arg", "the submitted alert must be merged in", mg)
		o.Guarded(mg, "merge-found", "merging", L("("+gx+"#1 == nil)", true))
		OLD := `\(\*am/store\.Alerts\)\.Get\(recv\.alerts, .*\)#0\.Alert`
		NEW := `(phi\(.*p1\[i\]\)|p1\[i\])\.Alert` // the submitted alert (the loop variable, re-assigned to the merge result or not)
		a1 := LRe(`\(`+OLD+`\.StartsAt <t `+NEW+`\.EndsAt\)`, true)
		a2 := LRe(`\(`+NEW+`\.EndsAt <t `+OLD+`\.EndsAt\)`, true)
		b1 := LRe(`\(`+OLD+`\.StartsAt <t `+NEW+`\.StartsAt\)`, true)
		b2 := LRe(`\(`+NEW+`\.StartsAt <t `+OLD+`\.EndsAt\)`, true)
		for i, pr := range [][2]LitM{{a1, b1}, {a1, b2}, {a2, b1}, {a2, b2}} {
			o.Guarded(mg, "merge-overlap|"+itoa(i), "merging two submissions whose activity ranges do not overlap", pr[0], pr[1])
		}
		found := L("("+gx+"#1 == nil)", true)
		// per submitted alert: from the start of its iteration, with the stored alert found and the ranges
		// overlapping, whatever else is tested, the merge happens before the next alert is taken up
		if ml := e.LoopOf(mg); o.Check(ml != nil, "merge-loop", "alerts are not merged in the loop over the submissions", mg) {
			for _, lit := range []LitM{a1, a2, b1, b2, found} {
				o.Check(e.CountLitEdges(fn, lit)+e.CountLitEdges(fn, lit.Neg()) > 0, "merge-forced-atom", "Put no longer tests "+lit.Desc, mg)
			}
			o.Check(!loopBackWithout(o, ml, IsInstr(mg), e.CutContradicting(a1, a2, found)), "merge-forced-end", "a submission whose end lies inside the stored alert's range must be merged with it (otherwise the end time can move backwards)", mg)
			o.Check(!loopBackWithout(o, ml, IsInstr(mg), e.CutContradicting(b1, b2, found)), "merge-forced-start", "a submission whose start lies inside the stored alert's range must be merged with it (otherwise the earliest start is lost)", mg)
		}
		// Merge: the result is the younger alert (later UpdatedAt; the argument on a tie) with the earliest
		// start and, by the table below, possibly the older alert's end.  The two alerts get their roles by a
		// recursive call with swapped arguments or by swapping two locals; the obligations are stated per role
		// assignment and evaluated on the paths of that assignment.
		m := o.Fn("(*am/alert.Alert).Merge")
		older := L("(p0.UpdatedAt <t recv.UpdatedAt)", true)
		o.Check(e.CountLitEdges(m, older)+e.CountLitEdges(m, older.Neg()) > 0, "swap", "Merge must normalise so that the younger submission wins: it no longer compares the two UpdatedAt", fnFirst(m))
		swaps := e.Calls(m, "(*am/alert.Alert).Merge")
		for _, swap := range swaps {
			o.Check(e.Arg(swap, 0) == "p0" && e.Arg(swap, 1) == "recv", "swap-args", "the normalising call must swap the two alerts", swap)
			o.Guarded(swap, "swap-guard", "swapping", older)
		}
		if len(swaps) > 0 {
			o.Table(m, "merge-swap", []Row{{Name: "argument is older", Assume: A(older), Ret: [][]string{Vals(e.X(m, swaps[0].(*ssa.Call)))}}})
		}
		var resAlloc *ssa.Alloc
		for _, in := range AllInstrs(m) {
			if al, ok := in.(*ssa.Alloc); ok && typeKey(al.Type()) == "am/alert.Alert" && al.Heap {
				resAlloc = al
			}
		}
		o.Require(resAlloc != nil, "base", "Merge no longer builds its result in a fresh Alert", nil)
		res := e.X(m, resAlloc)
		role := func(tag string, assume LitM, Y, O string) {
			r := (&Walk{Fn: m, Cut: e.CutContradicting(assume)}).FromEntry()
			under := func(target ssa.Instruction, lits ...LitM) bool {
				cut := e.CutLits(lits...)
				contra := e.CutContradicting(assume)
				return !(&Walk{Fn: m, Cut: func(b *ssa.BasicBlock, s int) bool { return cut(b, s) || contra(b, s) }}).FromEntry().Has(target)
			}
			one := func(st *ssa.Store) string { return strings.Join(e.XsAt(r, st, st.Val), " | ") }
			nb := 0
			for _, st := range e.StoresTo(m, res) {
				if r.Has(st) {
					nb++
					o.Check(one(st) == "*"+Y, "base|"+tag, "the result must start as a copy of the younger alert ("+Y+"), starts as "+one(st), st)
				}
			}
			o.Check(nb >= 1, "base|"+tag, "the result is never initialised", nil)
			earlier := L("("+O+".Alert.StartsAt <t "+Y+".Alert.StartsAt)", true)
			for _, st := range e.StoresTo(m, res+".Alert.StartsAt") {
				if !r.Has(st) {
					continue
				}
				o.Site(st, tag+": res.StartsAt := "+one(st))
				o.Check(one(st) == O+".Alert.StartsAt", "start-value|"+tag, "the merged start can only come from the other alert, is "+one(st), st)
				o.Check(under(st, earlier), "start-guard|"+tag, "taking the other alert's start without it being the earlier one", st)
			}
			isStart, isEnd := isStoreAddr(e, res+".Alert.StartsAt"), isStoreAddr(e, res+".Alert.EndsAt")
			if o.Check(e.CountLitEdges(m, earlier)+e.CountLitEdges(m, earlier.Neg()) > 0 || len(e.EdgesAsserting(m, earlier))+len(e.EdgesAsserting(m, earlier.Neg())) > 0, "start-forced|"+tag, "Merge no longer compares the two start times", fnFirst(m)) {
				rr := (&Walk{Fn: m, Cut: e.CutContradicting(assume, earlier), Barrier: isStart}).FromEntry()
				o.Check(len(rr.Returns()) == 0, "start-forced|"+tag, "the earliest start must win", firstRet(rr.Returns()))
			}
			yRes := L("(*model.Alert).Resolved("+Y+".Alert)", true)
			oRes := L("(*model.Alert).Resolved("+O+".Alert)", true)
			later := L("("+Y+".Alert.EndsAt <t "+O+".Alert.EndsAt)", true)
			tmo := L(O+".Timeout", true)
			for _, st := range e.StoresTo(m, res+".Alert.EndsAt") {
				if !r.Has(st) {
					continue
				}
				o.Site(st, tag+": res.EndsAt := "+one(st))
				o.Check(one(st) == O+".Alert.EndsAt", "end-value|"+tag, "the merged end can only come from the other alert, is "+one(st), st)
				o.Check(under(st, later), "end-later|"+tag, "taking the other alert's end without it being the later one", st)
			}
			nv := []func(ssa.Instruction) bool{isEnd}
			o.Table(m, "merge-end|"+tag, []Row{
				{Name: "younger resolved, older resolved later", Assume: A(assume, yRes, oRes, later), Must: nv},
				{Name: "younger resolved, older not resolved", Assume: A(assume, yRes, oRes.Neg()), Never: nv},
				{Name: "younger resolved, older resolved earlier", Assume: A(assume, yRes, oRes, later.Neg()), Never: nv},
				{Name: "younger firing, older explicit later end", Assume: A(assume, yRes.Neg(), later, tmo.Neg()), Must: nv},
				{Name: "younger firing, older timeout end", Assume: A(assume, yRes.Neg(), later, tmo), Never: nv},
				{Name: "younger firing, older earlier end", Assume: A(assume, yRes.Neg(), later.Neg()), Never: nv},
			})
		}
		role("argument younger", older.Neg(), "p0", "recv")
		if len(swaps) == 0 {
			role("receiver younger", older, "recv", "p0")
		}
		o.MinSites(6)
	})

	reg("C13", "C13.6", "T11,T8", "GET /alerts reports, per alert, the receivers routing selects for that alert, in a list of its own", func(o *Ob) {
		e := o.E
		fn := o.Fn("(*am/api/v2.API).getAlertsHandler")
		conv := o.Some(e.Calls(fn, "am/api/v2.AlertToOpenAPIAlert"), "convert", "getAlertsHandler must convert the stored alerts", fn)
		for _, c := range conv {
			o.Site(c, "alert → API alert with receivers "+e.Arg(c, 2))
			al := e.Arg(c, 0)
			bases, parts := e.AppendParts(e.ArgV(c, 2))
			type elem struct {
				v  ssa.Value
				at ssa.Instruction
			}
			var elems []elem
			for _, p := range parts {
				o.Check(!p.Spread, "receivers-source", "receivers must be collected one route at a time", p.Call)
				elems = append(elems, elem{p.V, p.Call})
			}
			for _, b := range bases {
				// AlertToOpenAPIAlert keeps pointers into the list: a list re-used across alerts makes earlier
				// alerts report the receivers of later ones.  So: a slice made inside the per-alert loop (filled
				// by append or by index), or nil.
				ms, fresh := b.(*ssa.MakeSlice)
				if k, isK := b.(*ssa.Const); isK && k.Value == nil {
					continue
				}
				inLoop := false
				if fresh {
					if l := e.LoopOf(c); l != nil && l.Blocks[ms.Block().Index] {
						inLoop = true
					}
					// elements stored by index
					if refs := ms.Referrers(); refs != nil {
						for _, r := range *refs {
							if ia, ok := r.(*ssa.IndexAddr); ok {
								if rr := ia.Referrers(); rr != nil {
									for _, u := range *rr {
										if st, ok := u.(*ssa.Store); ok && st.Addr == ssa.Value(ia) {
											elems = append(elems, elem{st.Val, st})
										}
									}
								}
							}
						}
					}
				}
				o.Check(fresh && inLoop, "receivers-shared", "the receiver list of an alert is built in storage shared with other alerts ("+e.X(fn, b)+"): the API alerts keep pointers into it", c)
			}
			o.Check(len(elems) >= 1, "receivers-empty", "the receivers of an alert are never filled in", c)
			for _, el := range elems {
				v := e.X(fn, el.v)
				o.Check(v == "(*am/dispatch.Route).Match(recv.route, "+al+".Alert.Labels)[i].RouteOpts.Receiver", "receivers-source", "a reported receiver must be the receiver of a route matched for this alert's labels, is "+v, el.at)
				if l := e.LoopOf(el.at); o.Check(l != nil, "receivers-loop", "receivers are not collected in a loop over the matched routes", el.at) {
					coll, kind := e.RangeOver(l)
					o.Check(coll == "(*am/dispatch.Route).Match(recv.route, "+al+".Alert.Labels)" && kind == "index" && len(e.EarlyExits(l)) == 0, "receivers-range", "every matched route's receiver must be reported", el.at)
					o.Check(!loopBackWithout(o, l, IsInstr(el.at), nil), "receivers-skip", "a matched route can be left out of the reported receivers", el.at)
				}
			}
		}
		o.MinSites(1)
	})

	reg("C13", "C13.5", "T1", "GET /alerts drops exactly the alerts whose end is set and before now; only resolved alerts are garbage collected", func(o *Ob) {
		for _, af := range alertFilterClosures(o) {
			endedAlertsDropped(o, af)
		}
		gcAlertsRule(o)
		o.MinSites(2)
	})
}

// alertFilterClosures: every function alertFilter can hand out (each is used as the alert predicate of a GET).
func alertFilterClosures(o *Ob) []*ssa.Function {
	e := o.E
	mk := o.Fn("(*am/api/v2.API).alertFilter")
	var out []*ssa.Function
	seen := map[*ssa.Function]bool{}
	for _, ret := range (&Walk{Fn: mk}).FromEntry().Returns() {
		for _, a := range AltsOf(ret.Results[0]) {
			f := e.FuncValue(a.V)
			if !o.Check(f != nil, "filter-closure", "a predicate returned by alertFilter cannot be resolved", ret) {
				continue
			}
			if !seen[f] {
				seen[f] = true
				out = append(out, f)
			}
		}
	}
	o.Check(len(out) >= 1, "filter-closures", "alertFilter returns no predicate", fnFirst(mk))
	return out
}

// endedAlertsDropped: the predicate af drops exactly the alerts whose end is set and before now.
func endedAlertsDropped(o *Ob, af *ssa.Function) {
	e := o.E
	{
		ended := L("(p0.Alert.EndsAt <t p1)", true)
		hasEnd := L("(time.Time).IsZero(p0.Alert.EndsAt)", false)
		// an end that is set and has passed ⇒ dropped, in whichever order the two tests are made
		if o.Check(e.CountLitEdges(af, ended)+e.CountLitEdges(af, ended.Neg()) > 0, "ended-test", "the alert filter no longer tests the end time against now", nil) {
			r := (&Walk{Fn: af, Cut: e.CutContradicting(ended, hasEnd)}).FromEntry()
			for _, ret := range r.Returns() {
				for _, v := range e.RetVals(r, ret, 0) {
					x := e.X(af, v)
					if bv, ok := e.BoolUnder(af, v, []LitM{ended, hasEnd}); ok {
						x = map[bool]string{true: "true", false: "false"}[bv]
					}
					o.Site(ret, "ended alert → "+x)
					o.Check(x == "false", "ended-shown", "an alert whose end time has passed is still returned", ret)
				}
			}
		}
		o.Check(e.CountLitEdges(af, hasEnd)+e.CountLitEdges(af, hasEnd.Neg()) > 0, "zero-end", "the alert filter must not drop alerts without end time", nil)
		// conversely the time test drops nothing else: without end, or with an end not before now, the alert can still be returned
		for _, cs := range []struct {
			name   string
			assume []LitM
		}{{"an alert without end time", A(hasEnd.Neg())}, {"an alert whose end is not before now", A(hasEnd, ended.Neg())}} {
			r := (&Walk{Fn: af, Cut: e.CutContradicting(cs.assume...)}).FromEntry()
			kept := false
			for _, ret := range r.Returns() {
				for _, v := range e.RetVals(r, ret, 0) {
					if e.X(af, v) != "false" {
						kept = true
					}
				}
			}
			o.Check(kept, "live-dropped", cs.name+" is never returned", fnFirst(af))
		}
	}
}

// alertConversionRule: what is stored is what was posted and what is returned is what is stored, field by field.  The
// two conversions between the API model and the internal alert copy every field from the field of the same meaning
// (start ↔ start, end ↔ end, labels ↔ labels, annotations ↔ annotations, generator URL), one result per input, and
// the label-set conversions copy every pair, key from key and value from value.
func alertConversionRule(o *Ob) {
	e := o.E
	resolve := func(fn *ssa.Function, v ssa.Value) string {
		if a, ok := v.(*ssa.Alloc); ok {
			if sv := singleStore(a); sv != nil {
				return e.X(fn, sv)
			}
		}
		return e.X(fn, v)
	}
	in := o.Fn("am/api/v2.OpenAPIAlertsToAlerts")
	o.Site(fnFirst(in), "posted alert → stored alert")
	for f, want := range map[string]string{
		"Labels":       `am/api/v2\.APILabelSetToModelLabelSet\(p1\[i\](\.Alert)?\.Labels\)`,
		"Annotations":  `am/api/v2\.APILabelSetToModelLabelSet\(p1\[i\](\.Alert)?\.Annotations\)`,
		"StartsAt":     `(conv:time\.Time\()?p1\[i\](\.Alert)?\.StartsAt\)?`,
		"EndsAt":       `(conv:time\.Time\()?p1\[i\](\.Alert)?\.EndsAt\)?`,
		"GeneratorURL": `(conv:string\()?p1\[i\](\.Alert)?\.GeneratorURL\)?`,
	} {
		sts := e.StoresToField(in, "github.com/prometheus/common/model.Alert", f)
		if !o.Check(len(sts) == 1, "in-field|"+f, "the stored alert's "+f+" must be set from the posted alert", fnFirst(in)) {
			continue
		}
		v := resolve(in, sts[0].Val)
		o.Check(regexpMatch(want, v), "in-value|"+f, "the stored alert's "+f+" must be the posted alert's "+f+", is "+clip(v), sts[0])
	}
	{
		var app ssa.Instruction
		for _, ret := range (&Walk{Fn: in}).FromEntry().Returns() {
			_, parts := e.AppendParts(ret.Results[0])
			for _, p := range parts {
				if strings.HasPrefix(e.X(in, p.V), "&complit:am/alert.Alert") && p.Call != nil {
					app = p.Call
				}
			}
			idx := indexFilled(e, in, ret.Results[0])
			if app == nil && idx != nil {
				app = idx
			}
		}
		if o.Check(app != nil, "in-collect", "the converted alerts are not collected into the result", fnFirst(in)) {
			if l := e.LoopOf(app); o.Check(l != nil, "in-loop", "posted alerts must be converted in a loop", app) {
				o.Check(e.CoversAll(l, "p1") && len(e.EarlyExits(l)) == 0 && !loopBackWithout(o, l, IsInstr(app), nil), "in-all", "a posted alert can be dropped by the conversion", app)
			}
		}
	}
	out := o.Fn("am/api/v2.AlertToOpenAPIAlert")
	o.Site(fnFirst(out), "stored alert → reported alert")
	for _, c := range []struct{ typ, f, want string }{
		{"am/api/v2/models.GettableAlert", "StartsAt", `(conv:\S+\()?p0(\.Alert)?\.StartsAt\)?`},
		{"am/api/v2/models.GettableAlert", "EndsAt", `(conv:\S+\()?p0(\.Alert)?\.EndsAt\)?`},
		{"am/api/v2/models.GettableAlert", "UpdatedAt", `(conv:\S+\()?p0\.UpdatedAt\)?`},
		{"am/api/v2/models.GettableAlert", "Annotations", `am/api/v2\.ModelLabelSetToAPILabelSet\(p0(\.Alert)?\.Annotations\)`},
		{"am/api/v2/models.GettableAlert", "Fingerprint", `\(model\.Fingerprint\)\.String\(\(\*model\.Alert\)\.Fingerprint\(p0(\.Alert)?\)\)`},
		{"am/api/v2/models.Alert", "Labels", `am/api/v2\.ModelLabelSetToAPILabelSet\(p0(\.Alert)?\.Labels\)`},
		{"am/api/v2/models.Alert", "GeneratorURL", `(conv:\S+\()?p0(\.Alert)?\.GeneratorURL\)?`},
	} {
		sts := e.StoresToField(out, c.typ, c.f)
		if !o.Check(len(sts) >= 1, "out-field|"+c.f, "the reported alert's "+c.f+" must be set from the stored alert", fnFirst(out)) {
			continue
		}
		for _, st := range sts {
			v := resolve(out, st.Val)
			o.Check(regexpMatch(c.want, v), "out-value|"+c.f, "the reported alert's "+c.f+" must be the stored alert's "+c.f+", is "+clip(v), st)
		}
	}
	for _, n := range []string{"am/api/v2.APILabelSetToModelLabelSet", "am/api/v2.ModelLabelSetToAPILabelSet"} {
		fn := o.Fn(n)
		k := 0
		for _, i := range AllInstrs(fn) {
			mu, ok := i.(*ssa.MapUpdate)
			if !ok {
				continue
			}
			k++
			o.Site(mu, n)
			o.Check(regexpMatch(`(conv:\S+\()?next\(range\(p0\)\)#1\)?`, e.X(fn, mu.Key)) && regexpMatch(`(conv:\S+\()?next\(range\(p0\)\)#2\)?`, e.X(fn, mu.Value)), "labels-pair|"+n, "each pair must be copied key to key and value to value, copies "+e.X(fn, mu.Key)+" ↦ "+e.X(fn, mu.Value), mu)
			if l := e.LoopOf(mu); o.Check(l != nil, "labels-loop|"+n, "pairs must be copied in a loop", mu) {
				o.Check(e.CoversAll(l, "p0") && len(e.EarlyExits(l)) == 0 && !loopBackWithout(o, l, IsInstr(mu), nil), "labels-all|"+n, "a label can be dropped by the conversion", mu)
			}
			for _, ret := range (&Walk{Fn: fn}).FromEntry().Returns() {
				o.Check(e.X(fn, ret.Results[0]) == e.X(fn, mu.Map), "labels-result|"+n, "the converted set must be returned", ret)
			}
		}
		o.Check(k == 1, "labels-copy|"+n, n+" must copy the pairs in one place", fnFirst(fn))
	}
}

// indexFilled: the slice v is filled by "v[i] = x" stores; returns one such store.
func indexFilled(e *Eng, fn *ssa.Function, v ssa.Value) ssa.Instruction {
	vx := e.X(fn, v)
	for _, in := range AllInstrs(fn) {
		if st, ok := in.(*ssa.Store); ok {
			if ia, ok := st.Addr.(*ssa.IndexAddr); ok && e.X(fn, ia.X) == vx {
				return st
			}
		}
	}
	return nil
}

func init() {
	reg("C13", "C13.9", "T8,T11", "conversions are field-faithful: posted → stored and stored → reported copy start, end, updated, labels, annotations, generator URL and fingerprint from the field of the same meaning, one result per input; label sets are copied pair by pair", func(o *Ob) {
		alertConversionRule(o)
		o.MinSites(4)
	})
}

// labelValidityRule: which alerts are valid.  A label or annotation set is accepted exactly when every name passes
// compat.IsValidLabelName and every value passes LabelValue.IsValid (valid UTF-8); anything stricter rejects valid
// alerts of a batch, anything laxer stores invalid ones.
func labelValidityRule(o *Ob) {
	e := o.E
	fn := o.Fn("am/alert.validateLs")
	o.Site(fnFirst(fn), "validateLs")
	nameOK := L("am/matcher/compat.IsValidLabelName(next(range(p0))#1)", true)
	valOK := L("(model.LabelValue).IsValid(next(range(p0))#2)", true)
	more := L("next(range(p0))#0", true)
	o.Table(fn, "labels", []Row{
		{Name: "an invalid name", Assume: A(more, nameOK.Neg()), Ret: [][]string{Vals(anyErr)}},
		{Name: "an invalid value", Assume: A(more, nameOK, valOK.Neg()), Ret: [][]string{Vals(anyErr)}},
		{Name: "all pairs valid", Assume: A(nameOK, valOK), Ret: [][]string{Vals("nil")}},
		{Name: "empty set", Assume: A(more.Neg()), Ret: [][]string{Vals("nil")}},
	})
	// nothing else decides: every error exit is behind one of the two tests
	for _, ret := range (&Walk{Fn: fn}).FromEntry().Returns() {
		if e.X(fn, ret.Results[0]) != "nil" {
			o.Guarded(ret, "labels-other-reject", "rejecting a label set", nameOK.Neg(), valOK.Neg())
		}
	}
	ls := e.Loops(fn)
	if o.Check(len(ls) == 1, "labels-loop", "validateLs must be one loop over the set", fnFirst(fn)) {
		coll, _ := e.RangeOver(ls[0])
		o.Check(coll == "p0", "labels-range", "validateLs must range over the given set, ranges over "+coll, fnFirst(fn))
		// an invalid pair ends the check: the loop cannot go on to the next pair past a failed test
		never := func(ssa.Instruction) bool { return false }
		o.Check(!loopBackWithout(o, ls[0], never, e.CutContradicting(nameOK.Neg())), "labels-name-passes", "a pair with an invalid name can pass", fnFirst(fn))
		o.Check(!loopBackWithout(o, ls[0], never, e.CutContradicting(nameOK, valOK.Neg())), "labels-value-passes", "a pair with an invalid value can pass", fnFirst(fn))
	}
	// Validate applies it to labels and annotations
	v := o.Fn("(*am/alert.Alert).Validate")
	args := map[string]bool{}
	for _, c := range e.Calls(v, "am/alert.validateLs") {
		args[e.Arg(c, 0)] = true
	}
	o.Check(args["recv.Alert.Labels"] && args["recv.Alert.Annotations"], "labels-both", "Validate must check labels and annotations", fnFirst(v))
}

func init() {
	reg("C13", "C13.12", "T6", "which alerts are valid: a label or annotation set is rejected exactly when a name fails compat.IsValidLabelName or a value fails LabelValue.IsValid; Validate checks both sets", func(o *Ob) {
		labelValidityRule(o)
		o.MinSites(1)
	})
}
