package main

import (
	"go/constant"
	"go/types"
	"strings"

	"golang.org/x/tools/go/ssa"
)

type snapPkg struct {
	pkg, typ, recvT string // "am/silence", "Silences"
	elemT           string // protobuf element type with payload field
}

var snapPkgs = []snapPkg{
	{"am/silence", "Silences", "(*am/silence.Silences)", "am/silence/silencepb.MeshSilence"},
	{"am/nflog", "Log", "(*am/nflog.Log)", "am/nflog/nflogpb.MeshEntry"},
}

func init() {
	propInfos["C11"] = &propInfo{
		Explanation: "Decides, for the silence and the notification-log snapshot code alike (sibling implementations must agree): (1) replaceFile.Close publishes as Sync → Close → Rename(temp, final), each error checked before the next step; (2) the final path is only ever written by that rename: the only file-creating calls of the package are in openReplace, which creates (truncating or exclusive) a path derived from but different from the final name; (3) a maintenance run is GC → openReplace → Snapshot → Close, nothing but a GC error or an empty snapshot path can prevent the snapshot, the publish error is returned, and a final run happens at shutdown iff a snapshot file is configured; (4) Snapshot serialises every entry under the read lock; (5) the loader ends normally only at a clean EOF, rejects records without payload, returns every other error, New returns the loader's error and tolerates only a missing file; (6) legacy matcher field handling keeps all matcher sets.",
		NotDecided:  "file-system semantics of rename/fsync (trusted); value-level round-trip equality of protobuf encoding (library); an I/O error during Snapshot still publishes the partial temp file (observation: fault, not a crash point).",
		Trusted:     []string{"os.Rename is atomic within a file system; (*os.File).Sync makes the data durable", "protodelim framing detects truncated records as io.ErrUnexpectedEOF"},
	}

	reg("C11", "C11.1", "T2,T7", "replaceFile.Close: Sync → Close → Rename(temp name, final name), each error checked (silence and nflog)", func(o *Ob) {
		e := o.E
		for _, sp := range snapPkgs {
			fn := o.Fn("(*" + sp.pkg + ".replaceFile).Close")
			sy := o.One(e.Calls(fn, "(*os.File).Sync"), "sync|"+sp.pkg, "the snapshot must be synced to disk before it is published", fn)
			cl := o.One(e.Calls(fn, "(*os.File).Close"), "close|"+sp.pkg, "the temp file must be closed before it is published", fn)
			rn := o.One(e.Calls(fn, "os.Rename"), "rename|"+sp.pkg, "the snapshot must be published by renaming", fn)
			o.Site(rn, sp.pkg+": Sync→Close→Rename")
			for _, c := range []ssa.CallInstruction{sy, cl} {
				o.Check(e.Arg(c, 0) == "recv.File", "file|"+sp.pkg, "Sync/Close must act on the temp file", c)
			}
			syOK := L("((*os.File).Sync(recv.File) == nil)", true)
			clOK := L("((*os.File).Close(recv.File) == nil)", true)
			o.Guarded(cl, "close-after-sync|"+sp.pkg, "closing the temp file", syOK)
			o.Guarded(rn, "rename-after-sync|"+sp.pkg, "publishing the snapshot (a crash after the rename could otherwise expose a file whose data never reached the disk)", syOK)
			o.Guarded(rn, "rename-after-close|"+sp.pkg, "publishing the snapshot", clOK)
			dest := stringFieldOf(e, sp.pkg, "replaceFile")
			o.Check(e.Arg(rn, 0) == "(*os.File).Name(recv.File)" && dest != "" && e.Arg(rn, 1) == "recv."+dest, "rename-args|"+sp.pkg, "the rename must move the temp file onto the configured snapshot path, is Rename("+e.Arg(rn, 0)+", "+e.Arg(rn, 1)+")", rn)
			// errors are returned
			// errors are returned, as they are or wrapped with context
			rnx := e.X(fn, rn.(*ssa.Call))
			rnOK := L("("+rnx+" == nil)", true)
			o.Table(fn, "close|"+sp.pkg, []Row{
				{Name: "sync fails", Assume: A(syOK.Neg()), Ret: [][]string{Vals("(*os.File).Sync(recv.File)", wraps("(*os.File).Sync(recv.File)"))}, Never: []func(ssa.Instruction) bool{IsInstr(rn)}},
				{Name: "close fails", Assume: A(syOK, clOK.Neg()), Ret: [][]string{Vals("(*os.File).Close(recv.File)", wraps("(*os.File).Close(recv.File)"))}, Never: []func(ssa.Instruction) bool{IsInstr(rn)}},
				{Name: "ok", Assume: A(syOK, clOK), Opt: A(rnOK), Ret: [][]string{Vals(rnx, "nil")}, Must: []func(ssa.Instruction) bool{IsInstr(rn)}},
				{Name: "rename fails", Assume: A(syOK, clOK), Opt: A(rnOK.Neg()), Ret: [][]string{Vals(rnx, wraps(rnx))}, Must: []func(ssa.Instruction) bool{IsInstr(rn)}},
			})
		}
		o.MinSites(2)
	})

	reg("C11", "C11.2", "T11,T4", "the final snapshot path is only written by rename: file creation only in openReplace, truncating/exclusive, on a path derived from but different from the final name", func(o *Ob) {
		e := o.E
		creators := map[string]bool{"os.Create": true, "os.OpenFile": true, "os.WriteFile": true, "os.CreateTemp": true, "os.Rename": true, "os.Link": true, "os.Symlink": true, "io/ioutil.WriteFile": true, "os.Truncate": true}
		for _, sp := range snapPkgs {
			n := 0
			for _, fn := range e.FuncsOfPkg(sp.pkg) {
				for _, in := range AllInstrs(fn) {
					c, ok := in.(ssa.CallInstruction)
					if !ok || !creators[calleeName(c.Common())] {
						continue
					}
					n++
					cn := calleeName(c.Common())
					name := fnName(fn)
					o.Site(in, sp.pkg+": "+cn)
					okWho := name == sp.pkg+".openReplace" && cn != "os.Rename" || name == "(*"+sp.pkg+".replaceFile).Close" && cn == "os.Rename"
					o.Check(okWho, "who|"+sp.pkg+"|"+name+"|"+cn, name+" calls "+cn+": snapshot files may only be created by openReplace and published by replaceFile.Close", in)
				}
			}
			o.Check(n >= 2, "few|"+sp.pkg, "file creation / rename sites of "+sp.pkg+" not found", nil)
			or := o.Fn(sp.pkg + ".openReplace")
			var cr ssa.CallInstruction
			for _, in := range AllInstrs(or) {
				if c, ok := in.(ssa.CallInstruction); ok {
					switch calleeName(c.Common()) {
					case "os.Create", "os.CreateTemp":
						cr = c
					case "os.OpenFile":
						cr = c
						flags, ok := c.Common().Args[1].(*ssa.Const)
						good := false
						if ok && flags.Value != nil {
							v, _ := constant.Int64Val(flags.Value)
							trunc, _ := e.ConstInt("os", "O_TRUNC")
							excl, _ := e.ConstInt("os", "O_EXCL")
							good = v&trunc != 0 || v&excl != 0
						}
						o.Check(good, "open-notrunc|"+sp.pkg, "the temp file is opened without O_TRUNC/O_EXCL: the bytes of an earlier, interrupted snapshot would stay behind the new content and be published with it", c)
					}
				}
			}
			o.Require(cr != nil, "create|"+sp.pkg, "openReplace no longer creates a temp file", nil)
			path := e.Arg(cr, 0)
			o.Check(path != "p0" && strings.Contains(path, "p0"), "temp-path|"+sp.pkg, "the temp file path must be derived from, and different from, the final snapshot path, is "+path, cr)
			if calleeName(cr.Common()) != "os.CreateTemp" {
				uniq := e.DerivesFrom(cr.Common().Args[0], true, func(v ssa.Value) bool {
					c, ok := v.(*ssa.Call)
					if !ok {
						return false
					}
					n := calleeName(&c.Call)
					return strings.HasPrefix(n, "math/rand.") || strings.HasPrefix(n, "math/rand/v2.") || strings.HasPrefix(n, "crypto/rand.") || strings.HasPrefix(n, "github.com/google/uuid.") || n == "os.Getpid" || strings.HasPrefix(n, "time.Now")
				})
				isCreate := calleeName(cr.Common()) == "os.Create"
				o.Check(uniq || isCreate, "temp-unique|"+sp.pkg, "the temp file name is fixed and the file is not truncated on open", cr)
			}
			fs := e.StoresToField(or, sp.pkg+".replaceFile", stringFieldOf(e, sp.pkg, "replaceFile"))
			o.Check(len(fs) == 1 && e.X(or, fs[0].Val) == "p0", "final-name|"+sp.pkg, "replaceFile's destination must be the requested snapshot path", nil)
			ff := e.StoresToField(or, sp.pkg+".replaceFile", "File")
			o.Check(len(ff) == 1 && e.X(or, ff[0].Val) == e.X(or, cr.(*ssa.Call))+"#0", "temp-file|"+sp.pkg, "replaceFile.File must be the created temp file", nil)
		}
		o.MinSites(4)
	})

	reg("C11", "C11.3", "T2,T1", "maintenance run: GC → openReplace(snapshot path) → Snapshot → Close; only a GC error or an empty path prevents the snapshot; the publish error is returned; final run at shutdown iff a snapshot file is configured", func(o *Ob) {
		e := o.E
		for _, sp := range snapPkgs {
			mt := o.Fn(sp.recvT + ".Maintenance")
			var dm *ssa.Function
			for _, a := range mt.AnonFuncs {
				if len(e.Calls(a, sp.pkg+".openReplace")) > 0 {
					dm = a
				}
			}
			o.RequireFn(dm != nil, "dm|"+sp.pkg, "Maintenance no longer has a default maintenance function that snapshots", mt)
			gc := o.One(e.Calls(dm, sp.recvT+".GC"), "gc|"+sp.pkg, "maintenance must garbage collect", dm)
			op := o.One(e.Calls(dm, sp.pkg+".openReplace"), "open|"+sp.pkg, "maintenance must open the replace file", dm)
			sn := o.One(e.Calls(dm, sp.recvT+".Snapshot"), "snap|"+sp.pkg, "maintenance must snapshot", dm)
			o.Site(sn, sp.pkg+": maintenance snapshot")
			o.Check(e.Arg(op, 0) == "^p1", "open-arg|"+sp.pkg, "the snapshot must be written for the configured path", op)
			o.Check(e.Arg(sn, 0) == "^recv" && e.Arg(sn, 1) == e.X(dm, op.(*ssa.Call))+"#0", "snap-arg|"+sp.pkg, "the snapshot must be written into the replace file", sn)
			o.Check(InstrDominates(gc, op) && InstrDominates(op, sn), "order|"+sp.pkg, "maintenance must be GC → openReplace → Snapshot", sn)
			gcOK := L("("+e.X(dm, gc.(*ssa.Call))+"#1 == nil)", true)
			hasPath := L(`(^p1 == "")`, false)
			opOK := L("("+e.X(dm, op.(*ssa.Call))+"#1 == nil)", true)
			snOK := L("("+e.X(dm, sn.(*ssa.Call))+"#1 == nil)", true)
			// nothing but GC error / empty path / open error prevents Snapshot
			o.Forced(dm, "snap-forced|"+sp.pkg, "a maintenance run with a configured snapshot file must write the snapshot (only a GC error or a failing open may prevent it)", IsInstr(sn), gcOK, hasPath, opOK)
			closes := e.Calls(dm, "(*"+sp.pkg+".replaceFile).Close")
			o.Check(len(closes) >= 1, "close|"+sp.pkg, "the replace file is never closed (published)", nil)
			// the publish: the Close that every successful snapshot run passes (the same Close may also be what
			// discards the file after a failed write)
			var pub ssa.CallInstruction
			for _, c := range closes {
				o.Check(e.Arg(c, 0) == e.X(dm, op.(*ssa.Call))+"#0", "close-arg|"+sp.pkg, "the file that is closed must be the one opened", c)
				if e.OnlyUnder(c, snOK) {
					pub = c
				}
			}
			if pub == nil {
				for _, c := range closes {
					if len((&Walk{Fn: dm, Cut: e.CutContradicting(gcOK, hasPath, opOK, snOK), Barrier: IsInstr(c)}).FromEntry().Returns()) == 0 {
						pub = c
					}
				}
			}
			if o.Check(pub != nil, "publish|"+sp.pkg, "no publish (Close after a successful Snapshot) found", nil) {
				o.Forced(dm, "publish-forced|"+sp.pkg, "a successfully written snapshot must be published", IsInstr(pub), gcOK, hasPath, opOK, snOK)
				// its error is what the run returns
				r := (&Walk{Fn: dm, Cut: e.CutContradicting(snOK)}).After(pub)
				for _, ret := range r.Returns() {
					for _, v := range e.RetVals(r, ret, 1) {
						o.Check(e.X(dm, v) == e.X(dm, pub.(*ssa.Call)), "publish-error|"+sp.pkg, "a failed publish must be reported by the maintenance run", ret)
					}
				}
			}
			// GC error: no snapshot
			o.Table(dm, "dm|"+sp.pkg, []Row{
				{Name: "GC fails", Assume: A(gcOK.Neg()), Ret: [][]string{nil, Vals(e.X(dm, gc.(*ssa.Call)) + "#1")}, Never: []func(ssa.Instruction) bool{IsInstr(op)}},
				{Name: "no snapshot file", Assume: A(gcOK, hasPath.Neg()), Ret: [][]string{nil, Vals("nil")}, Never: []func(ssa.Instruction) bool{IsInstr(op)}},
			})
			// shutdown: final run iff snapf != "".  The run wrapper is read through (it is transparent): a run
			// is a call of the maintenance function value, which is the default function unless overridden.
			var runs []ssa.CallInstruction
			for _, in := range AllInstrs(mt) {
				c, ok := in.(*ssa.Call)
				if !ok || c.Call.IsInvoke() || c.Call.StaticCallee() != nil {
					continue
				}
				if _, isB := c.Call.Value.(*ssa.Builtin); isB {
					continue
				}
				isDM := e.DerivesFrom(c.Call.Value, false, func(v ssa.Value) bool {
					mc, ok := v.(*ssa.MakeClosure)
					return ok && mc.Fn == ssa.Value(dm)
				})
				if isDM {
					runs = append(runs, c)
				}
			}
			o.Check(len(runs) >= 2, "runs|"+sp.pkg, "Maintenance must run maintenance on every tick and once at shutdown, found "+itoa(len(runs))+" run site(s)", nil)
			var finals []ssa.Instruction
			inLoop := 0
			for _, c := range runs {
				if e.LoopOf(c) == nil {
					finals = append(finals, c)
				} else {
					inLoop++
				}
			}
			o.Check(inLoop >= 1, "tick-run|"+sp.pkg, "maintenance is not run from the ticker loop", nil)
			if o.Check(len(finals) > 0, "final|"+sp.pkg, "no final maintenance run after the loop (the state at shutdown would be lost)", nil) {
				o.Site(finals[0], sp.pkg+": shutdown snapshot")
				// after leaving the loop with a snapshot path configured, the final run is on every path
				for _, l := range e.Loops(mt) {
					for _, ex := range l.Exits {
						b := mt.Blocks[ex[0]]
						if isUnreachablePanic(b.Succs[ex[1]]) {
							continue
						}
						rr := (&Walk{Fn: mt, Cut: e.CutContradicting(L(`(p1 == "")`, false)), Barrier: IsInstr(finals...)}).FromEdge(b, ex[1])
						o.Check(len(rr.Returns()) == 0, "final-skipped|"+sp.pkg, "Maintenance can terminate without the shutdown snapshot although a snapshot file is configured", finals[0])
					}
				}
			}
		}
		o.MinSites(4)
	})

	reg("C11", "C11.4", "T5,T8", "Snapshot serialises every entry under the read lock (consistent cut)", func(o *Ob) {
		e := o.E
		for _, sp := range snapPkgs {
			fn := o.Fn(sp.recvT + ".Snapshot")
			mb := o.One(e.Calls(fn, "("+sp.pkg+".state).MarshalBinary"), "marshal|"+sp.pkg, "Snapshot must serialise the whole state", fn)
			o.Site(mb, sp.pkg+": Snapshot → state.MarshalBinary")
			o.Check(e.Arg(mb, 0) == "recv.st", "marshal-arg|"+sp.pkg, "Snapshot must serialise the live state", mb)
			held, why := e.HeldAt(mb, fn.Params[0], "mtx", 'R', 0)
			o.Check(held, "lock|"+sp.pkg, "Snapshot reads the state without the lock (torn snapshot under concurrent writes): "+why, mb)
			cp := o.One(e.Calls(fn, "io.Copy"), "copy|"+sp.pkg, "Snapshot must write the serialised state to the writer", fn)
			o.Check(e.Arg(cp, 0) == "p0" && strings.Contains(e.Arg(cp, 1), e.X(fn, mb.(*ssa.Call))+"#0"), "copy-args|"+sp.pkg, "the bytes written must be the serialised state", cp)
			// marshal error is returned, not ignored
			mOK := L("("+e.X(fn, mb.(*ssa.Call))+"#1 == nil)", true)
			o.Guarded(cp, "copy-guard|"+sp.pkg, "writing the snapshot", mOK)
			// state.MarshalBinary ranges over all entries, only error exit
			sm := o.Fn("(" + sp.pkg + ".state).MarshalBinary")
			ls := e.Loops(sm)
			if o.Check(len(ls) == 1, "enc-loop|"+sp.pkg, "state.MarshalBinary must have exactly one loop over the entries", nil) {
				coll, kind := e.RangeOver(ls[0])
				o.Check(coll == "recv" && kind == "iter", "enc-range|"+sp.pkg, "every entry must be serialised", nil)
				for _, ex := range e.EarlyExits(ls[0]) {
					// must lead to an error return
					b := ex.Block()
					for si, s := range b.Succs {
						if !ls[0].Blocks[s.Index] {
							r := (&Walk{Fn: sm}).FromEdge(b, si)
							for _, ret := range r.Returns() {
								vs := e.ValStrs(sm, e.RetVals(r, ret, 1))
								o.Check(len(vs) == 1 && vs[0] != "nil", "enc-early|"+sp.pkg, "the encoder can stop early and still report success", ret)
							}
						}
					}
				}
			}
		}
		o.MinSites(2)
	})

	reg("C11", "C11.5", "T1,T8", "the loader is total and strict: normal end only at clean EOF; records without payload rejected; other errors returned; New returns the loader's error and tolerates only a missing file", func(o *Ob) {
		e := o.E
		for _, sp := range snapPkgs {
			fn := o.Fn(sp.pkg + ".decodeState")
			ums := e.Calls(fn, "google.golang.org/protobuf/encoding/protodelim.UnmarshalFrom")
			if len(ums) == 0 {
				// the same reader with explicit options: what it accepts must not be less than the default reader
				// (MaxSize 0 = 4 MiB default, -1 = unlimited); the writer has no cap at all
				ums = e.Calls(fn, "(google.golang.org/protobuf/encoding/protodelim.UnmarshalOptions).UnmarshalFrom")
				for _, c := range ums {
					if max, set := constFieldOfStructArg(c.Common().Args[0], "MaxSize"); set {
						o.Check(max < 0 || max == 0 || max >= 4<<20, "record-cap|"+sp.pkg, "the loader refuses records larger than "+itoa(int(max))+" bytes, which the snapshot writer produces without complaint (a large group or silence makes the next start fail on a file the process wrote itself)", c)
					} else {
						o.Fail("record-cap|"+sp.pkg, "the loader's record size limit is not a constant", c)
					}
				}
			}
			um := o.One(ums, "unmarshal|"+sp.pkg, "the loader must read length-delimited records", fn)
			o.Site(um, sp.pkg+": decode loop")
			ux := e.X(fn, um.(*ssa.Call))
			ok := L("("+ux+" == nil)", true)
			eof := L("errors.Is("+ux+", io.EOF)", true)
			o.Table(fn, "decode|"+sp.pkg, []Row{
				{Name: "clean end of input", Assume: A(ok.Neg(), eof), Ret: [][]string{Vals("makemap:" + sp.pkg + ".state"), Vals("nil")}},
				{Name: "any other read error (e.g. truncated record)", Assume: A(ok.Neg(), eof.Neg()), Ret: [][]string{Vals("nil"), Vals(ux)}},
			})
			// a good record is stored and the loop continues
			var mu *ssa.MapUpdate
			for _, in := range AllInstrs(fn) {
				if m, isM := in.(*ssa.MapUpdate); isM {
					mu = m
				}
			}
			if o.Check(mu != nil, "store|"+sp.pkg, "decoded records are not stored", nil) {
				o.Guarded(mu, "store-guard|"+sp.pkg, "storing a record", ok)
				o.Check(strings.HasPrefix(e.X(fn, mu.Value), "&"), "store-value|"+sp.pkg, "the stored value must be the decoded record", mu)
				// each record is a fresh variable (no aliasing between records)
				if al, isA := mu.Value.(*ssa.Alloc); o.Check(isA, "store-alloc|"+sp.pkg, "the stored record is not a per-iteration variable", mu) {
					l := e.LoopOf(mu)
					o.Check(l != nil && l.Blocks[al.Block().Index], "store-aliased|"+sp.pkg, "all decoded records share one variable declared outside the loop: every key would point at the last record", mu)
				}
			}
			// payload nil → ErrInvalidState
			inv := 0
			for _, ret := range (&Walk{Fn: fn}).FromEntry().Returns() {
				if e.X(fn, ret.Results[1]) == sp.pkg+".ErrInvalidState" {
					inv++
				}
			}
			o.Check(inv >= 1, "invalid|"+sp.pkg, "records without payload are no longer rejected", nil)
			// loadSnapshot returns decode error; New returns loadSnapshot's error
			ls := o.Fn(sp.recvT + ".loadSnapshot")
			dc := o.One(e.Calls(ls, sp.pkg+".decodeState"), "load-decode|"+sp.pkg, "loadSnapshot must decode the snapshot", ls)
			dOK := L("("+e.X(ls, dc.(*ssa.Call))+"#1 == nil)", true)
			o.Table(ls, "load|"+sp.pkg, []Row{{Name: "decode error", Assume: A(dOK.Neg()), Ret: [][]string{Vals(e.X(ls, dc.(*ssa.Call)) + "#1")}}})
			nw := o.Fn(sp.pkg + ".New")
			lc := o.One(e.Calls(nw, sp.recvT+".loadSnapshot"), "new-load|"+sp.pkg, "New must load the snapshot", nw)
			lOK := L("("+e.X(nw, lc.(*ssa.Call))+" == nil)", true)
			{
				n := 0
				for _, b := range nw.Blocks {
					for si := range b.Succs {
						if li, isL := e.EdgeLit(b, si); isL && lOK.Neg().F(li) {
							n++
							r := (&Walk{Fn: nw}).FromEdge(b, si)
							for _, rs := range e.ResultStores(nw, 1) {
								if r.Has(rs.Instr) {
									o.Check(e.X(nw, rs.Val) == e.X(nw, lc.(*ssa.Call)), "new-load-error|"+sp.pkg, "New swallows the loader's error (a corrupt snapshot would be silently treated as empty state)", rs.Instr)
								}
							}
						}
					}
				}
				o.Check(n > 0, "new-load-test|"+sp.pkg, "New does not test the loader's error", lc)
			}
			// open error other than not-exist is returned
			op := o.One(e.Calls(nw, "os.Open"), "new-open|"+sp.pkg, "New must open the snapshot file", nw)
			ne := L("os.IsNotExist("+e.X(nw, op.(*ssa.Call))+"#1)", true)
			oOK := L("("+e.X(nw, op.(*ssa.Call))+"#1 == nil)", true)
			{
				r := (&Walk{Fn: nw, Cut: e.CutContradicting(oOK.Neg(), ne.Neg())}).After(op)
				n := 0
				for _, rs := range e.ResultStores(nw, 1) {
					if r.Has(rs.Instr) {
						n++
						for _, v := range e.ValStrs(nw, e.ValsAt(r, rs.Instr, rs.Val)) {
							o.Check(v == e.X(nw, op.(*ssa.Call))+"#1", "new-open-error|"+sp.pkg, "an unreadable snapshot file is not reported", rs.Instr)
						}
					}
				}
				o.Check(n > 0, "new-open-noexit|"+sp.pkg, "no error exit for an unreadable snapshot file", nil)
				// missing file: loader not called, no error
				r2 := (&Walk{Fn: nw, Cut: e.CutContradicting(oOK.Neg(), ne)}).After(op)
				for _, rs := range e.ResultStores(nw, 1) {
					if r2.Has(rs.Instr) {
						for _, s := range e.ValStrs(nw, e.ValsAt(r2, rs.Instr, rs.Val)) {
							o.Check(s == "nil" || s == e.X(nw, lc.(*ssa.Call)), "new-missing-error|"+sp.pkg, "a missing snapshot file must not be an error, New returns "+s, rs.Instr)
						}
					}
				}
			}
		}
		o.MinSites(2)
	})

	reg("C11", "C11.11", "T9,T11", "writer and reader agree record by record: one length-delimited message of the same type per entry, decoded into an object of its own and filed under the key computed from that record", recordFramingRule)
	reg("C11", "C11.6", "T11,T1", "matcher compatibility on encode/decode keeps every matcher set: encode fills the legacy field on a clone; decode moves the legacy field only when no set exists", func(o *Ob) {
		e := o.E
		pp := o.Fn("am/silence.postprocessUnmarshalledSilence")
		noSets := L("(len(p0.MatcherSets) == 0)", true)
		for _, st := range e.StoresTo(pp, "p0.MatcherSets") {
			o.Site(st, "MatcherSets := legacy matchers")
			o.Guarded(st, "post-guard", "replacing the matcher sets by the legacy matchers", noSets)
		}
		o.Check(len(e.StoresTo(pp, "p0.MatcherSets")) >= 1, "post-store", "legacy snapshots' matchers are no longer upgraded", nil)
		pr := o.Fn("am/silence.prepareSilenceForMarshalling")
		for _, in := range AllInstrs(pr) {
			if st, ok := in.(*ssa.Store); ok {
				a := e.X(pr, st.Addr)
				o.Site(st, "prepare: "+a)
				o.Check(a == "p0.Matchers", "prepare-writes", "prepareSilenceForMarshalling writes "+a+": it may only fill the legacy Matchers field", st)
			}
		}
		mm := o.Fn("am/silence.marshalMeshSilence")
		cl := o.One(e.Calls(mm, "am/silence.cloneSilence"), "marshal-clone", "marshalMeshSilence must work on a clone", mm)
		pc := o.One(e.Calls(mm, "am/silence.prepareSilenceForMarshalling"), "marshal-prepare", "marshalMeshSilence must fill the legacy field", mm)
		o.Check(strings.Contains(e.Arg(pc, 0), "complit") || e.Arg(pc, 0) == e.X(mm, cl.(*ssa.Call)), "marshal-prepare-arg", "the legacy field must be filled on the clone, not on the stored silence", pc)
		mt := o.One(e.Calls(mm, "google.golang.org/protobuf/encoding/protodelim.MarshalTo"), "marshal-to", "marshalMeshSilence must write a length-delimited record", mm)
		o.Check(strings.Contains(e.Arg(mt, 1), "complit"), "marshal-what", "the marshalled message must be the prepared copy", mt)
		// decodeState post-processes every record
		ds := o.Fn("am/silence.decodeState")
		pcs := o.One(e.Calls(ds, "am/silence.postprocessUnmarshalledSilence"), "decode-post", "decoded silences must be upgraded", ds)
		for _, in := range AllInstrs(ds) {
			if mu, ok := in.(*ssa.MapUpdate); ok {
				o.Check(InstrDominates(pcs, mu), "decode-post-order", "a decoded silence is stored before its matchers were upgraded", mu)
			}
		}
		o.MinSites(2)
	})
}

// stringFieldOf: the name of the single string-typed field of a struct type ("" if not exactly one).
func stringFieldOf(e *Eng, pkg, typ string) string {
	n := e.NamedType(pkg, typ)
	if n == nil {
		return ""
	}
	st := structOf(n)
	if st == nil {
		return ""
	}
	name, cnt := "", 0
	for i := 0; i < st.NumFields(); i++ {
		if b, ok := st.Field(i).Type().Underlying().(*types.Basic); ok && b.Kind() == types.String {
			name = st.Field(i).Name()
			cnt++
		}
	}
	if cnt != 1 {
		return ""
	}
	return name
}

// constFieldOfStructArg: v is a struct value built in place (composite literal); returns the constant stored into
// its integer field `name` (0, true when the field is never written; false when a write is not a constant).
func constFieldOfStructArg(v ssa.Value, name string) (int64, bool) {
	u, ok := v.(*ssa.UnOp)
	if !ok {
		if _, isC := v.(*ssa.Const); isC {
			return 0, true // zero value
		}
		return 0, false
	}
	al, ok := u.X.(*ssa.Alloc)
	if !ok {
		return 0, false
	}
	val, set := int64(0), true
	for _, ref := range *al.Referrers() {
		fa, ok := ref.(*ssa.FieldAddr)
		if !ok {
			continue
		}
		st, ok := fa.X.Type().Underlying().(*types.Pointer).Elem().Underlying().(*types.Struct)
		if !ok || st.Field(fa.Field).Name() != name {
			continue
		}
		for _, r2 := range *fa.Referrers() {
			if s, ok := r2.(*ssa.Store); ok && s.Addr == fa {
				c, ok := s.Val.(*ssa.Const)
				if !ok || c.Value == nil {
					return 0, false
				}
				val = c.Int64()
			}
		}
	}
	return val, set
}

// snapshotPathAgreementRule: the file the maintenance loop writes is the file New loads at the next start.  In
// App.setup, for the silences and for the notification log, the path handed to Maintenance equals the SnapshotFile
// option handed to New; New opens exactly that option; the maintenance loop runs in a goroutine of its own.
func snapshotPathAgreementRule(o *Ob) {
	e := o.E
	setup := o.Fn("(*am/app.App).setup")
	unfree := func(s string) string { return strings.ReplaceAll(s, "^", "") }
	for _, sp := range snapPkgs {
		sts := e.StoresToField(setup, sp.pkg+".Options", "SnapshotFile")
		if !o.Check(len(sts) == 1, "option|"+sp.pkg, "setup must set "+sp.pkg+".Options.SnapshotFile exactly once", fnFirst(setup)) {
			continue
		}
		path := unfree(e.X(setup, sts[0].Val))
		o.Site(sts[0], sp.pkg+": snapshot file "+path)
		var mcall ssa.CallInstruction
		for _, g := range e.GoSites(setup) {
			if g.Fn == nil {
				continue
			}
			fns := []*ssa.Function{g.Fn}
			for _, f := range fns {
				if fnName(f) == sp.recvT+".Maintenance" {
					mcall = g.Instr
				}
				for _, c := range e.Calls(f, sp.recvT+".Maintenance") {
					mcall = c
				}
			}
		}
		if !o.Check(mcall != nil, "maintenance|"+sp.pkg, "the maintenance loop of "+sp.pkg+" is not started in a goroutine of its own", sts[0]) {
			continue
		}
		o.Site(mcall, sp.pkg+": maintenance loop")
		o.Check(unfree(e.Arg(mcall, 2)) == path, "path|"+sp.pkg, "the maintenance loop writes "+unfree(e.Arg(mcall, 2))+" but the next start loads "+path, mcall)
		o.Check(strings.HasPrefix(unfree(e.Arg(mcall, 0)), sp.pkg+".New("), "object|"+sp.pkg, "the maintenance loop must snapshot the object built by "+sp.pkg+".New", mcall)
		nw := o.Fn(sp.pkg + ".New")
		for _, op := range e.Calls(nw, "os.Open") {
			o.Check(strings.HasSuffix(e.Arg(op, 0), "Options.SnapshotFile") || e.Arg(op, 0) == "p0.SnapshotFile", "load-path|"+sp.pkg, "New must load the configured snapshot file, opens "+e.Arg(op, 0), op)
		}
	}
}

func init() {
	reg("C11", "C11.9", "T9,T11", "what is written is what is loaded: the path of the maintenance loop equals Options.SnapshotFile for silences and notification log; New opens that option; the loop runs in its own goroutine", func(o *Ob) {
		snapshotPathAgreementRule(o)
		o.MinSites(4)
	})
}

// recordFramingRule (C11.11): writer and reader of a snapshot (and of a gossip payload) agree record by
// record.  The writer puts one length-delimited message of type M per entry (C09.4 / C10 encoders); the
// reader must take one length-delimited message of the same type M per round, into an object of its own per
// record (an object reused across rounds would make every map entry the last record), and file it under the
// key computed from that very record.
func recordFramingRule(o *Ob) {
	e := o.E
	for _, sp := range []struct{ pkg, enc, key string }{
		{"am/silence", "am/silence.marshalMeshSilence", `^&\w+:am/silence/silencepb\.MeshSilence\.Silence\.Id$`},
		{"am/nflog", "am/nflog.marshalMeshEntry", `^am/nflog\.stateKey\(conv:string\(&\w+:am/nflog/nflogpb\.MeshEntry\.Entry\.GroupKey\), &\w+:am/nflog/nflogpb\.MeshEntry\.Entry\.Receiver\)$`},
	} {
		enc := o.Fn(sp.enc)
		mt := o.One(e.Calls(enc, "google.golang.org/protobuf/encoding/protodelim.MarshalTo"), "enc|"+sp.pkg, "the encoder must write a length-delimited record", enc)
		wt := typeKey(mt.Common().Args[1].(*ssa.MakeInterface).X.Type())
		dec := o.Fn(sp.pkg + ".decodeState")
		// (the package function, or the method of an options value: the message is the last argument)
		um := o.One(e.Calls(dec, `~google\.golang\.org/protobuf/encoding/protodelim\.UnmarshalFrom|\(google\.golang\.org/protobuf/encoding/protodelim\.UnmarshalOptions\)\.UnmarshalFrom`), "dec|"+sp.pkg, "the decoder must read length-delimited records", dec)
		mi, ok := um.Common().Args[len(um.Common().Args)-1].(*ssa.MakeInterface)
		if !o.Check(ok, "dec-msg|"+sp.pkg, "the decoded message cannot be resolved", um) {
			continue
		}
		o.Site(um, sp.pkg+": record type written "+wt+", read "+typeKey(mi.X.Type()))
		o.Check(typeKey(mi.X.Type()) == wt, "type|"+sp.pkg, "the decoder reads records of type "+typeKey(mi.X.Type())+", the encoder writes "+wt, um)
		obj, isAlloc := mi.X.(*ssa.Alloc)
		l := e.LoopOf(um)
		if o.Check(isAlloc && l != nil, "dec-fresh|"+sp.pkg, "each record must be decoded into an object of its own, inside the reading loop", um) {
			o.Check(obj.Heap && l.Blocks[obj.Block().Index], "dec-fresh|"+sp.pkg, "the object records are decoded into is created once, outside the reading loop: every entry of the loaded state would be the last record", um)
			n := 0
			for _, in := range AllInstrs(dec) {
				mu, ok := in.(*ssa.MapUpdate)
				if !ok {
					continue
				}
				n++
				o.Site(mu, sp.pkg+": loaded["+clip(e.X(dec, mu.Key))+"] = record")
				o.Check(mu.Value == ssa.Value(obj), "dec-value|"+sp.pkg, "what is filed in the loaded state is not the decoded record: "+clip(e.X(dec, mu.Value)), mu)
				for _, kv := range e.ValStrs(dec, e.ValsAt((&Walk{Fn: dec}).FromEntry(), mu, mu.Key)) {
					o.Check(regexpMatch(sp.key, kv), "dec-key|"+sp.pkg, "a loaded record is filed under "+clip(kv)+", not under its own key", mu)
				}
				o.Check(l.Blocks[mu.Block().Index], "dec-loop|"+sp.pkg, "records are filed outside the reading loop", mu)
			}
			o.Check(n == 1, "dec-file|"+sp.pkg, "each decoded record must be filed in the loaded state, once", um)
		}
	}
	o.MinSites(4)
}
