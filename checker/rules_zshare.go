package main

// Cross-registration of rules between properties.
//
// A property is usually broken where its own mechanism lives, but every property also stands on mechanisms that
// are decided under another property's name (the silence store under C09/C12, the notification log under C10,
// the routing function under C07, the transport under C19, ...).  A change there breaks both properties, and a
// check that only runs its "own" rules misses it (seeds C02-E/F, C07-F, C09-F, C10-F of round 3 were all of that
// kind).  share() registers an existing rule a second time under the dependent property; `why` states in the
// dependent property's terms why the rule is a necessary condition of it.  Only rules without known findings are
// shared, so a known finding is always reported under exactly one property.
//
// This file sorts after every rules_cNN.go, so all rules exist when its init runs.

func share(prop, id, from, why string) {
	for i := range registry {
		if registry[i].ID == from {
			src := registry[i]
			reg(prop, id, src.Template, why+" [= "+from+": "+src.Desc+"]", src.Run)
			return
		}
	}
	reg(prop, id, "T1", why, func(o *Ob) { o.Fail("missing", "rule "+from+" not registered", nil) })
}

func init() {
	// C01: an owed notification is sent.
	share("C01", "C01.16", "C04.1", "a changed group is notified: a new firing alert always makes the de-duplication answer 'notify'")
	share("C01", "C01.17", "C04.2", "the de-duplication compares this flush's alerts with the entry logged for this group and receiver")
	share("C01", "C01.18", "C20.1", "what the retry stage sends is the batch it was given, and its outcome is reported")
	share("C01", "C01.19", "C08.4", "the settle gate always opens: no notification waits for ever for the cluster")
	share("C01", "C01.20", "C08.1", "every integration's chain ends in delivery: wait, dedup, retry, set-notifies in this order")
	share("C01", "C01.21", "C15.5", "time gating mutes only inside a mute interval or outside all active intervals")
	share("C01", "C01.22", "C13.2", "an alert accepted by the API is handed to the provider even when others of its batch are rejected")
	share("C01", "C01.23", "C07.2", "receiver and timing options of the selected route are the inherited ones")

	// C02: the silence verdict follows the stored silences.
	share("C02", "C02.12", "C12.1", "creating or editing a silence stores it (and nothing else) before Set returns")
	share("C02", "C02.13", "C12.3", "expiring takes effect at once: the stored end is moved to now")
	share("C02", "C02.14", "C09.3", "replicated silences are merged into the store and its indexes under the write lock")

	// C03: the inhibition verdict follows the firing alerts.
	share("C03", "C03.13", "C01.2", "the inhibitor's subscription misses no alert: snapshot and registration are atomic")
	share("C03", "C03.14", "C17.8", "a reload never leaves a window without a loaded inhibitor")

	// C04: de-duplication against the previous notification.
	share("C04", "C04.11", "C10.4", "the previous notification read is exactly the entry of this group and receiver")
	share("C04", "C04.12", "C08.1", "de-duplication runs before delivery and recording after it")
	share("C04", "C04.13", "C01.8", "an unchanged group is looked at again every group_interval (timer discipline)")

	// C05: resolved notifications.
	share("C05", "C05.8", "C04.2", "the resolved set is compared with what was logged for this group and receiver")
	share("C05", "C05.9", "C04.3", "what is logged after delivery is this flush's firing and resolved sets")
	share("C05", "C05.10", "C01.4", "an alert that fires again is never swallowed by a group being destroyed")
	share("C05", "C05.11", "C01.5", "the group store refuses an insert only once destroyed, and is destroyed only when empty")
	share("C05", "C05.12", "C06.4", "a group is removed only when destroyed")

	// C06: grouping.
	share("C06", "C06.9", "C01.4", "no second live group for the same key: an insert refused by a destroyed group is retried on a fresh one")
	share("C06", "C06.10", "C01.9", "every stored group runs")

	// C07: routing always yields a receiver.
	share("C07", "C07.9", "C17.1", "a loaded tree has a root receiver and no root matchers, so every alert is routed")
	share("C07", "C07.10", "C17.2", "every route's receiver exists: the loader checks the whole tree")

	// C08: cluster de-duplication.
	share("C08", "C08.6", "C10.1", "a received log entry is kept iff it is newer: nflog merge is a last-writer-wins join")
	share("C08", "C08.7", "C10.3", "every received log entry is merged")
	share("C08", "C08.8", "C04.1", "an instance that holds another instance's entry for the same group state stays silent")
	share("C08", "C08.9", "C04.2", "the waiting instance de-duplicates against the (merged) log after its wait")
	share("C08", "C08.10", "C19.1", "a logged notification is broadcast: small messages gossiped, oversized ones queued")
	share("C08", "C08.11", "C19.3", "oversized log messages reach every other member")
	share("C08", "C08.12", "C19.4", "a gossiped log entry is merged into the addressed state")

	// C09: silence replication.
	share("C09", "C09.8", "C12.4", "retention: garbage collection removes a silence only past its retention deadline")
	share("C09", "C09.9", "C11.6", "encoding keeps every matcher set, so replicas hold the same content")
	share("C09", "C09.10", "C19.1", "a local silence update is broadcast: small messages gossiped, oversized ones queued")
	share("C09", "C09.11", "C19.3", "oversized silence messages reach every other member")

	// C10: notification log.
	share("C10", "C10.11", "C19.1", "a logged entry is broadcast: small messages gossiped, oversized ones queued")
	share("C10", "C10.12", "C19.3", "oversized log messages reach every other member")

	// C11: snapshots.
	share("C11", "C11.7", "C02.4", "a loaded snapshot rebuilds the silence indexes, so loaded silences keep muting")
	share("C11", "C11.8", "C12.4", "the garbage collection before a snapshot drops only silences past retention")

	// C12: silence life cycle.
	share("C12", "C12.7", "C09.1", "Set stores through the state's merge: the edited version replaces the stored one")

	// C13: the alerts API.
	share("C13", "C13.7", "C07.1", "the receivers reported are the ones the routing function selects")

	// C14: no stale overwrite.
	share("C14", "C14.4", "C13.4", "the provider merges a re-sent alert with the stored one before publishing it")
	share("C14", "C14.5", "C01.4", "an update refused by a destroyed group is routed again")
	share("C14", "C14.6", "C06.3", "one group per key: the group map is only changed atomically")

	// C18: limits.
	share("C18", "C18.7", "C12.1", "a rejected create or edit leaves the store untouched: validation and limits precede every write in Set")

	// C19: replication transport.
	share("C19", "C19.8", "C09.3", "a received silence message is merged entry by entry")
	share("C19", "C19.9", "C10.3", "a received log message is merged entry by entry")
	share("C19", "C19.10", "C09.4", "the full state handed to a joining instance contains every entry")

	// C20: delivery and recording.
	share("C20", "C20.6", "C04.3", "what is recorded after success is this flush's alert sets under the integration's key")
	share("C20", "C20.7", "C01.15", "integrations record under separate keys, so one's record never stands for another's")
	share("C20", "C20.8", "C05.4", "send_resolved off removes resolved alerts from what is sent")
}
