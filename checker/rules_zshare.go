package main

// Cross-registration of rules between properties.
//
// A property is usually broken where its own mechanism lives, but every property also stands on mechanisms that
// are decided under another property's name (the silence store under C09/C12, the notification log under C10,
// the routing function under C07, the transport under C19, ...).  A change there breaks both properties, and a
// check that only runs its "own" rules misses it (seeds C02-E/F, C07-F, C09-F, C10-F of round 3 were all of that
// kind).  share() registers an existing rule a second time under the dependent property; `why` states in the
// dependent property's terms why the rule is a necessary condition of it.  Only rules without known findings are
// shared, so a known finding is always reported under exactly one property.
//
// This file sorts after every rules_cNN.go, so all rules exist when its init runs.

func share(prop, id, from, why string) {
	for i := range registry {
		if registry[i].ID == from {
			src := registry[i]
			reg(prop, id, src.Template, why+" [= "+from+": "+src.Desc+"]", src.Run)
			origin := src.Origin
			if origin == "" {
				origin = src.ID
			}
			registry[len(registry)-1].Origin = origin
			return
		}
	}
	reg(prop, id, "T1", why, func(o *Ob) { o.Fail("missing", "rule "+from+" not registered", nil) })
}

func init() {
	// C01: an owed notification is sent.
	share("C01", "C01.16", "C04.1", "a changed group is notified: a new firing alert always makes the de-duplication answer 'notify'")
	share("C01", "C01.17", "C04.2", "the de-duplication compares this flush's alerts with the entry logged for this group and receiver")
	share("C01", "C01.18", "C20.1", "what the retry stage sends is the batch it was given, and its outcome is reported")
	share("C01", "C01.19", "C08.4", "the settle gate always opens: no notification waits for ever for the cluster")
	share("C01", "C01.20", "C08.1", "every integration's chain ends in delivery: wait, dedup, retry, set-notifies in this order")
	share("C01", "C01.21", "C15.5", "time gating mutes only inside a mute interval or outside all active intervals")
	share("C01", "C01.22", "C13.2", "an alert accepted by the API is handed to the provider even when others of its batch are rejected")
	share("C01", "C01.23", "C07.2", "receiver and timing options of the selected route are the inherited ones")
	share("C01", "C01.25", "C04.3", "every delivered notification is recorded with this flush's alert sets (a stale entry would de-duplicate a re-fired alert away)")
	share("C01", "C01.26", "C13.1", "an alert that keeps being re-sent keeps firing: a missing end time becomes receive time plus resolve_timeout on every POST")
	share("C01", "C01.27", "C13.4", "a re-sent alert is merged with the stored one, so its end time moves forward")

	// C02: the silence verdict follows the stored silences.
	share("C02", "C02.12", "C12.1", "creating or editing a silence stores it (and nothing else) before Set returns")
	share("C02", "C02.13", "C12.3", "expiring takes effect at once: the stored end is moved to now")
	share("C02", "C02.14", "C09.3", "replicated silences are merged into the store and its indexes under the write lock")

	// C03: the inhibition verdict follows the firing alerts.
	share("C03", "C03.13", "C01.2", "the inhibitor's subscription misses no alert: snapshot and registration are atomic")
	share("C03", "C03.14", "C17.8", "a reload never leaves a window without a loaded inhibitor")

	// C04: de-duplication against the previous notification.
	share("C04", "C04.11", "C10.4", "the previous notification read is exactly the entry of this group and receiver")
	share("C04", "C04.12", "C08.1", "de-duplication runs before delivery and recording after it")
	share("C04", "C04.13", "C01.8", "an unchanged group is looked at again every group_interval (timer discipline)")

	// C05: resolved notifications.
	share("C05", "C05.8", "C04.2", "the resolved set is compared with what was logged for this group and receiver")
	share("C05", "C05.9", "C04.3", "what is logged after delivery is this flush's firing and resolved sets")
	share("C05", "C05.10", "C01.4", "an alert that fires again is never swallowed by a group being destroyed")
	share("C05", "C05.11", "C01.5", "the group store refuses an insert only once destroyed, and is destroyed only when empty")
	share("C05", "C05.12", "C06.4", "a group is removed only when destroyed")

	// C06: grouping.
	share("C06", "C06.9", "C01.4", "no second live group for the same key: an insert refused by a destroyed group is retried on a fresh one")
	share("C06", "C06.10", "C01.9", "every stored group runs")
	share("C06", "C06.12", "C13.5", "the groups API shows current alerts only: every alert predicate drops alerts whose end has passed")

	// C07: routing always yields a receiver.
	share("C07", "C07.9", "C17.1", "a loaded tree has a root receiver and no root matchers, so every alert is routed")
	share("C07", "C07.10", "C17.2", "every route's receiver exists: the loader checks the whole tree")
	share("C07", "C07.12", "C13.6", "the receivers the API shows for an alert are the ones routing selects for that alert")

	// C08: cluster de-duplication.
	share("C08", "C08.6", "C10.1", "a received log entry is kept iff it is newer: nflog merge is a last-writer-wins join")
	share("C08", "C08.7", "C10.3", "every received log entry is merged")
	share("C08", "C08.8", "C04.1", "an instance that holds another instance's entry for the same group state stays silent")
	share("C08", "C08.9", "C04.2", "the waiting instance de-duplicates against the (merged) log after its wait")
	share("C08", "C08.10", "C19.1", "a logged notification is broadcast: small messages gossiped, oversized ones queued")
	share("C08", "C08.11", "C19.3", "oversized log messages reach every other member")
	share("C08", "C08.12", "C19.4", "a gossiped log entry is merged into the addressed state")
	share("C08", "C08.14", "C01.15", "an entry received from a peer covers one integration only: integrations log under separate keys")

	// C09: silence replication.
	share("C09", "C09.8", "C12.4", "retention: garbage collection removes a silence only past its retention deadline")
	share("C09", "C09.9", "C11.6", "encoding keeps every matcher set, so replicas hold the same content")
	share("C09", "C09.10", "C19.1", "a local silence update is broadcast: small messages gossiped, oversized ones queued")
	share("C09", "C09.11", "C19.3", "oversized silence messages reach every other member")

	// C10: notification log.
	share("C10", "C10.11", "C19.1", "a logged entry is broadcast: small messages gossiped, oversized ones queued")
	share("C10", "C10.12", "C19.3", "oversized log messages reach every other member")

	// C11: snapshots.
	share("C11", "C11.7", "C02.4", "a loaded snapshot rebuilds the silence indexes, so loaded silences keep muting")
	share("C11", "C11.8", "C12.4", "the garbage collection before a snapshot drops only silences past retention")

	// C12: silence life cycle.
	share("C12", "C12.7", "C09.1", "Set stores through the state's merge: the edited version replaces the stored one")

	// C13: the alerts API.
	share("C13", "C13.7", "C07.1", "the receivers reported are the ones the routing function selects")

	// C14: no stale overwrite.
	share("C14", "C14.4", "C13.4", "the provider merges a re-sent alert with the stored one before publishing it")
	share("C14", "C14.5", "C01.4", "an update refused by a destroyed group is routed again")
	share("C14", "C14.6", "C06.3", "one group per key: the group map is only changed atomically")

	// C18: limits.
	share("C18", "C18.7", "C12.1", "a rejected create or edit leaves the store untouched: validation and limits precede every write in Set")

	// C19: replication transport.
	share("C19", "C19.8", "C09.3", "a received silence message is merged entry by entry")
	share("C19", "C19.9", "C10.3", "a received log message is merged entry by entry")
	share("C19", "C19.10", "C09.4", "the full state handed to a joining instance contains every entry")

	// C20: delivery and recording.
	share("C20", "C20.6", "C04.3", "what is recorded after success is this flush's alert sets under the integration's key")
	share("C20", "C20.7", "C01.15", "integrations record under separate keys, so one's record never stands for another's")
	share("C20", "C20.8", "C05.4", "send_resolved off removes resolved alerts from what is sent")

	// second pass (after seeding round 4: four of eleven first-run misses were rules that existed under another
	// property's name): every rule whose anchors lie in the dependent property's files and whose statement is a
	// necessary condition of it
	share("C01", "C01.28", "C05.1", "the flush classifies an alert as firing until its end time has passed on this instance's clock")
	share("C01", "C01.29", "C05.3", "an alert that fired again during delivery is not removed with the resolved ones")
	share("C01", "C01.30", "C05.4", "what is sent lists every firing alert of the batch")
	share("C01", "C01.31", "C06.2", "every routed alert is put into the group of its route and group labels")
	share("C01", "C01.32", "C06.3", "a group is never lost from the group map while it holds alerts")
	share("C01", "C01.33", "C06.4", "a group is stopped only when destroyed")
	share("C01", "C01.34", "C14.2", "subscribers see the provider's updates in store order")
	share("C01", "C01.35", "C14.3", "the alerts known at start-up are routed before live updates")
	share("C01", "C01.36", "C20.9", "the integration's own retry verdict reaches the retry stage")
	share("C01", "C01.37", "C07.4", "every configured child route is part of the tree")
	share("C01", "C01.38", "C04.7", "firing and resolved alerts of a flush are told apart by Resolved()")
	share("C02", "C02.17", "C16.3", "silence regexps are anchored when the matcher is built")
	share("C02", "C02.18", "C12.6", "query results are clones: callers cannot change a stored silence behind the index")
	share("C03", "C03.17", "C01.5", "the source cache refuses an alert only when destroyed")
	share("C04", "C04.16", "C01.10", "the hash sets of a flush cover the whole group")
	share("C04", "C04.17", "C05.1", "firing/resolved classification of the flush")
	share("C04", "C04.18", "C10.3", "entries received from peers are merged into the log the de-duplication reads")
	share("C05", "C05.15", "C01.8", "the next flush comes one group_interval later (timer discipline)")
	share("C05", "C05.16", "C01.10", "a flush sends the whole group, resolved alerts included")
	share("C05", "C05.17", "C20.1", "the retry stage sends the batch it filtered and reports the outcome")
	share("C05", "C05.18", "C01.7", "the group keeps flushing until it is destroyed")
	share("C01", "C01.39", "C18.1", "a re-send of an admitted alert is always accepted by the per-name limit: an alert that keeps firing is never timed out by its own heartbeats being refused")
	share("C01", "C01.40", "C18.3", "the store refuses an alert only when the limit says so, and the refusal is counted")
	share("C02", "C02.19", "C12.13", "the per-alert cache is told about every change of a silence through the version: a stored silence is never changed in place")
	share("C09", "C09.14", "C12.13", "the replicas are told about every change of a silence: a stored silence is never changed in place, only replaced through merge")
	share("C14", "C14.12", "C05.20", "a version that was handed to groups and subscribers is never altered afterwards: a newer version is a new object")
	share("C13", "C13.13", "C05.20", "what GET reports is what was stored: a stored alert is never changed in place")
	share("C01", "C01.41", "C05.20", "the alert a group holds is the version the provider stored: nobody edits it in place")
	share("C05", "C05.21", "C13.4", "a resolve that reaches the provider replaces the firing version it is merged with (the younger submission wins, also at equal timestamps)")
	share("C05", "C05.19", "C01.2", "a dispatcher started by a reload is handed the whole store, resolved alerts included: the resolution of an alert that ended before the reload is still reported")
	share("C04", "C04.19", "C10.15", "what the de-duplication compares against is what was logged: an entry is never changed in place")
	share("C06", "C06.13", "C01.3", "every alert is routed")
	share("C06", "C06.14", "C01.7", "a group runs until destroyed")
	share("C06", "C06.15", "C01.8", "a recreated group starts with group_wait")
	share("C06", "C06.16", "C07.1", "a group belongs to exactly one route: the routing function")
	share("C06", "C06.17", "C07.4", "routes are built from all configured children")
	share("C06", "C06.18", "C05.1", "a group is emptied only of alerts that were notified as resolved")
	share("C02", "C02.21", "C12.2", "an edit applied in place leaves the matchers as they are: the compiled matchers the verdict uses are only rebuilt for a new id")
	share("C15", "C15.10", "C07.2", "the interval names a route is gated by are the ones configured on that route, not an enclosing route's")
	share("C07", "C07.13", "C16.3", "route regexps are anchored when the matcher is built")
	share("C08", "C08.15", "C04.4", "a notification is recorded after success, so peers learn of it")
	share("C08", "C08.16", "C04.5", "all instances use the same log key for a (group, receiver)")
	share("C08", "C08.17", "C04.7", "all instances hash the same alerts the same way")
	share("C08", "C08.18", "C10.2", "a local record replaces the stored entry")
	share("C08", "C08.19", "C10.4", "the waiting instance reads exactly the entry of its group and receiver")
	share("C08", "C08.20", "C19.6", "the log is registered for gossip before the channel exists")
	share("C09", "C09.12", "C12.1", "local creates and edits go through the same merge")
	share("C09", "C09.13", "C12.3", "a local expiry is stored as a newer version")
	share("C10", "C10.14", "C04.5", "every access to the log uses the key of (group, receiver)")
	share("C11", "C11.10", "C10.7", "receiver data is stored as given and handed out as a clone")
	share("C12", "C12.8", "C02.8", "a silence stays queryable: Query returns every silence matching the filters")
	share("C14", "C14.7", "C01.1", "every stored version is handed to the subscribers")
	share("C14", "C14.8", "C01.3", "every handed-over version is routed")
	share("C14", "C14.9", "C06.2", "an update lands in the group holding the alert")
	share("C14", "C14.10", "C05.3", "a resolved alert is removed only if it was not updated meanwhile")
	share("C14", "C14.11", "C01.5", "a group store refuses an update only when destroyed")
	share("C15", "C15.8", "C17.2", "every interval name a route refers to is defined")
	share("C18", "C18.8", "C01.5", "the store refuses inserts only when destroyed; limit refusals are separate")
	share("C19", "C19.11", "C09.1", "duplicate deliveries of a silence change nothing: merge is last-writer-wins")
	share("C19", "C19.12", "C10.1", "duplicate deliveries of a log entry change nothing: merge is last-writer-wins")
	share("C20", "C20.13", "C08.1", "each integration's chain is wait, dedup, retry, set-notifies in this order")
	share("C13", "C13.11", "C01.5", "what the provider stores is what was put: the store refuses a write only when destroyed (or limited), never because of the alert's own timestamps")
	share("C06", "C06.19", "C05.3", "a group disappears only when it is empty: the store is marked destroyed only if no alert is left after removing the notified resolved ones")
}
