package main

import (
	"go/types"
	"sort"

	"golang.org/x/tools/go/ssa"
)

// typeKey names the struct (or other named) type behind t, pointers removed,
// generic instances named by their origin: "am/silence.Silences".
func typeKey(t types.Type) string {
	for {
		if p, ok := t.(*types.Pointer); ok {
			t = p.Elem()
			continue
		}
		if p, ok := t.Underlying().(*types.Pointer); ok && t != t.Underlying() {
			t = p.Elem()
			continue
		}
		break
	}
	if a, ok := t.(*types.Alias); ok {
		t = types.Unalias(a)
	}
	if n, ok := t.(*types.Named); ok {
		o := n.Origin().Obj()
		if o.Pkg() == nil {
			return o.Name()
		}
		return short(o.Pkg().Path()) + "." + o.Name()
	}
	return typeStr(t)
}

// FieldAccess is a read or write of field (T, F).
type FieldAccess struct {
	Fn    *ssa.Function
	Instr ssa.Instruction
	Base  ssa.Value // the struct (pointer) value whose field is accessed
	Write bool
	Kind  string
}

// Accesses lists every access in module functions to field F of named type T.
// A write is: a store to the field, a map update / delete / element store on
// the value held in the field.  Everything else that takes the field's address
// or loads it is a read.
func (e *Eng) Accesses(T, F string) []FieldAccess {
	var out []FieldAccess
	for _, fn := range e.allFuncs {
		for _, b := range fn.Blocks {
			for _, in := range b.Instrs {
				var fa ssa.Value
				var base ssa.Value
				switch v := in.(type) {
				case *ssa.FieldAddr:
					if typeKey(v.X.Type()) == T && fieldName(v.X.Type(), v.Field) == F {
						fa, base = v, v.X
					}
				case *ssa.Field:
					if typeKey(v.X.Type()) == T && fieldName(v.X.Type(), v.Field) == F {
						fa, base = v, v.X
					}
				}
				if fa == nil {
					continue
				}
				// classify by the uses of the address
				wrote := false
				kinds := map[string]ssa.Instruction{}
				var scan func(v ssa.Value, loaded bool)
				seen := map[ssa.Value]bool{}
				scan = func(v ssa.Value, loaded bool) {
					if seen[v] {
						return
					}
					seen[v] = true
					refs := v.Referrers()
					if refs == nil {
						return
					}
					for _, r := range *refs {
						switch r := r.(type) {
						case *ssa.Store:
							if r.Addr == v && !loaded {
								kinds["store"] = r
								wrote = true
							}
						case *ssa.UnOp:
							if r.X == v && !loaded {
								scan(r, true)
							}
						case *ssa.MapUpdate:
							if r.Map == v && loaded {
								kinds["mapupdate"] = r
								wrote = true
							}
						case *ssa.IndexAddr:
							if r.X == v && loaded {
								// element store?
								if rr := r.Referrers(); rr != nil {
									for _, u := range *rr {
										if st, ok := u.(*ssa.Store); ok && st.Addr == r {
											kinds["elemstore"] = st
											wrote = true
										}
									}
								}
							}
						case *ssa.Call:
							if bi, ok := r.Call.Value.(*ssa.Builtin); ok && bi.Name() == "delete" && loaded && len(r.Call.Args) > 0 && r.Call.Args[0] == v {
								kinds["delete"] = r
								wrote = true
							}
							if bi, ok := r.Call.Value.(*ssa.Builtin); ok && bi.Name() == "clear" && loaded && len(r.Call.Args) > 0 && r.Call.Args[0] == v {
								kinds["clear"] = r
								wrote = true
							}
						case *ssa.ChangeType:
							scan(r, loaded)
						}
					}
				}
				scan(fa, false)
				if _, isField := fa.(*ssa.Field); isField {
					// value-typed field read
					seen = map[ssa.Value]bool{}
					scan(fa, true)
				}
				if wrote {
					var ks []string
					for k := range kinds {
						ks = append(ks, k)
					}
					sort.Strings(ks)
					for _, k := range ks {
						out = append(out, FieldAccess{fn, kinds[k], base, true, k})
					}
				} else {
					out = append(out, FieldAccess{fn, in, base, false, "read"})
				}
			}
		}
	}
	return out
}

// Writers returns the write accesses of field (T,F).
func (e *Eng) Writers(T, F string) []FieldAccess {
	var out []FieldAccess
	for _, a := range e.Accesses(T, F) {
		if a.Write {
			out = append(out, a)
		}
	}
	return out
}

// MapWritesOfType lists map updates / deletes whose map operand has named type T.
func (e *Eng) MapWritesOfType(T string) []FieldAccess {
	var out []FieldAccess
	for _, fn := range e.allFuncs {
		for _, b := range fn.Blocks {
			for _, in := range b.Instrs {
				switch v := in.(type) {
				case *ssa.MapUpdate:
					if typeKey(v.Map.Type()) == T {
						out = append(out, FieldAccess{fn, in, v.Map, true, "mapupdate"})
					}
				case *ssa.Call:
					if bi, ok := v.Call.Value.(*ssa.Builtin); ok && (bi.Name() == "delete" || bi.Name() == "clear") && len(v.Call.Args) > 0 {
						if typeKey(v.Call.Args[0].Type()) == T {
							out = append(out, FieldAccess{fn, in, v.Call.Args[0], true, bi.Name()})
						}
					}
				}
			}
		}
	}
	return out
}

// FuncNames returns the sorted, de-duplicated canonical names of the functions of the accesses.
func FuncNames(as []FieldAccess) []string {
	set := map[string]bool{}
	for _, a := range as {
		set[fnName(a.Fn)] = true
	}
	var out []string
	for k := range set {
		out = append(out, k)
	}
	sort.Strings(out)
	return out
}

// typeStr renders a type with aliases replaced by what they stand for (types.Alert and
// alert.Alert are one type; which spelling the source uses must not matter).
func typeStr(t types.Type) string { return short(types.TypeString(unaliasDeep(t, 0), nil)) }

func unaliasDeep(t types.Type, d int) types.Type {
	if d > 6 {
		return t
	}
	t = types.Unalias(t)
	switch x := t.(type) {
	case *types.Pointer:
		return types.NewPointer(unaliasDeep(x.Elem(), d+1))
	case *types.Slice:
		return types.NewSlice(unaliasDeep(x.Elem(), d+1))
	case *types.Array:
		return types.NewArray(unaliasDeep(x.Elem(), d+1), x.Len())
	case *types.Map:
		return types.NewMap(unaliasDeep(x.Key(), d+1), unaliasDeep(x.Elem(), d+1))
	case *types.Chan:
		return types.NewChan(x.Dir(), unaliasDeep(x.Elem(), d+1))
	}
	return t
}
