package main

import (
	"fmt"
	"go/constant"
	"go/token"
	"go/types"
	"os"
	"regexp"
	"strings"
	"time"

	"golang.org/x/tools/go/ssa"
)

func init() {
	propInfos["C15"] = &propInfo{
		Explanation: "Decides the comparison shapes of the calendar test and the gating stages: (1) ContainsTime: per field, a loop over all configured ranges that is left as 'match' iff the extracted value lies in the range — minute-of-day (hour×60+minute) start-inclusive/end-exclusive, weekday/day-of-month/month/year inclusive on both sides — an unset field is skipped, a set field without match answers false, otherwise true; (2) every calendar component is extracted from the time converted to the interval's location (when set), and Intervener.Mutes hands in now.UTC(); (3) negative days of month are daysInMonth + v + 1, ranges starting beyond the month are skipped, both bounds clamped; (4) Intervener.Mutes visits every named interval and every of its time intervals, errors on an undefined name, mutes iff any matched; (5) TimeMuteStage / TimeActiveStage tables: evaluated with the flush's clock and the route's interval names, muted ⇒ no alerts, marker updated with the muting names on every evaluating path; stage order active → mute before the silencer; a time range prints as it parses (hour = minute/60, minute%60 of its own bounds, never through the clock formatter).",
		NotDecided:  "calendar arithmetic itself (time.Time methods, daysInMonth, DST transitions): numerical / library.",
		Trusted:     []string{"time.Time.In/Hour/Minute/Day/Month/Weekday/Year are correct for every instant and zone"},
	}

	// (an unmodified range variable reads as the element it copies: tp.Months[i], see copySource)
	reg("C15", "C15.1", "T1,T8", "ContainsTime: per field a loop over all ranges, match iff value within the range (minutes end-exclusive, others inclusive); unset field skipped; set field without match → false; else true", func(o *Ob) {
		e := o.E
		fn := o.Fn("(am/timeinterval.TimeInterval).ContainsTime")
		T := `phi\(\(time\.Time\)\.In\(p0, &tp:am/timeinterval\.TimeInterval\.Location\.Location\)\|p0\)`
		V := `&\w+:am/timeinterval\.TimeInterval\.`
		MIN := `\(\(\(time\.Time\)\.Hour\(` + T + `\) \* 60\) \+ \(time\.Time\)\.Minute\(` + T + `\)\)`
		type fld struct {
			name         string
			lower, upper LitM
		}
		comp := func(m string) string { return `\(time\.Time\)\.` + m + `\(` + T + `\)` }
		incl := func(m, typ string) (LitM, LitM) {
			return LRe(`\(`+comp(m)+` < `+V+typ+`\[i\]\.InclusiveRange\.Begin\)`, false), LRe(`\(`+V+typ+`\[i\]\.InclusiveRange\.End < `+comp(m)+`\)`, false)
		}
		mLo, mHi := incl("Month", "Months")
		wLo, wHi := incl("Weekday", "Weekdays")
		yLo, yHi := incl("Year", "Years")
		flds := []fld{
			{"Times", LRe(`\(`+MIN+` < `+V+`Times\[i\]\.StartMinute\)`, false), LRe(`\(`+MIN+` < `+V+`Times\[i\]\.EndMinute\)`, true)},
			{"Months", mLo, mHi},
			{"Weekdays", wLo, wHi},
			{"Years", yLo, yHi},
			{"DaysOfMonth", LRe(`\(`+comp("Day")+` < am/timeinterval\.clamp\(.*\)\)`, false), LRe(`\(am/timeinterval\.clamp\(.*\) < `+comp("Day")+`\)`, false)},
		}
		loops := map[string]*Loop{}
		for _, l := range e.Loops(fn) {
			coll, kind := e.RangeOver(l)
			if kind == "index" && strings.HasPrefix(coll, "&tp:am/timeinterval.TimeInterval.") {
				loops[strings.TrimPrefix(coll, "&tp:am/timeinterval.TimeInterval.")] = l
			}
		}
		for _, f := range flds {
			l := loops[f.name]
			if !o.Check(l != nil, "no-loop|"+f.name, "ContainsTime no longer examines every configured range of "+f.name, nil) {
				continue
			}
			o.SiteS("field " + f.name + ": match iff " + f.lower.Desc + " ∧ " + f.upper.Desc)
			for _, m := range []LitM{f.lower, f.upper} {
				o.Check(e.CountLitEdges(fn, m)+e.CountLitEdges(fn, m.Neg()) > 0, "bound-missing|"+f.name+"|"+m.Desc, "the "+f.name+" test no longer has the comparison "+m.Desc+" (wrong strictness, wrong operand, or a component not taken from the location-converted time)", nil)
			}
			o.LoopExitsGuarded(l, "match-lower|"+f.name, f.name+": a range is accepted as matching", f.lower)
			o.LoopExitsGuarded(l, "match-upper|"+f.name, f.name+": a range is accepted as matching", f.upper)
			// within both bounds ⇒ the loop is left (as a match), not continued
			cuts := []LitM{f.lower, f.upper}
			if f.name == "DaysOfMonth" {
				cuts = append(cuts, LRe(`\(am/timeinterval\.daysInMonth\(`+T+`\) < .*\)`, false))
			}
			o.Check(!loopBackWithout(o, l, nil, e.CutContradicting(cuts...)), "match-missed|"+f.name, f.name+": a value inside a range can be treated as not matching", nil)
			// exhaustion ⇒ false ; match ⇒ goes on to the next field (no 'return true' shortcut, no 'return false')
			hx, _ := l.HeaderExit()
			r := (&Walk{Fn: fn}).FromEdge(l.Header, hx)
			_ = r
			// unset field skipped
			unset := L("(&tp:am/timeinterval.TimeInterval."+f.name+" == nil)", true)
			unsetLen := L("(len(&tp:am/timeinterval.TimeInterval."+f.name+") == 0)", true)
			o.Check(e.CountLitEdges(fn, unset)+e.CountLitEdges(fn, unset.Neg())+e.CountLitEdges(fn, unsetLen)+e.CountLitEdges(fn, unsetLen.Neg()) > 0, "unset-test|"+f.name, "an unset "+f.name+" field must match everything (no test for 'unset' found)", nil)
		}
		// returns (read path by path, so that "return a() && b()" over per-field helpers is the same as the
		// unrolled form): a constant per path; 'false' only after some field's ranges were exhausted; 'true'
		// never after an exhaustion
		exhaust := func(b *ssa.BasicBlock, s int) bool {
			for _, l := range loops {
				hx, _ := l.HeaderExit()
				if b == l.Header && s == hx {
					return true
				}
			}
			return false
		}
		leaves := func(r *Reached) map[string]ssa.Instruction {
			m := map[string]ssa.Instruction{}
			for _, ret := range r.Returns() {
				for _, v := range e.RetVals(r, ret, 0) {
					m[e.X(fn, v)] = ret
				}
			}
			return m
		}
		all := leaves((&Walk{Fn: fn}).FromEntry())
		for v, ret := range all {
			o.Check(v == "true" || v == "false", "ret-shape", "ContainsTime must answer a constant per path, answers "+v, ret)
		}
		o.Check(all["true"] != nil, "true-exit", "ContainsTime must answer true exactly when every set field matched", nil)
		if ret := leaves((&Walk{Fn: fn, Cut: exhaust}).FromEntry())["false"]; ret != nil {
			o.Fail("false-unjustified", "ContainsTime can answer false without having exhausted the ranges of a field", ret)
		}
		for name, l := range loops {
			hx, _ := l.HeaderExit()
			if ret := leaves((&Walk{Fn: fn}).FromEdge(l.Header, hx))["true"]; ret != nil {
				o.Fail("exhausted-true|"+name, "ContainsTime can answer true although no range of the set field "+name+" contains the time", ret)
			}
		}
		o.Checks += 2
		o.Passed += 2
		o.MinSites(5)
	})

	reg("C15", "C15.2", "T2,T11", "calendar components are taken from the time converted to the interval's location; Intervener.Mutes evaluates now.UTC()", func(o *Ob) {
		e := o.E
		fn := o.Fn("(am/timeinterval.TimeInterval).ContainsTime")
		in := o.One(e.Calls(fn, "(time.Time).In"), "in", "ContainsTime must convert to the interval's location", fn)
		o.Site(in, "t.In(location)")
		o.Guarded(in, "in-guard", "converting", L("(&tp:am/timeinterval.TimeInterval.Location == nil)", false))
		o.Forced(fn, "in-forced", "an interval with a location must be evaluated in that location", IsInstr(in), L("(&tp:am/timeinterval.TimeInterval.Location == nil)", false))
		o.Check(e.Arg(in, 0) == "p0" && e.Arg(in, 1) == "&tp:am/timeinterval.TimeInterval.Location.Location", "in-args", "the conversion must be t.In(tp.Location.Location)", in)
		T := "phi((time.Time).In(p0, &tp:am/timeinterval.TimeInterval.Location.Location)|p0)"
		n := 0
		for _, m := range []string{"Hour", "Minute", "Day", "Month", "Weekday", "Year"} {
			for _, c := range e.Calls(fn, "(time.Time)."+m) {
				n++
				o.Check(e.Arg(c, 0) == T, "component-src|"+m, "the "+m+" is taken from "+e.Arg(c, 0)+" instead of the location-converted time", c)
			}
		}
		for _, c := range e.Calls(fn, "am/timeinterval.daysInMonth") {
			n++
			o.Check(e.Arg(c, 0) == T, "component-src|daysInMonth", "the month length is taken from "+e.Arg(c, 0), c)
		}
		// forbidden: duration arithmetic for the minute of day
		for _, c := range e.Calls(fn, "(time.Time).Sub") {
			o.Fail("minute-by-duration", "the minute of the day is derived from elapsed time since midnight: wrong on days with a daylight-saving transition", c)
		}
		o.Check(n >= 7, "components", "expected hour, minute, day, month, weekday, year and month length to be extracted", nil)
		mu := o.Fn("(*am/timeinterval.Intervener).Mutes")
		ct := o.One(e.Calls(mu, "(am/timeinterval.TimeInterval).ContainsTime"), "contains", "Intervener.Mutes must evaluate ContainsTime", mu)
		o.Site(ct, "ContainsTime(now.UTC())")
		o.Check(e.Arg(ct, 1) == "p1.UTC", "utc", "intervals without location are defined in UTC: ContainsTime must get now.UTC(), gets "+e.Arg(ct, 1), ct)
		o.MinSites(2)
	})

	reg("C15", "C15.3", "T11", "negative day-of-month: daysInMonth + v + 1; ranges beginning beyond the month are skipped; both bounds clamped to the month", func(o *Ob) {
		e := o.E
		fn := o.Fn("(am/timeinterval.TimeInterval).ContainsTime")
		cl := e.Calls(fn, "am/timeinterval.clamp")
		o.Check(len(cl) == 2, "clamps", "begin and end of a day-of-month range must both be clamped", nil)
		T := "phi((time.Time).In(p0, &tp:am/timeinterval.TimeInterval.Location.Location)|p0)"
		dim := "am/timeinterval.daysInMonth(" + T + ")"
		for _, c := range cl {
			a0 := e.Arg(c, 0)
			o.Site(c, "clamp("+a0+", …)")
			which := "Begin"
			if strings.Contains(a0, ".End") {
				which = "End"
			}
			v := "&tp:am/timeinterval.TimeInterval.DaysOfMonth[i].InclusiveRange." + which
			want := "phi(" + v + "|((" + dim + " + " + v + ") + 1))"
			o.Check(a0 == want, "negative-formula|"+which, "a negative "+which+" must count from the month's end as daysInMonth + v + 1, the clamped value is "+a0, c)
			o.Check(e.Arg(c, 2) == dim && (e.Arg(c, 1) == "(-1 * "+dim+")" || e.Arg(c, 1) == "-"+dim), "clamp-bounds|"+which, "the bound must be clamped to ±daysInMonth", c)
		}
		// the month length is that of the month the given time lies in — in the time's own location, which is the
		// interval's (checked above): day 0 of the following month, year and month read from the time as given
		dm := o.Fn("am/timeinterval.daysInMonth")
		rets := (&Walk{Fn: dm}).FromEntry().Returns()
		o.Check(len(rets) == 1, "dim", "daysInMonth must be a single expression", nil)
		if d := o.One(e.Calls(dm, "time.Date"), "dim-date", "daysInMonth must build the last day of the month with time.Date", dm); d != nil {
			o.Site(d, "daysInMonth: day 0 of the next month")
			o.Check(e.Arg(d, 0) == "(time.Time).Year(p0)" && e.Arg(d, 1) == "((time.Time).Month(p0) + 1)" && e.Arg(d, 2) == "0", "dim-args",
				"the month length must be day 0 of month+1 of the year and month the given time has in its own location, is time.Date("+e.Arg(d, 0)+", "+e.Arg(d, 1)+", "+e.Arg(d, 2)+", …)", d)
			for _, ret := range rets {
				o.Check(e.X(dm, ret.Results[0]) == "(time.Time).Day("+e.X(dm, d.(*ssa.Call))+")", "dim-day", "daysInMonth must return the day number of that date", ret)
			}
		}
		o.MinSites(2)
	})

	reg("C15", "C15.4", "T8,T1", "Intervener.Mutes: every name, every time interval; undefined name → error; muted iff any matched, with the matching names", func(o *Ob) {
		e := o.E
		fn := o.Fn("(*am/timeinterval.Intervener).Mutes")
		ct := o.One(e.Calls(fn, "(am/timeinterval.TimeInterval).ContainsTime"), "contains", "Mutes must evaluate ContainsTime", fn)
		inner := e.LoopOf(ct)
		o.Require(inner != nil, "inner-loop", "time intervals are not visited in a loop", ct)
		var outer *Loop
		for _, l := range e.Loops(fn) {
			if l.Blocks[ct.Block().Index] && l.Header != inner.Header {
				outer = l
			}
		}
		o.Require(outer != nil, "outer-loop", "names are not visited in a loop", ct)
		coll, kind := e.RangeOver(outer)
		o.Check(coll == "p0" && kind == "index", "names-range", "every given interval name must be evaluated", ct)
		known := L("recv.intervals[p0[i]]#1", true)
		o.LoopExitsGuarded(outer, "names-exit", "the evaluation may only be abandoned for an undefined interval name", known.Neg())
		o.LoopExitsGuarded(inner, "intervals-exit", "the time intervals of a name may only be left unevaluated after one of them matched", L(e.X(fn, ct.(*ssa.Call)), true))
		o.Check(!loopBackWithout(o, inner, IsInstr(ct), nil), "interval-skipped", "a time interval can be skipped", ct)
		// result: fresh slice of matching names; never aliases the input
		for _, ret := range (&Walk{Fn: fn, Cut: e.CutContradicting(known)}).FromEntry().Returns() {
			bases, parts := e.AppendParts(ret.Results[1])
			for _, b := range bases {
				o.Check(IsEmptySlice(b), "names-alias", "the list of muting names re-uses "+e.X(fn, b)+": filtering the route's configured name list in place corrupts it for later flushes", ret)
			}
			for _, p := range parts {
				o.Site(p.Call, "in += name")
				o.Guarded(p.Call, "in-guard", "reporting an interval as containing now", L(e.X(fn, ct.(*ssa.Call)), true))
				o.Check(e.X(fn, p.V) == "p0[i]", "in-elem", "the reported name must be the evaluated one", p.Call)
				o.Check(!loopBackWithout(o, inner, IsInstr(p.Call), e.CutContradicting(L(e.X(fn, ct.(*ssa.Call)), true))), "in-forced", "a containing interval is not reported", p.Call)
			}
			v0 := e.X(fn, ret.Results[0])
			vl := e.CondLit(fn, ret.Results[0])
			o.Check(!vl.Pos && strings.HasPrefix(vl.Atom, "(len(acc(") && strings.HasSuffix(vl.Atom, ") == 0)"), "verdict", "muted must be 'at least one interval contains now', is "+v0, ret)
		}
		// undefined name → error
		r := (&Walk{Fn: fn, Cut: e.CutContradicting(known.Neg())}).FromEntry()
		for _, ret := range r.Returns() {
			vs := e.ValStrs(fn, e.RetVals(r, ret, 2))
			if len(vs) == 1 && vs[0] == "nil" {
				// only acceptable if no name was looked up (empty list)
				continue
			}
			o.Check(isErrCtor(strings.Join(vs, "|")), "undefined-error", "an undefined interval name must be an error", ret)
		}
		o.MinSites(1)
	})

	reg("C15", "C15.5", "T6,T11", "gating stages: evaluated with the flush clock and the route's names; muted (or not active) ⇒ no alerts; marker set on every evaluating path; order active → mute before the silencer", func(o *Ob) {
		e := o.E
		type stg struct {
			fn, names string
			pass      bool // alerts pass when Mutes()#0 is …
		}
		for _, s := range []stg{{"(am/notify.TimeMuteStage).Exec", "am/notify.MuteTimeIntervalNames(ctx)", false}, {"(am/notify.TimeActiveStage).Exec", "am/notify.ActiveTimeIntervalNames(ctx)", true}} {
			fn := o.Fn(s.fn)
			mu := o.One(e.Calls(fn, "invoke:am/notify.TimeMuter.Mutes"), "mutes|"+s.fn, s.fn+" must consult the time muter", fn)
			o.Site(mu, s.fn+" → Mutes")
			o.Check(e.Arg(mu, 1) == s.names+"#0" && e.Arg(mu, 2) == "am/notify.Now(ctx)#0", "mutes-args|"+s.fn, "the intervals must be evaluated for the route's names at the flush's clock, got ("+e.Arg(mu, 1)+", "+e.Arg(mu, 2)+")", mu)
			mx := e.X(fn, mu.(*ssa.Call))
			errNil := L("("+mx+"#2 == nil)", true)
			verdict := L(mx+"#0", true)
			blockLit, passLit := verdict, verdict.Neg()
			if s.pass {
				blockLit, passLit = verdict.Neg(), verdict
			}
			// after the evaluation: blocked ⇒ alerts nil, error nil; pass ⇒ alerts p2
			for _, c := range []struct {
				lit  LitM
				want string
				key  string
			}{{blockLit, "nil", "blocked"}, {passLit, "p2", "passed"}} {
				r := (&Walk{Fn: fn, Cut: e.CutContradicting(errNil, c.lit)}).After(mu)
				n := 0
				for _, rs := range e.ResultStores(fn, 1) {
					if r.Has(rs.Instr) {
						n++
						o.Check(e.X(fn, rs.Val) == c.want, c.key+"|"+s.fn, s.fn+": when the interval verdict says '"+c.key+"' the stage returns alerts "+e.X(fn, rs.Val)+", expected "+c.want, rs.Instr)
					}
				}
				o.Check(n >= 1, c.key+"-noexit|"+s.fn, "no exit for the '"+c.key+"' case", mu)
			}
			// marker
			sm := e.Calls(fn, "invoke:am/marker.GroupMarker.SetMuted")
			o.Check(len(sm) >= 1, "marker|"+s.fn, s.fn+" no longer reports the muted state to the marker", nil)
			after := (&Walk{Fn: fn, Cut: e.CutContradicting(errNil), Barrier: IsCall("invoke:am/marker.GroupMarker.SetMuted")}).After(mu)
			o.Check(len(after.Returns()) == 0 || e.ResultStores(fn, 1) == nil, "marker-skipped|"+s.fn, "after evaluating the intervals the marker is not updated on some path", mu)
			for _, rs := range e.ResultStores(fn, 1) {
				_ = rs
			}
			for _, c := range sm {
				o.Check(e.Arg(c, 1) == "am/notify.RouteID(ctx)#0" && e.Arg(c, 2) == "am/notify.GroupKey(ctx)#0", "marker-key|"+s.fn, "the marker must be set for this route and group", c)
			}
		}
		outer, _ := pipelineOrder(o)
		a, m, s := indexOfPrefix(outer, "am/notify.NewTimeActiveStage("), indexOfPrefix(outer, "am/notify.NewTimeMuteStage("), indexOfPrefix(outer, "am/notify.NewMuteStage(p3,")
		del := indexOfPrefix(outer, "am/notify.createReceiverStage(")
		o.Check(a >= 0 && m >= 0 && a < m && m < del && a < del, "order", "the time stages must precede delivery (active, then mute), order is "+strings.Join(outer, " → "), nil)
		_ = s
		// dispatcher supplies the route's name lists
		run := o.Fn("(*am/dispatch.aggrGroup).run")
		for name, want := range map[string]string{"am/notify.WithMuteTimeIntervals": "recv.opts.MuteTimeIntervals", "am/notify.WithActiveTimeIntervals": "recv.opts.ActiveTimeIntervals"} {
			c := o.One(e.Calls(run, name), "ctx|"+name, "the flush context must carry the route's interval names", run)
			o.Check(e.Arg(c, 1) == want, "ctx-arg|"+name, name+" must get "+want+", gets "+e.Arg(c, 1), c)
		}
		o.MinSites(3)
	})
}

// groupMutedReportRule: the mute state the API reports for a group is that group's own.  Three links:
// the marker keeps it per (route, group key) and reads it back under the same key; the handler asks for the key of
// the group of the iteration and hands exactly that answer to every alert of that group; the API is wired to it.
func groupMutedReportRule(o *Ob) {
	e := o.E
	// (a) marker: one key function for reading and writing
	mu := o.Fn("(*am/marker.groupMarker).Muted")
	sm := o.Fn("(*am/marker.groupMarker).SetMuted")
	key := "am/marker.newGroupMarkerKey(p0, p1)"
	o.Site(fnFirst(mu), "marker read")
	o.Site(fnFirst(sm), "marker write")
	kf := o.Fn("am/marker.newGroupMarkerKey")
	{
		// the key is built from both parameters, each in its own field
		got := map[string]string{}
		for _, in := range AllInstrs(kf) {
			if s, ok := in.(*ssa.Store); ok {
				if fa, ok := s.Addr.(*ssa.FieldAddr); ok {
					got[fieldName(fa.X.Type(), fa.Field)] = e.X(kf, s.Val)
				}
			}
		}
		o.Check(got["routeID"] == "p0" && got["groupKey"] == "p1", "marker-key", "the marker key must be (route id, group key)", fnFirst(kf))
	}
	found := L("recv.groups["+key+"]#1", true)
	st := "recv.groups[" + key + "]#0.mutedBy"
	noNames := LRe(`\(len\(`+regexpQuote(st)+`\) == 0\)|\(len\(`+regexpQuote(st)+`\) < 1\)`, true)
	o.Table(mu, "muted", []Row{
		{Name: "unknown group", Assume: A(found.Neg()), Ret: [][]string{Vals("nil"), Vals("false")}},
		{Name: "known group, no names", Assume: A(found, noNames), Opt: A(L("(recv.groups["+key+"]#0 == nil)", false)), Ret: [][]string{Vals(st), Vals("false")}},
		{Name: "known group, names", Assume: A(found, noNames.Neg()), Opt: A(L("(recv.groups["+key+"]#0 == nil)", false)), Ret: [][]string{Vals(st), Vals("true")}},
	})
	n := 0
	isNameStore := map[ssa.Instruction]bool{}
	for _, s := range e.StoresToField(sm, "am/marker.groupStatus", "mutedBy") {
		n++
		isNameStore[s] = true
		a := e.X(sm, s.Addr)
		// the status written is the one filed under the key, or a fresh one that is filed under it
		o.Check(e.X(sm, s.Val) == "p2" && (strings.Contains(a, key) || strings.HasPrefix(a, "&complit:am/marker.groupStatus")), "marker-store", "SetMuted must store the given names in the status of (route, group), stores "+e.X(sm, s.Val)+" to "+a, s)
	}
	o.Check(n >= 1, "marker-store-site", "SetMuted no longer stores the names", nil)
	o.Forced(sm, "marker-store-forced", "SetMuted must store the names on every path", func(in ssa.Instruction) bool { return isNameStore[in] })
	for _, in := range AllInstrs(sm) {
		if m, ok := in.(*ssa.MapUpdate); ok {
			o.Check(e.X(sm, m.Key) == key, "marker-insert-key", "a new group status must be filed under the key of (route, group)", m)
			o.Check(strings.Contains(e.X(sm, m.Value), "complit:am/marker.groupStatus"), "marker-insert-value", "what is filed for a new group must be its new status", m)
		}
	}
	o.Forced(sm, "marker-insert-forced", "the status of a group seen for the first time must be filed in the map", isMapUpdate, found.Neg())
	// (b) handler
	fn := o.Fn("(*am/api/v2.API).getAlertGroupsHandler")
	var gm *ssa.Call
	for _, in := range AllInstrs(fn) {
		if c, ok := in.(*ssa.Call); ok && !c.Call.IsInvoke() && e.X(fn, c.Call.Value) == "recv.groupMutedFunc" {
			o.Check(gm == nil, "muted-call-once", "the group's mute state is asked for more than once", c)
			gm = c
		}
	}
	o.Require(gm != nil, "muted-call", "the handler no longer asks for the group's mute state", nil)
	o.Site(gm, "GET /alerts/groups: mute state of the group")
	a0, a1 := e.X(fn, gm.Call.Args[0]), e.X(fn, gm.Call.Args[1])
	grp := strings.TrimSuffix(a0, ".RouteID")
	o.Check(strings.HasSuffix(a0, "[i].RouteID") && a1 == grp+".GroupKey", "muted-args", "the mute state must be asked for (RouteID, GroupKey) of the group of the iteration", gm)
	names := e.X(fn, gm) + "#0"
	cs := e.Calls(fn, "am/api/v2.AlertToOpenAPIAlert")
	o.Check(len(cs) >= 1, "convert", "the handler no longer converts the alerts of a group", nil)
	for _, c := range cs {
		o.Check(e.Arg(c, 3) == names, "muted-names", "every alert of a group must carry the names the marker returned for this group in this iteration, gets "+clip(e.Arg(c, 3)), c)
		o.Check(strings.HasPrefix(e.Arg(c, 0), grp+".Alerts["), "muted-group", "the alerts converted must be those of the group whose mute state was asked for", c)
		o.Check(InstrDominates(gm, c), "muted-order", "the mute state must be known before the group's alerts are converted", c)
	}
	// (c) wiring
	an := o.Fn("am/api.New")
	nc := o.One(e.Calls(an, "am/api/v2.NewAPI"), "wiring", "api.New must build the v2 API", an)
	has := false
	for i := range nc.Common().Args {
		if strings.HasSuffix(e.Arg(nc, i), "Options.GroupMutedFunc") {
			has = true
		}
	}
	o.Check(has, "wiring-arg", "the v2 API must be given Options.GroupMutedFunc", nc)
	v2n := o.Fn("am/api/v2.NewAPI")
	n = 0
	for _, s := range e.StoresToField(v2n, "am/api/v2.API", "groupMutedFunc") {
		n++
		v, isP := s.Val.(*ssa.Parameter)
		if o.Check(isP, "wiring-field", "API.groupMutedFunc must be the function given to NewAPI", s) {
			// the parameter that api.New fills with GroupMutedFunc
			idx := -1
			for i, p := range v2n.Params {
				if p == v {
					idx = i
				}
			}
			o.Check(idx >= 0 && strings.HasSuffix(e.Arg(nc, idx), "Options.GroupMutedFunc"), "wiring-param", "API.groupMutedFunc is not the parameter that receives Options.GroupMutedFunc", s)
		}
	}
	o.Check(n == 1, "wiring-field-site", "NewAPI must set API.groupMutedFunc exactly once", nil)
}

func clip(s string) string {
	if len(s) > 160 {
		return s[:160] + "…"
	}
	return s
}

func init() {
	reg("C15", "C15.7", "T6,T8", "the API reports each group's own mute state: marker kept and read per (route, group key); GET /alerts/groups hands every alert the names returned for its group in this iteration; the API is wired to Options.GroupMutedFunc", func(o *Ob) {
		groupMutedReportRule(o)
		o.MinSites(3)
	})
}

// globalMapLiteral reads a package-level map literal: the entries written to the map the package
// initialiser stores in the global (constant keys and values, rendered).
func globalMapLiteral(e *Eng, init *ssa.Function, global string) (map[string]string, ssa.Instruction) {
	for _, in := range AllInstrs(init) {
		st, ok := in.(*ssa.Store)
		if !ok {
			continue
		}
		g, ok := st.Addr.(*ssa.Global)
		if !ok || g.Name() != global {
			continue
		}
		mm, ok := st.Val.(*ssa.MakeMap)
		if !ok {
			return nil, st
		}
		out := map[string]string{}
		for _, r := range *mm.Referrers() {
			if mu, ok := r.(*ssa.MapUpdate); ok {
				out[e.X(init, mu.Key)] = e.X(init, mu.Value)
			}
		}
		return out, st
	}
	return nil, nil
}

// intervalParseRule (C15.9): a time interval specification is read as it is written.  The containment
// test (C15.1–C15.3) is exact for the numbers stored in the ranges; this rule decides that those numbers
// are the ones the specification names.
func intervalParseRule(o *Ob) {
	e := o.E
	// (1) begin:end — the first component is the beginning, the second the end; a single value is both
	sr := o.Fn("am/timeinterval.stringableRangeFromString")
	nb, ne := 0, 0
	for _, set := range []struct{ m, what string }{{"invoke:am/timeinterval.stringableRange.setBegin", "beginning"}, {"invoke:am/timeinterval.stringableRange.setEnd", "end"}} {
		for _, c := range e.Calls(sr, set.m) {
			a := e.Arg(c, 1)
			o.Site(c, set.what+" := "+clip(a))
			single := strings.Contains(a, ".memberFromString(p1, strings.ToLower(p0))#0")
			idx := "[0]"
			if set.what == "end" {
				idx = "[1]"
			}
			cut := "#0"
			if set.what == "end" {
				cut = "#1"
			}
			comp := strings.Contains(a, `.memberFromString(p1, strings.Split(strings.ToLower(p0), ":")`+idx+")#0") ||
				strings.Contains(a, `.memberFromString(p1, strings.Cut(strings.ToLower(p0), ":")`+cut+")#0")
			o.Check(e.Arg(c, 0) == "p1" && (single || comp), "range-"+set.what, "the "+set.what+" of a range is read from "+clip(a), c)
			if set.what == "end" {
				ne++
			} else {
				nb++
			}
		}
	}
	o.Check(nb >= 1 && nb == ne, "range-sets", "a parsed range must get both its beginning and its end", fnFirst(sr))
	for _, c := range e.Calls(sr, "invoke:am/timeinterval.stringableRange.memberFromString") {
		bad := L("("+e.X(sr, c.(*ssa.Call))+"#1 == nil)", false)
		o.rejectsAfter(sr, bad, "range-member-error", "a range component that is not a valid member")
	}
	// (split in two at the first colon, a second colon in the rest is the same test)
	two := LitM{"more than two components", func(l Lit) bool {
		return !l.Pos && l.Atom == `(len(strings.Split(strings.ToLower(p0), ":")) == 2)` ||
			l.Pos && l.Atom == `strings.Contains(strings.Cut(strings.ToLower(p0), ":")#1, ":")`
	}}
	o.rejectsAfter(sr, two, "range-components", "a range with more than two components")
	// (2) the setters and the members
	for _, s := range [][2]string{{"setBegin", "Begin"}, {"setEnd", "End"}} {
		f := o.Fn("(*am/timeinterval.InclusiveRange)." + s[0])
		sts := e.StoresTo(f, "recv."+s[1])
		o.Check(len(sts) == 1 && e.X(f, sts[0].Val) == "p0" && len(e.StoresToField(f, "am/timeinterval.InclusiveRange", "Begin"))+len(e.StoresToField(f, "am/timeinterval.InclusiveRange", "End")) == 1, "setter|"+s[0], s[0]+" must set exactly "+s[1]+" to the given value", fnFirst(f))
		o.SiteS(s[0] + " sets " + s[1])
	}
	num := o.Fn("(*am/timeinterval.InclusiveRange).memberFromString")
	o.Table(num, "member-number", []Row{
		{Name: "a number", Assume: A(L("(strconv.Atoi(p0)#1 == nil)", true)), Ret: [][]string{Vals("strconv.Atoi(p0)#0"), Vals("nil")}},
	})
	o.rejectsAfter(num, L("(strconv.Atoi(p0)#1 == nil)", false), "member-number-error", "a member that is not a number")
	wd := o.Fn("(*am/timeinterval.WeekdayRange).memberFromString")
	o.Table(wd, "member-weekday", []Row{
		{Name: "a day name", Assume: A(L("am/timeinterval.daysOfWeek[p0]#1", true)), Ret: [][]string{Vals("am/timeinterval.daysOfWeek[p0]#0"), Vals("nil")}},
	})
	o.rejectsAfter(wd, L("am/timeinterval.daysOfWeek[p0]#1", false), "member-weekday-error", "a weekday that is not a day name")
	mo := o.Fn("(*am/timeinterval.MonthRange).memberFromString")
	o.Table(mo, "member-month", []Row{
		{Name: "a month name", Assume: A(L("am/timeinterval.months[p0]#1", true)), Ret: [][]string{Vals("am/timeinterval.months[p0]#0"), Vals("nil")}},
		{Name: "a month number", Assume: A(L("am/timeinterval.months[p0]#1", false), L("(strconv.Atoi(p0)#1 == nil)", true)), Ret: [][]string{Vals("strconv.Atoi(p0)#0"), Vals("nil")}},
	})
	o.rejectsAfter(mo, L("(strconv.Atoi(p0)#1 == nil)", false), "member-month-error", "a month that is neither a name nor a number")
	// (3) the name tables agree with the calendar the containment test uses (time.Weekday, time.Month)
	ini := o.Fn("am/timeinterval.init")
	days, at := globalMapLiteral(e, ini, "daysOfWeek")
	if o.Check(days != nil, "table-days", "the weekday names are no longer a literal table", at) {
		o.Site(at, "weekday names: "+itoa(len(days))+" entries")
		o.Check(len(days) == 7, "table-days-size", "the weekday table must name the seven days, has "+itoa(len(days)), at)
		for d := time.Sunday; d <= time.Saturday; d++ {
			k := `"` + strings.ToLower(d.String()) + `"`
			o.Check(days[k] == itoa(int(d)), "table-days|"+d.String(), "the weekday table maps "+k+" to "+days[k]+", the calendar's number of that day is "+itoa(int(d)), at)
		}
	}
	mon, at2 := globalMapLiteral(e, ini, "months")
	if o.Check(mon != nil, "table-months", "the month names are no longer a literal table", at2) {
		o.Site(at2, "month names: "+itoa(len(mon))+" entries")
		o.Check(len(mon) == 12, "table-months-size", "the month table must name the twelve months, has "+itoa(len(mon)), at2)
		for m := time.January; m <= time.December; m++ {
			k := `"` + strings.ToLower(m.String()) + `"`
			o.Check(mon[k] == itoa(int(m)), "table-months|"+m.String(), "the month table maps "+k+" to "+mon[k]+", the calendar's number of that month is "+itoa(int(m)), at2)
		}
	}
	// (4) HH:MM is hour*60+minute, of the first and the second component
	pt := o.Fn("am/timeinterval.parseTime")
	// the two components: the parts of a split at ':', or the text before the first and after the (same, only) colon
	okv := map[string]bool{}
	for _, hh := range []string{`strconv.Atoi(strings.Split(p0, ":")[0])#0`, `strconv.Atoi(slice(p0,hi=strings.IndexByte(p0, 58)))#0`, `strconv.Atoi(strings.Cut(p0, ":")#0)#0`} {
		for _, mm := range []string{`strconv.Atoi(strings.Split(p0, ":")[1])#0`, `strconv.Atoi(slice(p0,lo=(strings.IndexByte(p0, 58) + 1)))#0`, `strconv.Atoi(slice(p0,lo=(strings.LastIndexByte(p0, 58) + 1)))#0`, `strconv.Atoi(strings.Cut(p0, ":")#1)#0`} {
			for _, f := range []string{"((" + hh + " * 60) + " + mm + ")", "(" + mm + " + (" + hh + " * 60))", "((60 * " + hh + ") + " + mm + ")", "(" + mm + " + (60 * " + hh + "))"} {
				okv[f] = true
			}
		}
	}
	nok := 0
	for _, ret := range (&Walk{Fn: pt}).FromEntry().Returns() {
		if e.X(pt, ret.Results[1]) != "nil" {
			continue
		}
		nok++
		v := e.X(pt, ret.Results[0])
		o.Site(ret, "minutes = "+v)
		o.Check(okv[v], "time-value", "HH:MM must be read as hour*60+minute of its two components, is read as "+clip(v), ret)
	}
	o.Check(nok >= 1, "time-accepts", "parseTime has no accepting exit", fnFirst(pt))
	valid := LRe(`^\(\*regexp\.Regexp\)\.MatchString\(am/timeinterval\.validTimeRE, p0\)$`, false)
	o.rejectsAfter(pt, valid, "time-format", "a time that is not of the form HH:MM")
	// (5) a time range: start and end are the parsed StartTime and EndTime; empty or reversed is rejected
	tr := o.Fn("(*am/timeinterval.TimeRange).UnmarshalYAML")
	// what each bound is given: parseTime of a field of the decoded form — written directly, or computed for a
	// literal list [StartTime, EndTime] element by element into a list of results that is read by position
	bound := map[string]string{}
	for _, f := range [][2]string{{"StartMinute", "StartTime"}, {"EndMinute", "EndTime"}} {
		sts := e.StoresToField(tr, "am/timeinterval.TimeRange", f[0])
		if o.Check(len(sts) == 1, "timerange-store|"+f[0], "a parsed time range must set "+f[0]+" once", fnFirst(tr)) {
			v := e.X(tr, sts[0].Val)
			if m := mappedElement(e, tr, sts[0].Val); m != "" {
				v = m
			}
			bound[f[0]] = e.X(tr, sts[0].Val)
			o.Site(sts[0], f[0]+" := "+clip(v))
			o.Check(strings.HasPrefix(v, "am/timeinterval.parseTime(") && strings.HasSuffix(v, "."+f[1]+")#0"), "timerange-value|"+f[0], f[0]+" is read from "+clip(v)+", not from "+f[1], sts[0])
			// the range that is filled is the one being read (directly, or built aside and assigned as a whole)
			if base := sts[0].Addr.(*ssa.FieldAddr).X; e.X(tr, base) != "recv" {
				whole := false
				for _, in := range AllInstrs(tr) {
					if st, ok := in.(*ssa.Store); ok && e.X(tr, st.Addr) == "recv" {
						for sv := range e.Sources(st.Val, false) {
							if sv == base {
								whole = true
							}
						}
					}
				}
				o.Check(whole, "timerange-store|"+f[0], f[0]+" is set on "+clip(e.X(tr, base))+", which never becomes the range being read", sts[0])
			}
		}
	}
	for _, c := range e.Calls(tr, "am/timeinterval.parseTime") {
		o.rejectsAfter(tr, L("("+e.X(tr, c.(*ssa.Call))+"#1 == nil)", false), "timerange-parse-error", "a time that does not parse")
	}
	if sx, ex := bound["StartMinute"], bound["EndMinute"]; o.Check(sx != "" && ex != "", "timerange-parses", "a time range parses its start and its end", fnFirst(tr)) {
		rev := LitM{"start ≥ end", func(l Lit) bool {
			return !l.Pos && l.Atom == "("+sx+" < "+ex+")" || l.Pos && (l.Atom == "("+ex+" <= "+sx+")" || l.Atom == "("+sx+" >= "+ex+")") || !l.Pos && l.Atom == "("+ex+" > "+sx+")"
		}}
		o.rejectsAfter(tr, rev, "timerange-order", "a time range whose start is not before its end")
	}
	// (6) the other ranges: read through stringableRangeFromString into the range itself; reversed and out-of-calendar bounds are rejected
	rev := LitM{"end before beginning", func(l Lit) bool {
		return l.Pos && (l.Atom == "(recv.InclusiveRange.End < recv.InclusiveRange.Begin)" || l.Atom == "(recv.InclusiveRange.Begin > recv.InclusiveRange.End)") ||
			!l.Pos && (l.Atom == "(recv.InclusiveRange.Begin <= recv.InclusiveRange.End)" || l.Atom == "(recv.InclusiveRange.End >= recv.InclusiveRange.Begin)")
	}}
	for _, T := range []string{"WeekdayRange", "DayOfMonthRange", "MonthRange", "YearRange"} {
		f := o.Fn("(*am/timeinterval." + T + ").UnmarshalYAML")
		c := o.One(e.Calls(f, "am/timeinterval.stringableRangeFromString"), "range-read|"+T, T+" must be read with the range parser", f)
		o.Site(c, T+" read into "+e.Arg(c, 1))
		o.Check(e.Arg(c, 1) == "recv", "range-read-into|"+T, T+" is parsed into "+e.Arg(c, 1)+", not into the range being read", c)
		o.rejectsAfter(f, L("("+e.X(f, c.(*ssa.Call))+" == nil)", false), "range-read-error|"+T, "a "+T+" that does not parse")
		if T != "DayOfMonthRange" {
			o.rejectsAfter(f, rev, "range-order|"+T, "a "+T+" that ends before it begins")
		}
	}
	wu := o.Fn("(*am/timeinterval.WeekdayRange).UnmarshalYAML")
	for _, b := range []string{"Begin", "End"} {
		o.rejectsAfter(wu, L("(recv.InclusiveRange."+b+" < 0)", true), "weekday-bounds|"+b+"-low", "a weekday before sunday")
		o.rejectsAfter(wu, L("(recv.InclusiveRange."+b+" < 7)", false), "weekday-bounds|"+b+"-high", "a weekday after saturday")
	}
	du := o.Fn("(*am/timeinterval.DayOfMonthRange).UnmarshalYAML")
	for _, b := range []string{"Begin", "End"} {
		// the bound itself, or the bound as an element of a literal list of both bounds that a loop goes through
		subj := `(recv\.InclusiveRange\.` + b + `|\[[^\]]*recv\.InclusiveRange\.` + b + `[^\]]*\]\[i\])`
		is := func(neg bool, forms ...string) LitM {
			var res []*regexp.Regexp
			for _, f := range forms {
				res = append(res, regexp.MustCompile(`^\(`+subj+` `+f+`\)$`))
			}
			return LitM{b + " " + strings.Join(forms, " / "), func(l Lit) bool {
				if l.Pos == neg {
					return false
				}
				for _, re := range res {
					if re.MatchString(l.Atom) {
						return true
					}
				}
				return false
			}}
		}
		either := func(ms ...LitM) LitM {
			return LitM{ms[0].Desc, func(l Lit) bool {
				for _, m := range ms {
					if m.F(l) {
						return true
					}
				}
				return false
			}}
		}
		o.rejectsAfter(du, is(false, `== 0`), "dom-bounds|"+b+"-zero", "day of month 0")
		o.rejectsAfter(du, either(is(true, `< 32`, `<= 31`), is(false, `> 31`, `>= 32`)), "dom-bounds|"+b+"-high", "a day of month beyond 31")
		o.rejectsAfter(du, either(is(false, `< -31`, `<= -32`), is(true, `>= -31`, `> -32`)), "dom-bounds|"+b+"-low", "a day of month before -31")
	}
	o.MinSites(20)
}

// mappedElement resolves a read B[k] (k constant) of a local list B that is filled element by element from
// a literal list L of the same length, B[i] := f(L[i])#n in a loop over all of 0..len-1: the value is
// f(L[k])#n.  It returns the rendering of that value with L[k] in place, or "".
func mappedElement(e *Eng, fn *ssa.Function, v ssa.Value) (res string) {
	dbg := os.Getenv("AMVERIF_DEBUG") == "mapped"
	step := "start"
	defer func() {
		if dbg {
			fmt.Fprintf(os.Stderr, "mappedElement(%s): %q at %s\n", e.X(fn, v), res, step)
		}
	}()
	u, ok := v.(*ssa.UnOp)
	if !ok || u.Op != token.MUL {
		return ""
	}
	ia, ok := u.X.(*ssa.IndexAddr)
	if !ok {
		return ""
	}
	step = "alloc"
	B, ok := ia.X.(*ssa.Alloc)
	k, okk := ia.Index.(*ssa.Const)
	if !ok || !okk || k.Value == nil {
		return ""
	}
	at, ok := B.Type().Underlying().(*types.Pointer).Elem().Underlying().(*types.Array)
	if !ok {
		return ""
	}
	step = "fill"
	// the one filling store B[i] := …
	var fill *ssa.Store
	var iv ssa.Value
	for _, r := range *B.Referrers() {
		x, ok := r.(*ssa.IndexAddr)
		if !ok {
			continue
		}
		for _, rr := range *x.Referrers() {
			if st, ok := rr.(*ssa.Store); ok && st.Addr == ssa.Value(x) {
				if fill != nil {
					return ""
				}
				fill, iv = st, x.Index
			}
		}
	}
	if fill == nil {
		return ""
	}
	if _, isK := iv.(*ssa.Const); isK {
		return ""
	}
	step = "loop"
	// the loop goes through all positions
	l := e.LoopOf(fill)
	if l == nil || len(e.EarlyExits(l)) > 0 && false {
		return ""
	}
	hx, okh := l.HeaderExit()
	lit, okl := e.EdgeLit(l.Header, hx)
	if !okh || !okl || !(lit.Atom == "(i < "+itoa(int(at.Len()))+")" && !lit.Pos) {
		return ""
	}
	step = "list"
	// the literal list read at the same position
	var L *ssa.Alloc
	var read ssa.Value // the read of L at the loop position
	// (the operands the filled value is computed from, through calls and extracts)
	var ops []ssa.Value
	var collect func(v ssa.Value, depth int)
	collect = func(v ssa.Value, depth int) {
		ops = append(ops, v)
		in, ok := v.(ssa.Instruction)
		if !ok || depth > 4 {
			return
		}
		if _, isLoad := v.(*ssa.UnOp); isLoad {
			return
		}
		for _, op := range in.Operands(nil) {
			if *op != nil {
				collect(*op, depth+1)
			}
		}
	}
	collect(fill.Val, 0)
	for _, sv := range ops {
		if lu, ok := sv.(*ssa.UnOp); ok && lu.Op == token.MUL {
			if lia, ok := lu.X.(*ssa.IndexAddr); ok && lia.Index == iv {
				if la, ok := lia.X.(*ssa.Alloc); ok && la != B {
					L, read = la, lu
				}
			}
		}
		// the list copied as a value and indexed
		if ix, ok := sv.(*ssa.Index); ok && ix.Index == iv {
			if lu, ok := ix.X.(*ssa.UnOp); ok && lu.Op == token.MUL {
				if la, ok := lu.X.(*ssa.Alloc); ok && la != B {
					L, read = la, ix
				}
			}
		}
	}
	if L == nil {
		return ""
	}
	lt, ok := L.Type().Underlying().(*types.Pointer).Elem().Underlying().(*types.Array)
	if !ok || lt.Len() != at.Len() {
		return ""
	}
	step = "elem"
	var elem ssa.Value
	for _, r := range *L.Referrers() {
		if x, ok := r.(*ssa.IndexAddr); ok {
			if c, ok := x.Index.(*ssa.Const); ok && c.Value != nil && constant.Compare(c.Value, token.EQL, k.Value) {
				for _, rr := range *x.Referrers() {
					if st, ok := rr.(*ssa.Store); ok && st.Addr == ssa.Value(x) {
						elem = st.Val
					}
				}
			}
		}
	}
	if elem == nil {
		return ""
	}
	// render the filling value with L[i] replaced by L[k]'s element
	li := e.X(fn, read)
	if li == "" {
		return ""
	}
	return strings.ReplaceAll(e.X(fn, fill.Val), li, e.X(fn, elem))
}
