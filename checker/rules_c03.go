package main

import (
	"strings"

	"golang.org/x/tools/go/ssa"
)

// scansSourceCache reports whether fn (or a literal in it) iterates over all cached sources of the rule.
func scansSourceCache(e *Eng, fn *ssa.Function) bool {
	for _, f := range append([]*ssa.Function{fn}, Anons(fn)...) {
		for _, c := range e.Calls(f, "(*am/store.Alerts).List") {
			if strings.HasSuffix(e.Arg(c, 0), ".scache") {
				return true
			}
		}
	}
	return false
}

func init() {
	propInfos["C03"] = &propInfo{
		Explanation: "Decides the inhibitor's structure: (1) the inhibitor mute stage precedes delivery and passes an alert iff not muted; (2) every slurped and received alert is offered to every rule, cached as a source iff it matches the rule's source matchers, and indexed after a successful cache write; loading is signalled only after the slurp; (3) Mutes can answer true only for a rule whose target matchers match, asks hasEqual with 'two-sided' = the alert also matches the source side, records the inhibiting fingerprint in the marker on every exit; (4) one key function (the values of exactly the rule's equal labels, missing = empty) is used to index sources and to look up targets; (5) a source found resolved at the query's clock is not used; (6) a two-sided target is not inhibited by a two-sided source; (7) completeness of the negative verdict: the rule is existential over ALL firing sources with the same equal-label values while the index holds ONE fingerprint per value, so after rejecting the indexed candidate the lookup must scan the cached sources, or the index must be re-elected on every event that can invalidate it (self-update, GC); (8) updateIndex's takeover table; (9) the source cache only forgets resolved alerts and hands exactly those to the index GC; the inhibitor is fed what the store holds: the provider hands every stored alert, in its stored (merged) version, to every subscriber (shared with C01).",
		NotDecided:  "order-independence over whole histories (7 is the structural necessary condition; the inductive argument is not made).",
	}

	reg("C03", "C03.10", "T1,T8,T5", "the inhibitor sees what the store holds: the provider hands every stored alert, in its stored (merged) version, to every subscriber", func(o *Ob) {
		putFanoutRule(o)
		o.MinSites(1)
	})
	reg("C03", "C03.1", "T2,T1", "the inhibitor stage is in every receiver pipeline before delivery; MuteStage passes an alert on iff not muted", func(o *Ob) {
		outer, _ := pipelineOrder(o)
		inh := indexOfPrefix(outer, "am/notify.NewMuteStage(p2,")
		del := indexOfPrefix(outer, "am/notify.createReceiverStage(")
		o.Check(inh >= 0 && del >= 0 && inh < del, "inhibitor-stage", "the inhibitor stage must come before delivery, order is: "+strings.Join(outer, " → "), nil)
		muteStageRule(o)
		o.MinSites(3)
	})

	reg("C03", "C03.2", "T2,T8", "every alert is offered to every rule; cached iff it matches the source matchers; indexed after a successful cache write; loading signalled after the slurp", func(o *Ob) {
		e := o.E
		fn := o.Fn("(*am/inhibit.Inhibitor).processAlert")
		set := o.One(e.Calls(fn, "(*am/store.Alerts).Set"), "cache", "processAlert must cache source alerts", fn)
		ui := o.One(e.Calls(fn, "(*am/inhibit.InhibitRule).updateIndex"), "index", "processAlert must index source alerts", fn)
		o.Site(set, "scache.Set")
		o.Site(ui, "updateIndex")
		src := L("(am/pkg/labels.Matchers).Matches(recv.rules[i].SourceMatchers, p1.Alert.Labels)", true)
		o.Check(e.Arg(set, 0) == "recv.rules[i].scache" && e.Arg(set, 1) == "p1", "cache-args", "the alert must be cached in the matching rule's source cache", set)
		o.Check(e.Arg(ui, 0) == "recv.rules[i]" && e.Arg(ui, 1) == "p1", "index-args", "the alert must be indexed for the matching rule", ui)
		o.Guarded(set, "cache-guard", "caching an alert as inhibition source", src)
		setOK := L("("+e.X(fn, set.(*ssa.Call))+" == nil)", true)
		o.Guarded(ui, "index-guard", "indexing a source", setOK)
		l := e.LoopOf(set)
		if o.Check(l != nil, "rules-loop", "rules are not visited in a loop", set) {
			coll, kind := e.RangeOver(l)
			o.Check(coll == "recv.rules" && kind == "index" && len(e.EarlyExits(l)) == 0, "rules-range", "every rule must see the alert (a failure for one rule must not stop the others)", set)
			o.Check(!loopBackWithout(o, l, IsInstr(set), e.CutContradicting(src)), "cache-forced", "an alert matching a rule's source side can be left out of its cache", set)
			o.Check(!loopBackWithout(o, l, IsInstr(ui), e.CutContradicting(src, setOK)), "index-forced", "a cached source can be left out of the index", ui)
		}
		run := o.Fn("(*am/inhibit.Inhibitor).run")
		pcs := e.Calls(run, "(*am/inhibit.Inhibitor).processAlert")
		o.Check(len(pcs) == 2, "run-sites", "run must process slurped and received alerts (2 sites), found "+itoa(len(pcs)), nil)
		dn := o.One(e.Calls(run, "(*sync.WaitGroup).Done"), "loaded", "run must signal that loading finished", run)
		for _, pc := range pcs {
			if strings.HasSuffix(e.Arg(pc, 2), "#0[i]") {
				o.Site(pc, "process slurped")
				if sl := e.LoopOf(pc); o.Check(sl != nil, "slurp-loop", "slurped alerts not processed in a loop", pc) {
					hx, _ := sl.HeaderExit()
					r := (&Walk{Fn: run, Cut: func(b *ssa.BasicBlock, s int) bool { return b == sl.Header && s == hx }}).FromEntry()
					o.Check(!r.Has(dn), "loaded-early", "loading is signalled before all existing alerts were processed: the first flushes would see an empty inhibitor", dn)
					o.Check(len(e.EarlyExits(sl)) == 0 && !loopBackWithout(o, sl, IsInstr(pc), nil), "slurp-all", "a slurped alert can be skipped", pc)
				}
			} else {
				o.Site(pc, "process received")
				o.Check(strings.HasSuffix(e.Arg(pc, 2), "#2.Data") || strings.HasSuffix(e.Arg(pc, 2), ".Data"), "recv-arg", "the received alert must be processed", pc)
			}
		}
		o.MinSites(4)
	})

	reg("C03", "C03.3", "T1,T11", "Mutes: true only under a matching target side; two-sided flag = the alert matches the source side; marker updated on every exit; every rule consulted", func(o *Ob) {
		e := o.E
		fn := o.Fn("(*am/inhibit.Inhibitor).Mutes")
		he := o.One(e.Calls(fn, "(*am/inhibit.InhibitRule).hasEqual"), "hasequal", "Mutes must decide with hasEqual", fn)
		o.Site(he, "hasEqual")
		tgt := L("(am/pkg/labels.Matchers).Matches(recv.rules[i].TargetMatchers, p1)", true)
		o.Guarded(he, "target-guard", "consulting a rule", tgt)
		o.Check(e.Arg(he, 0) == "recv.rules[i]" && e.Arg(he, 1) == "p1", "hasequal-args", "hasEqual must be asked for the alert's labels on the rule under test", he)
		o.Check(e.Arg(he, 2) == "(am/pkg/labels.Matchers).Matches(recv.rules[i].SourceMatchers, p1)", "two-sided-flag", "the two-sided flag must be 'the alert also matches the rule's source matchers', is "+e.Arg(he, 2), he)
		o.Check(e.Arg(he, 3) == "time.Now()", "now", "the lookup must use the current time", he)
		eq := L(e.X(fn, he.(*ssa.Call))+"#1", true)
		for _, rs := range e.ResultStores(fn, 0) {
			v := e.X(fn, rs.Val)
			o.Site(rs.Instr, "Mutes → "+v)
			if v == "true" {
				o.Guarded(rs.Instr, "true-guard", "answering 'inhibited'", eq)
			} else {
				o.Check(v == "false", "verdict-shape", "Mutes must answer a constant per path, answers "+v, rs.Instr)
			}
		}
		l := e.LoopOf(he)
		if o.Check(l != nil, "rules-loop", "rules are not consulted in a loop", he) {
			coll, kind := e.RangeOver(l)
			o.Check(coll == "recv.rules" && kind == "index", "rules-range", "every rule must be consulted", he)
			o.LoopExitsGuarded(l, "rules-exit", "the search over the rules may only stop at the first inhibiting rule", eq)
			o.Check(!loopBackWithout(o, l, IsInstr(he), e.CutContradicting(tgt)), "target-forced", "a rule whose target side matches can be skipped", he)
			// eq ⇒ true returned
			for _, b := range fn.Blocks {
				for si := range b.Succs {
					if li, ok := e.EdgeLit(b, si); ok && eq.F(li) {
						r := (&Walk{Fn: fn}).FromEdge(b, si)
						for _, rs := range e.ResultStores(fn, 0) {
							if r.Has(rs.Instr) {
								o.Check(e.X(fn, rs.Val) == "true", "eq-not-muted", "a rule found an inhibiting source but Mutes can answer false", rs.Instr)
							}
						}
						for _, be := range l.Back {
							o.Check(!r.Edge[be], "eq-continues", "after finding an inhibiting source the verdict is not returned", he)
						}
					}
				}
			}
		}
		// marker
		var deferred *ssa.Function
		for _, in := range AllInstrs(fn) {
			if d, ok := in.(*ssa.Defer); ok {
				if mc, ok := d.Call.Value.(*ssa.MakeClosure); ok {
					f := mc.Fn.(*ssa.Function)
					if len(e.Calls(f, "invoke:am/marker.AlertMarker.SetInhibited")) > 0 {
						deferred = f
						for _, rs := range e.ResultStores(fn, 0) {
							o.Check(InstrDominates(d, rs.Instr), "marker-late", "an exit of Mutes is not covered by the deferred marker update", rs.Instr)
						}
					}
				}
			}
		}
		if o.Check(deferred != nil, "marker", "Mutes no longer records the inhibiting alert in the marker", nil) {
			c := e.Calls(deferred, "invoke:am/marker.AlertMarker.SetInhibited")[0]
			o.Site(c, "SetInhibited")
			o.Check(e.Arg(c, 1) == "(model.LabelSet).Fingerprint(^p1)", "marker-fp", "the marker must be updated for the alert's fingerprint", c)
			o.Check(strings.Contains(e.Arg(c, 2), "hasEqual(") && strings.Contains(e.Arg(c, 2), "#0"), "marker-by", "the recorded inhibitor must be the source found by hasEqual, is "+e.Arg(c, 2), c)
		}
		o.MinSites(4)
	})

	reg("C03", "C03.4", "T11,T4", "one key function: the values of exactly the rule's equal labels (missing = empty); used for indexing sources, index GC and target lookup", func(o *Ob) {
		e := o.E
		fn := o.Fn("(*am/inhibit.InhibitRule).fingerprintEquals")
		var mu *ssa.MapUpdate
		for _, in := range AllInstrs(fn) {
			if m, ok := in.(*ssa.MapUpdate); ok {
				mu = m
			}
		}
		o.Require(mu != nil, "fill", "fingerprintEquals no longer builds the equal-label set", nil)
		o.Site(mu, "equalSet[n] = lset[n]")
		k, v := e.X(fn, mu.Key), e.X(fn, mu.Value)
		o.Check(k == "next(range(recv.Equal))#1" && v == "p0[next(range(recv.Equal))#1]", "fill-shape", "the key must map each equal label to the label set's value by plain index (missing ⇒ empty), is ["+k+"] = "+v, mu)
		l := e.LoopOf(mu)
		if o.Check(l != nil, "loop", "equal labels not visited in a loop", mu) {
			coll, _ := e.RangeOver(l)
			o.Check(coll == "recv.Equal" && len(e.EarlyExits(l)) == 0 && !loopBackWithout(o, l, IsInstr(mu), nil), "range", "every equal label must enter the key", mu)
		}
		for _, ret := range (&Walk{Fn: fn}).FromEntry().Returns() {
			o.Check(e.X(fn, ret.Results[0]) == "(model.LabelSet).Fingerprint(makemap:model.LabelSet)", "result", "the key must be the fingerprint of the equal-label set", ret)
		}
		users := map[string]string{
			"(*am/inhibit.InhibitRule).updateIndex": "p0.Alert.Labels",
			lookupFn(o):                             "p0",
			"(*am/inhibit.InhibitRule).gcCallback":  "p0[i].Alert.Labels",
		}
		for name, arg := range users {
			f := o.Fn(name)
			c := o.One(e.Calls(f, "(*am/inhibit.InhibitRule).fingerprintEquals"), "user|"+name, name+" must derive its index key with fingerprintEquals", f)
			o.Site(c, name+" key")
			o.Check(e.Arg(c, 0) == "recv" && e.Arg(c, 1) == arg, "user-arg|"+name, name+" must key by the labels of the alert at hand", c)
			kx := e.X(f, c.(*ssa.Call))
			for _, ic := range e.Calls(f, "~\\(\\*am/inhibit\\.index\\)\\.(Get|Set|Delete)") {
				ok := e.Arg(ic, 1) == kx
				// the keys collected in a list first: every element of the list is such a key
				if u, isU := ic.Common().Args[1].(*ssa.UnOp); !ok && isU {
					if ia, isIA := u.X.(*ssa.IndexAddr); isIA {
						if _, parts := e.AppendParts(ia.X); len(parts) > 0 {
							ok = true
							for _, p := range parts {
								if p.Spread || e.X(f, p.V) != kx {
									ok = false
								}
							}
						}
					}
				}
				o.Check(ok, "index-key|"+name, "the index is accessed with "+clip(e.Arg(ic, 1))+" instead of the equal-labels key", ic)
			}
		}
		// index values: the indexed value is the source alert's fingerprint
		ui := o.Fn("(*am/inhibit.InhibitRule).updateIndex")
		for _, c := range e.Calls(ui, "(*am/inhibit.index).Set") {
			o.Check(strings.HasPrefix(e.Arg(c, 2), "(*model.Alert).Fingerprint(p0"), "index-value", "the indexed value must be the source alert's fingerprint", c)
		}
		o.MinSites(4)
	})

	reg("C03", "C03.5", "T6", "findEqualSourceAlert / hasEqual tables: unknown key, vanished or resolved source → not found; two-sided exclusion", func(o *Ob) {
		_ = o.E
		key := "(*am/inhibit.InhibitRule).fingerprintEquals(recv, p0)"
		ig := "(*am/inhibit.index).Get(recv.sindex, " + key + ")"
		sg := "(*am/store.Alerts).Get(recv.scache, " + ig + "#0)"
		has := L(ig+"#1", true)
		gOK := L("("+sg+"#1 == nil)", true)
		he := o.Fn("(*am/inhibit.InhibitRule).hasEqual")
		excl := L("p1", true)
		if lookupFn(o) == fnName(he) {
			// the lookup is part of hasEqual itself: one table over both steps
			res := LRe(`\(\*model\.Alert\)\.ResolvedAt\(`+regexpQuote(sg)+`#0(\.Alert)?, p2\)`, true)
			two := LRe(`\(am/pkg/labels\.Matchers\)\.Matches\(recv\.TargetMatchers, `+regexpQuote(sg)+`#0(\.Alert)?\.Labels\)`, true)
			fpv := "~\\(\\*model\\.Alert\\)\\.Fingerprint\\(" + regexpQuote(sg) + "#0(\\.Alert)?\\)"
			none := [][]string{Vals("0"), Vals("false")}
			o.Table(he, "hasEqual", []Row{
				{Name: "no indexed source", Assume: A(has.Neg()), Ret: none},
				{Name: "indexed source vanished", Assume: A(has, gOK.Neg()), Ret: none},
				{Name: "indexed source resolved at now", Assume: A(has, gOK, res), Ret: none},
				{Name: "two-sided target, two-sided source", Assume: A(has, gOK, res.Neg(), excl, two), Ret: none},
				{Name: "two-sided target, one-sided source", Assume: A(has, gOK, res.Neg(), excl, two.Neg()), Ret: [][]string{Vals(fpv), Vals("true")}},
				{Name: "one-sided target", Assume: A(has, gOK, res.Neg(), excl.Neg()), Ret: [][]string{Vals(fpv), Vals("true")}},
			})
			o.MinSites(6)
			return
		}
		fn := o.Fn("(*am/inhibit.InhibitRule).findEqualSourceAlert")
		res := LRe(`\(\*model\.Alert\)\.ResolvedAt\(`+regexpQuote(sg)+`#0(\.Alert)?, p1\)`, true)
		o.Table(fn, "find", []Row{
			{Name: "no indexed source", Assume: A(has.Neg()), Ret: [][]string{Vals("nil"), Vals("false")}},
			{Name: "indexed source vanished", Assume: A(has, gOK.Neg()), Ret: [][]string{Vals("nil"), Vals("false")}},
			{Name: "indexed source resolved at now", Assume: A(has, gOK, res), Ret: [][]string{Vals("nil"), Vals("false")}},
			{Name: "indexed source firing", Assume: A(has, gOK, res.Neg()), Ret: [][]string{Vals(sg + "#0"), Vals("true")}},
		})
		fe := "(*am/inhibit.InhibitRule).findEqualSourceAlert(recv, p0, p2)"
		found := L(fe+"#1", true)
		two := LRe(`\(am/pkg/labels\.Matchers\)\.Matches\(recv\.TargetMatchers, `+regexpQuote(fe)+`#0(\.Alert)?\.Labels\)`, true)
		fpv := "~\\(\\*model\\.Alert\\)\\.Fingerprint\\(" + regexpQuote(fe) + "#0(\\.Alert)?\\)"
		o.Table(he, "hasEqual", []Row{
			{Name: "no firing source", Assume: A(found.Neg()), Ret: [][]string{Vals("0"), Vals("false")}},
			{Name: "two-sided target, two-sided source", Assume: A(found, excl, two), Ret: [][]string{Vals("0"), Vals("false")}},
			{Name: "two-sided target, one-sided source", Assume: A(found, excl, two.Neg()), Ret: [][]string{Vals(fpv), Vals("true", fe+"#1")}},
			{Name: "one-sided target", Assume: A(found, excl.Neg()), Ret: [][]string{Vals(fpv), Vals("true", fe+"#1")}},
		})
		o.MinSites(8)
	})

	reg("C03", "C03.7", "T8", "completeness of the negative verdict: after rejecting the single indexed candidate the lookup scans the cached sources, or the index is re-elected on self-update and on GC", func(o *Ob) {
		e := o.E
		find := o.Fn(lookupFn(o))
		he := o.Fn("(*am/inhibit.InhibitRule).hasEqual")
		ui := o.Fn("(*am/inhibit.InhibitRule).updateIndex")
		gc := o.Fn("(*am/inhibit.InhibitRule).gcCallback")
		o.SiteS("lookup: " + fnName(find) + " / " + fnName(he))
		o.SiteS("index maintenance: " + fnName(ui) + " / " + fnName(gc))
		lookupScans := scansSourceCache(e, find) || scansSourceCache(e, he)
		reelect := scansSourceCache(e, ui) && scansSourceCache(e, gc)
		o.Note("lookup scans cache: %v; index re-elected on self-update and GC: %v", lookupScans, reelect)
		if lookupScans || reelect {
			o.Check(true, "", "", nil)
			return
		}
		// identify the rejecting exits for the report
		var rej []string
		for _, ret := range (&Walk{Fn: find}).FromEntry().Returns() {
			if e.X(find, ret.Results[1]) == "false" && !e.OnlyUnder(ret, LRe(`\(\*am/inhibit\.index\)\.Get\(.*\)#1`, false)) {
				rej = append(rej, e.InstrPos(ret))
			}
		}
		o.Fail("single-candidate|(*am/inhibit.InhibitRule).findEqualSourceAlert", "the rule is existential over all firing sources with equal label values, but the index keeps one fingerprint per value and the lookup answers 'no source' after rejecting that one candidate (resolved / vanished / two-sided; exits at "+strings.Join(rej, ", ")+") without scanning the other cached sources; updateIndex does not re-elect when the indexed alert itself changes and gcCallback deletes the entry unconditionally. Sources A (ends +10m) and B (ends +5m) share equal labels; A resolves ⇒ the target is reported un-inhibited although B still fires", find.Blocks[0].Instrs[0])
		o.MinSites(2)
	})

	reg("C03", "C03.8", "T6", "updateIndex takeover table: empty slot → take; same alert → keep; indexed alert vanished → take; indexed alert resolved by the new alert's end time → take; otherwise keep", func(o *Ob) {
		_ = o.E
		fn := o.Fn("(*am/inhibit.InhibitRule).updateIndex")
		key := "(*am/inhibit.InhibitRule).fingerprintEquals(recv, p0.Alert.Labels)"
		ig := "(*am/inhibit.index).Get(recv.sindex, " + key + ")"
		sg := "(*am/store.Alerts).Get(recv.scache, " + ig + "#0)"
		has := L(ig+"#1", true)
		same := LRe(`\(`+regexpQuote(ig)+`#0 == \(\*model\.Alert\)\.Fingerprint\(p0(\.Alert)?\)\)|\(\(\*model\.Alert\)\.Fingerprint\(p0(\.Alert)?\) == `+regexpQuote(ig)+`#0\)`, true)
		gOK := L("("+sg+"#1 == nil)", true)
		outlived := LRe(`\(\*model\.Alert\)\.ResolvedAt\(`+regexpQuote(sg)+`#0(\.Alert)?, p0(\.Alert)?\.EndsAt\)`, true)
		isSet := IsCall("(*am/inhibit.index).Set")
		o.Table(fn, "updateIndex", []Row{
			{Name: "empty slot", Assume: A(has.Neg()), Must: []func(ssa.Instruction) bool{isSet}},
			{Name: "same alert", Assume: A(has, same), Never: []func(ssa.Instruction) bool{isSet}},
			{Name: "indexed alert vanished", Assume: A(has, same.Neg(), gOK.Neg()), Must: []func(ssa.Instruction) bool{isSet}},
			{Name: "indexed alert ends before the new one", Assume: A(has, same.Neg(), gOK, outlived), Must: []func(ssa.Instruction) bool{isSet}},
			{Name: "indexed alert outlives the new one", Assume: A(has, same.Neg(), gOK, outlived.Neg()), Never: []func(ssa.Instruction) bool{isSet}},
		})
		o.MinSites(4)
	})

	reg("C03", "C03.9", "T1", "the source cache forgets only resolved alerts and hands exactly the removed ones to the index GC", func(o *Ob) {
		e := o.E
		fn := o.Fn("(*am/store.Alerts).gcAlerts")
		res := LRe(`\(\*model\.Alert\)\.Resolved\(next\(range\(recv\.alerts\)\)#2(\.Alert)?\)`, true)
		var del ssa.Instruction
		for _, in := range AllInstrs(fn) {
			if isBuiltinCall("delete")(in) {
				del = in
			}
		}
		o.Require(del != nil, "delete", "gcAlerts no longer deletes", nil)
		o.Site(del, "gc delete")
		o.Guarded(del, "gc-guard", "garbage collecting an alert", res)
		o.Check(e.X(fn, del.(*ssa.Call).Call.Args[1]) == "next(range(recv.alerts))#1", "gc-key", "the deleted alert must be the one tested", del)
		for _, rs := range e.ResultStores(fn, 0) {
			_, parts := e.AppendParts(rs.Val)
			for _, p := range parts {
				o.Guarded(p.Call, "gc-result-guard", "reporting an alert as collected", res)
				o.Check(e.X(fn, p.V) == "next(range(recv.alerts))#2", "gc-result", "the reported alert must be the deleted one", p.Call)
			}
		}
		g := o.Fn("(*am/store.Alerts).GC")
		cb := 0
		for _, in := range AllInstrs(g) {
			if c, ok := in.(*ssa.Call); ok && strings.HasPrefix(e.X(g, c), "dyn(fn=recv.gcCallback") {
				cb++
				o.Check(e.Arg(c, 0) == "(*am/store.Alerts).gcAlerts(recv)", "gc-callback-arg", "the GC callback must receive exactly the collected alerts", c)
			}
		}
		o.Check(cb == 1, "gc-callback", "the store's GC no longer informs its callback", nil)
		nr := o.Fn("am/inhibit.NewInhibitRule")
		sc := o.One(e.Calls(nr, "(*am/store.Alerts).SetGCCallback"), "wire", "the rule must wire its index GC to the source cache", nr)
		o.Check(strings.Contains(e.Arg(sc, 1), "gcCallback"), "wire-arg", "the cache's GC callback must be the rule's gcCallback", sc)
		o.MinSites(1)
	})
}

// inhibitRuleConstructionRule: the rule the inhibitor evaluates is the configured one: each side's matcher list is
// exactly the legacy equality matchers, the legacy regexp matchers and the new-style matchers of that side, and the
// equal set holds every configured label name.
func inhibitRuleConstructionRule(o *Ob) {
	e := o.E
	fn := o.Fn("am/inhibit.NewInhibitRule")
	cr := `&cr:am/config/common\.InhibitRule\.`
	for _, side := range []string{"Source", "Target"} {
		sts := e.StoresToField(fn, "am/inhibit.InhibitRule", side+"Matchers")
		if !o.Check(len(sts) == 1, "matchers-store|"+side, "the rule's "+side+" matchers must be set once", fnFirst(fn)) {
			continue
		}
		o.Site(sts[0], side+" matchers of the rule")
		_, parts := e.AppendParts(sts[0].Val)
		want := map[string]string{
			"equality": `am/pkg/labels\.NewMatcher\(0, next\(range\(` + cr + side + `Match\)\)#1, next\(range\(` + cr + side + `Match\)\)#2\)#0`,
			"regexp":   `am/pkg/labels\.NewMatcher\(2, next\(range\(` + cr + side + `MatchRE\)\)#1, \(\*regexp\.Regexp\)\.String\(next\(range\(` + cr + side + `MatchRE\)\)#2(\.Regexp)?\)\)#0`,
			"matchers": cr + side + `Matchers`,
		}
		seen := map[string]bool{}
		for _, p := range parts {
			s := e.X(fn, p.V)
			hit := ""
			for k, re := range want {
				if regexpMatch(re, s) && (k == "matchers") == p.Spread {
					hit = k
				}
			}
			if o.Check(hit != "", "matchers-part|"+side, "the "+side+" matchers of a rule can hold "+clip(s)+", which is not one of the configured "+side+" matchers", p.Call) {
				seen[hit] = true
				if l := e.LoopOf(p.Call); l != nil && hit != "matchers" {
					o.Check(!loopBackWithout(o, l, IsInstr(p.Call), nil) && !leavesLoopAlive(e, l), "matchers-skip|"+side+"|"+hit, "a configured "+hit+" matcher can be left out", p.Call)
				}
			}
		}
		for k := range want {
			o.Check(seen[k], "matchers-missing|"+side+"|"+k, "the configured "+side+" "+k+" matchers are not part of the rule", sts[0])
		}
	}
	sts := e.StoresToField(fn, "am/inhibit.InhibitRule", "Equal")
	if o.Check(len(sts) == 1, "equal-store", "the rule's equal labels must be set once", fnFirst(fn)) {
		mv := e.X(fn, sts[0].Val)
		n := 0
		for _, in := range AllInstrs(fn) {
			if m, ok := in.(*ssa.MapUpdate); ok && e.X(fn, m.Map) == mv {
				n++
				k := e.X(fn, m.Key)
				o.Check(regexpMatch(`(conv:model\.LabelName\()?`+cr+`Equal\[i\]\)?`, k), "equal-key", "the equal set must hold the configured names, holds "+k, m)
				if l := e.LoopOf(m); o.Check(l != nil, "equal-loop", "the equal set must be filled from all configured names", m) {
					coll, _ := e.RangeOver(l)
					o.Check(regexpMatch(cr+"Equal", coll) && len(e.EarlyExits(l)) == 0 && !loopBackWithout(o, l, IsInstr(m), nil), "equal-all", "a configured equal label can be left out", m)
				}
			}
		}
		o.Check(n == 1, "equal-fill", "the equal set is not filled from the configuration", sts[0])
	}
	// what is built from is what was configured: the loader validates an inhibition rule but does not rewrite it
	for _, n := range []string{"(*am/config/common.InhibitRule).UnmarshalYAML", "(*am/config/common.InhibitRule).UnmarshalJSON"} {
		uf := e.byName[long(n)]
		if uf == nil {
			o.Check(!strings.HasSuffix(n, "YAML"), "config-loader", n+" not found", nil)
			continue
		}
		o.Site(fnFirst(uf), n+": validates only")
		for _, w := range e.WritesThroughParam(uf, 0, 1) {
			o.Fail("config-rewritten|"+n, "the loader changes a decoded inhibition rule ("+w.What+"): the rule evaluated is no longer the one configured", w.Instr)
		}
		o.Checks++
		o.Passed++
	}
	// NewInhibitor builds one rule per configured rule
	ni := o.Fn("am/inhibit.NewInhibitor")
	c := o.One(e.Calls(ni, "am/inhibit.NewInhibitRule"), "rules", "NewInhibitor must build the rules", ni)
	o.Check(e.Arg(c, 0) == "p1[i]", "rules-arg", "each rule must be built from the configured rule of the iteration, built from "+e.Arg(c, 0), c)
	if l := e.LoopOf(c); o.Check(l != nil, "rules-loop", "rules must be built in a loop over the configuration", c) {
		coll, _ := e.RangeOver(l)
		o.Check(coll == "p1" && len(e.EarlyExits(l)) == 0 && !loopBackWithout(o, l, IsInstr(c), nil), "rules-all", "a configured inhibition rule can be left out", c)
		// and kept: appended to the inhibitor's rule list in the same iteration
		var keep ssa.Instruction
		for _, st := range e.StoresToField(ni, "am/inhibit.Inhibitor", "rules") {
			_, parts := e.AppendParts(st.Val)
			for _, p := range parts {
				if e.X(ni, p.V) == e.X(ni, c.(*ssa.Call)) {
					keep = st
				}
			}
		}
		if o.Check(keep != nil, "rules-kept", "the rules built are not added to the inhibitor's rule list", c) {
			o.Check(!loopBackWithout(o, l, IsInstr(keep), nil), "rules-kept-all", "a rule can be built without being added to the inhibitor's rule list", keep)
		}
	}
}

func init() {
	reg("C03", "C03.16", "T8,T11", "the rules evaluated are the configured ones: each side's matchers = legacy equality + legacy regexp + new-style matchers of that side, equal set = all configured names, one rule per configured rule", func(o *Ob) {
		inhibitRuleConstructionRule(o)
		o.MinSites(2)
	})
}

// leavesLoopAlive: the loop can be left early on a path that still reaches a return (an exit into panic does not count).
func leavesLoopAlive(e *Eng, l *Loop) bool {
	for _, ex := range e.EarlyExits(l) {
		b := ex.Block()
		for si, s := range b.Succs {
			if !l.Blocks[s.Index] {
				if len((&Walk{Fn: l.Fn}).FromEdge(b, si).Returns()) > 0 {
					return true
				}
			}
		}
	}
	return false
}

// sourceIndexCellRule: the inhibitor's per-rule index maps the fingerprint of the equal labels to one source alert.
// It is a plain cell per key: Set files the given value under the given key, Get reads that key, Delete removes it.
func sourceIndexCellRule(o *Ob) {
	e := o.E
	set := o.Fn("(*am/inhibit.index).Set")
	n := 0
	for _, in := range AllInstrs(set) {
		if m, ok := in.(*ssa.MapUpdate); ok {
			n++
			o.Site(m, "index.Set")
			o.Check(e.X(set, m.Map) == "recv.items" && e.X(set, m.Key) == "p0" && e.X(set, m.Value) == "p1", "index-set", "index.Set must file the given value under the given key, files "+e.X(set, m.Value)+" under "+e.X(set, m.Key), m)
			o.Check(len((&Walk{Fn: set, Barrier: IsInstr(m)}).FromEntry().Returns()) == 0, "index-set-skipped", "index.Set can return without filing", m)
		}
	}
	o.Check(n == 1, "index-set-site", "index.Set must write the map in one place", fnFirst(set))
	get := o.Fn("(*am/inhibit.index).Get")
	o.Site(fnFirst(get), "index.Get")
	rg := (&Walk{Fn: get}).FromEntry()
	for _, ret := range rg.Returns() {
		v0, v1 := e.ValStrs(get, e.RetVals(rg, ret, 0)), e.ValStrs(get, e.RetVals(rg, ret, 1))
		ok := len(v0) >= 1 && len(v1) >= 1
		for _, v := range v0 {
			ok = ok && (v == "recv.items[p0]#0" || v == "phi(cyc|recv.items[p0]#0)")
		}
		for _, v := range v1 {
			ok = ok && (v == "recv.items[p0]#1" || v == "phi(cyc|recv.items[p0]#1)")
		}
		o.Check(ok, "index-get", "index.Get must return what is filed under the given key, returns "+strings.Join(v0, "|")+", "+strings.Join(v1, "|"), ret)
	}
	del := o.Fn("(*am/inhibit.index).Delete")
	d := 0
	for _, in := range AllInstrs(del) {
		if c, ok := in.(*ssa.Call); ok {
			if b, isB := c.Call.Value.(*ssa.Builtin); isB && b.Name() == "delete" {
				d++
				o.Site(c, "index.Delete")
				o.Check(e.X(del, c.Call.Args[0]) == "recv.items" && e.X(del, c.Call.Args[1]) == "p0", "index-delete", "index.Delete must remove the given key", c)
			}
		}
	}
	o.Check(d == 1, "index-delete-site", "index.Delete no longer removes the entry", fnFirst(del))
	o.LockedAccesses("am/inhibit.index", "items", "mtx", map[string]string{"am/inhibit.newIndex": "constructor"})
}

func init() {
	reg("C03", "C03.18", "T3,T5", "the source index is a cell per equal-labels key: Set files the given fingerprint under the given key, Get reads that key, Delete removes it, all under the index lock", func(o *Ob) {
		sourceIndexCellRule(o)
		o.MinSites(3)
	})
}

// lookupFn: the function that looks the equal source up in the index: findEqualSourceAlert in the reference tree, or
// hasEqual when the lookup was folded into its only caller.
func lookupFn(o *Ob) string {
	if o.E.byName[long("(*am/inhibit.InhibitRule).findEqualSourceAlert")] != nil {
		return "(*am/inhibit.InhibitRule).findEqualSourceAlert"
	}
	return "(*am/inhibit.InhibitRule).hasEqual"
}
