package main

import (
	"go/token"
	"go/types"
	"golang.org/x/tools/go/ssa"
	"strings"
)

// Sources computes the backward data-dependence closure of v inside its
// function (and through captured variables): the set of values v is computed
// from, looking through phis, loads of local cells (all stores into the cell or
// its elements/fields), appends, slicing, indexing, field selection, tuple
// extraction, conversions and range iteration.  Calls are leaves unless
// throughCalls is set, in which case their arguments are followed too.
func (e *Eng) Sources(v ssa.Value, throughCalls bool) map[ssa.Value]bool {
	seen := map[ssa.Value]bool{}
	var rec func(v ssa.Value)
	storesInto := func(a ssa.Value) {
		// all stores into alloc a, its fields and elements (also via closures)
		var visit func(addr ssa.Value)
		vis := map[ssa.Value]bool{}
		visit = func(addr ssa.Value) {
			if vis[addr] {
				return
			}
			vis[addr] = true
			refs := addr.Referrers()
			if refs == nil {
				return
			}
			for _, r := range *refs {
				switch r := r.(type) {
				case *ssa.Store:
					if r.Addr == addr {
						rec(r.Val)
					}
				case *ssa.FieldAddr:
					visit(r)
				case *ssa.IndexAddr:
					visit(r)
				case *ssa.UnOp:
					// the cell holds a slice: stores into its elements go through the loaded value
					if rr := r.Referrers(); rr != nil && r.Op.String() == "*" {
						for _, u := range *rr {
							if ia, ok := u.(*ssa.IndexAddr); ok && ia.X == ssa.Value(r) {
								visit(ia)
							}
						}
					}
				case *ssa.Slice:
					// slice of an array cell: element stores were through IndexAddr
				case *ssa.MakeClosure:
					fn := r.Fn.(*ssa.Function)
					for i, b := range r.Bindings {
						if b == addr && i < len(fn.FreeVars) {
							visit(fn.FreeVars[i])
						}
					}
				}
			}
		}
		visit(a)
	}
	rec = func(v ssa.Value) {
		if v == nil || seen[v] {
			return
		}
		seen[v] = true
		switch x := v.(type) {
		case *ssa.Phi:
			for _, ed := range x.Edges {
				rec(ed)
			}
		case *ssa.UnOp:
			rec(x.X)
		case *ssa.Alloc:
			storesInto(x)
		case *ssa.FreeVar:
			if b := freeVarBinding(x); b != nil {
				rec(b)
			}
		case *ssa.FieldAddr:
			rec(x.X)
		case *ssa.Field:
			rec(x.X)
		case *ssa.IndexAddr:
			rec(x.X)
		case *ssa.Index:
			rec(x.X)
		case *ssa.Lookup:
			rec(x.X)
		case *ssa.Slice:
			rec(x.X)
		case *ssa.Extract:
			rec(x.Tuple)
		case *ssa.Next:
			rec(x.Iter)
		case *ssa.Range:
			rec(x.X)
		case *ssa.ChangeType:
			rec(x.X)
		case *ssa.Convert:
			rec(x.X)
		case *ssa.MakeInterface:
			rec(x.X)
		case *ssa.ChangeInterface:
			rec(x.X)
		case *ssa.TypeAssert:
			rec(x.X)
		case *ssa.BinOp:
			rec(x.X)
			rec(x.Y)
		case *ssa.Call:
			if b, ok := x.Call.Value.(*ssa.Builtin); ok {
				switch b.Name() {
				case "append", "len", "cap", "min", "max", "copy":
					for _, a := range x.Call.Args {
						rec(a)
					}
				}
				return
			}
			if throughCalls {
				if x.Call.IsInvoke() {
					rec(x.Call.Value)
				}
				for _, a := range x.Call.Args {
					rec(a)
				}
			}
		}
	}
	rec(v)
	return seen
}

// DerivesFrom reports whether v is computed from a value satisfying pred.
func (e *Eng) DerivesFrom(v ssa.Value, throughCalls bool, pred func(ssa.Value) bool) bool {
	for s := range e.Sources(v, throughCalls) {
		if pred(s) {
			return true
		}
	}
	return false
}

// ResultStore is a point where result #idx of fn gets its value: either a
// Return with a direct value, or a store into the spilled result cell.
type ResultStore struct {
	Instr ssa.Instruction
	Val   ssa.Value
}

// ResultStores lists where result idx of fn is assigned.
func (e *Eng) ResultStores(fn *ssa.Function, idx int) []ResultStore {
	var out []ResultStore
	cells := map[*ssa.Alloc]bool{}
	for _, in := range AllInstrs(fn) {
		ret, ok := in.(*ssa.Return)
		if !ok || idx >= len(ret.Results) {
			continue
		}
		v := ret.Results[idx]
		var spill *ssa.Alloc
		// value is a phi / load of the spilled cell?
		var find func(v ssa.Value, depth int)
		find = func(v ssa.Value, depth int) {
			if depth > 4 || spill != nil {
				return
			}
			switch x := v.(type) {
			case *ssa.UnOp:
				if a, ok := x.X.(*ssa.Alloc); ok {
					spill = a
				}
			case *ssa.Phi:
				for _, ed := range x.Edges {
					find(ed, depth+1)
				}
			}
		}
		find(v, 0)
		if spill != nil {
			cells[spill] = true
			continue
		}
		out = append(out, ResultStore{ret, v})
	}
	for a := range cells {
		if refs := a.Referrers(); refs != nil {
			for _, r := range *refs {
				if st, ok := r.(*ssa.Store); ok && st.Addr == a {
					out = append(out, ResultStore{st, st.Val})
				}
			}
		}
	}
	return out
}

// VariadicCalls returns, for a call whose last argument is a variadic slice
// built in place, the values stored into it.
func VariadicElems(ci ssa.CallInstruction) []ssa.Value {
	args := ci.Common().Args
	if len(args) == 0 {
		return nil
	}
	els, _ := varargElems(args[len(args)-1])
	return els
}

// ParamWrite is a write into memory reachable from a parameter.
type ParamWrite struct {
	Instr ssa.Instruction
	What  string
}

// WritesThroughParam lists the instructions of fn (and of the module functions it calls statically, to the given
// depth, with the argument flow followed) that store into memory derived from parameter idx: stores through
// its fields / elements, and calls of the standard in-place mutators (sort, slices.Sort*, slices.Reverse, copy)
// on such memory.
func (e *Eng) WritesThroughParam(fn *ssa.Function, idx int, depth int) []ParamWrite {
	var out []ParamWrite
	if idx >= len(fn.Params) {
		return out
	}
	root := fn.Params[idx]
	derives := func(v ssa.Value) bool {
		return addrFrom(v, root, map[ssa.Value]bool{}, 0)
	}
	mutators := map[string]int{"sort.Slice": 0, "sort.SliceStable": 0, "sort.Sort": 0, "sort.Stable": 0, "sort.Strings": 0, "sort.Ints": 0,
		"slices.Sort": 0, "slices.SortFunc": 0, "slices.SortStableFunc": 0, "slices.Reverse": 0}
	for _, in := range AllInstrs(fn) {
		switch x := in.(type) {
		case *ssa.Store:
			switch x.Addr.(type) {
			case *ssa.FieldAddr, *ssa.IndexAddr:
				if derives(x.Addr) {
					out = append(out, ParamWrite{in, "store to " + e.X(fn, x.Addr)})
				}
			}
		case *ssa.MapUpdate:
			if derives(x.Map) {
				out = append(out, ParamWrite{in, "map write to " + e.X(fn, x.Map)})
			}
		case *ssa.Call:
			cn := calleeName(&x.Call)
			if b, ok := x.Call.Value.(*ssa.Builtin); ok {
				if (b.Name() == "copy" || b.Name() == "clear" || b.Name() == "delete") && len(x.Call.Args) > 0 && derives(x.Call.Args[0]) {
					out = append(out, ParamWrite{in, b.Name() + " on " + e.X(fn, x.Call.Args[0])})
				}
				continue
			}
			if ai, ok := mutators[cn]; ok && ai < len(x.Call.Args) && derives(x.Call.Args[ai]) {
				out = append(out, ParamWrite{in, cn + " on " + e.X(fn, x.Call.Args[ai])})
				continue
			}
			if depth > 0 {
				if c := x.Call.StaticCallee(); c != nil && strings.HasPrefix(fnPkgPath(c), Mod) && len(c.Blocks) > 0 {
					for ai, a := range x.Call.Args {
						if derives(a) && ai < len(c.Params) {
							for _, w := range e.WritesThroughParam(c, ai, depth-1) {
								out = append(out, ParamWrite{w.Instr, w.What + " (via " + fnName(c) + ")"})
							}
						}
					}
				}
			}
		}
	}
	return out
}

// addrFrom reports whether the memory v designates (v an address, slice, map or pointer) is memory reachable from
// root: through field and element addresses, slicing, loads of references stored there, phis and conversions.  A
// value copied out of that memory into a local (v := *p) is a different object: writes to the local's fields do not
// reach root.
func addrFrom(v, root ssa.Value, seen map[ssa.Value]bool, depth int) bool {
	if v == root {
		return true
	}
	if seen[v] || depth > 12 {
		return false
	}
	seen[v] = true
	isRef := func(t types.Type) bool {
		switch t.Underlying().(type) {
		case *types.Pointer, *types.Slice, *types.Map, *types.Chan, *types.Interface:
			return true
		}
		return false
	}
	switch x := v.(type) {
	case *ssa.FieldAddr:
		return addrFrom(x.X, root, seen, depth+1)
	case *ssa.IndexAddr:
		return addrFrom(x.X, root, seen, depth+1)
	case *ssa.Slice:
		return addrFrom(x.X, root, seen, depth+1)
	case *ssa.ChangeType:
		return addrFrom(x.X, root, seen, depth+1)
	case *ssa.Convert:
		return isRef(x.Type()) && addrFrom(x.X, root, seen, depth+1)
	case *ssa.MakeInterface:
		return isRef(x.X.Type()) && addrFrom(x.X, root, seen, depth+1)
	case *ssa.Phi:
		for _, ed := range x.Edges {
			if addrFrom(ed, root, seen, depth+1) {
				return true
			}
		}
	case *ssa.UnOp:
		if x.Op != token.MUL {
			return false
		}
		// a reference loaded from memory reachable from root, or from a local that holds such a reference
		if !isRef(x.Type()) {
			return false
		}
		if a, ok := x.X.(*ssa.Alloc); ok {
			for _, r := range *a.Referrers() {
				if st, ok := r.(*ssa.Store); ok && st.Addr == ssa.Value(a) && addrFrom(st.Val, root, seen, depth+1) {
					return true
				}
			}
			return false
		}
		return addrFrom(x.X, root, seen, depth+1)
	case *ssa.Field:
		return isRef(x.Type()) && addrFrom(x.X, root, seen, depth+1)
	case *ssa.Lookup:
		return isRef(x.Type()) && addrFrom(x.X, root, seen, depth+1)
	case *ssa.Extract:
		if nx, ok := x.Tuple.(*ssa.Next); ok {
			if rg, ok := nx.Iter.(*ssa.Range); ok {
				return isRef(x.Type()) && addrFrom(rg.X, root, seen, depth+1)
			}
		}
	}
	return false
}

// FieldAlternatives: v reads field f of a local struct variable E ("*(&E.f)").  E may have been filled as a whole from
// another local that was built field by field (a helper returning a struct, inlined).  Returns the renderings of the
// values f can hold, "zero" for the zero struct; nil when v is not such a read.
func (e *Eng) FieldAlternatives(fn *ssa.Function, v ssa.Value) []string {
	u, ok := v.(*ssa.UnOp)
	if !ok || u.Op != token.MUL {
		return nil
	}
	fa, ok := u.X.(*ssa.FieldAddr)
	if !ok {
		return nil
	}
	al, ok := fa.X.(*ssa.Alloc)
	if !ok {
		return nil
	}
	seen := map[*ssa.Alloc]bool{}
	var out []string
	var fromAlloc func(a *ssa.Alloc, depth int)
	fromAlloc = func(a *ssa.Alloc, depth int) {
		if seen[a] || depth > 4 {
			return
		}
		seen[a] = true
		for _, r := range *a.Referrers() {
			switch x := r.(type) {
			case *ssa.FieldAddr:
				if x.Field != fa.Field {
					continue
				}
				for _, r2 := range *x.Referrers() {
					if st, ok := r2.(*ssa.Store); ok && st.Addr == ssa.Value(x) {
						out = append(out, e.X(fn, st.Val))
					}
				}
			case *ssa.Store:
				if x.Addr != ssa.Value(a) {
					continue
				}
				for _, alt := range AltsOf(x.Val) {
					switch w := alt.V.(type) {
					case *ssa.UnOp:
						if src, ok := w.X.(*ssa.Alloc); ok && w.Op == token.MUL {
							fromAlloc(src, depth+1)
						}
					case *ssa.Const:
						out = append(out, "zero")
					}
				}
			}
		}
	}
	fromAlloc(al, 0)
	return out
}

// ownedValue decides whether v, the object a function writes to, is the function's own: allocated
// there, returned to it by one of the copying / decoding functions okCalls, its own parameter if the
// function is listed in ownParam, a local variable only ever given such values, or (wrapper != "")
// the object held in a field of an owned value of the wrapper type.  It returns "" if so, otherwise
// a description of where the object comes from.
func ownedValue(e *Eng, fn *ssa.Function, v ssa.Value, seen map[ssa.Value]bool, ownParam map[string]string, okCalls []string, wrapper string) string {
	rec := func(w ssa.Value) string { return ownedValue(e, fn, w, seen, ownParam, okCalls, wrapper) }
	if seen[v] {
		return ""
	}
	seen[v] = true
	switch x := v.(type) {
	case *ssa.Alloc:
		return ""
	case *ssa.Parameter:
		if _, ok := ownParam[fnName(fn)]; ok {
			return ""
		}
		return "its parameter " + x.Name()
	case *ssa.UnOp:
		if x.Op == token.MUL {
			// the variable's cell (a local, possibly captured): everything it is ever given
			if cell := cellOf(x.X); cell != nil {
				n := 0
				for _, r := range *cell.Referrers() {
					if st, ok := r.(*ssa.Store); ok && st.Addr == ssa.Value(cell) {
						n++
						if why := rec(st.Val); why != "" {
							return why
						}
					}
				}
				if n > 0 {
					return ""
				}
			}
			// the object inside a wrapper: as good as the wrapper
			if fa, ok := x.X.(*ssa.FieldAddr); ok && wrapper != "" && typeKey(fa.X.Type()) == wrapper {
				return rec(fa.X)
			}
			// an element of a list that one of the copying / building functions returned
			if ia, ok := x.X.(*ssa.IndexAddr); ok {
				if c, ok := ia.X.(*ssa.Call); ok {
					for _, k := range okCalls {
						if calleeName(&c.Call) == k {
							return ""
						}
					}
				}
			}
		}
	case *ssa.IndexAddr:
		// a struct held by value in a list made here
		if localValueSlot(x) {
			return ""
		}
	case *ssa.FieldAddr:
		// a struct held by value in a field is part of the object that holds it
		if ft := fieldTypeOf(x); ft != nil {
			if _, isStruct := ft.Underlying().(*types.Struct); isStruct {
				return rec(x.X)
			}
		}
	case *ssa.Extract:
		return rec(x.Tuple)
	case *ssa.Next:
		return rec(x.Iter)
	case *ssa.Range:
		return rec(x.X)
	case *ssa.Phi:
		for _, ed := range x.Edges {
			if why := rec(ed); why != "" {
				return why
			}
		}
		return ""
	case *ssa.TypeAssert:
		return rec(x.X)
	case *ssa.ChangeType:
		return rec(x.X)
	case *ssa.Call:
		cn := calleeName(&x.Call)
		for _, k := range okCalls {
			if cn == k {
				return "" // a copy, or objects decoded for this caller
			}
		}
	}
	return clip(e.X(fn, v))
}

func fieldTypeOf(fa *ssa.FieldAddr) types.Type {
	t := fa.X.Type()
	if p, ok := t.Underlying().(*types.Pointer); ok {
		t = p.Elem()
	}
	st, ok := t.Underlying().(*types.Struct)
	if !ok || fa.Field >= st.NumFields() {
		return nil
	}
	return st.Field(fa.Field).Type()
}
