package main

import (
	"encoding/json"
	"fmt"
	"os"
	"path/filepath"
	"runtime/debug"
	"sort"
	"strings"
	"time"

	"golang.org/x/tools/go/ssa"
)

// Rule is one obligation group of a property.
type Rule struct {
	Prop     string
	ID       string // "C07.1"
	Template string // "T1,T6"
	Desc     string
	Thorough bool // only in the thorough tier
	Run      func(o *Ob)
	Origin   string // for a cross-registered rule: the id it was registered under first
}

// obCache: results of rules by origin id, for runs that decide several properties in one process (the same rule
// registered under several properties is evaluated once; the engine and the tree do not change within a process).
var obCache = map[string]*Ob{}

var registry []Rule

func reg(prop, id, tmpl, desc string, run func(o *Ob)) {
	uniqueID(id)
	registry = append(registry, Rule{Prop: prop, ID: id, Template: tmpl, Desc: desc, Run: run})
}

// uniqueID: a rule id names one rule (obligation keys and known findings are keyed by it).
func uniqueID(id string) {
	for _, r := range registry {
		if r.ID == id {
			panic("amverif: rule id registered twice: " + id)
		}
	}
}

func regThorough(prop, id, tmpl, desc string, run func(o *Ob)) {
	registry = append(registry, Rule{Prop: prop, ID: id, Template: tmpl, Desc: desc, Thorough: true, Run: run})
}

// Violation is one failed obligation instance.
type Violation struct {
	Key    string `json:"key"` // stable: rule|function|detail (no line numbers)
	Rule   string `json:"rule"`
	Msg    string `json:"msg"`
	Pos    string `json:"pos"`
	Known  bool   `json:"known,omitempty"`
	Replay string `json:"replay,omitempty"`
}

// Ob collects the result of running one rule.
type Ob struct {
	R       *Rule
	E       *Eng
	Anchors []string
	Sites   []string
	Checks  int // individual obligations evaluated
	Passed  int
	Viol    []Violation
	Notes   []string
	minSite int
}

type abortRule struct{}

func (o *Ob) fail(key, msg, pos string) {
	k := o.R.ID + "|" + key
	for _, v := range o.Viol {
		if v.Key == k {
			return
		}
	}
	o.Viol = append(o.Viol, Violation{Key: k, Rule: o.R.ID, Msg: msg, Pos: pos})
}

// Fail records a violation at an instruction.
func (o *Ob) Fail(key, msg string, in ssa.Instruction) {
	o.Checks++
	pos := "?"
	if in != nil {
		pos = o.E.InstrPos(in)
	}
	o.fail(key, msg, pos)
}

// FailAt records a violation at a function.
func (o *Ob) FailAt(key, msg string, fn *ssa.Function) {
	o.Checks++
	pos := "?"
	if fn != nil {
		pos = o.E.Pos(fn.Pos())
	}
	o.fail(key, msg, pos)
}

// Check records one obligation: passes when ok, otherwise a violation.
func (o *Ob) Check(ok bool, key, msg string, in ssa.Instruction) bool {
	if ok {
		o.Checks++
		o.Passed++
		return true
	}
	o.Fail(key, msg, in)
	return false
}

func (o *Ob) CheckFn(ok bool, key, msg string, fn *ssa.Function) bool {
	if ok {
		o.Checks++
		o.Passed++
		return true
	}
	o.FailAt(key, msg, fn)
	return false
}

func (o *Ob) Note(format string, a ...any) { o.Notes = append(o.Notes, fmt.Sprintf(format, a...)) }

// Site records an inspected site (for evidence and vacuity floors).
func (o *Ob) Site(in ssa.Instruction, what string) {
	o.Sites = append(o.Sites, o.E.InstrPos(in)+" "+fnName(in.Parent())+": "+what)
}

func (o *Ob) SiteS(s string) { o.Sites = append(o.Sites, s) }

// MinSites sets the vacuity floor.
func (o *Ob) MinSites(n int) { o.minSite = n }

// Fn resolves an anchor function by canonical name; a missing anchor is a violation and aborts the rule.
func (o *Ob) Fn(name string) *ssa.Function {
	f := o.E.Func(name)
	if f == nil {
		o.fail("anchor-missing|"+name, "anchor function "+name+" does not exist any more: the mechanism this rule is anchored in is gone", "?")
		o.Checks++
		panic(abortRule{})
	}
	o.Anchors = append(o.Anchors, name+" @ "+o.E.Pos(f.Pos()))
	return f
}

// FnOpt resolves a function that may be absent.
func (o *Ob) FnOpt(name string) *ssa.Function { return o.E.Func(name) }

// Require aborts the rule with a violation when ok is false.
func (o *Ob) Require(ok bool, key, msg string, in ssa.Instruction) {
	if !o.Check(ok, key, msg, in) {
		panic(abortRule{})
	}
}

func (o *Ob) RequireFn(ok bool, key, msg string, fn *ssa.Function) {
	if !o.CheckFn(ok, key, msg, fn) {
		panic(abortRule{})
	}
}

// ---------------------------------------------------------------------------

type KnownFinding struct {
	Property string `json:"property"`
	Status   string `json:"status"` // "known" or "fixed"
	Key      string `json:"key"`
	What     string `json:"what"`
	Commit   string `json:"commit,omitempty"`
}

func loadKnown(path string) ([]KnownFinding, error) {
	b, err := os.ReadFile(path)
	if err != nil {
		if os.IsNotExist(err) {
			return nil, nil
		}
		return nil, err
	}
	var k struct {
		Findings []KnownFinding `json:"findings"`
	}
	if err := json.Unmarshal(b, &k); err != nil {
		return nil, err
	}
	return k.Findings, nil
}

// propInfo: static description per property used in the evidence.
type propInfo struct {
	Explanation string
	NotDecided  string
	Trusted     []string
	Assumptions []string
}

var propInfos = map[string]*propInfo{}

type ruleEvidence struct {
	ID          string   `json:"id"`
	Template    string   `json:"template"`
	Desc        string   `json:"desc"`
	Anchors     []string `json:"anchors,omitempty"`
	Sites       int      `json:"sites"`
	Obligations int      `json:"obligations"`
	Discharged  int      `json:"discharged"`
	Violated    int      `json:"violated"`
	Known       int      `json:"known"`
	SampleSites []string `json:"sample_sites,omitempty"`
	Notes       []string `json:"notes,omitempty"`
}

// runProperty runs all rules of a property and writes evidence; returns exit code.
func runProperty(e *Eng, prop, tier, outDir, verifDir string, seed int64, start time.Time, quiet bool) int {
	known, kerr := loadKnown(filepath.Join(verifDir, "known_findings.json"))
	if kerr != nil {
		fmt.Fprintf(os.Stderr, "amverif: cannot read known_findings.json: %v\n", kerr)
		return 2
	}
	var obs []*Ob
	nrules := 0
	for i := range registry {
		r := &registry[i]
		if r.Prop != prop {
			continue
		}
		if r.Thorough && tier != "thorough" {
			continue
		}
		nrules++
		origin := r.Origin
		if origin == "" {
			origin = r.ID
		}
		if c, ok := obCache[origin]; ok && c.E == e {
			cp := *c
			cp.R = r
			cp.Viol = nil
			for _, v := range c.Viol {
				v.Key = r.ID + strings.TrimPrefix(v.Key, c.R.ID)
				v.Rule = r.ID
				v.Known, v.Replay = false, ""
				cp.Viol = append(cp.Viol, v)
			}
			obs = append(obs, &cp)
			continue
		}
		o := &Ob{R: r, E: e}
		func() {
			defer func() {
				if x := recover(); x != nil {
					if _, ok := x.(abortRule); ok {
						return
					}
					st := string(debug.Stack())
					lines := strings.Split(st, "\n")
					where := ""
					for i, l := range lines {
						if strings.Contains(l, "rules_") && i+1 < len(lines) {
							where = strings.TrimSpace(lines[i+1])
							break
						}
					}
					o.fail("rule-panicked", fmt.Sprintf("the rule could not be evaluated on this tree (%v at %s): the anchored code no longer has the shape the rule can decide", x, where), "?")
					o.Checks++
				}
			}()
			r.Run(o)
		}()
		if len(o.Sites) < o.minSite {
			o.fail("vacuous", fmt.Sprintf("only %d site(s) matched, floor is %d: the rule would pass vacuously", len(o.Sites), o.minSite), "?")
			o.Checks++
		}
		obCache[origin] = o
		obs = append(obs, o)
	}
	if nrules == 0 {
		fmt.Fprintf(os.Stderr, "amverif: no rules registered for %s\n", prop)
		return 2
	}
	// type errors outside the tolerated ui embed error are violations
	var typeViol []Violation
	var tolerated []string
	var pkgsWithErr []string
	for p := range e.TypeErrs {
		pkgsWithErr = append(pkgsWithErr, p)
	}
	sort.Strings(pkgsWithErr)
	for _, p := range pkgsWithErr {
		for _, m := range e.TypeErrs[p] {
			if strings.HasSuffix(p, "/ui") && strings.Contains(m, "pattern app/dist") {
				tolerated = append(tolerated, short(p)+": "+m)
				continue
			}
			typeViol = append(typeViol, Violation{Key: "load|type-error|" + short(p), Rule: "load", Msg: "package does not type-check, no property can be shown on it: " + m, Pos: short(p)})
			break
		}
	}

	replayDir := filepath.Join(outDir, "replay")
	os.MkdirAll(replayDir, 0o755)
	// clear old replay files of this property
	if old, _ := filepath.Glob(filepath.Join(replayDir, prop+"-*.json")); len(old) > 0 {
		for _, f := range old {
			os.Remove(f)
		}
	}

	totalOb, totalPass, nViol, nKnown, nSites := 0, 0, 0, 0, 0
	var revs []ruleEvidence
	var samples []any
	var out []string
	vidx := 0
	handle := func(v *Violation) {
		for _, k := range known {
			if k.Property == prop && k.Status == "known" && k.Key == v.Key {
				v.Known = true
				nKnown++
				out = append(out, fmt.Sprintf("KNOWN-FINDING: property=%s %s [%s] %s", prop, k.What, v.Key, v.Pos))
				return
			}
		}
		nViol++
		vidx++
		rp := filepath.Join(replayDir, fmt.Sprintf("%s-%d.json", prop, vidx))
		v.Replay = rp
		b, _ := json.MarshalIndent(map[string]any{"property": prop, "rule": v.Rule, "key": v.Key, "site": v.Pos, "message": v.Msg,
			"replay": "bin/amverif explain " + rp}, "", " ")
		os.WriteFile(rp, b, 0o644)
		out = append(out, fmt.Sprintf("VIOLATION property=%s replay=%s", prop, rp))
		out = append(out, fmt.Sprintf("  rule %s at %s: %s", v.Key, v.Pos, v.Msg))
	}
	for i := range typeViol {
		handle(&typeViol[i])
	}
	for _, o := range obs {
		re := ruleEvidence{ID: o.R.ID, Template: o.R.Template, Desc: o.R.Desc, Anchors: o.Anchors, Sites: len(o.Sites),
			Obligations: o.Checks, Discharged: o.Passed, Notes: o.Notes}
		for i := range o.Viol {
			handle(&o.Viol[i])
			if o.Viol[i].Known {
				re.Known++
			} else {
				re.Violated++
			}
		}
		for i, s := range o.Sites {
			if i < 4 {
				re.SampleSites = append(re.SampleSites, s)
			}
		}
		if len(samples) < 12 && len(o.Sites) > 0 {
			samples = append(samples, map[string]any{"rule": o.R.ID, "template": o.R.Template, "obligation": o.R.Desc, "site": o.Sites[0]})
		}
		totalOb += o.Checks
		totalPass += o.Passed
		nSites += len(o.Sites)
		revs = append(revs, re)
	}
	if len(samples) == 0 {
		samples = append(samples, map[string]any{"note": "no site matched"})
	}
	pi := propInfos[prop]
	if pi == nil {
		pi = &propInfo{Explanation: "structural necessary conditions of " + prop}
	}
	nfuncs := len(e.allFuncs)
	cov := map[string]any{
		"explanation": pi.Explanation + " NOT DECIDED: " + pi.NotDecided,
		"obligations": totalOb,
		"discharged":  totalPass,
		"checker_cmd": fmt.Sprintf("./run.sh %s %s", prop, tier),
		"trusted_base": append([]string{"go/types + go/ssa (x/tools v0.29.0) model the source faithfully", "Go runtime and standard library contracts (sync, context, time, os.Rename, container/heap)",
			"prometheus/common/model, hashicorp/memberlist, protobuf, yaml.v2 are not analysed"}, pi.Trusted...),
		"rule":                "each rule is a structural necessary condition decided on the type-checked SSA of /repo's working tree for all paths of the anchored functions; an obligation is one (rule, site) pair evaluated; non-trivial = evaluated against at least one resolved site",
		"evaluations":         totalOb,
		"distinct_nontrivial": totalOb,
		"samples":             samples,
		"rules":               revs,
		"sites":               nSites,
		"packages_loaded":     len(e.Pkgs),
		"functions_analysed":  nfuncs,
		"go_version":          e.GoVer,
		"tolerated_errors":    tolerated,
		"known_findings":      nKnown,
		"transparent_helpers": e.InlineLog,
		"exhaustive":          false,
	}
	ev := map[string]any{
		"property_id": prop,
		"tier":        tier,
		"seed":        seed,
		"level":       "other",
		"coverage":    cov,
		"assumptions": append([]string{"no reflection or unsafe access to the anchored state (asserted for the anchored packages)", "the analysis is deterministic; seed is unused"}, pi.Assumptions...),
		"wall_s":      time.Since(start).Seconds(),
		"violations":  nViol,
	}
	b, _ := json.MarshalIndent(ev, "", " ")
	os.MkdirAll(outDir, 0o755)
	if err := os.WriteFile(filepath.Join(outDir, prop+".json"), b, 0o644); err != nil {
		fmt.Fprintf(os.Stderr, "amverif: cannot write evidence: %v\n", err)
		return 2
	}
	if !quiet {
		fmt.Printf("%s %s: packages=%d functions=%d rules=%d sites=%d obligations=%d discharged=%d violations=%d known=%d wall=%.1fs\n",
			prop, tier, len(e.Pkgs), nfuncs, len(obs), nSites, totalOb, totalPass, nViol, nKnown, time.Since(start).Seconds())
		for _, o := range obs {
			st := "ok"
			if len(o.Viol) > 0 {
				st = "FAIL"
			}
			fmt.Printf("  %-8s %-10s sites=%-3d ob=%-3d %s  %s\n", o.R.ID, o.R.Template, len(o.Sites), o.Checks, st, o.R.Desc)
		}
	}
	if !quiet {
		for _, l := range e.InlineLog {
			fmt.Println("  transparent helper: " + l)
		}
	}
	for _, l := range out {
		fmt.Println(l)
	}
	if nViol > 0 {
		return 1
	}
	return 0
}
