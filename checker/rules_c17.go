package main

import (
	"go/token"
	"go/types"
	"strings"

	"golang.org/x/tools/go/ssa"
)

// rejectsAfter: on every edge of fn asserting lit, no return with a nil error is reachable.
func (o *Ob) rejectsAfter(fn *ssa.Function, lit LitM, key, what string, accepting ...ssa.Instruction) {
	e := o.E
	n := 0
	idx := fn.Signature.Results().Len() - 1
	{
		for _, ec := range e.EdgesAsserting(fn, lit) {
			{
				n++
				r := (&Walk{Fn: fn}).FromEdgeCtx(ec)
				for _, acc := range accepting {
					o.Check(!r.Has(acc), key, what+": validation goes on to the accepting exit", acc)
				}
				for _, ret := range r.Returns() {
					for _, v := range e.ValStrs(fn, e.RetVals(r, ret, idx)) {
						o.Check(v != "nil", key, what+": the configuration is accepted (nil error reachable)", ret)
					}
				}
				for _, rs := range e.ResultStores(fn, idx) {
					if _, isRet := rs.Instr.(*ssa.Return); !isRet && r.Has(rs.Instr) {
						o.Check(!isNilConst(rs.Val), key, what+": the configuration is accepted (nil error reachable)", rs.Instr)
					}
				}
				o.SiteS(fnName(fn) + ": " + lit.Desc + " ⇒ error")
			}
		}
	}
	if n == 0 && o.tableRejects(fn, lit, accepting) {
		o.SiteS(fnName(fn) + ": " + lit.Desc + " ⇒ error (through a table of checks)")
		o.Checks++
		o.Passed++
		return
	}
	o.Check(n > 0, key+"|missing", what+": "+fnName(fn)+" no longer tests "+lit.Desc, nil)
}

// tableRejects: the condition is not branched on where it is computed but filed in a local table of checks
// ("{cond, message}" entries of an array literal) that a loop then goes through, returning an error for the first
// entry whose condition holds.  True when: the condition matched by lit is stored into a boolean field of an entry
// of such a table; a loop over the whole table tests that field of the entry of the iteration; the edge on which it
// holds reaches only error returns; and the accepting exits lie behind that loop.
func (o *Ob) tableRejects(fn *ssa.Function, lit LitM, accepting []ssa.Instruction) bool {
	e := o.E
	idx := fn.Signature.Results().Len() - 1
	for _, in := range AllInstrs(fn) {
		st, ok := in.(*ssa.Store)
		if !ok || !isBoolType(st.Val.Type()) {
			continue
		}
		fa, ok := st.Addr.(*ssa.FieldAddr)
		if !ok {
			continue
		}
		ia, ok := fa.X.(*ssa.IndexAddr)
		if !ok {
			continue
		}
		tbl, ok := ia.X.(*ssa.Alloc)
		if !ok {
			continue
		}
		arr, ok := tbl.Type().(*types.Pointer).Elem().Underlying().(*types.Array)
		if !ok {
			continue
		}
		if _, isK := ia.Index.(*ssa.Const); !isK || !lit.F(e.CondLit(fn, st.Val)) {
			continue
		}
		// the entry of an iteration: tbl[i] itself or a local copy of it
		entryOf := func(base ssa.Value) bool {
			if x, ok := base.(*ssa.IndexAddr); ok && x.X == ssa.Value(tbl) {
				return true
			}
			if r, ok := base.(*ssa.Alloc); ok {
				for _, ref := range *r.Referrers() {
					if s2, ok := ref.(*ssa.Store); ok && s2.Addr == ssa.Value(r) {
						switch v := s2.Val.(type) {
						case *ssa.UnOp:
							if x, ok := v.X.(*ssa.IndexAddr); ok && x.X == ssa.Value(tbl) {
								return true
							}
						case *ssa.Index:
							// ranging over the array by value: the array is loaded once, then indexed
							if u, ok := v.X.(*ssa.UnOp); ok && u.X == ssa.Value(tbl) {
								return true
							}
						}
					}
				}
			}
			return false
		}
		for _, b := range fn.Blocks {
			if len(b.Instrs) == 0 {
				continue
			}
			iff, isIf := b.Instrs[len(b.Instrs)-1].(*ssa.If)
			if !isIf {
				continue
			}
			u, ok := iff.Cond.(*ssa.UnOp)
			if !ok || u.Op != token.MUL {
				continue
			}
			fa2, ok := u.X.(*ssa.FieldAddr)
			if !ok || fa2.Field != fa.Field || !entryOf(fa2.X) {
				continue
			}
			l := e.LoopOf(iff)
			if l == nil {
				continue
			}
			// the whole table
			whole := false
			if hif, isH := l.Header.Instrs[len(l.Header.Instrs)-1].(*ssa.If); isH {
				whole = e.CondLit(fn, hif.Cond).Atom == "(i < "+itoa(int(arr.Len()))+")"
			}
			if c, _ := e.RangeOver(l); c == e.X(fn, tbl) || c == "var:"+tbl.Comment {
				whole = true
			}
			if !whole || loopBackWithout(o, l, IsInstr(iff), nil) {
				continue
			}
			// holding ⇒ error
			r := (&Walk{Fn: fn}).FromEdge(b, 0)
			bad := false
			for _, ret := range r.Returns() {
				for _, v := range e.ValStrs(fn, e.RetVals(r, ret, idx)) {
					if v == "nil" {
						bad = true
					}
				}
			}
			for _, acc := range accepting {
				if r.Has(acc) || !InstrDominates(l.Header.Instrs[0], acc) {
					bad = true
				}
			}
			if !bad && InstrDominates(st, l.Header.Instrs[0]) {
				return true
			}
		}
	}
	return false
}

func init() {
	propInfos["C17"] = &propInfo{
		Explanation: "Decides the structure of config validation and secrecy: (1) every well-formedness condition of the property is tested and its failing branch can only end in an error: root route present with receiver and without matchers/mute/active intervals, receiver names unique, time-interval names unique across both lists (one shared name set), every route's receiver and every referenced interval defined (checked recursively over all children), group_by without duplicates and without '...' mixed with labels, non-zero group/repeat interval, valid label names; Load uses strict decoding, rejects a missing route and 'continue' on the root; (2) every element of a YAML-decoded list of pointers is nil-checked before it is dereferenced (a null list entry must be an error, not a panic); (3) inline secrets are typed as secrets: every field X that has an X_file sibling has a masking type, and the masking types print the secret only under MarshalSecretValue; (4) the status API serves the marshalled configuration, never the raw input; (5) a rejected reload leaves the running configuration: no error exit of reloader.reload is reachable after its first live-state effect; the coordinator notifies subscribers only after a successful load; (6) the new inhibitor is running and loaded before it is published and before the new dispatcher starts; a time range prints as it parses (24:00 stays 24:00).",
		NotDecided:  "totality of the YAML library (no panic/hang inside yaml.v2), print/load equivalence of the marshalled form.",
	}

	reg("C17", "C17.1", "T1", "acceptance implies well-formedness: each violated condition can only end in an error (Config.UnmarshalYAML, Route.UnmarshalYAML, Load)", func(o *Ob) {
		e := o.E
		fn := o.Fn("(*am/config.Config).UnmarshalYAML")
		accept := o.One(e.Calls(fn, "am/config.checkTimeInterval"), "check-intervals", "referenced time intervals must be checked", fn)
		for _, c := range []struct {
			lit  LitM
			what string
		}{
			{L("(recv.Route == nil)", true), "a configuration without route"},
			{LRe(`\(len\(recv\.Route\.Receiver\) == 0\)|\(recv\.Route\.Receiver == ""\)`, true), "a root route without receiver"},
			{nonEmptyLit("recv.Route.Match"), "a root route with match"},
			{nonEmptyLit("recv.Route.MatchRE"), "a root route with match_re"},
			{nonEmptyLit("recv.Route.Matchers"), "a root route with matchers"},
			{nonEmptyLit("recv.Route.MuteTimeIntervals"), "a root route with mute time intervals"},
			{nonEmptyLit("recv.Route.ActiveTimeIntervals"), "a root route with active time intervals"},
			{LRe(`makemap:map\[string\]struct\{\}\[recv\.Receivers\[i\]\.Name\]#1`, true), "a duplicate receiver name"},
			{LRe(`makemap:map\[string\]struct\{\}\[recv\.MuteTimeIntervals\[i\]\.Name\]#1`, true), "a duplicate mute time interval name"},
			{LRe(`makemap:map\[string\]struct\{\}\[recv\.TimeIntervals\[i\]\.Name\]#1`, true), "a duplicate time interval name"},
			{LRe(`\(am/config\.checkReceiver\(recv\.Route, makemap:map\[string\]struct\{\}\) == nil\)`, false), "an undefined receiver"},
		} {
			o.rejectsAfter(fn, c.lit, "accept|"+c.what, c.what, accept)
		}
		// the final result is checkTimeInterval's verdict
		ct := accept
		o.Check(e.Arg(ct, 0) == "recv.Route", "check-intervals-root", "interval references must be checked from the root", ct)
		okPaths := 0
		for _, ret := range (&Walk{Fn: fn}).FromEntry().Returns() {
			v := e.X(fn, ret.Results[0])
			if v == "nil" {
				o.Fail("accept-unchecked", "Config.UnmarshalYAML can accept a configuration without checking the referenced time intervals", ret)
			}
			if v == e.X(fn, ct.(*ssa.Call)) {
				okPaths++
			}
		}
		o.Check(okPaths == 1, "accept-exit", "the only accepting exit must return checkTimeInterval's verdict", nil)
		// one shared name set for both interval lists; the set given to checkTimeInterval
		var lookups []*ssa.Lookup
		for _, in := range AllInstrs(fn) {
			if lk, ok := in.(*ssa.Lookup); ok && lk.CommaOk {
				k := e.X(fn, lk.Index)
				if strings.HasSuffix(k, "TimeIntervals[i].Name") || strings.HasSuffix(k, "TimeInterval.Name") {
					lookups = append(lookups, lk)
				}
			}
		}
		if o.Check(len(lookups) == 2, "interval-lookups", "both interval lists must be checked for duplicate names", nil) {
			o.Check(lookups[0].X == lookups[1].X, "interval-sets-split", "mute_time_intervals and time_intervals are checked against separate name sets: a name defined in both lists is accepted and one definition silently shadows the other", lookups[1])
			sets := e.ValsAt((&Walk{Fn: fn}).FromEntry(), ct, ct.Common().Args[1])
			o.Check(len(sets) == 1 && sets[0] == lookups[0].X, "interval-set-arg", "references must be checked against the same name set", ct)
			// every name is added to the set
			for _, lk := range lookups {
				l := e.LoopOf(lk)
				if l == nil {
					continue
				}
				add := func(in ssa.Instruction) bool {
					mu, ok := in.(*ssa.MapUpdate)
					return ok && mu.Map == lk.X
				}
				o.Check(!loopBackWithout(o, l, add, e.CutContradicting(L(e.X(fn, lk)+"#1", false))), "interval-name-unrecorded", "an interval name is not recorded in the name set", lk)
			}
		}
		// receiver names recorded
		cr := o.One(e.Calls(fn, "am/config.checkReceiver"), "check-receivers", "route receivers must be checked", fn)
		o.Check(e.Arg(cr, 0) == "recv.Route", "check-receivers-root", "receivers must be checked from the root", cr)
		// Route.UnmarshalYAML
		rf := o.Fn("(*am/config.Route).UnmarshalYAML")
		for _, c := range []struct {
			lit  LitM
			what string
		}{
			{L("(dyn(fn=p0, recv) == nil)", false), "a route that fails to decode"},
			{LRe(`\(\*regexp\.Regexp\)\.MatchString\(github\.com/prometheus/common/model\.LabelNameRE, next\(range\(recv\.Match\)\)#1\)`, false), "an invalid label name in match"},
			{L("am/matcher/compat.IsValidLabelName(next(range(recv.Labels))#1)", false), "an invalid route label name"},
			{L("am/matcher/compat.IsValidLabelName(recv.GroupByStr[i])", false), "an invalid group_by label name"},
			{L("makemap:map[model.LabelName]struct{}[recv.GroupBy[i]]#1", true), "a duplicate group_by label"},
			{L("(*recv.GroupInterval == 0)", true), "a zero group_interval"},
			{L("(*recv.RepeatInterval == 0)", true), "a zero repeat_interval"},
		} {
			o.rejectsAfter(rf, c.lit, "route-accept|"+c.what, c.what)
		}
		// '...' mixed with labels
		{
			mixed := []LitM{L("(len(recv.GroupBy) == 0)", false), L("recv.GroupByAll", true)}
			r := (&Walk{Fn: rf, Cut: e.CutContradicting(mixed...)}).FromEntry()
			n := 0
			for _, b := range rf.Blocks {
				for si := range b.Succs {
					if li, ok := e.EdgeLit(b, si); ok && mixed[1].F(li) && r.Block[b.Index] {
						n++
						rr := (&Walk{Fn: rf, Cut: e.CutContradicting(mixed...)}).FromEdge(b, si)
						for _, ret := range rr.Returns() {
							o.Check(e.X(rf, ret.Results[0]) != "nil", "route-accept|mixed", "group_by mixing '...' with labels is accepted", ret)
						}
					}
				}
			}
			o.Check(n > 0, "route-accept|mixed|missing", "Route.UnmarshalYAML no longer rejects '...' mixed with labels", nil)
		}
		// Load
		ld := o.Fn("am/config.Load")
		us := o.One(e.Calls(ld, "gopkg.in/yaml.v2.UnmarshalStrict"), "strict", "Load must decode strictly (unknown fields are errors)", ld)
		o.Site(us, "yaml.UnmarshalStrict")
		ux := e.X(ld, us.(*ssa.Call))
		o.rejectsAfter(ld, L("("+ux+" == nil)", false), "load|decode", "a configuration that fails to decode")
		o.rejectsAfter(ld, LRe(`\(&complit:am/config\.Config\.Route == nil\)`, true), "load|noroute", "an empty configuration")
		o.rejectsAfter(ld, LRe(`&complit:am/config\.Config\.Route\.Continue`, true), "load|continue", "continue on the root route")
		o.MinSites(20)
	})

	reg("C17", "C17.2", "T8", "checkReceiver / checkTimeInterval recurse into every child route and test every referenced name", func(o *Ob) {
		e := o.E
		for _, name := range []string{"am/config.checkReceiver", "am/config.checkTimeInterval"} {
			fn := o.Fn(name)
			rc := o.One(e.Calls(fn, name), "recurse|"+name, name+" must recurse into child routes", fn)
			o.Site(rc, name+" recursion")
			o.Check(e.Arg(rc, 0) == "p0.Routes[i]" && e.Arg(rc, 1) == "p1", "recurse-args|"+name, "the recursion must visit each child with the same name set", rc)
			l := e.LoopOf(rc)
			if o.Check(l != nil, "recurse-loop|"+name, "children are not visited in a loop", rc) {
				coll, kind := e.RangeOver(l)
				o.Check(coll == "p0.Routes" && kind == "index", "recurse-range|"+name, "every child route must be visited", rc)
				o.LoopExitsGuarded(l, "recurse-exit|"+name, "the walk over the children may only stop at a child's error", L("("+e.X(fn, rc.(*ssa.Call))+" == nil)", false))
				o.Check(!loopBackWithout(o, l, IsInstr(rc), nil), "recurse-skip|"+name, "a child route can be skipped", rc)
			}
			o.rejectsAfter(fn, L("("+e.X(fn, rc.(*ssa.Call))+" == nil)", false), "recurse-error|"+name, "an error in a child route")
		}
		cr := o.Fn("am/config.checkReceiver")
		o.rejectsAfter(cr, L("p1[p0.Receiver]#1", false), "undefined-receiver", "a route naming an undefined receiver")
		ct := o.Fn("am/config.checkTimeInterval")
		for _, f := range []string{"ActiveTimeIntervals", "MuteTimeIntervals"} {
			// the names of the list are looked up one by one, directly or through a literal list of the
			// route's name lists ([][]string{active, mute})
			lit := `\[(.*, )?p0\.` + f + `(, .*)?\]`
			key := `(p0\.` + f + `\[i\]|` + lit + `\[i\]\[i\])`
			o.rejectsAfter(ct, LRe(`p1\[`+key+`\]#1`, false), "undefined-interval|"+f, "a route naming an undefined interval in "+f)
			found := false
			for _, l := range e.Loops(ct) {
				coll, kind := e.RangeOver(l)
				if kind != "index" {
					continue
				}
				if coll == "p0."+f {
					found = true
				}
				if regexpMatch(lit+`\[i\]`, coll) {
					// the inner loop of the literal form: the outer one must visit every list of the literal
					for _, ol := range e.Loops(ct) {
						if ol.Header == l.Header || !ol.Blocks[l.Header.Index] {
							continue
						}
						oc, ok2 := e.RangeOver(ol)
						if ok2 == "index" && regexpMatch(lit, oc) {
							found = true
						}
						// an array literal is ranged with a constant bound: it must be the number of its lists
						if iff, isIf := ol.Header.Instrs[len(ol.Header.Instrs)-1].(*ssa.If); isIf {
							n := strings.Count(strings.TrimSuffix(coll, "[i]"), ", ") + 1
							if e.CondLit(ct, iff.Cond).Atom == "(i < "+itoa(n)+")" {
								found = true
							}
						}
					}
				}
			}
			o.Check(found, "interval-range|"+f, "every name in "+f+" must be checked", nil)
		}
		o.MinSites(5)
	})

	reg("C17", "C17.3", "T8", "no null list entry can crash the loader: every element of a YAML-decoded []*T is nil-checked before it is dereferenced or handed to a function that dereferences it", func(o *Ob) {
		nilElementRule(o)
		o.MinSites(10)
	})

	reg("C17", "C17.5", "T1", "no contradictory nil beliefs in the loader: a pointer that the same function tests against nil is not dereferenced on a path where that test did not establish it", func(o *Ob) {
		nilContradictionRule(o, "am/config")
		o.MinSites(5)
	})

	reg("C17", "C17.4", "T10", "inline secrets are typed as secrets: every field with an X_file sibling has a masking type", func(o *Ob) {
		secretTypingRule(o)
		o.MinSites(20)
	})

	reg("C17", "C17.9", "T11,T12", "the printed configuration loads back: a time range is printed as hour = minute/60 and minute%60 of its own bounds (24:00 stays 24:00), never through the clock formatter", timeRangePrintRule)
	reg("C15", "C15.9", "T6,T11,T9", "an interval specification is read as written: begin:end components in that order, names through tables that agree with the calendar's numbering, HH:MM as hour*60+minute, each value stored in its own field; reversed, empty and out-of-calendar ranges are rejected", intervalParseRule)
	reg("C15", "C15.6", "T11,T12", "a time range prints as it parses: hour = minute/60, minute = minute%60 of its own bounds (24:00 stays 24:00)", timeRangePrintRule)

	reg("C17", "C17.6", "T11,T3", "the status API serves the marshalled configuration; the raw input is only kept for Load and never served", func(o *Ob) {
		e := o.E
		h := o.Fn("(*am/api/v2.API).getStatusHandler")
		cs := o.One(e.Calls(h, "(am/config.Config).String"), "status-string", "the status handler must render the configuration with Config.String()", h)
		o.Site(cs, "Config.String()")
		s := o.Fn("(am/config.Config).String")
		m := o.One(e.Calls(s, "gopkg.in/yaml.v2.Marshal"), "marshal", "Config.String must marshal the configuration (secret types mask themselves)", s)
		o.Site(m, "yaml.Marshal(c)")
		for _, a := range e.Accesses("am/config.Config", "original") {
			who := fnName(a.Fn)
			o.Site(a.Instr, "Config.original in "+who)
			ok := who == "am/config.Load" || who == "am/config.LoadFile" || who == "(*am/config.Coordinator).Reload" || strings.HasPrefix(who, "(*am/config.Coordinator)") || who == "am/config.md5HashAsMetricValue"
			o.Check(ok, "raw-exposed|"+who, who+" uses the raw configuration text (secrets included)", a.Instr)
		}
		o.MinSites(3)
	})

	reg("C17", "C17.7", "T2", "a rejected reload leaves the running configuration in force: no error exit after the first live-state effect; subscribers run only after a successful load", func(o *Ob) {
		e := o.E
		fn := o.Fn("(*am/app.reloader).reload")
		effect := AnyOf(
			IsCall("(*am/dispatch.Dispatcher).Stop"), IsCall("(*am/inhibit.Inhibitor).Stop"),
			IsCall("(*am/api.API).Update"), IsCall("(*am/eventrecorder.Recorder).ApplyConfig"), IsCall("(am/eventrecorder.Recorder).ApplyConfig"),
			IsCall("~\\(\\*sync/atomic\\.Pointer\\[.*\\]\\)\\.Store"),
		)
		n := 0
		for _, in := range AllInstrs(fn) {
			if !effect(in) {
				continue
			}
			n++
			o.Site(in, "live-state effect "+CalleeOf(in))
			r := (&Walk{Fn: fn}).After(in)
			for _, ret := range r.Returns() {
				for _, v := range e.ValStrs(fn, e.RetVals(r, ret, 0)) {
					o.Check(v == "nil", "error-after-effect|"+CalleeOf(in), "reload can fail with "+v+" after "+CalleeOf(in)+" already changed the running instance: the old configuration is gone but the new one is not in force", ret)
				}
			}
		}
		o.Check(n >= 5, "effects", "expected the stop/apply/publish effects of reload, found "+itoa(n), nil)
		// coordinator
		rl := o.Fn("(*am/config.Coordinator).Reload")
		lf := o.One(e.Calls(rl, "am/config.LoadFile"), "coord-load", "the coordinator must load the file", rl)
		o.Check(e.Arg(lf, 0) == "recv.configFilePath", "coord-load-arg", "the coordinator must load its configured file", lf)
		// (the notification helper is read through: the subscribers are called in Reload itself)
		var ns *ssa.Call
		for _, in := range AllInstrs(rl) {
			if c, ok := in.(*ssa.Call); ok && !c.Call.IsInvoke() && c.Call.StaticCallee() == nil && e.X(rl, c.Call.Value) == "recv.subscribers[i]" {
				o.Check(ns == nil, "coord-notify", "subscribers are notified at more than one site of Reload", c)
				ns = c
			}
		}
		o.Require(ns != nil, "coord-notify", "the coordinator must notify subscribers", fnFirst(rl))
		o.Site(ns, "subscriber(config)")
		o.Check(e.Arg(ns, 0) == "recv.config", "coord-notify-arg", "subscribers must be handed the coordinator's configuration, get "+e.Arg(ns, 0), ns)
		if nl := e.LoopOf(ns); o.Check(nl != nil, "coord-notify-loop", "subscribers are not notified in a loop", ns) {
			coll, kind := e.RangeOver(nl)
			o.Check(coll == "recv.subscribers" && kind == "index", "coord-notify-range", "every subscriber must be notified", ns)
			o.LoopExitsGuarded(nl, "coord-notify-exit", "the notification may only stop at a subscriber that rejects the configuration", L("("+e.X(rl, ns)+" == nil)", false))
			o.Check(!loopBackWithout(o, nl, IsInstr(ns), nil), "coord-notify-skip", "a subscriber can be skipped", ns)
		}
		o.Guarded(ns, "coord-order", "applying a configuration", L("("+e.X(rl, lf.(*ssa.Call))+"#1 == nil)", true))
		// what subscribers are notified of is what was loaded
		cfgSt := e.StoresTo(rl, "recv.config")
		if o.Check(len(cfgSt) >= 1, "coord-store", "the loaded configuration is not stored before subscribers are notified", ns) {
			for _, st := range cfgSt {
				o.Check(e.X(rl, st.Val) == e.X(rl, lf.(*ssa.Call))+"#0", "coord-store-value", "the stored configuration must be the one just loaded", st)
			}
			o.Precedes(ns, "coord-store-first", "subscribers are notified before the loaded configuration is stored", func(in ssa.Instruction) bool {
				st, ok := in.(*ssa.Store)
				return ok && e.X(rl, st.Addr) == "recv.config"
			})
		}
		o.rejectsAfter(rl, L("("+e.X(rl, ns)+" == nil)", false), "coord-error", "a subscriber that rejects the configuration")
		o.MinSites(6)
	})

	reg("C17", "C17.8", "T2", "no gap on reload: the new inhibitor runs and has loaded before it is published and before the new dispatcher starts", func(o *Ob) {
		e := o.E
		fn := o.Fn("(*am/app.reloader).reload")
		wl := o.One(e.Calls(fn, "(*am/inhibit.Inhibitor).WaitForLoading"), "wait", "reload must wait for the new inhibitor", fn)
		o.Site(wl, "newInhibitor.WaitForLoading()")
		var runI, runD *ssa.Go
		for _, in := range AllInstrs(fn) {
			if g, ok := in.(*ssa.Go); ok {
				switch calleeName(&g.Call) {
				case "(*am/inhibit.Inhibitor).Run":
					runI = g
				case "(*am/dispatch.Dispatcher).Run":
					runD = g
				}
			}
		}
		o.Require(runI != nil && runD != nil, "runs", "reload must start the new inhibitor and dispatcher", nil)
		o.Check(InstrDominates(runI, wl) && InstrDominates(wl, runD), "order", "order must be: start inhibitor → wait for its load → start dispatcher", runD)
		for _, in := range AllInstrs(fn) {
			if c, ok := in.(*ssa.Call); ok && strings.HasSuffix(calleeName(&c.Call), ".Store") && strings.Contains(e.X(fn, c), "recv.inhibitor") {
				o.Check(InstrDominates(wl, c), "publish-early", "the new inhibitor is published before it has loaded the existing alerts", c)
				o.Site(c, "inhibitor published")
			}
		}
		o.MinSites(2)
	})
}

// nilElementRule: in package config (and its integration sub-packages' validators), a loop over a field of
// type []*Struct must test its element against nil before dereferencing it or handing it to a callee that
// dereferences the corresponding parameter without test.
func nilElementRule(o *Ob) {
	e := o.E
	derefsParamUnchecked := func(f *ssa.Function, idx int) (bool, ssa.Instruction) {
		if f == nil || len(f.Blocks) == 0 || idx >= len(f.Params) {
			return false, nil
		}
		p := f.Params[idx]
		nilLit := LitM{"param==nil", func(l Lit) bool { return strings.HasPrefix(l.Atom, "("+e.X(f, p)+" == nil)") }}
		refs := p.Referrers()
		if refs == nil {
			return false, nil
		}
		for _, r := range *refs {
			switch x := r.(type) {
			case *ssa.FieldAddr:
				if !e.OnlyUnder(x, nilLit.Neg(), LitM{"", func(l Lit) bool { return !l.Pos && nilLit.F(Lit{Atom: l.Atom, Pos: true}) }}) {
					return true, x
				}
			}
		}
		return false, nil
	}
	// lists whose nil elements are rejected by Config.UnmarshalYAML (so code running after a successful load may rely on it)
	validated := map[string]bool{}
	for _, hook := range []string{"(*am/config.Config).UnmarshalYAML", "(*am/config.Route).UnmarshalYAML"} {
		cu := e.Func(hook)
		if cu == nil {
			continue
		}
		for _, l := range e.Loops(cu) {
			coll, kind := e.RangeOver(l)
			if kind != "index" || !strings.Contains(coll, ".") {
				continue
			}
			field := coll[strings.LastIndex(coll, ".")+1:]
			isNil := LitM{"elem==nil", func(li Lit) bool { return li.Pos && li.Atom == "("+coll+"[i] == nil)" }}
			// a nil entry is either rejected or replaced in the list before the loop goes on
			replaced := func(in ssa.Instruction) bool {
				st, ok := in.(*ssa.Store)
				return ok && e.X(cu, st.Addr) == coll+"[i]" && !isNilConst(st.Val)
			}
			handled, tested := true, false
			for _, b := range cu.Blocks {
				for si := range b.Succs {
					if li, ok := e.EdgeLit(b, si); ok && isNil.F(li) && l.Blocks[b.Index] {
						tested = true
						r := (&Walk{Fn: cu, Barrier: replaced}).FromEdge(b, si)
						for _, be := range l.Back {
							if r.Edge[be] {
								handled = false
							}
						}
						for _, ret := range r.Returns() {
							if e.X(cu, ret.Results[0]) == "nil" {
								handled = false
							}
						}
					}
				}
			}
			if tested && handled {
				validated[field] = true
			}
		}
		// the same test said with the library's search: the hook fails when the list contains a nil entry
		for _, c := range e.Calls(cu, "slices.ContainsFunc") {
			coll := e.Arg(c, 0)
			if !strings.Contains(coll, ".") {
				continue
			}
			pred := e.FuncValue(c.Common().Args[1])
			if pred == nil {
				continue
			}
			isNilPred := true
			for _, ret := range (&Walk{Fn: pred}).FromEntry().Returns() {
				if e.X(pred, ret.Results[0]) != "(p0 == nil)" {
					isNilPred = false
				}
			}
			if !isNilPred {
				continue
			}
			has := L(e.X(cu, c.(*ssa.Call)), true)
			rejected := e.CountLitEdges(cu, has) > 0
			for _, ec := range e.EdgesAsserting(cu, has) {
				for _, ret := range (&Walk{Fn: cu}).FromEdgeCtx(ec).Returns() {
					if e.X(cu, ret.Results[0]) == "nil" {
						rejected = false
					}
				}
			}
			if rejected {
				validated[coll[strings.LastIndex(coll, ".")+1:]] = true
			}
		}
	}
	// resolveFilepaths runs only after a successful Load
	postLoad := map[string]bool{}
	if rf := e.Func("am/config.resolveFilepaths"); rf != nil {
		okAll := len(e.callers[rf]) > 0
		for _, cs := range e.callers[rf] {
			loads := e.Calls(cs.Caller, "am/config.Load")
			if len(loads) != 1 || !e.OnlyUnder(cs.Instr, L("("+e.X(cs.Caller, loads[0].(*ssa.Call))+"#1 == nil)", true)) {
				okAll = false
			}
		}
		if okAll {
			postLoad["am/config.resolveFilepaths"] = true
		}
	}
	if cu := e.Func("(*am/config.Config).UnmarshalYAML"); cu != nil {
		for _, name := range []string{"am/config.checkReceiver", "am/config.checkTimeInterval"} {
			f := e.Func(name)
			if f == nil {
				continue
			}
			okAll := true
			for _, cs := range e.callers[f] {
				if cs.Caller == f {
					continue
				}
				if cs.Caller != cu || !e.OnlyUnder(cs.Instr, L("(dyn(fn=p0, recv) == nil)", true)) {
					okAll = false
				}
			}
			if okAll {
				postLoad[name] = true
			}
		}
	}
	o.Note("lists whose null entries are rejected by Config.UnmarshalYAML: %d; functions running only after a successful Load: %v", len(validated), postLoad)
	n := 0
	for _, fn := range e.FuncsOfPkg("am/config") {
		for _, l := range e.Loops(fn) {
			coll, kind := e.RangeOver(l)
			if kind != "index" {
				continue
			}
			if postLoad[fnName(fn)] && validated[coll[strings.LastIndex(coll, ".")+1:]] {
				n++
				o.SiteS(fnName(fn) + ": elements of " + coll + " (null entries rejected at load)")
				o.Checks++
				o.Passed++
				continue
			}
			// element type must be pointer to struct
			var elem ssa.Value
			for bi := range l.Blocks {
				for _, in := range fn.Blocks[bi].Instrs {
					if u, ok := in.(*ssa.UnOp); ok && u.Op.String() == "*" {
						if ia, ok := u.X.(*ssa.IndexAddr); ok && e.X(fn, ia.X) == coll && isInduction(ia.Index) {
							if pt, ok := u.Type().Underlying().(*types.Pointer); ok {
								if _, ok := pt.Elem().Underlying().(*types.Struct); ok {
									elem = u
								}
							}
						}
					}
				}
			}
			if elem == nil {
				continue
			}
			// only YAML-decoded lists: the collection is a field of a config struct
			if !strings.Contains(coll, ".") {
				continue
			}
			n++
			es := e.X(fn, elem)
			o.SiteS(fnName(fn) + ": elements of " + coll)
			checked := LitM{"elem nil test", func(li Lit) bool { return li.Atom == "("+es+" == nil)" }}
			refs := elem.Referrers()
			if refs == nil {
				continue
			}
			// the element may be re-bound (sc = &SlackConfig{}) through a phi: accept uses of the phi
			for _, r := range *refs {
				switch x := r.(type) {
				case *ssa.FieldAddr:
					ok := e.OnlyUnder(x, LitM{"", func(li Lit) bool { return checked.F(li) && !li.Pos }})
					o.Check(ok, "nil-deref|"+fnName(fn)+"|"+coll, fnName(fn)+" dereferences an element of "+coll+" without a nil check: a YAML list entry 'null' (e.g. `- null` or `- ~`) decodes to a nil pointer and crashes the loader instead of being rejected", x)
				case *ssa.Call:
					callee := x.Call.StaticCallee()
					for ai, a := range x.Call.Args {
						if a != elem {
							continue
						}
						if bad, where := derefsParamUnchecked(callee, ai); bad {
							ok := e.OnlyUnder(x, LitM{"", func(li Lit) bool { return checked.F(li) && !li.Pos }})
							o.Check(ok, "nil-deref|"+fnName(fn)+"|"+coll, fnName(fn)+" passes an element of "+coll+" to "+fnName(callee)+", which dereferences it without a nil check ("+e.InstrPos(where)+"): a YAML list entry 'null' decodes to a nil pointer and crashes the loader instead of being rejected", x)
						} else {
							o.Checks++
							o.Passed++
						}
					}
				}
			}
		}
	}
	o.Check(n >= 10, "few-lists", "implausibly few pointer lists found in package config: "+itoa(n), nil)
}

// secretTypingRule: for every struct type of the config packages, a field X that has a string sibling XFile must
// have a secret (masking) type.
func secretTypingRule(o *Ob) {
	e := o.E
	secret := map[string]bool{
		"github.com/prometheus/common/config.Secret":  true,
		"*github.com/prometheus/common/config.Secret": true,
		"*am/config/common.SecretURL":                 true,
		"am/config/common.SecretURL":                  true,
		"am/config/common.SecretTemplateURL":          true,
		"*am/config/common.SecretTemplateURL":         true,
		"am/config.SecretTemplateURL":                 true,
		"am/config.Secret":                            true,
		"*am/config.SecretURL":                        true,
	}
	exempt := map[string]string{
		"am/config/receiver/incidentio.IncidentioConfig.URL": "plain endpoint URL; the credential is AlertSourceToken",
		"am/notify/incidentio.IncidentioConfig.URL":          "plain endpoint URL; the credential is AlertSourceToken",
		"am/config.IncidentioConfig.URL":                     "plain endpoint URL; the credential is AlertSourceToken",
		"am/config.TelegramConfig.ChatID":                    "an int64 chat identifier, not a credential",
		"am/notify/telegram.TelegramConfig.ChatID":           "an int64 chat identifier, not a credential",
	}
	n := 0
	for _, p := range e.Pkgs {
		if !strings.HasPrefix(p.PkgPath, Mod+"/config") && !strings.HasPrefix(p.PkgPath, Mod+"/notify") {
			continue
		}
		if p.Types == nil {
			continue
		}
		sc := p.Types.Scope()
		for _, name := range sc.Names() {
			tn, ok := sc.Lookup(name).(*types.TypeName)
			if !ok {
				continue
			}
			st, ok := tn.Type().Underlying().(*types.Struct)
			if !ok {
				continue
			}
			fields := map[string]*types.Var{}
			for i := 0; i < st.NumFields(); i++ {
				fields[st.Field(i).Name()] = st.Field(i)
			}
			for fname, fv := range fields {
				if !strings.HasSuffix(fname, "File") || fname == "File" {
					continue
				}
				base, ok := fields[strings.TrimSuffix(fname, "File")]
				if !ok {
					continue
				}
				if b, ok := fv.Type().Underlying().(*types.Basic); !ok || b.Kind() != types.String {
					continue
				}
				n++
				ts := typeStr(base.Type())
				key := short(p.PkgPath) + "." + name + "." + base.Name()
				o.SiteS(key + " : " + ts)
				if why, ok := exempt[key]; ok {
					o.Note("exempt: %s — %s", key, why)
					continue
				}
				o.Check(secret[ts], "plain-secret|"+key, key+" has an "+fname+" sibling (the repository's idiom for credentials) but the plain type "+ts+": the status API and logs would print its value", nil)
			}
		}
	}
	o.Check(n >= 20, "few-pairs", "implausibly few X/XFile pairs: "+itoa(n), nil)
	// the masking marshalers must be in the method set of the value type: the encoders never take the address of a
	// field to look for a marshaler, so a pointer-receiver method leaves every value-typed field unmasked
	for _, p := range e.Pkgs {
		if p.PkgPath != Mod+"/config/common" || p.Types == nil {
			continue
		}
		for _, tname := range []string{"SecretURL", "SecretTemplateURL"} {
			tn, ok := p.Types.Scope().Lookup(tname).(*types.TypeName)
			if !o.Check(ok, "masking-type|"+tname, "masking type "+tname+" not found in config/common", nil) {
				continue
			}
			ms := types.NewMethodSet(tn.Type())
			for _, m := range []string{"MarshalYAML", "MarshalJSON"} {
				o.SiteS(tname + "." + m + " (value method set)")
				o.Check(ms.Lookup(p.Types, m) != nil, "masking-receiver|"+tname+"."+m, tname+"."+m+" is not in the method set of the value type (pointer receiver): fields of type "+tname+" are printed as plain strings by the status API", nil)
			}
		}
	}
	// masking
	for _, name := range []string{"(am/config/common.SecretURL).MarshalYAML", "(am/config/common.SecretURL).MarshalJSON", "(am/config/common.SecretTemplateURL).MarshalYAML", "(am/config/common.SecretTemplateURL).MarshalJSON"} {
		fn := o.FnOpt(name)
		if fn == nil {
			continue
		}
		o.SiteS(name)
		for _, ret := range (&Walk{Fn: fn}).FromEntry().Returns() {
			v := e.X(fn, ret.Results[0])
			if strings.Contains(v, "recv.") && !strings.Contains(v, "<secret>") {
				o.Guarded(ret, "unmasked|"+name, "printing the secret value", LHas(true, "MarshalSecretValue"))
			}
		}
	}
}

// nilContradictionRule (Engler et al.: contradictory beliefs): if a function compares a pointer-valued field path with
// nil somewhere (it believes the pointer may be nil) then every dereferencing use of the same path — a field
// access, or a method call whose callee dereferences its receiver — must lie behind an edge establishing non-nil,
// unless the field was (re)assigned on the way.
func nilContradictionRule(o *Ob, pkgs ...string) {
	e := o.E
	derefsRecv := func(f *ssa.Function) bool {
		if f == nil {
			return false
		}
		if strings.Contains(f.Synthetic, "wrapper") {
			return true // promoted through an embedded field: the receiver is dereferenced
		}
		if len(f.Blocks) == 0 || len(f.Params) == 0 {
			return false
		}
		p := f.Params[0]
		refs := p.Referrers()
		if refs == nil {
			return false
		}
		ps := e.X(f, p)
		nn := LitM{"recv != nil", func(l Lit) bool { return !l.Pos && l.Atom == "("+ps+" == nil)" }}
		for _, r := range *refs {
			switch x := r.(type) {
			case *ssa.FieldAddr:
				if !e.OnlyUnder(x, nn) {
					return true
				}
			case *ssa.UnOp:
				if x.Op.String() == "*" && !e.OnlyUnder(x, nn) {
					return true
				}
			}
		}
		return false
	}
	for _, pkg := range pkgs {
		for _, fn := range e.FuncsOfPkg(pkg) {
			// pointer paths tested against nil in fn
			tested := map[string]bool{}
			for _, a := range e.LitsOf(fn) {
				if strings.HasPrefix(a, "(") && strings.HasSuffix(a, " == nil)") {
					tested[a[1:len(a)-len(" == nil)")]] = true
				}
			}
			if len(tested) == 0 {
				continue
			}
			for _, in := range AllInstrs(fn) {
				var base ssa.Value
				what := ""
				switch x := in.(type) {
				case *ssa.FieldAddr:
					base, what = x.X, "field access"
				case *ssa.Call:
					if x.Call.IsInvoke() || len(x.Call.Args) == 0 {
						continue
					}
					cal := x.Call.StaticCallee()
					if cal == nil || cal.Signature.Recv() == nil || !derefsRecv(cal) {
						continue
					}
					base, what = x.Call.Args[0], "call of "+fnName(cal)
				default:
					continue
				}
				ld, ok := base.(*ssa.UnOp)
				if !ok || ld.Op.String() != "*" {
					continue
				}
				if _, ok := ld.X.(*ssa.FieldAddr); !ok {
					continue
				}
				if _, ok := ld.Type().Underlying().(*types.Pointer); !ok {
					continue
				}
				s := e.X(fn, base)
				if !tested[s] {
					continue
				}
				o.Site(in, what+" on "+s)
				nn := LitM{s + " != nil", func(l Lit) bool { return !l.Pos && l.Atom == "("+s+" == nil)" }}
				// reassignment of the field on the way?
				addr := e.X(fn, ld.X)
				assigned := func(i ssa.Instruction) bool {
					st, ok := i.(*ssa.Store)
					return ok && e.X(fn, st.Addr) == addr
				}
				r := (&Walk{Fn: fn, Cut: e.CutLits(nn), Barrier: assigned}).FromEntry()
				o.Check(!r.Has(in), "nil-contradiction|"+fnName(fn)+"|"+s, fnName(fn)+" tests "+s+" against nil elsewhere, yet reaches this "+what+" on a path where it may be nil: such an input panics instead of being rejected", in)
			}
		}
	}
}

// timeRangePrintRule: TimeRange.MarshalYAML / MarshalJSON print StartMinute and EndMinute as HH:MM with
// HH = m/60 (so that the legal end 24:00 = 1440 prints as 24:00) and MM = m%60.
func timeRangePrintRule(o *Ob) {
	e := o.E
	for _, name := range []string{"(am/timeinterval.TimeRange).MarshalYAML", "(am/timeinterval.TimeRange).MarshalJSON"} {
		fn := o.Fn(name)
		// nothing on the way formats through time.Time (which wraps at 24 h)
		for _, in := range e.DeepInstrs(fn, 2) {
			if c, ok := in.(ssa.CallInstruction); ok {
				cn := calleeName(c.Common())
				o.Check(!strings.HasPrefix(cn, "(time.Time).") && !strings.HasPrefix(cn, "time."), "timerange-clock|"+name, name+" formats a minute-of-day through "+cn+": 24:00 (1440) wraps to 00:00 and the printed range no longer loads", in)
			}
		}
		// the two printed fields come from minute/60 and minute%60 of the matching bound
		for fld, bound := range map[string]string{"StartTime": "StartMinute", "EndTime": "EndMinute"} {
			var vals []ssa.Value
			for _, f := range append([]*ssa.Function{fn}, Anons(fn)...) {
				for _, st := range e.StoresToField(f, "am/timeinterval.yamlTimeRange", fld) {
					vals = append(vals, st.Val)
				}
			}
			if !o.Check(len(vals) >= 1, "timerange-field|"+name+"|"+fld, name+" no longer fills yamlTimeRange."+fld, nil) {
				continue
			}
			for _, v := range vals {
				o.SiteS(name + ": " + fld + " := " + e.X(fn, v))
				quo, rem, foreign := false, false, false
				for s := range e.Sources(v, true) {
					b, ok := s.(*ssa.BinOp)
					if !ok {
						continue
					}
					x := e.X(fn, b.X)
					isBound := strings.HasSuffix(x, "."+bound)
					other := strings.HasSuffix(x, "Minute") && !isBound
					if (b.Op == token.QUO || b.Op == token.REM) && isIntConst(b.Y, 60) {
						if isBound && b.Op == token.QUO {
							quo = true
						}
						if isBound && b.Op == token.REM {
							rem = true
						}
						if other {
							foreign = true
						}
					}
				}
				o.Check(quo && rem && !foreign, "timerange-arith|"+name+"|"+fld, fld+" must be printed as "+bound+"/60 : "+bound+"%60, is "+e.X(fn, v), nil)
			}
		}
	}
	o.MinSites(4)
}

// configMatchersRoundTripRule: the printed configuration carries every route / inhibition matcher and every legacy
// regular expression in a form the loader reads back: Matchers is printed matcher by matcher with Matcher.String and
// read line by line with the compat parser, every parsed matcher kept and every error returned; a legacy Regexp is
// printed as the text it was read from and read by compiling that text anchored.
func configMatchersRoundTripRule(o *Ob) {
	e := o.E
	for _, enc := range []string{"YAML", "JSON"} {
		mf := o.Fn("(am/config/common.Matchers).Marshal" + enc)
		var st *ssa.Store
		for _, in := range AllInstrs(mf) {
			if s, ok := in.(*ssa.Store); ok && e.X(mf, s.Val) == "(*am/pkg/labels.Matcher).String(recv[i])" {
				st = s
			}
		}
		if o.Check(st != nil, "print|"+enc, "Matchers.Marshal"+enc+" must print every matcher with Matcher.String", fnFirst(mf)) {
			o.Site(st, "Matchers.Marshal"+enc)
			o.Check(strings.HasSuffix(e.X(mf, st.Addr), "[i]"), "print-slot|"+enc, "each matcher must be printed into its own slot, written to "+e.X(mf, st.Addr), st)
			if l := e.LoopOf(st); o.Check(l != nil, "print-loop|"+enc, "matchers must be printed in a loop", st) {
				coll, _ := e.RangeOver(l)
				o.Check(coll == "recv" && len(e.EarlyExits(l)) == 0 && !loopBackWithout(o, l, IsInstr(st), nil), "print-all|"+enc, "a matcher can be left out of the printed configuration", st)
			}
			dst := strings.TrimSuffix(e.X(mf, st.Addr), "[i]")
			n := 0
			for _, ret := range (&Walk{Fn: mf}).FromEntry().Returns() {
				v := e.X(mf, ret.Results[0])
				if v == `slice(&slicelit:[2]byte)` || strings.Contains(v, `"[]"`) || strings.HasPrefix(v, "conv:[]byte(") {
					continue // the empty list of the JSON form
				}
				n++
				o.Check(v == dst || strings.Contains(v, dst), "print-result|"+enc, "what is returned must be the printed matchers, is "+clip(v), ret)
			}
			o.Check(n >= 1, "print-return|"+enc, "Matchers.Marshal"+enc+" never returns the printed matchers", st)
		}
		uf := o.Fn("(*am/config/common.Matchers).Unmarshal" + enc)
		pc := o.One(e.Calls(uf, "am/matcher/compat.Matchers"), "parse|"+enc, "Matchers.Unmarshal"+enc+" must parse with the compat parser", uf)
		o.Site(pc, "Matchers.Unmarshal"+enc)
		px := e.X(uf, pc.(*ssa.Call))
		o.Check(e.Arg(pc, 0) == "var:lines[i]", "parse-arg|"+enc, "every line must be parsed, parses "+e.Arg(pc, 0), pc)
		pOK := L("("+px+"#1 == nil)", true)
		errAfter(o, uf, pc, pOK.Neg(), px+"#1", "parse-error|"+enc, "a line that does not parse must fail the load with the parser's error")
		var keep ssa.Instruction
		for _, in := range AllInstrs(uf) {
			if s, ok := in.(*ssa.Store); ok && e.X(uf, s.Addr) == "recv" {
				_, parts := e.AppendParts(s.Val)
				for _, p := range parts {
					if p.Spread && e.X(uf, p.V) == px+"#0" {
						keep = s
					}
				}
			}
		}
		if o.Check(keep != nil, "keep|"+enc, "the parsed matchers are not added to the result", pc) {
			if l := e.LoopOf(pc); o.Check(l != nil, "keep-loop|"+enc, "lines must be parsed in a loop", pc) {
				coll, _ := e.RangeOver(l)
				o.Check(coll == "var:lines" && !loopBackWithout(o, l, IsInstr(keep), e.CutContradicting(pOK)), "keep-all|"+enc, "a line's matchers can be dropped", keep)
			}
		}
	}
	for _, enc := range []string{"YAML", "JSON"} {
		uf := o.Fn("(*am/config/common.Regexp).Unmarshal" + enc)
		cc := o.One(e.Calls(uf, "regexp.Compile"), "re-compile|"+enc, "a legacy regexp must be compiled when read", uf)
		o.Site(cc, "Regexp.Unmarshal"+enc)
		o.Check(regexpMatch(`\(\("\^\(\?:" \+ var:s\) \+ "\)\$"\)`, e.Arg(cc, 0)), "re-anchored|"+enc, "a legacy regexp must be compiled fully anchored, compiles "+e.Arg(cc, 0), cc)
		cx := e.X(uf, cc.(*ssa.Call))
		errAfter(o, uf, cc, L("("+cx+"#1 == nil)", false), cx+"#1", "re-error|"+enc, "a regexp that does not compile must fail the load with the compiler's error")
		n := 0
		for _, s := range e.StoresToField(uf, "am/config/common.Regexp", "Original") {
			n++
			o.Check(e.X(uf, s.Val) == "var:s", "re-original|"+enc, "the text read must be kept for printing, keeps "+e.X(uf, s.Val), s)
		}
		o.Check(n >= 1, "re-original-site|"+enc, "the text of a legacy regexp is no longer kept: the printed configuration would lose it", cc)
		mf := o.Fn("(am/config/common.Regexp).Marshal" + enc)
		set := LRe(`\(.*\.Original == ""\)`, true)
		okv := false
		for _, ret := range (&Walk{Fn: mf, Cut: e.CutContradicting(set.Neg())}).FromEntry().Returns() {
			v := e.X(mf, ret.Results[0])
			okv = true
			o.Check(strings.Contains(v, ".Original"), "re-print|"+enc, "a legacy regexp must be printed as the text it was read from, prints "+clip(v), ret)
		}
		o.Check(okv, "re-print-exit|"+enc, "Regexp.Marshal"+enc+" has no exit for a regexp that was read from text", fnFirst(mf))
	}
}

func init() {
	desc := "Matchers printed one by one with Matcher.String and read back line by line with the compat parser (every matcher kept, every error returned); legacy Regexp printed as its source text and read by compiling it anchored"
	reg("C17", "C17.10", "T8,T6", "the printed configuration loads back to the same matchers: "+desc, func(o *Ob) { configMatchersRoundTripRule(o); o.MinSites(6) })
	reg("C07", "C07.11", "T8,T6", "route matchers are the configured ones: "+desc, func(o *Ob) { configMatchersRoundTripRule(o); o.MinSites(6) })
}

// errAfter: on every path from `start` on which `failed` holds, fn returns an error that is (or wraps) `errv`.
func errAfter(o *Ob, fn *ssa.Function, start ssa.Instruction, failed LitM, errv, key, what string) {
	e := o.E
	r := (&Walk{Fn: fn, Cut: e.CutContradicting(failed)}).After(start)
	rets := r.Returns()
	o.Check(len(rets) >= 1, key+"|exit", what+": no exit on failure", start)
	last := fn.Signature.Results().Len() - 1
	for _, ret := range rets {
		for _, v := range e.ValStrs(fn, e.RetVals(r, ret, last)) {
			o.Check(v == errv || strings.Contains(v, errv) && v != "nil", key, what+", returns "+clip(v), ret)
		}
	}
}

// nonEmptyLit: the list x is tested to be non-empty, alone or as a term of a sum of lengths that is tested to be
// positive (x non-empty ⇒ the sum is positive ⇒ the same branch).
func nonEmptyLit(x string) LitM {
	q := regexpQuote("len(" + x + ")")
	return LRe(`\(`+q+` == 0\)|\(`+q+` < 1\)|\(\(.*`+q+`.*\) < 1\)|\(\(.*`+q+`.*\) == 0\)`, false)
}
