package main

import (
	"go/token"
	"regexp"
	"strings"

	"golang.org/x/tools/go/ssa"
)

// positionByCounting: Position written without sorting: the rank of the own name is the number of
// members whose name orders before it.  One loop over all members, never left early; a counter that
// starts at 0 and is incremented exactly for the members ordered before the own name; the result is
// that counter (or the number of members when the own name is not among them, or 0 for no members:
// what the scan over the sorted list yields in those cases).
func positionByCounting(o *Ob, pos *ssa.Function) bool {
	e := o.E
	ms := e.Calls(pos, "(*github.com/hashicorp/memberlist.Memberlist).Members")
	if len(ms) != 1 {
		return false
	}
	mx := e.X(pos, ms[0].(*ssa.Call))
	var loop *Loop
	var cnt *ssa.Phi
	var inc *ssa.BinOp
	for _, l := range e.Loops(pos) {
		if !e.CoversAll(l, mx) {
			continue
		}
		for _, in := range l.Header.Instrs {
			phi, ok := in.(*ssa.Phi)
			if !ok {
				break
			}
			for _, ed := range phi.Edges {
				if b, ok := ed.(*ssa.BinOp); ok && b.Op == token.ADD && b.X == ssa.Value(phi) && e.X(pos, b.Y) == "1" && l.Blocks[b.Block().Index] && !drivesLoop(l, phi, b) {
					loop, cnt, inc = l, phi, b
				}
			}
		}
	}
	if loop == nil {
		return false
	}
	o.Site(inc, "members ordered before the own name are counted")
	for i, ed := range cnt.Edges {
		if !loop.Blocks[loop.Header.Preds[i].Index] {
			o.Check(e.X(pos, ed) == "0", "pos-count-start", "the count of members ordered before the own name must start at 0", inc)
		} else {
			o.Check(ed == ssa.Value(inc) || ed == ssa.Value(cnt), "pos-count-step", "the count may only grow by one per member", inc)
		}
	}
	less := LRe(`^\(`+regexp.QuoteMeta(mx)+`\[i\]\.Name < \(\*am/cluster\.Peer\)\.Self\(recv\)\.Name\)$|^\(\(\*am/cluster\.Peer\)\.Self\(recv\)\.Name > `+regexp.QuoteMeta(mx)+`\[i\]\.Name\)$`, true)
	o.Check(e.CountLitEdges(pos, less)+e.CountLitEdges(pos, less.Neg()) > 0, "pos-less", "members must be ranked by name", inc)
	o.Guarded(inc, "pos-count-guard", "counting a member as ordered before this instance", less)
	o.Check(!loopBackWithout(o, loop, IsInstr(inc), e.CutContradicting(less)), "pos-count-forced", "a member ordered before this instance can go uncounted", inc)
	o.Check(len(e.EarlyExits(loop)) == 0, "pos-stop", "the count can stop before every member was compared", inc)
	// what is returned
	empty := L("(len("+mx+") == 0)", true)
	for _, in := range AllInstrs(pos) {
		ret, ok := in.(*ssa.Return)
		if !ok {
			continue
		}
		o.Site(ret, "position = "+clip(e.X(pos, ret.Results[0])))
		var leaves func(v ssa.Value, seen map[ssa.Value]bool)
		leaves = func(v ssa.Value, seen map[ssa.Value]bool) {
			if seen[v] {
				return
			}
			seen[v] = true
			if v == ssa.Value(cnt) || v == ssa.Value(inc) {
				return
			}
			if phi, ok := v.(*ssa.Phi); ok {
				for _, ed := range phi.Edges {
					leaves(ed, seen)
				}
				return
			}
			switch x := e.X(pos, v); {
			case x == "len("+mx+")":
			case x == "0":
				o.Check(e.OnlyUnder(ret, empty), "pos-zero", "position 0 is answered without counting although there are members", ret)
			default:
				o.Fail("pos-result", "Position answers "+clip(x)+", not the number of members ordered before this instance", ret)
			}
		}
		leaves(ret.Results[0], map[ssa.Value]bool{})
	}
	return true
}

// positionBySortedNames: Position written over the list of member names: every member's name is
// collected, the list is sorted as strings, and the own name is looked up in it from the front.
func positionBySortedNames(o *Ob, pos *ssa.Function) bool {
	e := o.E
	var srt ssa.CallInstruction
	for _, n := range []string{"sort.Strings", "slices.Sort"} {
		if cs := e.Calls(pos, n); len(cs) == 1 {
			srt = cs[0]
		}
	}
	ms := e.Calls(pos, "(*github.com/hashicorp/memberlist.Memberlist).Members")
	if srt == nil || len(ms) != 1 {
		return false
	}
	mx := e.X(pos, ms[0].(*ssa.Call))
	names := srt.Common().Args[0]
	_, parts := e.AppendParts(names)
	if len(parts) == 0 {
		return false
	}
	o.Site(srt, "member names sorted")
	var collect *Loop
	for _, p := range parts {
		o.Check(!p.Spread && e.X(pos, p.V) == mx+"[i].Name", "pos-less", "members must be ranked by name: the sorted list holds "+clip(e.X(pos, p.V)), p.Call)
		l := e.LoopOf(p.Call)
		if o.Check(l != nil && e.CoversAll(l, mx) && len(e.EarlyExits(l)) == 0 && !loopBackWithout(o, l, IsInstr(p.Call), nil), "pos-all", "every member's name must be in the sorted list", p.Call) {
			collect = l
		}
	}
	nx := e.X(pos, names)
	found := LRe(`^\(\(\*am/cluster\.Peer\)\.Self\(recv\)\.Name == `+regexp.QuoteMeta(nx)+`\[i\]\)$|^\(`+regexp.QuoteMeta(nx)+`\[i\] == \(\*am/cluster\.Peer\)\.Self\(recv\)\.Name\)$`, true)
	scans := 0
	for _, l := range e.Loops(pos) {
		if collect != nil && l.Header == collect.Header {
			continue
		}
		scans++
		o.LoopExitsGuarded(l, "pos-stop", "stopping the count before the own name was found", found)
		o.Check(InstrDominates(srt, l.Header.Instrs[0]), "pos-sort-first", "the names must be sorted before the own position is looked up", srt)
		c, kind := e.RangeOver(l)
		o.Check(c == nx && kind == "index", "pos-scan", "the own name must be looked up from the front of the sorted list, the loop ranges over "+clip(c), srt)
	}
	o.Check(scans == 1, "pos-scan", "Position must look the own name up in the sorted list", srt)
	for _, in := range AllInstrs(pos) {
		ret, ok := in.(*ssa.Return)
		if !ok {
			continue
		}
		for _, a := range AltsOf(ret.Results[0]) {
			v := e.X(pos, a.V)
			o.Site(ret, "position may be "+clip(v))
			o.Check(v == "i" || v == "len("+nx+")" || v == "len("+mx+")", "pos-result", "Position answers "+clip(v)+", not the index of the own name in the sorted list", ret)
		}
	}
	return true
}

// drivesLoop: the loop's own exit test reads the variable (it is the index, not a tally).
func drivesLoop(l *Loop, phi *ssa.Phi, step *ssa.BinOp) bool {
	for _, b := range l.Fn.Blocks {
		if !l.Blocks[b.Index] || len(b.Instrs) == 0 {
			continue
		}
		iff, ok := b.Instrs[len(b.Instrs)-1].(*ssa.If)
		if !ok {
			continue
		}
		exits := false
		for _, s := range b.Succs {
			if !l.Blocks[s.Index] {
				exits = true
			}
		}
		if !exits {
			continue
		}
		if c, ok := iff.Cond.(*ssa.BinOp); ok {
			for _, side := range []ssa.Value{c.X, c.Y} {
				if side == ssa.Value(phi) || side == ssa.Value(step) {
					return true
				}
			}
		}
	}
	return false
}

func init() {
	propInfos["C08"] = &propInfo{
		Explanation: "Decides the HA mechanism's structure: (1) stage order: gossip-settle first; per integration cluster-wait → dedup (reads the log) → retry (sends) → set-notifies (writes the log); (2) ClusterWaitStage waits exactly wait() on a timer started when the stage is reached, or fails the flush when the context ends first; (3) wait = Position() × peer timeout, and the flush deadline is max(group_interval, MinTimeout) + the same wait, so the last-positioned instance still has a full interval to deliver; Position ranks members by name; (4) fail open: every return path of Peer.Settle closes the ready channel (once), WaitReady returns on ready or context end, the settle stage propagates the error; (5) Log merges then broadcasts locally written entries; Merge re-gossips every newly merged, not oversized entry (relay); the log and silences are registered and wired to their channels before the peer joins.",
		NotDecided:  "everything that depends on timing or faults: that the waits are long enough, that gossip arrives, duplicate-freedom, crash take-over.",
	}

	reg("C08", "C08.1", "T2", "stage order: settle first; per integration wait → dedup → retry → set-notifies", func(o *Ob) {
		outer, inner := pipelineOrder(o)
		o.Check(len(outer) > 0 && strings.HasPrefix(outer[0], "am/notify.NewClusterGossipSettleStage(p7)"), "settle-first", "the gossip-settle stage must be the first stage of every receiver pipeline, order is "+strings.Join(outer, " → "), nil)
		w, d, r, s := indexOfPrefix(inner, "am/notify.NewClusterWaitStage(p2)"), indexOfPrefix(inner, "am/notify.NewDedupStage("), indexOfPrefix(inner, "am/notify.NewRetryStage("), indexOfPrefix(inner, "am/notify.NewSetNotifiesStage(")
		o.Check(w >= 0 && d >= 0 && r >= 0 && s >= 0 && w < d && d < r && r < s, "chain-order", "each integration's chain must be cluster-wait → dedup → retry → set-notifies (the log is consulted after the position-dependent wait and written after the send), is "+strings.Join(inner, " → "), nil)
		o.MinSites(3)
	})

	reg("C08", "C08.2", "T6", "ClusterWaitStage.Exec waits wait() from the moment the stage is reached, or fails when the flush context ends first; settle stage waits for readiness and propagates its error", func(o *Ob) {
		e := o.E
		fn := o.Fn("(*am/notify.ClusterWaitStage).Exec")
		var sel *ssa.Select
		for _, in := range AllInstrs(fn) {
			if s, ok := in.(*ssa.Select); ok {
				sel = s
			}
		}
		o.Require(sel != nil, "select", "ClusterWaitStage.Exec no longer waits", nil)
		o.Site(sel, e.X(fn, sel))
		o.Check(sel.Blocking && len(sel.States) == 2, "select-shape", "the wait must be a blocking select on the timer and the context", sel)
		var tmr, ctxd bool
		tmrS := "time.After(dyn(fn=recv.wait))"
		for _, st := range sel.States {
			x := e.X(fn, st.Chan)
			if x == "time.After(dyn(fn=recv.wait))" || x == "time.NewTimer(dyn(fn=recv.wait)).C" {
				tmr = true
				tmrS = x
			}
			if x == "invoke:context.Context.Done(ctx)" {
				ctxd = true
			}
		}
		o.Check(tmr, "timer", "the timer must be time.After(ws.wait()): the full position-dependent wait, measured from when the stage is reached (not reduced by time spent in earlier stages)", sel)
		o.Check(ctxd, "ctx", "the wait must be abandoned when the flush context ends", sel)
		o.Table(fn, "wait", []Row{
			{Name: "timer fired", Assume: A(L("sel:recv:"+tmrS, true)), Ret: [][]string{nil, Vals("p2"), Vals("nil")}},
			{Name: "context ended", Assume: A(L("sel:recv:"+tmrS, false), L("sel:recv:invoke:context.Context.Done(ctx)", true)), Ret: [][]string{nil, Vals("nil"), Vals("invoke:context.Context.Err(ctx)")}},
		})
		nw := o.Fn("am/notify.NewClusterWaitStage")
		st := e.StoresToField(nw, "am/notify.ClusterWaitStage", "wait")
		o.Check(len(st) == 1 && e.X(nw, st[0].Val) == "p0", "wait-field", "the stage must keep the wait function it is given", nil)
		gs := o.Fn("(*am/notify.ClusterGossipSettleStage).Exec")
		wr := o.One(e.Calls(gs, "invoke:am/notify.Peer.WaitReady"), "waitready", "the settle stage must wait for the peer to be ready", gs)
		o.Site(wr, "WaitReady")
		wx := e.X(gs, wr.(*ssa.Call))
		o.Table(gs, "settle", []Row{
			{Name: "no peer", Assume: A(L("(recv.peer == nil)", true)), Ret: [][]string{nil, Vals("p2"), Vals("nil")}},
			{Name: "ready", Assume: A(L("(recv.peer == nil)", false), L("("+wx+" == nil)", true)), Ret: [][]string{nil, Vals("p2"), Vals("nil")}},
			{Name: "context ended first", Assume: A(L("(recv.peer == nil)", false), L("("+wx+" == nil)", false)), Ret: [][]string{nil, Vals("nil"), Vals(wx)}},
		})
		o.MinSites(4)
	})

	reg("C08", "C08.3", "T11", "wait = Position() × peer timeout; flush deadline = max(d, MinTimeout) + wait; Position ranks members sorted by name", func(o *Ob) {
		e := o.E
		cw := o.Fn("am/app.clusterWait$1")
		rets := (&Walk{Fn: cw}).FromEntry().Returns()
		o.Require(len(rets) == 1, "cw", "clusterWait must be a single expression", nil)
		v := e.X(cw, rets[0].Results[0])
		o.Site(rets[0], "wait = "+v)
		o.Check(v == "(conv:time.Duration((*am/cluster.Peer).Position(^p0)) * ^p1)" || v == "(^p1 * conv:time.Duration((*am/cluster.Peer).Position(^p0)))", "cw-shape", "the cluster wait must be position × peer timeout, is "+v, rets[0])
		// evaluated at every call: the membership, and with it the position, changes while the instance runs
		o.Check(len(e.Calls(cw, "(*am/cluster.Peer).Position")) == 1, "cw-live", "the position must be looked up each time the wait is asked for (a value captured when the function was built is stale after the first membership change)", rets[0])
		// timeoutFunc literal in setup: the one returning  phi(MinTimeout|p0) + waitFunc()
		setup := o.Fn("(*am/app.App).setup")
		min, ok := e.ConstInt("am/notify", "MinTimeout")
		o.Require(ok, "min", "notify.MinTimeout not found", nil)
		// the function the reloader is given as timeoutFunc: max(d, MinTimeout) + wait(), with the wait function the
		// pipeline is given as waitFunc
		unfree := func(s string) string { return strings.ReplaceAll(s, "^", "") }
		tfs := e.StoresToField(setup, "am/app.reloader", "timeoutFunc")
		wfs := e.StoresToField(setup, "am/app.reloader", "waitFunc")
		if o.Check(len(tfs) == 1 && len(wfs) == 1, "timeout-func", "setup must hand one timeout function and one wait function to the reloader", nil) {
			tfn := e.FuncValue(tfs[0].Val)
			waitX := unfree(e.X(setup, wfs[0].Val))
			if o.Check(tfn != nil && len(tfn.Blocks) > 0, "timeout-func", "the timeout function handed to the reloader cannot be resolved", tfs[0]) {
				rs := (&Walk{Fn: tfn}).FromEntry().Returns()
				if o.Check(len(rs) == 1 && len(rs[0].Results) == 1, "timeout-shape", "the timeout function must be a single expression", fnFirst(tfn)) {
					o.Site(rs[0], "timeout = max(d, MinTimeout) + wait()")
					ms := itoa(int(min))
					sum, isSum := rs[0].Results[0].(*ssa.BinOp)
					if o.Check(isSum && sum.Op == token.ADD, "timeout-shape", "the flush deadline must be max(d, MinTimeout) + wait(), is "+clip(e.X(tfn, rs[0].Results[0])), rs[0]) {
						var base ssa.Value
						var call *ssa.Call
						for _, side := range []ssa.Value{sum.X, sum.Y} {
							if c, ok := side.(*ssa.Call); ok && !isBuiltinCall("max")(c) {
								call = c
							} else {
								base = side
							}
						}
						if o.Check(base != nil && call != nil, "timeout-shape", "the flush deadline must be max(d, MinTimeout) + wait()", rs[0]) {
							bx := e.X(tfn, base)
							floorOK := bx == "max(p0, "+ms+")" || bx == "max("+ms+", p0)"
							if bx == "phi("+ms+"|p0)" || bx == "phi(p0|"+ms+")" {
								lit := L("(p0 < "+ms+")", true)
								floorOK = e.CountLitEdges(tfn, lit)+e.CountLitEdges(tfn, lit.Neg()) > 0
							}
							o.Check(floorOK, "timeout-floor", "the flush deadline must not be shorter than MinTimeout, its base is "+clip(bx), rs[0])
							gx := unfree(e.X(tfn, call.Call.Value))
							o.Check(len(call.Call.Args) == 0 && (gx == waitX || strings.Contains(waitX, gx) && strings.Contains(gx, "am/app.clusterWait(")), "timeout-wait", "the flush deadline must be extended by the same cluster wait the pipeline uses ("+clip(waitX)+"), uses "+clip(gx), rs[0])
						}
					}
				}
			}
		}
		pos := o.Fn("(*am/cluster.Peer).Position")
		if len(e.Calls(pos, "sort.Slice")) == 0 && positionBySortedNames(o, pos) {
			o.MinSites(3)
			return
		}
		if len(e.Calls(pos, "sort.Slice")) == 0 && positionByCounting(o, pos) {
			o.MinSites(3)
			return
		}
		srt := o.One(e.Calls(pos, "sort.Slice"), "pos-sort", "Position must sort the members (all instances must agree on the ranking)", pos)
		o.Site(srt, "members sorted")
		less := o.Fn("(*am/cluster.Peer).Position$1")
		lr := (&Walk{Fn: less}).FromEntry().Returns()
		o.Check(len(lr) == 1 && strings.HasSuffix(e.X(less, lr[0].Results[0]), "[p0].Name < (*github.com/hashicorp/memberlist.Memberlist).Members(^recv.mlist)[p1].Name)"), "pos-less", "members must be ranked by name", nil)
		for _, l := range e.Loops(pos) {
			o.LoopExitsGuarded(l, "pos-stop", "stopping the count before the own name was found", LRe(`\(\(\*am/cluster\.Peer\)\.Self\(recv\)\.Name == .*\[i\]\.Name\)`, true))
			o.Check(InstrDominates(srt, l.Header.Instrs[0]), "pos-sort-first", "the members must be sorted before the own position is counted", srt)
		}
		o.MinSites(3)
	})

	reg("C08", "C08.4", "T2", "fail open: every return path of Peer.Settle closes the ready channel; WaitReady returns on ready or context end", func(o *Ob) {
		e := o.E
		fn := o.Fn("(*am/cluster.Peer).Settle")
		isClose := func(in ssa.Instruction) bool {
			c, ok := in.(*ssa.Call)
			return ok && isBuiltinCall("close")(in) && e.X(fn, c.Call.Args[0]) == "recv.readyc"
		}
		n := 0
		for _, in := range AllInstrs(fn) {
			if ret, ok := in.(*ssa.Return); ok {
				n++
				o.Site(ret, "Settle returns")
				o.Precedes(ret, "settle-open", "Settle can return without opening the ready gate: an instance whose gossip never settles would never notify", isClose)
			}
			if isClose(in) {
				// closed at most once: no close reachable after a close
				o.NeverAfter(in, "settle-double-close", "the ready channel can be closed twice (panic)", isClose, nil)
			}
		}
		o.Check(n >= 2, "settle-returns", "expected the context exit and the settled exit", nil)
		wr := o.Fn("(*am/cluster.Peer).WaitReady")
		var sel *ssa.Select
		for _, in := range AllInstrs(wr) {
			if s, ok := in.(*ssa.Select); ok {
				sel = s
			}
		}
		o.Require(sel != nil, "waitready", "WaitReady no longer waits", nil)
		o.Site(sel, e.X(wr, sel))
		o.Table(wr, "waitready", []Row{
			{Name: "ready", Assume: A(L("sel:recv:invoke:context.Context.Done(ctx)", false), L("sel:recv:recv.readyc", true)), Ret: [][]string{Vals("nil")}},
			{Name: "context ended", Assume: A(L("sel:recv:invoke:context.Context.Done(ctx)", true)), Ret: [][]string{Vals("invoke:context.Context.Err(ctx)")}},
		})
		o.MinSites(3)
	})

	reg("C08", "C08.5", "T2,T1", "log entries are merged then broadcast; received entries are relayed iff newly merged and not oversized; states are registered and wired before the peer joins", func(o *Ob) {
		e := o.E
		nflogLogRule(o)
		nflogMergeRule(o)
		setup := o.Fn("(*am/app.App).setup")
		join := o.One(e.Calls(setup, "(*am/cluster.Peer).Join"), "join", "setup must join the cluster", setup)
		o.Site(join, "peer.Join")
		adds := e.Calls(setup, "(*am/cluster.Peer).AddState")
		o.Check(len(adds) == 2, "addstate", "both the notification log and the silences must be registered as cluster states, found "+itoa(len(adds)), nil)
		keys := map[string]string{}
		for _, a := range adds {
			keys[e.Arg(a, 1)] = e.Arg(a, 2)
			o.Site(a, "AddState("+e.Arg(a, 1)+")")
			o.Check(!(&Walk{Fn: setup}).After(join).Has(a), "addstate-late", "a state is registered after the peer joined: the first full-state exchange would miss it", a)
		}
		o.Check(strings.Contains(keys[`"nfl"`], "nflog.New(") && strings.Contains(keys[`"sil"`], "silence.New("), "addstate-keys", "the log must be registered as \"nfl\" and the silences as \"sil\"", nil)
		for _, name := range []string{"(*am/nflog.Log).SetBroadcast", "(*am/silence.Silences).SetBroadcast"} {
			c := o.One(e.Calls(setup, name), "wire|"+name, name+" must be wired to the state's channel", setup)
			o.Check(strings.Contains(e.Arg(c, 1), "Broadcast"), "wire-arg|"+name, "the broadcast function must be the channel's Broadcast", c)
			o.Check(!(&Walk{Fn: setup}).After(join).Has(c), "wire-late|"+name, "broadcast is wired after the peer joined", c)
		}
		st := o.One(e.Calls(setup, "(*am/cluster.Peer).Settle"), "settle", "setup must start settling", setup)
		o.Check((&Walk{Fn: setup}).After(join).Has(st), "settle-after-join", "settling must start after joining", st)
		o.MinSites(6)
	})
}
