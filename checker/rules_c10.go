package main

import (
	"go/token"
	"go/types"
	"strings"

	"golang.org/x/tools/go/ssa"
)

// multiStageRule: MultiStage.Exec runs its stages in order, leaves the loop
// early only when a stage failed (returning that error) or no alerts remain,
// and feeds each stage the alerts returned by the previous one.
func multiStageRule(o *Ob) {
	e := o.E
	fn := o.Fn("(am/notify.MultiStage).Exec")
	ex := o.One(e.Calls(fn, "invoke:am/notify.Stage.Exec"), "ms-exec", "MultiStage.Exec must execute its stages", fn)
	o.Site(ex, "stage execution")
	o.Check(e.Arg(ex, 0) == "recv[i]", "ms-order", "stages must be executed in pipeline order (recv[i])", ex)
	l := e.LoopOf(ex)
	o.Require(l != nil, "ms-loop", "stages are not executed in a loop", ex)
	coll, kind := e.RangeOver(l)
	o.Check(coll == "recv" && kind == "index", "ms-range", "every stage of the pipeline must be visited in order", ex)
	exs := e.X(fn, ex.(*ssa.Call))
	failed := L("("+exs+"#2 == nil)", false)
	empty := LitM{"no alerts left", func(li Lit) bool {
		return li.Pos && strings.HasPrefix(li.Atom, "(len(phi(") && strings.HasSuffix(li.Atom, ") == 0)") && strings.Contains(li.Atom, "invoke:am/notify.Stage.Exec(recv[i]")
	}}
	o.LoopExitsGuarded(l, "ms-exit", "a pipeline may only be abandoned when a stage failed or no alerts remain (otherwise a delivered notification is never recorded, or a later stage is skipped)", failed, empty)
	// a failing stage stops the pipeline with its error (so SetNotifies cannot run after a failed Retry)
	{
		n := 0
		for _, b := range fn.Blocks {
			for si := range b.Succs {
				if li, ok := e.EdgeLit(b, si); ok && failed.F(li) {
					n++
					r := (&Walk{Fn: fn}).FromEdge(b, si)
					for _, be := range l.Back {
						o.Check(!r.Edge[be], "ms-continue-after-error", "after a failing stage the pipeline continues with the next stage", ex)
					}
					for _, ret := range r.Returns() {
						vs := e.ValStrs(fn, e.RetVals(r, ret, 2))
						o.Check(len(vs) == 1 && vs[0] == exs+"#2", "ms-error-value", "a failing stage's error must be returned, returns "+strings.Join(vs, "|"), ret)
					}
				}
			}
		}
		o.Check(n > 0, "ms-no-error-test", "MultiStage.Exec does not test the stage's error", ex)
	}
	// normal completion returns nil error
	hx, _ := l.HeaderExit()
	r := (&Walk{Fn: fn}).FromEdge(l.Header, hx)
	for _, ret := range r.Returns() {
		vs := e.ValStrs(fn, e.RetVals(r, ret, 2))
		o.Check(len(vs) == 1 && vs[0] == "nil", "ms-done-error", "a completed pipeline must report success", ret)
	}
	// alerts chaining: stage i gets previous result
	a3 := ex.Common().Args[2]
	src := e.Sources(a3, false)
	okChain := false
	for s := range src {
		if ex2, ok := s.(*ssa.Extract); ok && ex2.Tuple == ssa.Value(ex.(*ssa.Call)) && ex2.Index == 1 {
			okChain = true
		}
	}
	o.Check(okChain, "ms-chain", "each stage must receive the alerts returned by the previous stage (a filtering stage would otherwise be ignored)", ex)
}

// fanoutStageRule: every integration chain is started, all are awaited, errors joined, no chain's failure cancels the others.
func fanoutStageRule(o *Ob) {
	e := o.E
	fn := o.Fn("(am/notify.FanoutStage).Exec")
	// a goroutine per integration: a go statement, or sync.WaitGroup.Go (which counts, starts and signals itself)
	var g ssa.CallInstruction
	viaWG := false
	for _, in := range AllInstrs(fn) {
		if x, ok := in.(*ssa.Go); ok {
			o.Check(g == nil, "fan-two-go", "FanoutStage.Exec starts goroutines at more than one site", in)
			g = x
		}
		if c, ok := in.(*ssa.Call); ok && calleeName(&c.Call) == "(*sync.WaitGroup).Go" {
			o.Check(g == nil, "fan-two-go", "FanoutStage.Exec starts goroutines at more than one site", in)
			g, viaWG = c, true
		}
	}
	o.Require(g != nil, "fan-go", "FanoutStage.Exec no longer runs the integrations concurrently", nil)
	o.Site(g, "one goroutine per integration")
	l := e.LoopOf(g)
	o.Require(l != nil, "fan-loop", "integrations are not started in a loop", g)
	coll, kind := e.RangeOver(l)
	o.Check(coll == "recv" && kind == "index" && len(e.EarlyExits(l)) == 0, "fan-range", "every integration of the receiver must be started", g)
	var lit *ssa.Function
	if viaWG {
		lit = e.FuncValue(g.Common().Args[1])
	} else {
		lit = e.FuncValue(g.Common().Value)
	}
	o.Require(lit != nil && len(lit.Blocks) > 0, "fan-lit", "the goroutine's function cannot be resolved", g)
	// the stage the goroutine runs: handed over as an argument, or the loop's own (per-iteration) variable
	stageParam := -1
	if !viaWG {
		for i, a := range g.Common().Args {
			if e.X(fn, a) == "recv[i]" {
				stageParam = i
			}
		}
	}
	// every iteration starts one
	bi, _ := l.BodyEntry()
	r := (&Walk{Fn: fn, Barrier: IsInstr(g)}).FromEdge(l.Header, bi)
	back := false
	for _, be := range l.Back {
		if r.Edge[be] {
			back = true
		}
	}
	o.Check(!back, "fan-skip", "an integration can be skipped", g)
	// wait before return
	w := o.One(e.Calls(fn, "(*sync.WaitGroup).Wait"), "fan-wait", "FanoutStage.Exec must wait for all integrations", fn)
	for _, ret := range (&Walk{Fn: fn}).FromEntry().Returns() {
		o.Check(InstrDominates(w, ret), "fan-return-early", "FanoutStage.Exec can return before all integrations finished", ret)
		v := e.X(fn, ret.Results[2])
		o.Check(strings.Contains(v, "errors.Join("), "fan-errors", "the joined errors of the integrations must be returned, returns "+v, ret)
	}
	// the wait group counts every goroutine before it starts: all at once before the loop, or one per iteration
	if !viaWG {
		add := o.One(e.Calls(fn, "(*sync.WaitGroup).Add"), "fan-add", "the wait group must count the integrations", fn)
		if al := e.LoopOf(add); al != nil && al.Header == l.Header {
			o.Check(e.Arg(add, 1) == "1", "fan-add-n", "the wait group must count every integration", add)
		} else {
			o.Check(e.Arg(add, 1) == "len(recv)", "fan-add-n", "the wait group must count every integration", add)
		}
		o.Check(InstrDominates(add, g), "fan-add-late", "a goroutine can start before the wait group counts it (Wait could return early)", g)
	} else {
		o.Check(e.Arg(g, 0) == e.Arg(w, 0), "fan-wg", "the goroutines are started on a different wait group than the one waited for", g)
	}
	ex := o.One(e.Calls(lit, "invoke:am/notify.Stage.Exec"), "fan-exec", "each goroutine must execute its stage", lit)
	stageOK := stageParam >= 0 && e.Arg(ex, 0) == "p"+itoa(stageParam) || regexpMatch(`\^?recv\[i\]`, e.Arg(ex, 0))
	o.Check(stageOK, "fan-arg", "each goroutine must run its own stage (the loop's), runs "+e.Arg(ex, 0), g)
	o.Check(e.Arg(ex, 3) == "^p2", "fan-exec-args", "each integration must get the whole batch", ex)
	if !viaWG {
		done := o.One(e.Calls(lit, "(*sync.WaitGroup).Done"), "fan-done", "each goroutine must signal completion", lit)
		o.Check(len((&Walk{Fn: lit, Barrier: IsInstr(done)}).FromEntry().Returns()) == 0, "fan-done-skipped", "a goroutine can finish without signalling the wait group (Exec would hang)", done)
	}
	// the error is recorded when non-nil
	exs := e.X(lit, ex.(*ssa.Call))
	failed := L("("+exs+"#2 == nil)", false)
	// every store of the goroutine that carries the stage's error into state shared with Exec
	var errStores []ssa.Instruction
	// a slot of its own handed to the goroutine: a pointer parameter whose argument at the go statement is the
	// address of this iteration's element of a list made in Exec
	var slots []ssa.Value // the lists such slots belong to
	slotParam := func(addr ssa.Value) bool {
		par, ok := addr.(*ssa.Parameter)
		if !ok || viaWG {
			return false
		}
		for i, p := range lit.Params {
			if p == par && i < len(g.Common().Args) {
				if ia, ok := g.Common().Args[i].(*ssa.IndexAddr); ok && e.X(fn, ia.Index) == "i" {
					if ms, ok := ia.X.(*ssa.MakeSlice); ok {
						slots = append(slots, ms)
						return true
					}
				}
			}
		}
		return false
	}
	for _, in := range AllInstrs(lit) {
		st, ok := in.(*ssa.Store)
		if !ok || !rootsInFreeVar(st.Addr) && !slotParam(st.Addr) {
			continue
		}
		if e.DerivesFrom(st.Val, true, func(v ssa.Value) bool {
			x, isX := v.(*ssa.Extract)
			return isX && x.Tuple == ssa.Value(ex.(*ssa.Call)) && x.Index == 2
		}) {
			errStores = append(errStores, st)
			o.Site(st, "records the error in "+e.X(lit, st.Addr))
		}
	}
	// ... or a call that hands the error to a function which records it in state shared with Exec
	var recParams []ssa.Value
	for _, in := range AllInstrs(lit) {
		c, ok := in.(*ssa.Call)
		if !ok || c == ex.(*ssa.Call) || c.Call.IsInvoke() {
			continue
		}
		callee := c.Call.StaticCallee()
		if callee == nil {
			callee = e.FuncValue(c.Call.Value)
		}
		if callee == nil || len(callee.Blocks) == 0 || !strings.HasPrefix(fnPkgPath(callee), Mod) {
			continue
		}
		for ai, a := range c.Call.Args {
			if !e.DerivesFrom(a, true, func(v ssa.Value) bool {
				x, isX := v.(*ssa.Extract)
				return isX && x.Tuple == ssa.Value(ex.(*ssa.Call)) && x.Index == 2
			}) || ai >= len(callee.Params) {
				continue
			}
			par := callee.Params[ai]
			for _, in2 := range AllInstrs(callee) {
				st, ok := in2.(*ssa.Store)
				if ok && rootsInFreeVar(st.Addr) && e.DerivesFrom(st.Val, true, func(v ssa.Value) bool { return v == ssa.Value(par) }) {
					// every path of the recorder stores it (a recorder may return at once when there is no error)
					isErr := L("("+e.X(callee, par)+" == nil)", false)
					if len((&Walk{Fn: callee, Barrier: IsInstr(st), Cut: e.CutContradicting(isErr)}).FromEntry().Returns()) == 0 {
						errStores = append(errStores, c)
						recParams = append(recParams, par)
						o.Site(c, "records the error through "+fnName(callee))
					}
				}
			}
		}
	}
	if o.Check(len(errStores) > 0, "fan-err-store", "an integration's error is not recorded", nil) {
		if e.CountLitEdges(lit, failed)+e.CountLitEdges(lit, failed.Neg()) > 0 {
			o.Forced(lit, "fan-err-forced", "a failing integration's error must be recorded", IsInstr(errStores...), failed)
		} else {
			// recorded unconditionally (a nil error is recorded as nil)
			o.Forced(lit, "fan-err-forced", "an integration's error must be recorded", IsInstr(errStores...))
		}
		// and what Exec returns is computed from what the goroutines recorded
		for _, ret := range (&Walk{Fn: fn}).FromEntry().Returns() {
			src := e.Sources(ret.Results[2], true)
			inc := src[ex.(*ssa.Call)]
			for _, p := range recParams {
				inc = inc || src[p] // what the recording function was handed (the integration's error, shown above)
			}
			for _, sl := range slots {
				inc = inc || src[sl] // the list whose slots the goroutines filled
			}
			o.Check(inc, "fan-err-value", "the error returned by FanoutStage.Exec does not include the integrations' errors", ret)
		}
	}
	// no cancellation of siblings: the literal must not call a cancel function / context.WithCancel
	for _, f := range []*ssa.Function{fn, lit} {
		for _, in := range AllInstrs(f) {
			if c, ok := in.(ssa.CallInstruction); ok {
				n := calleeName(c.Common())
				o.Check(n != "context.WithCancel" && n != "context.WithCancelCause", "fan-cancel", "FanoutStage derives a cancellable context: one integration's failure could cancel its siblings", in)
			}
		}
	}
}

// routingStageRule: a missing receiver or pipeline is an error, never a silent success.
func routingStageRule(o *Ob) {
	e := o.E
	fn := o.Fn("(am/notify.RoutingStage).Exec")
	ex := o.One(e.Calls(fn, "invoke:am/notify.Stage.Exec"), "rs-exec", "RoutingStage.Exec must run the receiver's pipeline", fn)
	o.Site(ex, "receiver pipeline")
	o.Check(e.Arg(ex, 0) == "recv[am/notify.ReceiverName(ctx)#0]#0", "rs-key", "the pipeline must be selected by the context's receiver name", ex)
	for _, rs := range e.ResultStores(fn, 2) {
		if k, ok := rs.Val.(*ssa.Const); ok && k.Value == nil {
			o.Fail("rs-nil-error", "RoutingStage.Exec reports success without running a pipeline", rs.Instr)
		}
	}
	// without pipeline: error
	has := L("recv[am/notify.ReceiverName(ctx)#0]#1", true)
	r := (&Walk{Fn: fn, Cut: e.CutContradicting(has.Neg())}).FromEntry()
	n := 0
	for _, rs := range e.ResultStores(fn, 2) {
		if r.Has(rs.Instr) {
			n++
			o.Check(isErrCtor(e.X(fn, rs.Val)), "rs-missing", "a receiver without pipeline must be an error", rs.Instr)
		}
	}
	o.Check(n > 0, "rs-missing-noexit", "no exit for a receiver without pipeline", nil)
	for _, rs := range e.ResultStores(fn, 2) {
		if (&Walk{Fn: fn}).After(ex).Has(rs.Instr) || rs.Instr.Block() == ex.Block() {
			o.Check(e.X(fn, rs.Val) == e.X(fn, ex.(*ssa.Call))+"#2", "rs-error-dropped", "the pipeline's error must be returned", rs.Instr)
		}
	}
}

func nflogMergeTableRule(o *Ob) {
	e := o.E
	fn := o.Fn("(am/nflog.state).merge")
	key := "am/nflog.stateKey(conv:string(p0.Entry.GroupKey), p0.Entry.Receiver)"
	exp := L("(p0.ExpiresAt.AsTime <t p1)", true)
	has := L("recv["+key+"]#1", true)
	newer := L("(recv["+key+"]#0.Entry.Timestamp.AsTime <t p0.Entry.Timestamp.AsTime)", true)
	mu := []func(ssa.Instruction) bool{isMapUpdate}
	o.Table(fn, "merge", []Row{
		{Name: "expired", Assume: A(exp), Ret: [][]string{Vals("false")}, Never: mu},
		{Name: "unknown key", Assume: A(exp.Neg(), has.Neg()), Ret: [][]string{Vals("true")}, Must: mu},
		{Name: "known, incoming strictly newer", Assume: A(exp.Neg(), has, newer), Ret: [][]string{Vals("true")}, Must: mu},
		{Name: "known, incoming not newer", Assume: A(exp.Neg(), has, newer.Neg()), Ret: [][]string{Vals("false")}, Never: mu},
	})
	for _, in := range AllInstrs(fn) {
		if m, ok := in.(*ssa.MapUpdate); ok {
			o.Site(in, "state write")
			o.Check(e.X(fn, m.Map) == "recv" && e.X(fn, m.Key) == key && e.X(fn, m.Value) == "p0", "merge|write-shape", "merge must store exactly s[stateKey(e)] = e, stores "+e.X(fn, m.Map)+"["+e.X(fn, m.Key)+"] = "+e.X(fn, m.Value), in)
		}
	}
	// the expiry check comes first: it dominates the lookup of the previous entry
	o.MinSites(4)
}

func nflogLogRule(o *Ob) {
	e := o.E
	fn := o.Fn("(*am/nflog.Log).Log")
	now := "(*am/nflog.Log).now(recv)"
	k := "am/nflog.stateKey(p1, p0)"
	has := L("recv.st["+k+"]#1", true)
	future := L("("+now+" <t recv.st["+k+"]#0.Entry.Timestamp.AsTime)", true)
	mg := o.One(e.Calls(fn, "(am/nflog.state).merge"), "log-merge", "Log must store through state.merge", fn)
	o.Site(mg, "Log → merge")
	o.Check(e.Arg(mg, 0) == "recv.st" && e.Arg(mg, 1) == "&complit:am/nflog/nflogpb.MeshEntry", "log-merge-args", "Log must merge the new entry into l.st", mg)
	var bc ssa.Instruction
	for _, in := range AllInstrs(fn) {
		if c, ok := in.(*ssa.Call); ok && strings.HasPrefix(e.X(fn, c), "dyn(fn=recv.broadcast") {
			bc = c
		}
	}
	o.Require(bc != nil, "log-bcast", "Log must broadcast the new entry", nil)
	o.Site(bc, "Log → broadcast")
	o.Check(e.Arg(bc.(ssa.CallInstruction), 0) == "am/nflog.marshalMeshEntry(&complit:am/nflog/nflogpb.MeshEntry)#0", "log-bcast-arg", "the broadcast payload must be the marshalled new entry", bc)
	o.Check(InstrDominates(mg, bc), "log-order", "the entry must be merged locally before it is broadcast", bc)
	mar := o.One(e.Calls(fn, "am/nflog.marshalMeshEntry"), "log-marshal", "Log must marshal the entry", fn)
	o.Check(InstrDominates(mar, mg), "log-marshal-first", "marshalling must precede the state change", mg)
	isM := IsInstr(mg)
	isB := IsInstr(bc)
	o.Table(fn, "Log", []Row{
		{Name: "existing entry is from the future", Assume: A(has, future), Ret: [][]string{nil}, Never: []func(ssa.Instruction) bool{isM, isB}},
		{Name: "no entry yet", Assume: A(has.Neg(), L("(am/nflog.marshalMeshEntry(&complit:am/nflog/nflogpb.MeshEntry)#1 == nil)", true)), Ret: [][]string{nil}, Must: []func(ssa.Instruction) bool{isM, isB}},
		{Name: "existing entry not newer than now", Assume: A(has, future.Neg(), L("(am/nflog.marshalMeshEntry(&complit:am/nflog/nflogpb.MeshEntry)#1 == nil)", true)), Ret: [][]string{nil}, Must: []func(ssa.Instruction) bool{isM, isB}},
	})
	held, why := e.HeldAt(mg, fn.Params[0], "mtx", 'W', 0)
	o.Check(held, "log-lock", "Log mutates the state without the write lock: "+why, mg)
}

func nflogMergeRule(o *Ob) {
	e := o.E
	fn := o.Fn("(*am/nflog.Log).Merge")
	mc := o.One(e.Calls(fn, "(am/nflog.state).merge"), "merge-call", "Log.Merge must merge through state.merge", fn)
	o.Site(mc, "Merge → merge")
	ent := "next(range(am/nflog.decodeState(bytes.NewReader(p0))#0))#2"
	o.Check(e.Arg(mc, 0) == "recv.st" && e.Arg(mc, 1) == ent, "merge-args", "every decoded entry must be merged into l.st", mc)
	held, why := e.HeldAt(mc, fn.Params[0], "mtx", 'W', 0)
	o.Check(held, "merge-lock", "state.merge called without the write lock: "+why, mc)
	l := e.LoopOf(mc)
	o.Require(l != nil, "merge-loop", "entries are not merged in a loop", mc)
	coll, _ := e.RangeOver(l)
	o.Check(coll == "am/nflog.decodeState(bytes.NewReader(p0))#0", "merge-range", "the loop must range over the decoded payload", mc)
	o.Check(len(e.EarlyExits(l)) == 0, "merge-early-exit", "the merge loop can stop before all received entries were merged", mc)
	bi, _ := l.BodyEntry()
	r := (&Walk{Fn: fn, Barrier: IsInstr(mc)}).FromEdge(l.Header, bi)
	for _, be := range l.Back {
		o.Check(!r.Edge[be], "merge-skip", "an entry of the payload can be skipped without merging", mc)
	}
	merged := L(e.X(fn, mc.(*ssa.Call)), true)
	over := L("am/cluster.OversizedMessage(p0)", true)
	var bc ssa.Instruction
	for _, in := range AllInstrs(fn) {
		if c, ok := in.(*ssa.Call); ok && strings.HasPrefix(e.X(fn, c), "dyn(fn=recv.broadcast") {
			o.Check(bc == nil, "bcast-two", "more than one re-broadcast site", c)
			bc = c
		}
	}
	o.Require(bc != nil, "bcast", "Log.Merge must re-broadcast newly merged entries", nil)
	o.Site(bc, "re-broadcast")
	o.Guarded(bc, "bcast-guard-merged", "re-gossiping a received message", merged)
	o.Guarded(bc, "bcast-guard-oversize", "re-gossiping a received message", over.Neg())
	o.Check(e.Arg(bc.(ssa.CallInstruction), 0) == "p0", "bcast-arg", "the re-broadcast payload must be the received message", bc)
	r2 := (&Walk{Fn: fn, Cut: e.CutContradicting(merged, over.Neg()), Barrier: IsInstr(bc)}).FromEdge(l.Header, bi)
	for _, be := range l.Back {
		o.Check(!r2.Edge[be], "bcast-forced", "a newly merged, not oversized message is not gossiped further on some path", bc)
	}
}

func init() {
	propInfos["C10"] = &propInfo{
		Explanation: "Decides the per-step discipline of the replicated notification log: (1) nflog state.merge is a last-writer-wins join keyed by stateKey(group, receiver): expired → rejected (checked first), unknown key or strictly newer timestamp → stored, otherwise unchanged; (2) Log writes under the lock, skips only when the existing entry's timestamp is after now, merges then broadcasts the marshalled entry; (3) Merge merges every decoded entry under the write lock and re-broadcasts iff merged ∧ ¬oversized; (4) Query returns the entry at the key or not-found under the read lock, GC deletes iff expiry is not after now; (5) the log state has a fixed writer set; (6) receiver data: Log stores the store's map, NewStore clones the entry's map.",
		NotDecided:  "convergence over all arrival orders (follows from the LWW table for distinct timestamps by algebra); transport delivery (C19).",
	}

	reg("C10", "C10.1", "T6", "nflog state.merge is a last-writer-wins join: expired→reject; unknown key or strictly newer timestamp→store; else unchanged", nflogMergeTableRule)
	reg("C10", "C10.10", "T12", "reading the log does not change it: the subset tests the de-duplication applies to a stored entry do not write to the entry", entryReadOnlyRule)
	reg("C04", "C04.10", "T12", "the de-duplication only reads the stored entry: its subset tests do not write to it", entryReadOnlyRule)
	reg("C04", "C04.8", "T6", "the entry the de-duplication reads is the newest one: nflog state.merge is a last-writer-wins join (a refused newer entry makes every flush look like a change or a due repeat)", nflogMergeTableRule)
	reg("C04", "C04.9", "T6,T2,T5", "a recorded notification replaces the stored entry: Log skips only when the existing entry's timestamp is after now; merge before broadcast", func(o *Ob) {
		nflogLogRule(o)
		o.MinSites(4)
	})

	reg("C10", "C10.2", "T6,T2,T5", "Log: under the write lock; skips only when the existing entry's timestamp is after now; marshal, merge, then broadcast", func(o *Ob) {
		nflogLogRule(o)
		o.MinSites(4)
	})

	reg("C10", "C10.3", "T1,T8,T5", "Log.Merge: every decoded entry merged under the write lock; re-broadcast iff merged ∧ ¬oversized", func(o *Ob) {
		nflogMergeRule(o)
		o.MinSites(2)
	})

	reg("C10", "C10.6", "T3,T5", "the log state is written only by merge/GC/loader; every access to Log.st holds the lock", func(o *Ob) {
		allowed := map[string]string{"(am/nflog.state).merge": "", "am/nflog.decodeState": "", "(*am/nflog.Log).GC": "", "(am/nflog.state).clone": ""}
		for _, w := range o.E.MapWritesOfType("am/nflog.state") {
			n := fnName(w.Fn)
			o.Site(w.Instr, w.Kind+" on a log state map")
			_, ok := allowed[n]
			o.Check(ok, "state-writer|"+n, "the log state is modified ("+w.Kind+") by "+n+": every store must go through state.merge so that newer-wins holds", w.Instr)
		}
		o.WritersWithin("am/nflog.Log", "st", map[string]string{"am/nflog.New": "", "(*am/nflog.Log).loadSnapshot": "", "(*am/nflog.Log).GC": ""})
		n := o.LockedAccesses("am/nflog.Log", "st", "mtx", map[string]string{"am/nflog.New": "constructor"})
		lockBalanceRule(o, "am/nflog")
		o.Check(n >= 5, "few", "implausibly few accesses to Log.st", nil)
		o.MinSites(6)
	})

	reg("C10", "C10.7", "T11", "receiver data: Log stores the store's data; NewStore hands out a clone of the entry's map, never the logged map itself", func(o *Ob) {
		e := o.E
		ns := o.Fn("am/nflog.NewStore")
		sts := e.StoresToField(ns, "am/nflog.Store", "data")
		o.Require(len(sts) >= 1, "newstore-data", "NewStore must set the store's data", nil)
		// what a store may be given: nothing, a map made here (possibly filled from the entry's by maps.Copy), or a clone
		copied := map[ssa.Value]bool{}
		for _, c := range e.Calls(ns, "maps.Copy") {
			if e.Arg(c, 1) == "p0.ReceiverData" {
				copied[c.Common().Args[0]] = true
			}
		}
		has := false
		for _, st := range sts {
			for _, v := range e.ValsUnder(nil, st.Val) {
				s := e.X(ns, v)
				o.Site(st, "Store.data may be "+s)
				ok := s == "nil" || strings.HasPrefix(s, "makemap:") || s == "maps.Clone(p0.ReceiverData)"
				o.Check(ok, "newstore-alias", "NewStore hands out "+s+": a stage mutating its store would alter the logged entry in place (unsynchronised, unreplicated)", st)
				if s == "maps.Clone(p0.ReceiverData)" || copied[v] {
					has = true
				}
			}
		}
		o.Check(has, "newstore-drops", "NewStore no longer carries over the entry's receiver data", sts[0])
		// DedupStage gives the store the queried entry unless first notification
		o.MinSites(2)
	})

	reg("C10", "C10.15", "T3,T12", "a logged entry is never changed in place: outside the generated code, fields of log entries are written only on an entry the same function has just built", logEntryImmutableRule)

	reg("C10", "C10.4", "T1,T5", "Query returns exactly the entry at stateKey(group, receiver) or ErrNotFound, under the read lock; GC deletes iff expiry is not after now", func(o *Ob) {
		// shared with C04.5
		for i := range registry {
			if registry[i].ID == "C04.5" {
				registry[i].Run(o)
				return
			}
		}
		o.Fail("missing", "rule C04.5 not registered", nil)
	})
}

// rootsInFreeVar: the address lies in storage the literal shares with its creator (a captured
// variable, or an element / field of what a captured variable holds).
func rootsInFreeVar(addr ssa.Value) bool {
	for i := 0; i < 8; i++ {
		switch x := addr.(type) {
		case *ssa.FreeVar:
			return true
		case *ssa.IndexAddr:
			addr = x.X
		case *ssa.FieldAddr:
			addr = x.X
		case *ssa.UnOp:
			addr = x.X
		default:
			return false
		}
	}
	return false
}

// entryReadOnlyRule: Entry.IsFiringSubset / IsResolvedSubset are called on the entry stored in the log (Query
// hands out the stored pointer): neither they nor what they call may write through the receiver.
func entryReadOnlyRule(o *Ob) {
	e := o.E
	for _, name := range []string{"(*am/nflog/nflogpb.Entry).IsFiringSubset", "(*am/nflog/nflogpb.Entry).IsResolvedSubset"} {
		fn := o.Fn(name)
		o.SiteS(name + " is read-only on its receiver")
		for _, w := range e.WritesThroughParam(fn, 0, 2) {
			o.Fail("entry-mutated|"+name, name+" writes to the stored log entry ("+w.What+"): a read (Query + de-duplication) changes what later queries, the gossiped state and the snapshot contain", w.Instr)
		}
		o.Checks++
		o.Passed++
	}
	o.MinSites(2)
}

// logEntryImmutableRule: Query hands out the stored entry itself (C10.4), so whoever writes a field of an
// entry it did not build changes the log without Log — unsynchronised, without a new timestamp, unreplicated.
// Every write (field store, element store, map update, delete) to a field of nflogpb.Entry, MeshEntry or
// Receiver outside the generated package must address an object allocated in the writing function.
func logEntryImmutableRule(o *Ob) {
	e := o.E
	n := 0
	for _, T := range []string{"Entry", "MeshEntry", "Receiver"} {
		nt := e.NamedType("am/nflog/nflogpb", T)
		if !o.Check(nt != nil, "type|"+T, "the log entry type nflogpb."+T+" no longer exists", nil) {
			continue
		}
		st, _ := nt.Underlying().(*types.Struct)
		for i := 0; st != nil && i < st.NumFields(); i++ {
			f := st.Field(i).Name()
			for _, w := range e.Writers("am/nflog/nflogpb."+T, f) {
				if fnPkgPath(w.Fn) == long("am/nflog/nflogpb") {
					continue
				}
				n++
				o.Site(w.Instr, w.Kind+" of "+T+"."+f+" in "+fnName(w.Fn))
				base := w.Base
				for {
					if u, ok := base.(*ssa.UnOp); ok && u.Op == token.MUL {
						if ld := localStored(u); ld != ssa.Value(u) {
							base = ld
							continue
						}
					}
					break
				}
				_, fresh := base.(*ssa.Alloc)
				o.Check(fresh, "entry-write|"+fnName(w.Fn)+"|"+T+"."+f, fnName(w.Fn)+" writes "+T+"."+f+" of an entry it did not build ("+clip(e.X(w.Fn, w.Base))+"): entries handed out by Query are the stored ones", w.Instr)
			}
		}
	}
	o.Check(n >= 5, "few", "implausibly few writes of log entry fields found (the log builds its entries field by field): "+itoa(n), nil)
	o.MinSites(5)
}
