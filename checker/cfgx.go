package main

import (
	"go/constant"
	"go/token"
	"regexp"
	"sort"
	"strings"

	"golang.org/x/tools/go/ssa"
)

type domInfo struct{}

// ---------------------------------------------------------------------------
// Instruction-granular reachability with cut edges and barrier instructions.
// All "on every path" obligations are decided as un-reachability in a graph
// from which the justifying edges / instructions have been removed.
// ---------------------------------------------------------------------------

type Walk struct {
	Fn      *ssa.Function
	Cut     func(b *ssa.BasicBlock, succ int) bool // edge b -> b.Succs[succ] is not followed
	Barrier func(in ssa.Instruction) bool          // the walk does not continue past such an instruction
}

type Reached struct {
	Instr map[ssa.Instruction]bool
	Edge  map[[2]int]bool // [from block index, to block index]
	Block map[int]bool    // block entered at its first instruction
}

func (w *Walk) run(startBlocks []*ssa.BasicBlock, startIdx []int) *Reached {
	r := &Reached{Instr: map[ssa.Instruction]bool{}, Edge: map[[2]int]bool{}, Block: map[int]bool{}}
	type pt struct {
		b    *ssa.BasicBlock
		i    int
		only int // -1: all successors; 0/1: only that successor (condition is a phi constant for the edge taken)
	}
	var work []pt
	for k, b := range startBlocks {
		work = append(work, pt{b, startIdx[k], -1})
	}
	seenChoice := map[[2]int]bool{}
	for len(work) > 0 {
		p := work[len(work)-1]
		work = work[:len(work)-1]
		if p.i == 0 {
			ck := [2]int{p.b.Index, p.only}
			if seenChoice[ck] || seenChoice[[2]int{p.b.Index, -1}] {
				continue
			}
			seenChoice[ck] = true
			r.Block[p.b.Index] = true
		}
		stopped := false
		for i := p.i; i < len(p.b.Instrs); i++ {
			in := p.b.Instrs[i]
			if r.Instr[in] && p.i != 0 {
				// already walked from here
				stopped = true
				break
			}
			r.Instr[in] = true
			if w.Barrier != nil && w.Barrier(in) {
				stopped = true
				break
			}
		}
		if stopped {
			continue
		}
		for si, s := range p.b.Succs {
			if p.only >= 0 && si != p.only {
				continue
			}
			if w.Cut != nil && w.Cut(p.b, si) {
				continue
			}
			r.Edge[[2]int{p.b.Index, s.Index}] = true
			work = append(work, pt{s, 0, phiConstChoice(p.b, s)})
		}
	}
	return r
}

// phiConstChoice: if block s ends in an If whose condition is a phi of s that
// has a constant boolean for the edge from p, the successor index that will be
// taken (0 for true, 1 for false); otherwise -1.
func phiConstChoice(p, s *ssa.BasicBlock) int {
	if len(s.Instrs) == 0 {
		return -1
	}
	iff, ok := s.Instrs[len(s.Instrs)-1].(*ssa.If)
	if !ok {
		return -1
	}
	neg := false
	c := iff.Cond
	for {
		if u, ok := c.(*ssa.UnOp); ok && u.Op == token.NOT {
			neg = !neg
			c = u.X
			continue
		}
		break
	}
	phi, ok := c.(*ssa.Phi)
	if !ok || phi.Block() != s {
		return -1
	}
	for i, pred := range s.Preds {
		if pred == p {
			if k, ok := phi.Edges[i].(*ssa.Const); ok && k.Value != nil && k.Value.Kind() == constant.Bool {
				v := constant.BoolVal(k.Value)
				if neg {
					v = !v
				}
				if v {
					return 0
				}
				return 1
			}
			return -1
		}
	}
	return -1
}

// FromEntry walks from the function entry.
func (w *Walk) FromEntry() *Reached {
	if len(w.Fn.Blocks) == 0 {
		return &Reached{Instr: map[ssa.Instruction]bool{}, Edge: map[[2]int]bool{}, Block: map[int]bool{}}
	}
	return w.run([]*ssa.BasicBlock{w.Fn.Blocks[0]}, []int{0})
}

// After walks from the instruction(s) following the given ones.
func (w *Walk) After(ins ...ssa.Instruction) *Reached {
	var bs []*ssa.BasicBlock
	var is []int
	for _, in := range ins {
		b := in.Block()
		for i, x := range b.Instrs {
			if x == in {
				bs = append(bs, b)
				is = append(is, i+1)
			}
		}
	}
	return w.run(bs, is)
}

// FromEdge walks from the target of edge b -> b.Succs[succ].
func (w *Walk) FromEdge(b *ssa.BasicBlock, succ int) *Reached {
	r := w.run([]*ssa.BasicBlock{b.Succs[succ]}, []int{0})
	r.Edge[[2]int{b.Index, b.Succs[succ].Index}] = true
	return r
}

func (r *Reached) Returns() []*ssa.Return {
	var out []*ssa.Return
	for in := range r.Instr {
		if ret, ok := in.(*ssa.Return); ok {
			out = append(out, ret)
		}
	}
	sort.Slice(out, func(i, j int) bool { return out[i].Block().Index < out[j].Block().Index })
	return out
}

func (r *Reached) Has(in ssa.Instruction) bool { return r.Instr[in] }

// ---------------------------------------------------------------------------
// Literal matchers and edge cuts
// ---------------------------------------------------------------------------

// LitM matches branch literals.
type LitM struct {
	Desc string
	F    func(Lit) bool
}

// L matches the literal with exactly this atom and polarity.
func L(atom string, pos bool) LitM {
	d := atom
	if !pos {
		d = "¬" + atom
	}
	return LitM{d, func(l Lit) bool { return l.Atom == atom && l.Pos == pos }}
}

// LRe matches literals whose atom matches the (anchored) regular expression.
func LRe(re string, pos bool) LitM {
	rx := regexp.MustCompile("^(?:" + re + ")$")
	d := "/" + re + "/"
	if !pos {
		d = "¬" + d
	}
	return LitM{d, func(l Lit) bool { return l.Pos == pos && rx.MatchString(l.Atom) }}
}

// LHas matches literals whose atom contains all the given substrings.
func LHas(pos bool, subs ...string) LitM {
	d := "~" + strings.Join(subs, "&")
	if !pos {
		d = "¬" + d
	}
	return LitM{d, func(l Lit) bool {
		if l.Pos != pos {
			return false
		}
		for _, s := range subs {
			if !strings.Contains(l.Atom, s) {
				return false
			}
		}
		return true
	}}
}

func (m LitM) Neg() LitM {
	return LitM{"not(" + m.Desc + ")", func(l Lit) bool { return m.F(Lit{l.Atom, !l.Pos}) }}
}

// EdgeLit returns the literal asserted by edge b->Succs[succ], if b ends in an If.
func (e *Eng) EdgeLit(b *ssa.BasicBlock, succ int) (Lit, bool) {
	if len(b.Instrs) == 0 {
		return Lit{}, false
	}
	iff, ok := b.Instrs[len(b.Instrs)-1].(*ssa.If)
	if !ok {
		return Lit{}, false
	}
	l := e.CondLit(b.Parent(), iff.Cond)
	if succ == 1 {
		l.Pos = !l.Pos
	}
	return l, true
}

// CutLits returns a Cut function removing every edge that asserts a literal matched by any of ms.
func (e *Eng) CutLits(ms ...LitM) func(b *ssa.BasicBlock, succ int) bool {
	return func(b *ssa.BasicBlock, succ int) bool {
		l, ok := e.EdgeLit(b, succ)
		if !ok {
			return false
		}
		for _, m := range ms {
			if m.F(l) {
				return true
			}
		}
		return false
	}
}

// CutContradicting removes every edge whose literal contradicts one of the given
// assumptions (i.e. asserts the negation of a matched literal).
func (e *Eng) CutContradicting(assume ...LitM) func(b *ssa.BasicBlock, succ int) bool {
	return func(b *ssa.BasicBlock, succ int) bool {
		l, ok := e.EdgeLit(b, succ)
		if !ok {
			return false
		}
		nl := Lit{l.Atom, !l.Pos}
		for _, m := range assume {
			if m.F(nl) {
				return true
			}
		}
		return false
	}
}

// CountLitEdges counts edges in fn asserting a literal matched by m.
func (e *Eng) CountLitEdges(fn *ssa.Function, m LitM) int {
	n := 0
	for _, b := range fn.Blocks {
		for si := range b.Succs {
			if l, ok := e.EdgeLit(b, si); ok && m.F(l) {
				n++
			}
		}
	}
	return n
}

// LitsOf lists all literals asserted by edges of fn (for diagnostics).
func (e *Eng) LitsOf(fn *ssa.Function) []string {
	set := map[string]bool{}
	for _, b := range fn.Blocks {
		if l, ok := e.EdgeLit(b, 0); ok {
			set[l.Atom] = true
		}
	}
	var out []string
	for k := range set {
		out = append(out, k)
	}
	sort.Strings(out)
	return out
}

// OnlyUnder reports whether instruction target can be reached from entry only
// through an edge asserting one of ms (i.e. target is guarded by the disjunction of ms).
func (e *Eng) OnlyUnder(target ssa.Instruction, ms ...LitM) bool {
	w := &Walk{Fn: target.Parent(), Cut: e.CutLits(ms...)}
	return !w.FromEntry().Has(target)
}

// ---------------------------------------------------------------------------
// Instructions, calls, effects
// ---------------------------------------------------------------------------

func AllInstrs(fn *ssa.Function) []ssa.Instruction {
	var out []ssa.Instruction
	for _, b := range fn.Blocks {
		out = append(out, b.Instrs...)
	}
	return out
}

// CalleeOf returns the canonical callee name of a call-like instruction, or "".
func CalleeOf(in ssa.Instruction) string {
	if ci, ok := in.(ssa.CallInstruction); ok {
		return calleeName(ci.Common())
	}
	return ""
}

// Calls returns the call instructions (call, go, defer) of fn whose canonical
// callee name equals name (with "am/" for the module) or, when name starts with
// '~', matches it as a regular expression.
func (e *Eng) Calls(fn *ssa.Function, name string) []ssa.CallInstruction {
	var rx *regexp.Regexp
	if strings.HasPrefix(name, "~") {
		rx = regexp.MustCompile("^(?:" + name[1:] + ")$")
	}
	var out []ssa.CallInstruction
	for _, in := range AllInstrs(fn) {
		ci, ok := in.(ssa.CallInstruction)
		if !ok {
			continue
		}
		cn := calleeName(ci.Common())
		if rx != nil && rx.MatchString(cn) || rx == nil && cn == name {
			out = append(out, ci)
		}
	}
	return out
}

// CallsDeep returns calls in fn and in all its function literals.
func (e *Eng) CallsDeep(fn *ssa.Function, name string) []ssa.CallInstruction {
	out := e.Calls(fn, name)
	for _, a := range Anons(fn) {
		out = append(out, e.Calls(a, name)...)
	}
	return out
}

func IsCall(name string) func(ssa.Instruction) bool {
	var rx *regexp.Regexp
	if strings.HasPrefix(name, "~") {
		rx = regexp.MustCompile("^(?:" + name[1:] + ")$")
	}
	return func(in ssa.Instruction) bool {
		ci, ok := in.(ssa.CallInstruction)
		if !ok {
			return false
		}
		if _, isDefer := in.(*ssa.Defer); isDefer {
			return false
		}
		cn := calleeName(ci.Common())
		return rx != nil && rx.MatchString(cn) || rx == nil && cn == name
	}
}

func AnyOf(fs ...func(ssa.Instruction) bool) func(ssa.Instruction) bool {
	return func(in ssa.Instruction) bool {
		for _, f := range fs {
			if f(in) {
				return true
			}
		}
		return false
	}
}

func IsInstr(ins ...ssa.Instruction) func(ssa.Instruction) bool {
	set := map[ssa.Instruction]bool{}
	for _, i := range ins {
		set[i] = true
	}
	return func(in ssa.Instruction) bool { return set[in] }
}

// Arg renders argument i of a call (for methods, 0 is the receiver).
func (e *Eng) Arg(ci ssa.CallInstruction, i int) string {
	c := ci.Common()
	args := c.Args
	if c.IsInvoke() {
		if i == 0 {
			return e.X(ci.Parent(), c.Value)
		}
		i--
	}
	if i < len(args) {
		return e.X(ci.Parent(), args[i])
	}
	return "<none>"
}

func (e *Eng) ArgV(ci ssa.CallInstruction, i int) ssa.Value {
	c := ci.Common()
	if c.IsInvoke() {
		if i == 0 {
			return c.Value
		}
		i--
	}
	if i < len(c.Args) {
		return c.Args[i]
	}
	return nil
}

// RetVals resolves the possible values of result idx of ret given what was
// reached: phis only contribute edges that were actually traversed.
func (e *Eng) RetVals(r *Reached, ret *ssa.Return, idx int) []ssa.Value {
	if idx >= len(ret.Results) {
		return nil
	}
	return e.ValsUnder(r, ret.Results[idx])
}

// ValsUnder expands phis (and single-assignment boxes) of v under the reached edges.
func (e *Eng) ValsUnder(r *Reached, v ssa.Value) []ssa.Value {
	var out []ssa.Value
	seen := map[ssa.Value]bool{}
	var rec func(v ssa.Value)
	rec = func(v ssa.Value) {
		if seen[v] {
			return
		}
		seen[v] = true
		switch v := v.(type) {
		case *ssa.Phi:
			b := v.Block()
			for i, ed := range v.Edges {
				p := b.Preds[i]
				if r == nil || r.Edge[[2]int{p.Index, b.Index}] {
					rec(ed)
				}
			}
			return
		case *ssa.UnOp:
			if a, ok := v.X.(*ssa.Alloc); ok && v.Op.String() == "*" {
				sts, esc := e.boxStores(a)
				if !esc && len(sts) > 0 {
					n := 0
					for _, st := range sts {
						// only stores that were reached count
						if r == nil || r.Instr[st] {
							n++
							rec(st.Val)
						}
					}
					if n > 0 {
						return
					}
				}
			}
		case *ssa.MakeInterface:
			rec(v.X)
			return
		case *ssa.ChangeType:
			rec(v.X)
			return
		}
		out = append(out, v)
	}
	rec(v)
	return out
}

// ValStrs renders a value set, sorted.
func (e *Eng) ValStrs(fn *ssa.Function, vs []ssa.Value) []string {
	set := map[string]bool{}
	for _, v := range vs {
		set[e.X(fn, v)] = true
	}
	var out []string
	for k := range set {
		out = append(out, k)
	}
	sort.Strings(out)
	return out
}

// InstrDominates reports whether a is executed before b on every path reaching b.
func InstrDominates(a, b ssa.Instruction) bool {
	if a.Block() == b.Block() {
		for _, in := range a.Block().Instrs {
			if in == a {
				return true
			}
			if in == b {
				return false
			}
		}
	}
	return a.Block().Dominates(b.Block())
}

// ---------------------------------------------------------------------------
// Stores / writers
// ---------------------------------------------------------------------------

// FieldWrite is a write to a struct field or to a map / slice held in a struct field.
type FieldWrite struct {
	Fn    *ssa.Function
	Instr ssa.Instruction
	Kind  string // "store", "mapupdate", "delete", "elemstore"
}

// fieldOf reports (named struct type string, field name) if v is the address of / a load of a field.
func (e *Eng) fieldOf(v ssa.Value) (string, string, bool) {
	switch v := v.(type) {
	case *ssa.FieldAddr:
		return typeKey(v.X.Type()), fieldName(v.X.Type(), v.Field), true
	case *ssa.Field:
		return typeKey(v.X.Type()), fieldName(v.X.Type(), v.Field), true
	case *ssa.UnOp:
		if v.Op.String() == "*" {
			return e.fieldOf(v.X)
		}
	case *ssa.ChangeType:
		return e.fieldOf(v.X)
	}
	return "", "", false
}
