package main

import (
	"go/constant"
	"go/token"
	"go/types"
	"regexp"
	"sort"
	"strconv"
	"strings"

	"golang.org/x/tools/go/ssa"
)

// ---------------------------------------------------------------------------
// Instruction-granular reachability with cut edges and barrier instructions.
// All "on every path" obligations are decided as un-reachability in a graph
// from which the justifying edges / instructions have been removed.
// ---------------------------------------------------------------------------

type Walk struct {
	Fn        *ssa.Function
	Cut       func(b *ssa.BasicBlock, succ int) bool // edge b -> b.Succs[succ] is not followed
	Barrier   func(in ssa.Instruction) bool          // the walk does not continue past such an instruction
	Track     *EqTrack                               // optional: follow the possible constant values of one expression
	E         *Eng                                   // needed with Track
	init      pctx                                   // context of the start points (FromEdgeCtx)
	initFacts condFacts                              // what the starting edge asserts (FromEdgeCtx)
}

// EqTrack follows, along each path, which constants an expression (named by its canonical
// rendering) can still equal, given the equality tests passed so far: after ¬(x==A) and
// ¬(x==B) in a three-valued domain only the rest remains.  Bit 0 stands for "any value not
// compared against".
type EqTrack struct {
	Lhs  string
	bits map[string]uint32
}

func (t *EqTrack) bit(k string) uint32 {
	if t.bits == nil {
		t.bits = map[string]uint32{}
	}
	if b, ok := t.bits[k]; ok {
		return b
	}
	n := len(t.bits) + 1
	if n > 31 {
		return 1 // lumped with "other"
	}
	t.bits[k] = 1 << uint(n)
	return t.bits[k]
}

// eqAtom parses "(lhs == const)" where const is a string or integer constant rendering.
func eqAtom(atom string) (lhs, k string, ok bool) {
	if len(atom) < 6 || atom[0] != '(' || atom[len(atom)-1] != ')' {
		return "", "", false
	}
	in := atom[1 : len(atom)-1]
	i := strings.LastIndex(in, " == ")
	if i < 0 {
		return "", "", false
	}
	lhs, k = in[:i], in[i+4:]
	if k == "" {
		return "", "", false
	}
	if k[0] == '"' {
		if _, err := strconv.Unquote(k); err != nil {
			return "", "", false
		}
		return lhs, k, true
	}
	if _, err := strconv.ParseInt(k, 10, 64); err == nil {
		return lhs, k, true
	}
	return "", "", false
}

// refine updates the tracked mask by the literals an edge asserts; ok=false: the edge is infeasible.
func (t *EqTrack) refine(m uint32, lits []Lit) (uint32, bool) {
	for _, l := range lits {
		for _, a := range []string{l.Atom, l.Alt} {
			lhs, k, ok := eqAtom(a)
			if !ok || lhs != t.Lhs {
				continue
			}
			if l.Pos {
				m &= t.bit(k)
			} else {
				m &^= t.bit(k)
			}
			break
		}
	}
	return m, m != 0
}

type Reached struct {
	Instr map[ssa.Instruction]bool
	Edge  map[[2]int]bool // [from block index, to block index]
	Block map[int]bool    // block entered at its first instruction
	// Ctx: the phi contexts under which each block was entered (see pctx); nil entry = unknown
	Ctx map[int][]pctx
	// Mask: with Walk.Track, the union of the possible-value masks with which each block was entered
	Mask map[int]uint32
}

// pctx is the path context of a walk: for the most recently entered blocks that
// start with phis, the predecessor slot through which the block was entered
// (oldest first).  It lets the walk decide branch conditions that are phis of
// constants (results of a helper joined after its returns, "err" variables set
// on some paths only) and resolve phis in returned values path-sensitively.
const ctxMax = 6

type pctx struct {
	n    int8
	blk  [ctxMax]int32
	slot [ctxMax]int32
}

func (c pctx) with(b, slot, max int) pctx {
	var o pctx
	for i := 0; i < int(c.n); i++ {
		if int(c.blk[i]) == b {
			continue
		}
		o.blk[o.n], o.slot[o.n] = c.blk[i], c.slot[i]
		o.n++
	}
	for int(o.n) >= max {
		copy(o.blk[:], o.blk[1:])
		copy(o.slot[:], o.slot[1:])
		o.n--
	}
	o.blk[o.n], o.slot[o.n] = int32(b), int32(slot)
	o.n++
	return o
}

// get returns the slot recorded for block b if its entry is older than position before (-1: any).
func (c pctx) get(b, before int) (slot, pos int, ok bool) {
	if before == -2 {
		return 0, 0, false
	}
	for i := 0; i < int(c.n); i++ {
		if int(c.blk[i]) == b {
			if before >= 0 && i >= before {
				return 0, 0, false
			}
			if c.slot[i] < 0 {
				return 0, 0, false
			}
			return int(c.slot[i]), i, true
		}
	}
	return 0, 0, false
}

// resolveCtx follows phis whose incoming edge is fixed by the context.
func resolveCtx(v ssa.Value, c pctx) ssa.Value {
	before := -1
	for k := 0; k < 8; k++ {
		phi, ok := v.(*ssa.Phi)
		if !ok {
			return v
		}
		slot, pos, ok := c.get(phi.Block().Index, before)
		if !ok || slot >= len(phi.Edges) {
			return v
		}
		v = phi.Edges[slot]
		before = pos
	}
	return v
}

// (cloneSilence: the copy of a silence is a silence; it is only ever handed a silence that was found or received)
var nonNilCtors = map[string]bool{"errors.New": true, "fmt.Errorf": true, "am/silence.cloneSilence": true, "google.golang.org/protobuf/types/known/timestamppb.New": true}

// assumedNonNil: values a rule declares non-nil for the duration of a walk (e.g. the context's error on the
// branch taken when the context is done).
var assumedNonNil func(ssa.Value) bool

func knownNonNil(v ssa.Value) bool {
	if assumedNonNil != nil && assumedNonNil(v) {
		return true
	}
	switch x := v.(type) {
	case *ssa.Alloc, *ssa.MakeInterface, *ssa.MakeClosure, *ssa.MakeMap, *ssa.MakeSlice, *ssa.MakeChan, *ssa.Function, *ssa.Global, *ssa.FieldAddr, *ssa.IndexAddr:
		return true
	case *ssa.Call:
		return nonNilCtors[calleeName(&x.Call)]
	case *ssa.Const:
		return x.Value != nil
	case *ssa.UnOp:
		// a sentinel: a package-level variable that its package assigns once, at initialisation, a constructed value
		if g, ok := x.X.(*ssa.Global); ok && x.Op == token.MUL {
			return sentinelGlobal(g)
		}
	}
	return false
}

var sentinelCache = map[*ssa.Global]bool{}

func sentinelGlobal(g *ssa.Global) bool {
	if v, ok := sentinelCache[g]; ok {
		return v
	}
	sentinelCache[g] = false
	pkg := g.Package()
	if pkg == nil {
		return false
	}
	n, ok := 0, true
	var visit func(f *ssa.Function)
	visit = func(f *ssa.Function) {
		for _, b := range f.Blocks {
			for _, in := range b.Instrs {
				if st, isSt := in.(*ssa.Store); isSt && st.Addr == ssa.Value(g) {
					n++
					if f.Name() != "init" || !knownNonNil(st.Val) {
						ok = false
					}
				}
			}
		}
		for _, a := range f.AnonFuncs {
			visit(a)
		}
	}
	for _, m := range pkg.Members {
		if f, isF := m.(*ssa.Function); isF {
			visit(f)
		}
		if t, isT := m.(*ssa.Type); isT {
			for _, T := range []types.Type{t.Type(), types.NewPointer(t.Type())} {
				ms := pkg.Prog.MethodSets.MethodSet(T)
				for i := 0; i < ms.Len(); i++ {
					if f := pkg.Prog.MethodValue(ms.At(i)); f != nil && f.Pkg == pkg {
						visit(f)
					}
				}
			}
		}
	}
	// (a variable of another package cannot be assigned from outside unless exported; the module's exported
	// sentinels are named Err…, and no rule relies on one that is not)
	res := ok && n == 1 && strings.HasPrefix(g.Name(), "Err")
	sentinelCache[g] = res
	return res
}

// condOv: while a walk evaluates the cut of an edge, the phis inside the branch condition
// that the path context fixes (a variable assigned on several paths is a phi; under the
// context it is the expression assigned on this path).
type condOv struct {
	sub map[*ssa.Phi]ssa.Value
	v   ssa.Value
	neg bool
}

var condOverride *condOv

// phiSubFor collects the phis in the expression tree of v that the context fixes.
func phiSubFor(v ssa.Value, c pctx) map[*ssa.Phi]ssa.Value {
	if c.n == 0 {
		return nil
	}
	var sub map[*ssa.Phi]ssa.Value
	seen := map[ssa.Value]bool{}
	var fn *ssa.Function
	if in, ok := v.(ssa.Instruction); ok {
		fn = in.Parent()
	}
	var rec func(v ssa.Value, d int)
	rec = func(v ssa.Value, d int) {
		if v == nil || seen[v] || d > 10 {
			return
		}
		seen[v] = true
		if p, ok := v.(*ssa.Phi); ok {
			if rv := resolveCtx(p, c); rv != ssa.Value(p) {
				if sub == nil {
					sub = map[*ssa.Phi]ssa.Value{}
				}
				rv = localStored(rv)
				sub[p] = rv
				rec(rv, d+1)
			}
			return
		}
		if in, ok := v.(ssa.Instruction); ok && in.Parent() == fn {
			switch v.(type) {
			case *ssa.Alloc:
				return
			}
			for _, op := range in.Operands(nil) {
				if *op != nil {
					rec(*op, d+1)
				}
			}
		}
	}
	rec(v, 0)
	return sub
}

// condAlternatives lists the expressions a branch condition can stand for: the condition
// itself or, for a boolean joined from several paths, the non-constant joined expressions.
func condAlternatives(v ssa.Value) []condOv {
	var out []condOv
	seen := map[ssa.Value]bool{}
	var rec func(v ssa.Value, neg bool)
	rec = func(v ssa.Value, neg bool) {
		for {
			if u, ok := v.(*ssa.UnOp); ok && u.Op == token.NOT {
				neg = !neg
				v = u.X
				continue
			}
			break
		}
		if seen[v] {
			return
		}
		seen[v] = true
		if phi, ok := v.(*ssa.Phi); ok {
			if b, isB := phi.Type().Underlying().(*types.Basic); isB && b.Info()&types.IsBoolean != 0 {
				for _, ed := range phi.Edges {
					if _, isK := ed.(*ssa.Const); isK {
						continue
					}
					rec(ed, neg)
				}
				return
			}
		}
		out = append(out, condOv{v: v, neg: neg})
	}
	rec(v, false)
	return out
}

// evalCond decides a branch condition under a path context, if the context fixes it.
func evalCond(v ssa.Value, c pctx) (val, known bool) {
	neg := false
	for {
		if u, ok := v.(*ssa.UnOp); ok && u.Op == token.NOT {
			neg = !neg
			v = u.X
			continue
		}
		break
	}
	out := func(b bool) (bool, bool) { return b != neg, true }
	switch x := v.(type) {
	case *ssa.Phi:
		rv := resolveCtx(x, c)
		if k, ok := rv.(*ssa.Const); ok && k.Value != nil && k.Value.Kind() == constant.Bool {
			return out(constant.BoolVal(k.Value))
		}
	case *ssa.BinOp:
		if x.Op != token.EQL && x.Op != token.NEQ {
			return false, false
		}
		a, b := localStored(resolveCtx(x.X, c)), localStored(resolveCtx(x.Y, c))
		ka, aok := a.(*ssa.Const)
		kb, bok := b.(*ssa.Const)
		if a == x.X && b == x.Y && !(aok && bok) {
			return false, false // nothing was fixed by the context
		}
		eq, dec := false, false
		switch {
		case aok && bok:
			if ka.Value == nil || kb.Value == nil {
				if _, basic := ka.Type().Underlying().(*types.Basic); !basic {
					eq, dec = ka.Value == nil && kb.Value == nil, true
				}
			} else if ka.Value.Kind() == kb.Value.Kind() && ka.Value.Kind() != constant.Unknown {
				eq, dec = constant.Compare(ka.Value, token.EQL, kb.Value), true
			}
		case aok && ka.Value == nil && isNilable(ka.Type()) && knownNonNil(b):
			eq, dec = false, true
		case bok && kb.Value == nil && isNilable(kb.Type()) && knownNonNil(a):
			eq, dec = false, true
		}
		if dec {
			if x.Op == token.NEQ {
				eq = !eq
			}
			return out(eq)
		}
	}
	return false, false
}

func isNilable(t types.Type) bool {
	switch t.Underlying().(type) {
	case *types.Pointer, *types.Interface, *types.Map, *types.Slice, *types.Chan, *types.Signature:
		return true
	}
	return false
}

func startsWithPhi(b *ssa.BasicBlock) bool {
	if len(b.Instrs) == 0 {
		return false
	}
	_, ok := b.Instrs[0].(*ssa.Phi)
	return ok
}

// predSlot: the index in s.Preds of the edge from b, or -1 when ambiguous.
func predSlot(b, s *ssa.BasicBlock) int {
	slot := -1
	for j, p := range s.Preds {
		if p == b {
			if slot >= 0 {
				return -1
			}
			slot = j
		}
	}
	return slot
}

// depthHint: the deepest context depth worth trying per function (lowered when a walk ran out of states).
var depthHint = map[*ssa.Function]int{}

func (w *Walk) run(startBlocks []*ssa.BasicBlock, startIdx []int) *Reached {
	// full path contexts first; shallower ones when the function has too many phi joins
	// the context depth a function affords is fixed by a canonical probe (uncut walk from the
	// entry), so that it does not depend on which rule walks the function first
	h, ok := depthHint[w.Fn]
	if !ok {
		h = 1
		if len(w.Fn.Blocks) > 0 {
			probe := &Walk{Fn: w.Fn}
			for _, depth := range []int{ctxMax, 3} {
				if probe.runMode([]*ssa.BasicBlock{w.Fn.Blocks[0]}, []int{0}, depth) != nil {
					h = depth
					break
				}
			}
		}
		depthHint[w.Fn] = h
	}
	for _, depth := range []int{ctxMax, 3, 1} {
		if depth > h {
			continue
		}
		if r := w.runMode(startBlocks, startIdx, depth); r != nil {
			return r
		}
	}
	panic("walk: state space exhausted in " + fnName(w.Fn))
}

// Branch correlation: a path that has taken "err != nil" as true cannot later take the same
// test of the same value as false (a flattened helper returns its error and the caller tests it
// again).  Facts are keyed by SSA value identity, kept only for values tested by more than one
// branch, and dropped on loop back edges.
type condKey struct {
	a, b ssa.Value
	ks   string
}

type condFacts struct {
	n int8
	k [3]condKey
	v [3]bool
}

func (f condFacts) get(k condKey) (bool, bool) {
	for i := 0; i < int(f.n); i++ {
		if f.k[i] == k {
			return f.v[i], true
		}
	}
	return false, false
}

func (f condFacts) with(k condKey, v bool) condFacts {
	if _, ok := f.get(k); ok {
		return f
	}
	if int(f.n) == len(f.k) {
		copy(f.k[:], f.k[1:])
		copy(f.v[:], f.v[1:])
		f.n--
	}
	f.k[f.n], f.v[f.n] = k, v
	f.n++
	return f
}

func constKey(k *ssa.Const) string { return constStr(k) + ":" + k.Type().String() }

// condKeyOf names the proposition a branch condition tests under a path context.
func condKeyOf(v ssa.Value, c pctx) (key condKey, neg, ok bool) {
	for i := 0; i < 8; i++ {
		if u, isU := v.(*ssa.UnOp); isU && u.Op == token.NOT {
			neg = !neg
			v = u.X
			continue
		}
		if p, isP := v.(*ssa.Phi); isP {
			if rv := resolveCtx(p, c); rv != ssa.Value(p) {
				v = rv
				continue
			}
		}
		break
	}
	if _, isK := v.(*ssa.Const); isK {
		return key, neg, false
	}
	if b, isB := v.(*ssa.BinOp); isB && (b.Op == token.EQL || b.Op == token.NEQ) {
		x, y := resolveCtx(b.X, c), resolveCtx(b.Y, c)
		if b.Op == token.NEQ {
			neg = !neg
		}
		kx, xk := x.(*ssa.Const)
		ky, yk := y.(*ssa.Const)
		switch {
		case xk && yk:
			return key, neg, false
		case yk:
			return condKey{a: x, ks: "==" + constKey(ky)}, neg, true
		case xk:
			return condKey{a: y, ks: "==" + constKey(kx)}, neg, true
		}
		return condKey{a: x, b: y, ks: "=="}, neg, true
	}
	return condKey{a: v}, neg, true
}

var sharedCondCache = map[*ssa.Function]map[ssa.Value]int{}

// sharedConds counts, per SSA value, the branches of fn whose condition tests it.
func sharedConds(fn *ssa.Function) map[ssa.Value]int {
	if m, ok := sharedCondCache[fn]; ok && len(fn.Blocks) == m[nil] {
		return m
	}
	m := map[ssa.Value]int{}
	for _, b := range fn.Blocks {
		if len(b.Instrs) == 0 {
			continue
		}
		iff, ok := b.Instrs[len(b.Instrs)-1].(*ssa.If)
		if !ok {
			continue
		}
		seen := map[ssa.Value]bool{}
		var add func(v ssa.Value, d int)
		add = func(v ssa.Value, d int) {
			if v == nil || d > 4 {
				return
			}
			for {
				if u, isU := v.(*ssa.UnOp); isU && u.Op == token.NOT {
					v = u.X
					continue
				}
				break
			}
			if _, isK := v.(*ssa.Const); isK || seen[v] {
				return
			}
			seen[v] = true
			switch x := v.(type) {
			case *ssa.Phi:
				for _, ed := range x.Edges {
					add(ed, d+1)
				}
			case *ssa.BinOp:
				if x.Op == token.EQL || x.Op == token.NEQ {
					add(x.X, d+1)
					add(x.Y, d+1)
				}
			}
		}
		add(iff.Cond, 0)
		for v := range seen {
			m[v]++
		}
	}
	m[nil] = len(fn.Blocks)
	sharedCondCache[fn] = m
	return m
}

func (w *Walk) runMode(startBlocks []*ssa.BasicBlock, startIdx []int, depth int) *Reached {
	shared := sharedConds(w.Fn)
	r := &Reached{Instr: map[ssa.Instruction]bool{}, Edge: map[[2]int]bool{}, Block: map[int]bool{}, Ctx: map[int][]pctx{}, Mask: map[int]uint32{}}
	type pt struct {
		b *ssa.BasicBlock
		i int
		c pctx
		m uint32
		f condFacts
	}
	type sk struct {
		b int
		c pctx
		m uint32
		f condFacts
	}
	var work []pt
	for k, b := range startBlocks {
		work = append(work, pt{b, startIdx[k], w.init, ^uint32(0), w.initFacts})
	}
	seen := map[sk]bool{}
	midSeen := map[ssa.Instruction]bool{}
	states := 0
	for len(work) > 0 {
		p := work[len(work)-1]
		work = work[:len(work)-1]
		if p.i == 0 {
			k := sk{p.b.Index, p.c, p.m, p.f}
			if seen[k] {
				continue
			}
			seen[k] = true
			states++
			if states > 6000 && depth > 1 {
				return nil
			}
			r.Block[p.b.Index] = true
			r.Ctx[p.b.Index] = append(r.Ctx[p.b.Index], p.c)
			r.Mask[p.b.Index] |= p.m
		} else {
			r.Mask[p.b.Index] |= p.m
			if p.i < len(p.b.Instrs) {
				if midSeen[p.b.Instrs[p.i]] {
					continue
				}
				midSeen[p.b.Instrs[p.i]] = true
			}
			r.Ctx[p.b.Index] = append(r.Ctx[p.b.Index], p.c)
		}
		stopped := false
		for i := p.i; i < len(p.b.Instrs); i++ {
			in := p.b.Instrs[i]
			r.Instr[in] = true
			if w.Barrier != nil && w.Barrier(in) {
				stopped = true
				break
			}
		}
		if stopped {
			continue
		}
		only := -1
		if len(p.b.Instrs) > 0 {
			if iff, ok := p.b.Instrs[len(p.b.Instrs)-1].(*ssa.If); ok {
				if v, known := evalCond(iff.Cond, p.c); known {
					if v {
						only = 0
					} else {
						only = 1
					}
				}
			}
		}
		var ov *condOv
		var ck condKey
		ckNeg, ckOK := false, false
		if len(p.b.Instrs) > 0 {
			if iff, ok := p.b.Instrs[len(p.b.Instrs)-1].(*ssa.If); ok {
				if sub := phiSubFor(iff.Cond, p.c); sub != nil {
					ov = &condOv{sub: sub}
				}
				if only < 0 && depth > 1 {
					if ck, ckNeg, ckOK = condKeyOf(iff.Cond, p.c); ckOK {
						if shared[ck.a] < 2 && (ck.b == nil || shared[ck.b] < 2) {
							ckOK = false
						} else if fv, known := p.f.get(ck); known {
							// decided earlier on this path
							if fv != ckNeg {
								only = 0
							} else {
								only = 1
							}
						}
					}
				}
			}
		}
		for si, s := range p.b.Succs {
			if only >= 0 && si != only {
				continue
			}
			if w.Cut != nil {
				// the edge asserts its condition both as written and as resolved on this path
				cut := w.Cut(p.b, si)
				if !cut && ov != nil {
					condOverride = ov
					cut = w.Cut(p.b, si)
					condOverride = nil
				}
				if cut {
					continue
				}
			}
			nm := p.m
			if w.Track != nil && w.E != nil {
				var lits []Lit
				if l, ok := w.E.EdgeLit(p.b, si); ok {
					lits = append(lits, l)
				}
				if ov != nil {
					condOverride = ov
					if l, ok := w.E.EdgeLit(p.b, si); ok {
						lits = append(lits, l)
					}
					condOverride = nil
				}
				var feasible bool
				if nm, feasible = w.Track.refine(nm, lits); !feasible {
					continue
				}
			}
			r.Edge[[2]int{p.b.Index, s.Index}] = true
			nc := p.c
			if startsWithPhi(s) {
				nc = p.c.with(s.Index, predSlot(p.b, s), depth)
			}
			nf := p.f
			if ckOK {
				// succ 0 is the true edge of the condition; the proposition holds iff (si==0) != neg
				nf = nf.with(ck, (si == 0) != ckNeg)
			}
			if nf.n > 0 && dominates(s, p.b) {
				nf = condFacts{} // loop back edge: values are recomputed
			}
			work = append(work, pt{s, 0, nc, nm, nf})
		}
	}
	return r
}

// FromEntry walks from the function entry.
func (w *Walk) FromEntry() *Reached {
	if len(w.Fn.Blocks) == 0 {
		return &Reached{Instr: map[ssa.Instruction]bool{}, Edge: map[[2]int]bool{}, Block: map[int]bool{}}
	}
	return w.run([]*ssa.BasicBlock{w.Fn.Blocks[0]}, []int{0})
}

// After walks from the instruction(s) following the given ones.
func (w *Walk) After(ins ...ssa.Instruction) *Reached {
	var bs []*ssa.BasicBlock
	var is []int
	for _, in := range ins {
		b := in.Block()
		for i, x := range b.Instrs {
			if x == in {
				bs = append(bs, b)
				is = append(is, i+1)
			}
		}
	}
	return w.run(bs, is)
}

// EdgeCtx is an edge together with the path context under which it asserts a literal: a branch
// on a boolean joined from several paths (the result of a flattened helper) asserts, for the
// path through each join edge, the condition that was computed on that path.
type EdgeCtx struct {
	B    *ssa.BasicBlock
	Succ int
	C    pctx
	Lit  Lit
}

// EdgesAsserting lists the edges of fn (with contexts) that assert a literal matched by m.
func (e *Eng) EdgesAsserting(fn *ssa.Function, m LitM) []EdgeCtx {
	var out []EdgeCtx
	for _, b := range fn.Blocks {
		if len(b.Instrs) == 0 {
			continue
		}
		iff, ok := b.Instrs[len(b.Instrs)-1].(*ssa.If)
		if !ok {
			continue
		}
		// strip negations to find a joined boolean
		v, neg := iff.Cond, false
		for {
			if u, ok := v.(*ssa.UnOp); ok && u.Op == token.NOT {
				neg = !neg
				v = u.X
				continue
			}
			break
		}
		phi, isPhi := v.(*ssa.Phi)
		if isPhi && !isBoolType(phi.Type()) {
			isPhi = false
		}
		for si := range b.Succs {
			if !isPhi {
				if l, ok := e.EdgeLit(b, si); ok && m.F(l) {
					out = append(out, EdgeCtx{b, si, pctx{}, l})
				}
				continue
			}
			for j, ed := range phi.Edges {
				if _, isK := ed.(*ssa.Const); isK {
					continue
				}
				l := e.CondLit(fn, ed)
				if neg {
					l.Pos = !l.Pos
				}
				if si == 1 {
					l.Pos = !l.Pos
				}
				if m.F(l) {
					out = append(out, EdgeCtx{b, si, pctx{}.with(phi.Block().Index, j, ctxMax), l})
				}
			}
		}
	}
	return out
}

// FromEdgeCtx walks from the target of an edge under the context in which it asserts its literal.
func (w *Walk) FromEdgeCtx(ec EdgeCtx) *Reached {
	w.init = ec.C
	t := ec.B.Succs[ec.Succ]
	if startsWithPhi(t) {
		w.init = ec.C.with(t.Index, predSlot(ec.B, t), ctxMax)
	}
	// the walk starts knowing what the edge it starts from asserts
	w.initFacts = condFacts{}
	if len(ec.B.Instrs) > 0 {
		if iff, ok := ec.B.Instrs[len(ec.B.Instrs)-1].(*ssa.If); ok {
			if ck, neg, ok := condKeyOf(iff.Cond, ec.C); ok {
				w.initFacts = w.initFacts.with(ck, (ec.Succ == 0) != neg)
			}
		}
	}
	r := w.run([]*ssa.BasicBlock{t}, []int{0})
	w.init = pctx{}
	w.initFacts = condFacts{}
	r.Edge[[2]int{ec.B.Index, t.Index}] = true
	return r
}

// FromEdge walks from the target of edge b -> b.Succs[succ].
func (w *Walk) FromEdge(b *ssa.BasicBlock, succ int) *Reached {
	return w.FromEdgeCtx(EdgeCtx{B: b, Succ: succ})
}

func (r *Reached) Returns() []*ssa.Return {
	var out []*ssa.Return
	for in := range r.Instr {
		if ret, ok := in.(*ssa.Return); ok {
			out = append(out, ret)
		}
	}
	sort.Slice(out, func(i, j int) bool { return out[i].Block().Index < out[j].Block().Index })
	return out
}

func (r *Reached) Has(in ssa.Instruction) bool { return r.Instr[in] }

// ---------------------------------------------------------------------------
// Literal matchers and edge cuts
// ---------------------------------------------------------------------------

// LitM matches branch literals.
type LitM struct {
	Desc string
	F    func(Lit) bool
}

// L matches the literal with exactly this atom and polarity.
func L(atom string, pos bool) LitM {
	d := atom
	if !pos {
		d = "¬" + atom
	}
	return LitM{d, func(l Lit) bool { return (l.Atom == atom || l.Alt == atom) && l.Pos == pos }}
}

// LRe matches literals whose atom matches the (anchored) regular expression.
func LRe(re string, pos bool) LitM {
	rx := regexp.MustCompile("^(?:" + re + ")$")
	d := "/" + re + "/"
	if !pos {
		d = "¬" + d
	}
	return LitM{d, func(l Lit) bool {
		return l.Pos == pos && (rx.MatchString(l.Atom) || l.Alt != "" && rx.MatchString(l.Alt))
	}}
}

// LHas matches literals whose atom contains all the given substrings.
func LHas(pos bool, subs ...string) LitM {
	d := "~" + strings.Join(subs, "&")
	if !pos {
		d = "¬" + d
	}
	return LitM{d, func(l Lit) bool {
		if l.Pos != pos {
			return false
		}
		ok1, ok2 := true, l.Alt != ""
		for _, s := range subs {
			if !strings.Contains(l.Atom, s) {
				ok1 = false
			}
			if !strings.Contains(l.Alt, s) {
				ok2 = false
			}
		}
		return ok1 || ok2
	}}
}

func (m LitM) Neg() LitM {
	return LitM{"not(" + m.Desc + ")", func(l Lit) bool { return m.F(Lit{Atom: l.Atom, Pos: !l.Pos, Alt: l.Alt}) }}
}

// EdgeLit returns the literal asserted by edge b->Succs[succ], if b ends in an If.
func (e *Eng) EdgeLit(b *ssa.BasicBlock, succ int) (Lit, bool) {
	if len(b.Instrs) == 0 {
		return Lit{}, false
	}
	iff, ok := b.Instrs[len(b.Instrs)-1].(*ssa.If)
	if !ok {
		return Lit{}, false
	}
	var l Lit
	if ov := condOverride; ov != nil && ov.sub != nil {
		curPhiSub = ov.sub
		l = e.CondLit(b.Parent(), iff.Cond)
		curPhiSub = nil
	} else {
		l = e.CondLit(b.Parent(), iff.Cond)
	}
	if succ == 1 {
		l.Pos = !l.Pos
	}
	return l, true
}

// EdgeLits returns every literal edge b->Succs[succ] can assert on some path: the condition as written,
// the joined expressions of a joined boolean (condAlternatives), and the condition with the joined values
// inside it replaced by each value they can stand for.
func (e *Eng) EdgeLits(b *ssa.BasicBlock, succ int) []Lit {
	if len(b.Instrs) == 0 {
		return nil
	}
	iff, ok := b.Instrs[len(b.Instrs)-1].(*ssa.If)
	if !ok {
		return nil
	}
	key := [2]interface{}{iff, succ}
	if ls, ok := e.edgeLitsCache[key]; ok {
		return ls
	}
	var out []Lit
	seen := map[string]bool{}
	add := func(l Lit) {
		k := l.String() + "|" + l.Alt
		if !seen[k] {
			seen[k] = true
			out = append(out, l)
		}
	}
	fn := b.Parent()
	for _, a := range condAlternatives(iff.Cond) {
		l := e.CondLit(fn, a.v)
		if a.neg {
			l.Pos = !l.Pos
		}
		if succ == 1 {
			l.Pos = !l.Pos
		}
		add(l)
		// phis inside the expression
		var phis []*ssa.Phi
		vis := map[ssa.Value]bool{}
		var collect func(v ssa.Value, d int)
		collect = func(v ssa.Value, d int) {
			if v == nil || vis[v] || d > 10 {
				return
			}
			vis[v] = true
			if p, ok := v.(*ssa.Phi); ok {
				if !inductionPhi(p, 0) && !inductionPhi(p, -1) {
					phis = append(phis, p)
				}
				return
			}
			if in, ok := v.(ssa.Instruction); ok && in.Parent() == fn {
				if _, isA := v.(*ssa.Alloc); isA {
					return
				}
				for _, op := range in.Operands(nil) {
					if *op != nil {
						collect(*op, d+1)
					}
				}
			}
		}
		collect(a.v, 0)
		if len(phis) == 0 || len(phis) > 3 {
			continue
		}
		combos := 1
		for _, p := range phis {
			combos *= len(p.Edges)
		}
		if combos > 24 {
			continue
		}
		idx := make([]int, len(phis))
		for {
			sub := map[*ssa.Phi]ssa.Value{}
			for i, p := range phis {
				if p.Edges[idx[i]] != ssa.Value(p) {
					sub[p] = p.Edges[idx[i]]
				}
			}
			curPhiSub = sub
			l2 := e.CondLit(fn, a.v)
			curPhiSub = nil
			if a.neg {
				l2.Pos = !l2.Pos
			}
			if succ == 1 {
				l2.Pos = !l2.Pos
			}
			add(l2)
			k := 0
			for k < len(phis) {
				idx[k]++
				if idx[k] < len(phis[k].Edges) {
					break
				}
				idx[k] = 0
				k++
			}
			if k >= len(phis) {
				break
			}
		}
	}
	if e.edgeLitsCache == nil {
		e.edgeLitsCache = map[[2]interface{}][]Lit{}
	}
	e.edgeLitsCache[key] = out
	return out
}

// splitTop splits "(x OP y)" at the top-level occurrence of " OP ".
func splitTop(atom, op string) (x, y string, ok bool) {
	if len(atom) < 2 || atom[0] != '(' || atom[len(atom)-1] != ')' {
		return "", "", false
	}
	in := atom[1 : len(atom)-1]
	depth := 0
	sep := " " + op + " "
	for i := 0; i < len(in); i++ {
		switch in[i] {
		case '(', '[':
			depth++
		case ')', ']':
			depth--
		case '"':
			// skip string constants
			for i++; i < len(in) && in[i] != '"'; i++ {
				if in[i] == '\\' {
					i++
				}
			}
		}
		if depth == 0 && strings.HasPrefix(in[i:], sep) {
			return in[:i], in[i+len(sep):], true
		}
	}
	return "", "", false
}

// consequences lists literals implied by l through the order axioms: a < b gives ¬(b < a) and
// ¬(a == b); a == b gives ¬(a < b) and ¬(b < a) (for the time order <t / ==t and for < / ==).
func consequences(l Lit) []Lit {
	out := []Lit{l}
	if !l.Pos {
		return out
	}
	eqOf := func(a, b, op string) string {
		if a > b {
			a, b = b, a
		}
		return "(" + a + " " + op + " " + b + ")"
	}
	for _, atom := range []string{l.Atom, l.Alt} {
		if atom == "" {
			continue
		}
		// errors.Is(err, target) holds only for a non-nil err
		for _, pre := range []string{"errors.Is(", "errors.As("} {
			if strings.HasPrefix(atom, pre) && strings.HasSuffix(atom, ")") {
				in := atom[len(pre) : len(atom)-1]
				depth := 0
				for i := 0; i < len(in); i++ {
					switch in[i] {
					case '(', '[':
						depth++
					case ')', ']':
						depth--
					}
					if depth == 0 && in[i] == ',' {
						out = append(out, Lit{Atom: "(" + in[:i] + " == nil)", Pos: false})
						break
					}
				}
			}
		}
		// a context whose error is nil is not done: its Done channel cannot have been the select case taken
		if strings.HasPrefix(atom, "(invoke:context.Context.Err(") && strings.HasSuffix(atom, ") == nil)") {
			x := atom[len("(invoke:context.Context.Err(") : len(atom)-len(") == nil)")]
			out = append(out, Lit{Atom: "sel:recv:invoke:context.Context.Done(" + x + ")", Pos: false})
		}
		for _, ops := range [][2]string{{"<t", "==t"}, {"<", "=="}} {
			if a, b, ok := splitTop(atom, ops[0]); ok {
				out = append(out, Lit{Atom: "(" + b + " " + ops[0] + " " + a + ")", Pos: false})
				out = append(out, Lit{Atom: eqOf(a, b, ops[1]), Pos: false})
				if ops[1] == "==" {
					out = append(out, Lit{Atom: "(" + a + " == " + b + ")", Pos: false}, Lit{Atom: "(" + b + " == " + a + ")", Pos: false})
				}
			}
			if a, b, ok := splitTop(atom, ops[1]); ok {
				out = append(out, Lit{Atom: "(" + a + " " + ops[0] + " " + b + ")", Pos: false})
				out = append(out, Lit{Atom: "(" + b + " " + ops[0] + " " + a + ")", Pos: false})
			}
		}
	}
	return out
}

// CutLits returns a Cut function removing every edge that asserts a literal matched by any of ms
// (directly or as a consequence of the order axioms).
func (e *Eng) CutLits(ms ...LitM) func(b *ssa.BasicBlock, succ int) bool {
	return func(b *ssa.BasicBlock, succ int) bool {
		l, ok := e.EdgeLit(b, succ)
		if !ok {
			return false
		}
		for _, c := range consequences(l) {
			for _, m := range ms {
				if m.F(c) {
					return true
				}
			}
		}
		return false
	}
}

// CutContradicting removes every edge whose literal contradicts one of the given
// assumptions: it asserts the negation of a matched literal, or it asserts x == k1 while
// an assumption matches x == k2 for a different constant k2.
func (e *Eng) CutContradicting(assume ...LitM) func(b *ssa.BasicBlock, succ int) bool {
	eqCache := map[*ssa.Function]map[string]map[string]bool{}
	assumedEq := func(fn *ssa.Function) map[string]map[string]bool {
		if m, ok := eqCache[fn]; ok {
			return m
		}
		m := e.assumedEq(fn, assume)
		eqCache[fn] = m
		return m
	}
	return func(b *ssa.BasicBlock, succ int) bool {
		l, ok := e.EdgeLit(b, succ)
		if !ok {
			return false
		}
		for _, c := range consequences(l) {
			nl := Lit{Atom: c.Atom, Pos: !c.Pos, Alt: c.Alt}
			for _, m := range assume {
				if m.F(nl) {
					return true
				}
			}
		}
		if l.Pos {
			for _, a := range []string{l.Atom, l.Alt} {
				if lhs, k, ok := eqAtom(a); ok {
					if ks := assumedEq(b.Parent())[lhs]; len(ks) > 0 && !ks[k] {
						return true
					}
				}
			}
			// the cases of one select exclude each other
			if cur, atoms, ok := e.selectCaseAtoms(b); ok {
				for j, a := range atoms {
					if j == cur {
						continue
					}
					for _, m := range assume {
						if m.F(Lit{Atom: a, Pos: true}) {
							return true
						}
					}
				}
			}
		}
		return false
	}
}

// selectCaseAtoms: if b branches on "select chose case i", the atoms of all cases of that select and i.
func (e *Eng) selectCaseAtoms(b *ssa.BasicBlock) (cur int, atoms []string, ok bool) {
	if len(b.Instrs) == 0 {
		return 0, nil, false
	}
	iff, isIf := b.Instrs[len(b.Instrs)-1].(*ssa.If)
	if !isIf {
		return 0, nil, false
	}
	bo, isB := iff.Cond.(*ssa.BinOp)
	if !isB || bo.Op != token.EQL {
		return 0, nil, false
	}
	ex, isX := bo.X.(*ssa.Extract)
	k, isK := bo.Y.(*ssa.Const)
	if !isX || !isK || ex.Index != 0 || k.Value == nil {
		return 0, nil, false
	}
	sel, isS := ex.Tuple.(*ssa.Select)
	if !isS {
		return 0, nil, false
	}
	i, exact := constant.Int64Val(k.Value)
	if !exact || i < 0 || int(i) >= len(sel.States) {
		return 0, nil, false
	}
	c := &rctx{e: e, fn: b.Parent(), seen: map[ssa.Value]bool{}}
	for _, st := range sel.States {
		d := "recv:"
		if st.Dir == types.SendOnly {
			d = "send:"
		}
		bl := ""
		if !sel.Blocking {
			bl = "nb-"
		}
		atoms = append(atoms, bl+"sel:"+d+c.x(st.Chan))
	}
	return int(i), atoms, true
}

// CountLitEdges counts edges in fn asserting a literal matched by m.
func (e *Eng) CountLitEdges(fn *ssa.Function, m LitM) int {
	n := 0
	for _, b := range fn.Blocks {
		for si := range b.Succs {
			for _, l := range e.EdgeLits(b, si) {
				if m.F(l) {
					n++
					break
				}
			}
		}
	}
	// a returned condition is a branch on it ("return a && b")
	for _, l := range e.retLits(fn) {
		if m.F(l) || m.F(Lit{Atom: l.Atom, Alt: l.Alt, Pos: !l.Pos}) {
			n++
		}
	}
	return n
}

// retLits: the literals of the non-constant boolean values fn returns.
func (e *Eng) retLits(fn *ssa.Function) []Lit {
	var out []Lit
	for _, b := range fn.Blocks {
		if len(b.Instrs) == 0 {
			continue
		}
		ret, ok := b.Instrs[len(b.Instrs)-1].(*ssa.Return)
		if !ok {
			continue
		}
		for _, rv := range ret.Results {
			if bt, ok := rv.Type().Underlying().(*types.Basic); !ok || bt.Info()&types.IsBoolean == 0 {
				continue
			}
			for _, a := range condAlternatives(rv) {
				if _, isK := a.v.(*ssa.Const); isK {
					continue
				}
				l := e.CondLit(fn, a.v)
				if a.neg {
					l.Pos = !l.Pos
				}
				out = append(out, l)
			}
		}
	}
	return out
}

// LitsOf lists all literals asserted by edges of fn (for diagnostics).
func (e *Eng) LitsOf(fn *ssa.Function) []string {
	set := map[string]bool{}
	for _, b := range fn.Blocks {
		for _, l := range e.EdgeLits(b, 0) {
			set[l.Atom] = true
		}
	}
	var out []string
	for k := range set {
		out = append(out, k)
	}
	sort.Strings(out)
	return out
}

// OnlyUnder reports whether instruction target can be reached from entry only
// through an edge asserting one of ms (i.e. target is guarded by the disjunction of ms).
// When the literals are equalities of one expression with constants, the guard may also be
// established by exclusion (the paths reaching the target have ruled out every other constant
// the expression is compared with, and it was compared at all).
func (e *Eng) OnlyUnder(target ssa.Instruction, ms ...LitM) bool {
	fn := target.Parent()
	w := &Walk{Fn: fn, Cut: e.CutLits(ms...)}
	if !w.FromEntry().Has(target) {
		return true
	}
	groups := map[string]map[string]bool{}
	for _, b := range fn.Blocks {
		for _, l := range e.EdgeLits(b, 0) {
			for _, a := range []string{l.Atom, l.Alt} {
				lhs, k, ok := eqAtom(a)
				if !ok {
					continue
				}
				for _, m := range ms {
					if m.F(Lit{Atom: a, Pos: true}) {
						if groups[lhs] == nil {
							groups[lhs] = map[string]bool{}
						}
						groups[lhs][k] = true
					}
				}
			}
		}
	}
	for lhs, ks := range groups {
		tr := &EqTrack{Lhs: lhs}
		var allowed uint32
		for k := range ks {
			allowed |= tr.bit(k)
		}
		plain := e.CutLits(ms...)
		cut := func(b *ssa.BasicBlock, succ int) bool {
			// edges asserting one of the other (non-equality) disjuncts justify the target as before
			if !plain(b, succ) {
				return false
			}
			if l, ok := e.EdgeLit(b, succ); ok {
				for _, a := range []string{l.Atom, l.Alt} {
					if l2, _, ok := eqAtom(a); ok && l2 == lhs {
						return false
					}
				}
			}
			return true
		}
		r := (&Walk{Fn: fn, Cut: cut, Track: tr, E: e}).FromEntry()
		if !r.Has(target) {
			return true
		}
		if m := r.Mask[target.Block().Index]; m&^allowed == 0 {
			return true
		}
	}
	return false
}

// ---------------------------------------------------------------------------
// Instructions, calls, effects
// ---------------------------------------------------------------------------

func AllInstrs(fn *ssa.Function) []ssa.Instruction {
	var out []ssa.Instruction
	for _, b := range fn.Blocks {
		out = append(out, b.Instrs...)
	}
	return out
}

// CalleeOf returns the canonical callee name of a call-like instruction, or "".
func CalleeOf(in ssa.Instruction) string {
	if ci, ok := in.(ssa.CallInstruction); ok {
		return calleeName(ci.Common())
	}
	return ""
}

// Calls returns the call instructions (call, go, defer) of fn whose canonical
// callee name equals name (with "am/" for the module) or, when name starts with
// '~', matches it as a regular expression.
func (e *Eng) Calls(fn *ssa.Function, name string) []ssa.CallInstruction {
	var rx *regexp.Regexp
	if strings.HasPrefix(name, "~") {
		rx = regexp.MustCompile("^(?:" + name[1:] + ")$")
	}
	var out []ssa.CallInstruction
	for _, in := range AllInstrs(fn) {
		ci, ok := in.(ssa.CallInstruction)
		if !ok {
			continue
		}
		cn := calleeName(ci.Common())
		if rx != nil && rx.MatchString(cn) || rx == nil && cn == name {
			out = append(out, ci)
		}
	}
	return out
}

// CallsDeep returns calls in fn and in all its function literals.
func (e *Eng) CallsDeep(fn *ssa.Function, name string) []ssa.CallInstruction {
	out := e.Calls(fn, name)
	for _, a := range Anons(fn) {
		out = append(out, e.Calls(a, name)...)
	}
	return out
}

func IsCall(name string) func(ssa.Instruction) bool {
	var rx *regexp.Regexp
	if strings.HasPrefix(name, "~") {
		rx = regexp.MustCompile("^(?:" + name[1:] + ")$")
	}
	return func(in ssa.Instruction) bool {
		ci, ok := in.(ssa.CallInstruction)
		if !ok {
			return false
		}
		if _, isDefer := in.(*ssa.Defer); isDefer {
			return false
		}
		cn := calleeName(ci.Common())
		return rx != nil && rx.MatchString(cn) || rx == nil && cn == name
	}
}

func AnyOf(fs ...func(ssa.Instruction) bool) func(ssa.Instruction) bool {
	return func(in ssa.Instruction) bool {
		for _, f := range fs {
			if f(in) {
				return true
			}
		}
		return false
	}
}

func IsInstr(ins ...ssa.Instruction) func(ssa.Instruction) bool {
	set := map[ssa.Instruction]bool{}
	for _, i := range ins {
		set[i] = true
	}
	return func(in ssa.Instruction) bool { return set[in] }
}

// Arg renders argument i of a call (for methods, 0 is the receiver).
func (e *Eng) Arg(ci ssa.CallInstruction, i int) string {
	c := ci.Common()
	args := c.Args
	if c.IsInvoke() {
		if i == 0 {
			return e.X(ci.Parent(), c.Value)
		}
		i--
	}
	if i < len(args) {
		return e.X(ci.Parent(), args[i])
	}
	return "<none>"
}

func (e *Eng) ArgV(ci ssa.CallInstruction, i int) ssa.Value {
	c := ci.Common()
	if c.IsInvoke() {
		if i == 0 {
			return c.Value
		}
		i--
	}
	if i < len(c.Args) {
		return c.Args[i]
	}
	return nil
}

// RetVals resolves the possible values of result idx of ret given what was
// reached: phis only contribute edges that were actually traversed, and phis
// fixed by the path context only the edge of that path.
func (e *Eng) RetVals(r *Reached, ret *ssa.Return, idx int) []ssa.Value {
	if idx >= len(ret.Results) {
		return nil
	}
	return e.ValsAt(r, ret, ret.Results[idx])
}

// ValsAt expands v as seen at instruction at, under each path context in which at was reached.
func (e *Eng) ValsAt(r *Reached, at ssa.Instruction, v ssa.Value) []ssa.Value {
	if r == nil || at == nil || at.Block() == nil {
		return e.ValsUnder(r, v)
	}
	cs := r.Ctx[at.Block().Index]
	if len(cs) == 0 || len(cs) > 256 {
		return e.ValsUnder(r, v)
	}
	var out []ssa.Value
	seen := map[ssa.Value]bool{}
	for _, c := range cs {
		c := c
		for _, x := range e.valsUnder(r, v, &c) {
			if !seen[x] {
				seen[x] = true
				out = append(out, x)
			}
		}
	}
	return out
}

// ValsUnder expands phis (and single-assignment boxes) of v under the reached edges.
func (e *Eng) ValsUnder(r *Reached, v ssa.Value) []ssa.Value { return e.valsUnder(r, v, nil) }

func (e *Eng) valsUnder(r *Reached, v ssa.Value, c *pctx) []ssa.Value {
	var out []ssa.Value
	seen := map[ssa.Value]bool{}
	var rec func(v ssa.Value, before int)
	rec = func(v ssa.Value, before int) {
		if seen[v] {
			return
		}
		seen[v] = true
		switch v := v.(type) {
		case *ssa.Phi:
			b := v.Block()
			if c != nil {
				if slot, pos, ok := c.get(b.Index, before); ok && slot < len(v.Edges) {
					rec(v.Edges[slot], pos)
					return
				}
			}
			for i, ed := range v.Edges {
				p := b.Preds[i]
				if r == nil || r.Edge[[2]int{p.Index, b.Index}] {
					rec(ed, -2)
				}
			}
			return
		case *ssa.UnOp:
			if a, ok := v.X.(*ssa.Alloc); ok && v.Op.String() == "*" {
				sts, esc := e.boxStores(a)
				if !esc && len(sts) > 0 {
					n := 0
					for _, st := range sts {
						// only stores that were reached, and that can still be the cell's content at this load, count
						if (r == nil || r.Instr[st]) && e.storeReaches(r, st, v, sts) {
							n++
							rec(st.Val, -2)
						}
					}
					if n > 0 {
						return
					}
				}
			}
		case *ssa.MakeInterface:
			rec(v.X, before)
			return
		case *ssa.ChangeType:
			rec(v.X, before)
			return
		}
		out = append(out, v)
	}
	rec(v, -1)
	return out
}

// storeReaches: can the value written by st still be in the cell when ld reads it?  (Stores in other
// functions — literals sharing the cell — are always possible; within one function a store is killed by any
// other store of the same function on every path to the load.)
func (e *Eng) storeReaches(r *Reached, st *ssa.Store, ld *ssa.UnOp, all []*ssa.Store) bool {
	if st.Parent() != ld.Parent() {
		return true
	}
	key := [2]ssa.Instruction{st, ld}
	if r == nil {
		if v, ok := e.reachCache[key]; ok {
			return v
		}
	}
	others := map[ssa.Instruction]bool{}
	for _, o := range all {
		if o != st && o.Parent() == st.Parent() {
			others[o] = true
		}
	}
	w := &Walk{Fn: st.Parent(), Barrier: func(in ssa.Instruction) bool { return others[in] }}
	if r != nil {
		// only along edges the walk under consideration (with its assumptions) traversed
		w.Cut = func(b *ssa.BasicBlock, si int) bool { return !r.Edge[[2]int{b.Index, b.Succs[si].Index}] }
	}
	res := w.After(st).Has(ld)
	if r == nil {
		if e.reachCache == nil {
			e.reachCache = map[[2]ssa.Instruction]bool{}
		}
		e.reachCache[key] = res
	}
	return res
}

// ValStrs renders a value set, sorted.
func (e *Eng) ValStrs(fn *ssa.Function, vs []ssa.Value) []string {
	set := map[string]bool{}
	for _, v := range vs {
		set[e.X(fn, v)] = true
	}
	var out []string
	for k := range set {
		out = append(out, k)
	}
	sort.Strings(out)
	return out
}

// InstrDominates reports whether a is executed before b on every path reaching b.  It is
// decided by path-sensitive reachability (b unreachable once a is a barrier), which unlike
// the dominator tree is not confused by the join blocks of flattened helpers.
func InstrDominates(a, b ssa.Instruction) bool {
	if a == b {
		return true
	}
	if a.Parent() != b.Parent() {
		return false
	}
	if a.Block() == b.Block() {
		for _, in := range a.Block().Instrs {
			if in == a {
				return true
			}
			if in == b {
				break
			}
		}
	}
	if dominates(a.Block(), b.Block()) && a.Block() != b.Block() {
		return true
	}
	w := &Walk{Fn: a.Parent(), Barrier: func(in ssa.Instruction) bool { return in == a }}
	return !w.FromEntry().Has(b)
}

// ---------------------------------------------------------------------------
// Stores / writers
// ---------------------------------------------------------------------------

// FieldWrite is a write to a struct field or to a map / slice held in a struct field.
type FieldWrite struct {
	Fn    *ssa.Function
	Instr ssa.Instruction
	Kind  string // "store", "mapupdate", "delete", "elemstore"
}

// fieldOf reports (named struct type string, field name) if v is the address of / a load of a field.
func (e *Eng) fieldOf(v ssa.Value) (string, string, bool) {
	switch v := v.(type) {
	case *ssa.FieldAddr:
		return typeKey(v.X.Type()), fieldName(v.X.Type(), v.Field), true
	case *ssa.Field:
		return typeKey(v.X.Type()), fieldName(v.X.Type(), v.Field), true
	case *ssa.UnOp:
		if v.Op.String() == "*" {
			return e.fieldOf(v.X)
		}
	case *ssa.ChangeType:
		return e.fieldOf(v.X)
	}
	return "", "", false
}

// localStored: v loads a local cell that was stored earlier in the same block (a spilled result of an inlined
// helper with defers: "store tmp := x; ...; t = *tmp"); returns the stored value, else v.
func localStored(v ssa.Value) ssa.Value {
	u, ok := v.(*ssa.UnOp)
	if !ok || u.Op != token.MUL {
		return v
	}
	al, ok := u.X.(*ssa.Alloc)
	if !ok {
		return v
	}
	b := u.Block()
	if b == nil {
		return v
	}
	at := -1
	for i, in := range b.Instrs {
		if in == ssa.Instruction(u) {
			at = i
		}
	}
	for i := at - 1; i >= 0; i-- {
		if st, ok := b.Instrs[i].(*ssa.Store); ok && st.Addr == ssa.Value(al) {
			return st.Val
		}
		if _, isCall := b.Instrs[i].(ssa.CallInstruction); isCall {
			// the cell may be captured; only a cell whose address does not escape is safe
			if al.Heap {
				return v
			}
		}
	}
	return v
}
