package main

import (
	"fmt"
	"go/constant"
	"go/token"
	"go/types"
	"sort"
	"strings"

	"golang.org/x/tools/go/ssa"
)

func init() {
	propInfos["C16"] = &propInfo{
		Explanation: "Decides the matcher layer's structure: (1) the fallback parsers' decision tables (both fail → classic error; only UTF-8 fails → classic result; both succeed and differ → classic result; otherwise UTF-8 result); (2) the UTF-8 parser's entry point recovers from panics and the single-matcher entry goes through it; (3) regular expressions are anchored at construction (^(?:v)$), compile errors returned, the compiled field written nowhere else; (4) Matcher.Matches' table over the four operators, evaluating the compiled regexp itself (no shortcut); (5) Matchers.Matches is a conjunction over all matchers reading lset[name] by plain index (missing ⇒ empty); MatcherSet.Matches a disjunction; (6) routes, silences, inhibition and API filters all evaluate through (*Matcher).Matches; (7) the operator tables of the classic parser and MatchType.String agree on all four operators; (8) the classic list splitter's escape state: a backslash toggles 'escaped', a quote toggles 'inside quotes' only when not escaped; the printer and the UTF-8 lexer use the same isReserved predicate.",
		NotDecided:  "print/parse round-trip and parser agreement over all strings (input-quantified, lexer arithmetic); termination of the lexers.",
	}

	reg("C16", "C16.1", "T6", "fallback parsers: classic wins on disagreement; classic-only input still accepted; both fail → classic's error", func(o *Ob) {
		e := o.E
		for _, c := range []struct{ fn, n, cl string }{
			{"am/matcher/compat.FallbackMatcherParser$1", "am/matcher/parse.Matcher(p0)", "am/pkg/labels.ParseMatcher(p0)"},
			{"am/matcher/compat.FallbackMatchersParser$1", "am/matcher/parse.Matchers(p0)", "am/pkg/labels.ParseMatchers(p0)"},
		} {
			fn := o.Fn(c.fn)
			nErr := L("("+c.n+"#1 == nil)", false)
			cErr := L("("+c.cl+"#1 == nil)", false)
			same := LRe(`reflect\.DeepEqual\(`+regexpQuote(c.n)+`#0, .*`+regexpQuote(c.cl)+`#0\)?\)`, true)
			brace := LitM{"brace", func(l Lit) bool { return l.Pos && strings.HasPrefix(l.Atom, "strings.Has") }}
			rows := []Row{
				{Name: "both fail", Assume: A(brace.Neg(), nErr, cErr), Ret: [][]string{Vals("nil"), Vals(c.cl + "#1")}},
				{Name: "only UTF-8 fails", Assume: A(brace.Neg(), nErr, cErr.Neg()), Ret: [][]string{Vals(c.cl + "#0"), Vals("nil")}},
				{Name: "both succeed, differ", Assume: A(brace.Neg(), nErr.Neg(), cErr.Neg(), same.Neg()), Ret: [][]string{Vals(c.cl + "#0"), Vals("nil")}},
				{Name: "both succeed, agree", Assume: A(brace.Neg(), nErr.Neg(), cErr.Neg(), same), Ret: [][]string{Vals(c.n + "#0"), Vals("nil")}},
				{Name: "only classic fails", Assume: A(brace.Neg(), nErr.Neg(), cErr), Ret: [][]string{Vals(c.n + "#0"), Vals("nil")}},
			}
			if e.CountLitEdges(fn, brace)+e.CountLitEdges(fn, brace.Neg()) == 0 {
				for i := range rows {
					rows[i].Assume = rows[i].Assume[1:]
				}
			}
			o.Table(fn, c.fn, rows)
		}
		o.MinSites(10)
	})

	reg("C16", "C16.2", "T2,T4", "no parser panic escapes: parse.Matchers recovers; parse.Matcher goes through it", func(o *Ob) {
		e := o.E
		fn := o.Fn("am/matcher/parse.Matchers")
		var rec *ssa.Function
		var def *ssa.Defer
		for _, in := range AllInstrs(fn) {
			if d, ok := in.(*ssa.Defer); ok {
				if mc, ok := d.Call.Value.(*ssa.MakeClosure); ok {
					f := mc.Fn.(*ssa.Function)
					for _, x := range AllInstrs(f) {
						if c, ok := x.(*ssa.Call); ok {
							if b, ok := c.Call.Value.(*ssa.Builtin); ok && b.Name() == "recover" {
								rec, def = f, d
							}
						}
					}
				}
			}
		}
		o.Require(rec != nil, "recover", "parse.Matchers no longer recovers from parser panics: a crafted matcher string could crash the process", nil)
		o.Site(def, "deferred recover")
		// the deferred recover is installed before the parser runs
		for _, c := range e.Calls(fn, "~\\(\\*am/matcher/parse\\.parser\\)\\..*") {
			o.Check(InstrDominates(def, c), "recover-late", "the parser runs before the recover is installed", c)
		}
		// the literal turns the panic into the error result
		set := false
		for _, in := range AllInstrs(rec) {
			if st, ok := in.(*ssa.Store); ok && strings.Contains(e.X(rec, st.Addr), "err") {
				set = true
			}
		}
		o.Check(set, "recover-error", "a recovered panic is not reported as an error", nil)
		m := o.Fn("am/matcher/parse.Matcher")
		c := o.One(e.Calls(m, "am/matcher/parse.Matchers"), "single-via-list", "parse.Matcher must parse through parse.Matchers (the recovering entry point)", m)
		o.Site(c, "Matcher → Matchers")
		// no other exported entry into the parser
		for _, f := range e.FuncsOfPkg("am/matcher/parse") {
			if f.Parent() != nil || f.Object() == nil || !f.Object().Exported() || f.Signature.Recv() != nil {
				continue
			}
			n := fnName(f)
			if n == "am/matcher/parse.Matchers" || n == "am/matcher/parse.Matcher" {
				continue
			}
			for _, in := range AllInstrs(f) {
				if ci, ok := in.(ssa.CallInstruction); ok && strings.HasPrefix(calleeName(ci.Common()), "(*am/matcher/parse.parser).") {
					o.Fail("unprotected-entry|"+n, n+" runs the parser without the recovering wrapper", in)
				}
			}
		}
		o.MinSites(2)
	})

	reg("C16", "C16.3", "T11,T3", "regular expressions are anchored at construction and compile errors returned; the compiled field has no other writer", func(o *Ob) {
		e := o.E
		fn := o.Fn("am/pkg/labels.NewMatcher")
		cp := o.One(e.Calls(fn, "regexp.Compile"), "compile", "NewMatcher must compile regex matchers", fn)
		o.Site(cp, "regexp.Compile("+e.Arg(cp, 0)+")")
		o.Check(e.Arg(cp, 0) == `(("^(?:" + p2) + ")$")`, "anchored", "the pattern must be compiled fully anchored as ^(?:v)$, is "+e.Arg(cp, 0), cp)
		isRe := LitM{"regex type", func(l Lit) bool { return l.Pos && (l.Atom == "(p0 == 2)" || l.Atom == "(p0 == 3)") }}
		o.Guarded(cp, "compile-guard", "compiling", isRe)
		for _, v := range []string{"2", "3"} {
			o.Forced(fn, "compile-forced|"+v, "a regex matcher must get a compiled expression", IsInstr(cp), L("(p0 == "+v+")", true))
		}
		cx := e.X(fn, cp.(*ssa.Call))
		for _, b := range fn.Blocks {
			for si := range b.Succs {
				if li, ok := e.EdgeLit(b, si); ok && L("("+cx+"#1 == nil)", false).F(li) {
					for _, ret := range (&Walk{Fn: fn}).FromEdge(b, si).Returns() {
						o.Check(e.X(fn, ret.Results[0]) == "nil" && e.X(fn, ret.Results[1]) == cx+"#1", "compile-error", "an invalid regular expression must be rejected with the compile error", ret)
					}
				}
			}
		}
		st := e.StoresToField(fn, "am/pkg/labels.Matcher", "re")
		o.Check(len(st) == 1 && e.X(fn, st[0].Val) == cx+"#0", "re-value", "Matcher.re must be the compiled, anchored expression", nil)
		for _, w := range e.Writers("am/pkg/labels.Matcher", "re") {
			o.Check(fnName(w.Fn) == "am/pkg/labels.NewMatcher", "re-writer|"+fnName(w.Fn), "Matcher.re is written by "+fnName(w.Fn)+": only NewMatcher may set it (anchoring)", w.Instr)
		}
		// enumeration values assumed by the literals above
		for n, v := range map[string]int64{"MatchEqual": 0, "MatchNotEqual": 1, "MatchRegexp": 2, "MatchNotRegexp": 3} {
			got, ok := e.ConstInt("am/pkg/labels", n)
			o.Check(ok && got == v, "enum|"+n, "labels."+n+" changed value; the rule tables must follow", nil)
		}
		o.MinSites(1)
	})

	reg("C16", "C16.4", "T6", "Matcher.Matches: '=' whole-string equality, '!=' its negation, '=~' the compiled regexp, '!~' its negation — no shortcuts", matcherMatchesRule)
	reg("C16", "C16.5", "T8,T11", "Matchers.Matches: all matchers must hold, value read as lset[name] (missing ⇒ empty); MatcherSet.Matches: any set", matchersAllAnyRule)
	// the same semantics is what routing, silencing and inhibition evaluate
	reg("C07", "C07.7", "T6", "route matchers mean what they say: "+"Matcher.Matches: '=' whole-string equality, '!=' its negation, '=~' the compiled regexp, '!~' its negation — no shortcuts", matcherMatchesRule)
	reg("C07", "C07.8", "T8,T11", "a route's matcher list holds iff every matcher holds: "+"Matchers.Matches: all matchers must hold, value read as lset[name] (missing ⇒ empty); MatcherSet.Matches: any set", matchersAllAnyRule)
	reg("C02", "C02.10", "T6", "silence matchers mean what they say: "+"Matcher.Matches: '=' whole-string equality, '!=' its negation, '=~' the compiled regexp, '!~' its negation — no shortcuts", matcherMatchesRule)
	reg("C02", "C02.11", "T8,T11", "a silence matches iff one of its matcher sets holds entirely: "+"Matchers.Matches: all matchers must hold, value read as lset[name] (missing ⇒ empty); MatcherSet.Matches: any set", matchersAllAnyRule)
	reg("C03", "C03.11", "T6", "inhibition matchers mean what they say: "+"Matcher.Matches: '=' whole-string equality, '!=' its negation, '=~' the compiled regexp, '!~' its negation — no shortcuts", matcherMatchesRule)
	reg("C03", "C03.12", "T8,T11", "source/target matcher lists hold iff every matcher holds: "+"Matchers.Matches: all matchers must hold, value read as lset[name] (missing ⇒ empty); MatcherSet.Matches: any set", matchersAllAnyRule)

	reg("C16", "C16.6", "T4", "one meaning everywhere: routes, silences, inhibition and API filters evaluate matchers through (*Matcher).Matches; nothing else reads the compiled expression", func(o *Ob) {
		e := o.E
		n := 0
		for _, a := range e.Accesses("am/pkg/labels.Matcher", "re") {
			if a.Write {
				continue
			}
			n++
			who := fnName(a.Fn)
			o.Site(a.Instr, "read of Matcher.re in "+who)
			ok := who == "(*am/pkg/labels.Matcher).Matches" || who == "am/pkg/labels.NewMatcher" || who == "(*am/pkg/labels.Matcher).UnmarshalJSON"
			o.Check(ok, "re-reader|"+who, who+" evaluates a matcher's compiled expression itself instead of going through Matcher.Matches", a.Instr)
		}
		users := map[string]string{
			"(*am/dispatch.Route).Match":           "(am/pkg/labels.Matchers).Matches",
			"(*am/inhibit.Inhibitor).Mutes":        "(am/pkg/labels.Matchers).Matches",
			"(*am/inhibit.Inhibitor).processAlert": "(am/pkg/labels.Matchers).Matches",
			"(*am/inhibit.InhibitRule).hasEqual":   "(am/pkg/labels.Matchers).Matches",
			"am/silence.QMatches$1$1":              "(am/pkg/labels.MatcherSet).Matches",
			"am/api/v2.matchFilterLabels":          "(*am/pkg/labels.Matcher).Matches",
		}
		for who, callee := range users {
			f := o.FnOpt(who)
			if !o.CheckFn(f != nil, "user-missing|"+who, who+" no longer exists; where are its matchers evaluated now?", nil) {
				continue
			}
			// (in the function itself or in a helper written since that it calls)
			found := false
			seen := map[*ssa.Function]bool{f: true}
			for work := []*ssa.Function{f}; len(work) > 0 && !found; work = work[1:] {
				g := work[0]
				found = len(e.Calls(g, callee)) >= 1
				for _, in := range AllInstrs(g) {
					if ci, ok := in.(ssa.CallInstruction); ok {
						if h := ci.Common().StaticCallee(); h != nil && !seen[h] && isNewFunc(h) {
							seen[h] = true
							work = append(work, h)
						}
					}
				}
			}
			o.Check(found, "user|"+who, who+" no longer evaluates its matchers with "+callee, nil)
		}
		o.Check(n >= 1, "few", "reads of Matcher.re not found", nil)
		o.MinSites(1)
	})

	reg("C16", "C16.9", "T9", "printer and lexer agree on what must be quoted: labels.isReserved and parse.isReserved are the same predicate", func(o *Ob) {
		e := o.E
		// the predicate as a set: the runes it accepts one by one (comparisons with a constant, membership in a
		// constant string) plus "space" for unicode.IsSpace; any other test is kept verbatim so that it shows up as
		// a difference.  Each test is checked to lead to "true" when it holds.
		sig := func(name string) string {
			f := o.Fn(name)
			acc := map[string]bool{}
			addPred := func(v ssa.Value) bool {
				switch x := v.(type) {
				case *ssa.Call:
					switch calleeName(&x.Call) {
					case "unicode.IsSpace":
						if e.X(f, x.Call.Args[0]) == "p0" {
							acc["space"] = true
							return true
						}
					case "strings.ContainsRune":
						if k, ok := x.Call.Args[0].(*ssa.Const); ok && k.Value != nil && e.X(f, x.Call.Args[1]) == "p0" {
							for _, r := range constant.StringVal(k.Value) {
								acc[fmt.Sprintf("%q", r)] = true
							}
							return true
						}
					}
				case *ssa.BinOp:
					if x.Op == token.EQL {
						for _, pr := range [][2]ssa.Value{{x.X, x.Y}, {x.Y, x.X}} {
							if k, ok := pr[1].(*ssa.Const); ok && k.Value != nil && e.X(f, pr[0]) == "p0" {
								if i, exact := constant.Int64Val(k.Value); exact {
									acc[fmt.Sprintf("%q", rune(i))] = true
									return true
								}
							}
						}
					}
				}
				return false
			}
			for _, b := range f.Blocks {
				if len(b.Instrs) == 0 {
					continue
				}
				if iff, ok := b.Instrs[len(b.Instrs)-1].(*ssa.If); ok {
					cond := iff.Cond
					if !addPred(cond) {
						acc["other:"+e.CondLit(f, cond).String()] = true
						continue
					}
					// holding ⇒ true
					r := (&Walk{Fn: f}).FromEdge(b, 0)
					for _, ret := range r.Returns() {
						for _, v := range e.ValStrs(f, e.RetVals(r, ret, 0)) {
							if v != "true" {
								acc["other:"+e.CondLit(f, cond).String()+" does not lead to true"] = true
							}
						}
					}
				}
			}
			r := (&Walk{Fn: f}).FromEntry()
			for _, ret := range r.Returns() {
				for _, v := range e.RetVals(r, ret, 0) {
					if k, ok := v.(*ssa.Const); ok && k.Value != nil && k.Value.Kind() == constant.Bool {
						continue
					}
					if !addPred(v) {
						acc["other:"+e.X(f, v)] = true
					}
				}
			}
			var ls []string
			for k := range acc {
				ls = append(ls, k)
			}
			sort.Strings(ls)
			o.SiteS(name + ": reserved = {" + strings.Join(ls, " ") + "}")
			return strings.Join(ls, " ")
		}
		a, b := sig("am/pkg/labels.isReserved"), sig("am/matcher/parse.isReserved")
		o.Check(a == b, "reserved-agree", "Matcher.String quotes a label name iff labels.isReserved says so, the UTF-8 lexer splits on parse.isReserved: they differ ("+a+" vs "+b+"), so a printed matcher can fail to parse back", nil)
		// and String consults it for every rune of the name
		ms := o.Fn("(*am/pkg/labels.Matcher).String")
		ir := o.Fn("am/pkg/labels.isReserved")
		used := len(e.CallsDeep(ms, "am/pkg/labels.isReserved")) >= 1
		for _, in := range AllInstrs(ms) {
			for _, op := range in.Operands(nil) {
				if *op != nil && e.FuncValue(*op) == ir {
					used = true
				}
			}
		}
		o.Check(used, "reserved-used", "Matcher.String no longer decides quoting with isReserved", nil)
		o.MinSites(2)
	})

	reg("C16", "C16.7", "T9", "operator tables agree: classic typeMap and MatchType.String map all four operators consistently", func(o *Ob) {
		e := o.E
		want := map[string]int64{`"="`: 0, `"!="`: 1, `"=~"`: 2, `"!~"`: 3}
		// MatchType.String: map literal type→string
		fn := o.Fn("(am/pkg/labels.MatchType).String")
		got := map[string]string{}
		for _, in := range AllInstrs(fn) {
			if mu, ok := in.(*ssa.MapUpdate); ok {
				got[e.X(fn, mu.Value)] = e.X(fn, mu.Key)
				o.Site(in, e.X(fn, mu.Key)+" ↦ "+e.X(fn, mu.Value))
			}
		}
		if len(got) == 0 {
			// no table: a switch over the receiver returning the operator
			var rows []Row
			for op, v := range want {
				rows = append(rows, Row{Name: op, Assume: A(L("(recv == "+itoa(int(v))+")", true)), Ret: [][]string{Vals(op)}})
				o.SiteS("case " + itoa(int(v)) + " ↦ " + op)
			}
			sort.Slice(rows, func(i, j int) bool { return rows[i].Name < rows[j].Name })
			o.Table(fn, "string", rows)
		} else {
			for op, v := range want {
				o.Check(got[op] == itoa(int(v)), "string|"+op, "MatchType.String: operator "+op+" is printed for type "+got[op]+", expected "+itoa(int(v)), nil)
			}
		}
		// typeMap in package init
		ini := o.Fn("am/pkg/labels.init")
		got2 := map[string]string{}
		for _, in := range AllInstrs(ini) {
			if mu, ok := in.(*ssa.MapUpdate); ok && strings.Contains(typeKey(mu.Map.Type()), "map[string]am/pkg/labels.MatchType") {
				got2[e.X(ini, mu.Key)] = e.X(ini, mu.Value)
				o.Site(in, "typeMap["+e.X(ini, mu.Key)+"] = "+e.X(ini, mu.Value))
			}
		}
		for op, v := range want {
			o.Check(got2[op] == itoa(int(v)), "typemap|"+op, "classic typeMap: operator "+op+" parses to type "+got2[op]+", expected "+itoa(int(v)), nil)
		}
		o.MinSites(8)
	})

	reg("C16", "C16.8", "T6", "classic list splitter: a backslash toggles 'escaped'; a quote toggles 'inside quotes' only when not escaped; a comma splits only outside quotes", func(o *Ob) {
		e := o.E
		fn := o.Fn("am/pkg/labels.ParseMatchers")
		var loop *Loop
		for _, l := range e.Loops(fn) {
			if coll, kind := e.RangeOver(l); kind == "iter" && strings.Contains(coll, "strings.Trim") {
				loop = l
			}
		}
		o.Require(loop != nil, "loop", "ParseMatchers no longer scans the input rune by rune", nil)
		r := "next(range(strings.TrimSuffix(strings.TrimPrefix(p0, \"{\"), \"}\")))#2"
		isBS := L("("+r+" == 92)", true)
		isQ := L("("+r+" == 34)", true)
		isC := L("("+r+" == 44)", true)
		for _, m := range []LitM{isBS, isQ, isC} {
			o.Check(e.CountLitEdges(fn, m) > 0, "case|"+m.Desc, "the splitter no longer distinguishes "+m.Desc, nil)
		}
		// state phis in the header
		var toggles []*ssa.Phi
		for _, in := range loop.Header.Instrs {
			p, ok := in.(*ssa.Phi)
			if !ok {
				continue
			}
			if b, ok := p.Type().Underlying().(interface{ Kind() int }); ok {
				_ = b
			}
			if p.Type().String() != "bool" {
				continue
			}
			toggles = append(toggles, p)
		}
		o.Check(len(toggles) == 2, "state", "expected the two state flags (inside quotes, escaped) carried around the loop, found "+itoa(len(toggles)), nil)
		// find, through the value graph, the NOT instructions that feed each state flag and the guard of their block
		negOf := func(p *ssa.Phi) []*ssa.UnOp {
			var out []*ssa.UnOp
			for s := range e.Sources(p, false) {
				if u, ok := s.(*ssa.UnOp); ok && u.Op == token.NOT {
					if e.DerivesFrom(u.X, false, func(v ssa.Value) bool { return v == ssa.Value(p) }) || u.X == ssa.Value(p) {
						out = append(out, u)
					}
				}
			}
			return out
		}
		var escaped, inside *ssa.Phi
		for _, p := range toggles {
			for _, u := range negOf(p) {
				if e.OnlyUnder(u, isBS) {
					escaped = p
				}
				if e.OnlyUnder(u, isQ) {
					inside = p
				}
			}
		}
		if o.Check(escaped != nil, "backslash-toggle", "a backslash no longer toggles the 'escaped' state (it must: an escaped backslash before a closing quote, as in \"C:\\\\\", must not escape the quote)", nil) {
			o.SiteS("escaped := !escaped on backslash")
			// no constant true flows into escaped
			for s := range e.Sources(escaped, false) {
				if k, ok := s.(*ssa.Const); ok && k.Value != nil && k.Value.String() == "true" {
					o.Fail("escaped-const-true", "'escaped' is set to a constant true", nil)
				}
			}
		}
		if o.Check(inside != nil, "quote-toggle", "a double quote no longer toggles the 'inside quotes' state", nil) && escaped != nil {
			o.SiteS("insideQuotes := !insideQuotes on an unescaped quote")
			for _, u := range negOf(inside) {
				cond := LitM{"¬escaped", func(l Lit) bool {
					return !l.Pos && l.Atom == e.X(fn, escaped) || !l.Pos && strings.HasPrefix(l.Atom, "phi(")
				}}
				o.Guarded(u, "quote-unescaped", "toggling 'inside quotes'", cond)
			}
		}
		o.MinSites(2)
	})
}

// matcherMatchesRule: Matcher.Matches' decision table per match type.
func matcherMatchesRule(o *Ob) {
	fn := o.Fn("(*am/pkg/labels.Matcher).Matches")
	t := func(v string) LitM { return L("(recv.Type == "+v+")", true) }
	re := "(*regexp.Regexp).MatchString(recv.re, p0)"
	o.Table(fn, "Matches", []Row{
		{Name: "=", Assume: A(t("0")), Ret: [][]string{Vals("(p0 == recv.Value)", "(recv.Value == p0)")}},
		{Name: "!=", Assume: A(t("0").Neg(), t("1")), Ret: [][]string{Vals("(p0 != recv.Value)", "(recv.Value != p0)", "!(p0 == recv.Value)", "!(recv.Value == p0)")}},
		{Name: "=~", Assume: A(t("0").Neg(), t("1").Neg(), t("2")), Ret: [][]string{Vals(re)}},
		{Name: "!~", Assume: A(t("0").Neg(), t("1").Neg(), t("2").Neg(), t("3")), Ret: [][]string{Vals("!" + re)}},
		{Name: "invalid type", Assume: A(t("0").Neg(), t("1").Neg(), t("2").Neg(), t("3").Neg()), NoReturn: true},
	})
	o.MinSites(4)
}

// matchersAllAnyRule: Matchers.Matches is 'all matchers hold' over lset[name]; MatcherSet.Matches is 'any set'.
func matchersAllAnyRule(o *Ob) {
	e := o.E
	fn := o.Fn("(am/pkg/labels.Matchers).Matches")
	mcs := e.Calls(fn, "(*am/pkg/labels.Matcher).Matches")
	var mc ssa.CallInstruction
	var evals []ssa.Instruction
	holds := LRe(`\(\*am/pkg/labels\.Matcher\)\.Matches\(recv\[i\], .*\)`, true)
	switch len(mcs) {
	case 1:
		mc = mcs[0]
		o.Check(e.Arg(mc, 0) == "recv[i]" && (e.Arg(mc, 1) == "conv:string(p0[recv[i].Name])" || e.Arg(mc, 1) == "p0[recv[i].Name]"), "arg", "each matcher must be applied to the value of its own label read by plain index (a missing label is the empty string), is applied to "+e.Arg(mc, 1), mc)
		holds = L(e.X(fn, mc.(*ssa.Call)), true)
		evals = []ssa.Instruction{mc}
	case 2:
		// the lookup spelled with comma-ok: the value when the label is there, the empty string when it is not
		found := LRe(`p0\[(conv:model\.LabelName\()?recv\[i\]\.Name\)?\]#1`, true)
		for _, c := range mcs {
			evals = append(evals, c)
			a := e.Arg(c, 1)
			switch {
			case a == `""`:
				o.Guarded(c, "arg-missing", "applying a matcher to the empty string", found.Neg())
			case regexpMatch(`(conv:string\()?p0\[(conv:model\.LabelName\()?recv\[i\]\.Name\)?\]#0\)?`, a):
				mc = c
				o.Guarded(c, "arg-present", "applying a matcher to the looked-up value", found)
			default:
				o.Fail("arg", "each matcher must be applied to the value of its own label (a missing label is the empty string), is applied to "+a, c)
			}
			o.Check(e.Arg(c, 0) == "recv[i]", "arg-recv", "the matcher applied must be the one of the iteration", c)
		}
		if mc == nil {
			mc = mcs[0]
		}
	default:
		o.Fail("each", "Matchers.Matches must evaluate each matcher once (found "+itoa(len(mcs))+" evaluation sites)", fnFirst(fn))
		panic(abortRule{})
	}
	o.Site(mc, "m.Matches(lset[m.Name])")
	l := e.LoopOf(mc)
	o.Require(l != nil, "loop", "matchers are not evaluated in a loop", mc)
	coll, kind := e.RangeOver(l)
	o.Check(coll == "recv" && kind == "index", "range", "every matcher must be evaluated", mc)
	o.LoopExitsGuarded(l, "exit", "the evaluation may stop early only at a failing matcher", holds.Neg())
	o.Check(!loopBackWithout(o, l, IsInstr(evals...), nil), "skip", "a matcher can be skipped", mc)
	for _, b := range fn.Blocks {
		for si := range b.Succs {
			if li, ok := e.EdgeLit(b, si); ok && holds.Neg().F(li) {
				r := (&Walk{Fn: fn}).FromEdge(b, si)
				for _, ret := range r.Returns() {
					o.Check(e.X(fn, ret.Results[0]) == "false", "fail-result", "a failing matcher must make the list not match", ret)
				}
				for _, be := range l.Back {
					o.Check(!r.Edge[be], "fail-continues", "after a failing matcher the evaluation continues", mc)
				}
			}
		}
	}
	hx, _ := l.HeaderExit()
	for _, ret := range (&Walk{Fn: fn}).FromEdge(l.Header, hx).Returns() {
		o.Check(e.X(fn, ret.Results[0]) == "true", "all-result", "when every matcher holds the list must match", ret)
	}
	ms := o.Fn("(am/pkg/labels.MatcherSet).Matches")
	sc := o.One(e.Calls(ms, "(am/pkg/labels.Matchers).Matches"), "set-each", "MatcherSet.Matches must evaluate each set", ms)
	o.Site(sc, "set.Matches(lset)")
	sl := e.LoopOf(sc)
	o.Require(sl != nil, "set-loop", "sets are not evaluated in a loop", sc)
	sh := L(e.X(ms, sc.(*ssa.Call)), true)
	o.LoopExitsGuarded(sl, "set-exit", "the evaluation may stop early only at a matching set", sh)
	o.Check(e.Arg(sc, 1) == "p0" && !loopBackWithout(o, sl, IsInstr(sc), nil), "set-skip", "a set can be skipped", sc)
	hx2, _ := sl.HeaderExit()
	for _, ret := range (&Walk{Fn: ms}).FromEdge(sl.Header, hx2).Returns() {
		o.Check(e.X(ms, ret.Results[0]) == "false", "set-none", "when no set matches the silence must not match", ret)
	}
	for _, b := range ms.Blocks {
		for si := range b.Succs {
			if li, ok := e.EdgeLit(b, si); ok && sh.F(li) {
				for _, ret := range (&Walk{Fn: ms}).FromEdge(b, si).Returns() {
					o.Check(e.X(ms, ret.Results[0]) == "true", "set-any", "a matching set must make the silence match", ret)
				}
			}
		}
	}
	o.MinSites(2)
}

// utf8OperatorRule: the UTF-8 parser reads the four operators like the classic one and like the printer writes
// them.  Two tables, joined by the token kinds: the lexer's scanOperator ('!' '=' → not-equals, '!' '~' →
// not-matches, '=' '~' → matches, '=' → equals, anything else an error) and parseMatcher's translation of the token
// kind into the match type handed to NewMatcher, together with the unquoted name and value tokens.
func utf8OperatorRule(o *Ob) {
	e := o.E
	kind := func(name string) string {
		for path, pkg := range e.SSAPkgs {
			if strings.HasSuffix(path, "/matcher/parse") {
				if c, ok := pkg.Members[name].(*ssa.NamedConst); ok {
					return itoa(int(c.Value.Int64()))
				}
			}
		}
		o.Fail("kind|"+name, "token kind "+name+" not found", nil)
		return "?"
	}
	eq, ne, re, nre := kind("tokenEquals"), kind("tokenNotEquals"), kind("tokenMatches"), kind("tokenNotMatches")
	sc := o.Fn("(*am/matcher/parse.lexer).scanOperator")
	o.Site(fnFirst(sc), "lexer: operator table")
	acc := func(s string) LitM { return L(`(*am/matcher/parse.lexer).accept(recv, "`+s+`")`, true) }
	emit := func(k string) [][]string {
		return [][]string{Vals("(*am/matcher/parse.lexer).emit(recv, " + k + ")"), Vals("nil")}
	}
	bang, is, tilde := acc("!"), acc("="), acc("~")
	o.Table(sc, "scan", []Row{
		{Name: "!=", Assume: A(bang, is), Ret: emit(ne)},
		{Name: "!~", Assume: A(bang, is.Neg(), tilde), Ret: emit(nre)},
		{Name: "=~", Assume: A(bang.Neg(), is, tilde), Ret: emit(re)},
		{Name: "=", Assume: A(bang.Neg(), is, tilde.Neg()), Ret: emit(eq)},
	})
	for _, row := range []struct {
		name string
		as   []LitM
	}{{"! alone", A(bang, is.Neg(), tilde.Neg())}, {"neither ! nor =", A(bang.Neg(), is.Neg())}} {
		r := (&Walk{Fn: sc, Cut: e.CutContradicting(row.as...)}).FromEntry()
		rets := r.Returns()
		o.Check(len(rets) >= 1, "scan-error-exit|"+row.name, "scanOperator has no exit for '"+row.name+"'", fnFirst(sc))
		for _, ret := range rets {
			for _, v := range e.ValStrs(sc, e.RetVals(r, ret, 1)) {
				o.Check(v != "nil", "scan-error|"+row.name, "scanOperator accepts '"+row.name+"' as an operator", ret)
			}
		}
	}
	// parser: token kind → match type
	pm := o.Fn("(*am/matcher/parse.parser).parseMatcher")
	nm := o.One(e.Calls(pm, "am/pkg/labels.NewMatcher"), "construct", "parseMatcher must build the matcher with labels.NewMatcher", pm)
	o.Site(nm, "parser: kind → match type")
	// the translation may be a constant table indexed by the kind instead of a switch
	table := map[string]string{}
	if lk := lookupOf(nm.Common().Args[0]); lk != nil {
		if strings.HasSuffix(e.X(pm, lk.Index), ".kind") {
			for path := range e.SSAPkgs {
				if !strings.HasSuffix(path, "/matcher/parse") {
					continue
				}
				ini := o.Fn("am/matcher/parse.init")
				for _, in := range AllInstrs(ini) {
					if mu, ok := in.(*ssa.MapUpdate); ok && types.Identical(mu.Map.Type(), lk.X.Type()) {
						table[e.X(ini, mu.Key)] = e.X(ini, mu.Value)
						o.Site(mu, "kind "+e.X(ini, mu.Key)+" ↦ type "+e.X(ini, mu.Value))
					}
				}
			}
		}
	}
	for _, m := range []struct{ k, op, ty string }{{eq, "=", "0"}, {ne, "!=", "1"}, {re, "=~", "2"}, {nre, "!~", "3"}} {
		if len(table) > 0 {
			o.Check(table[m.k] == m.ty, "type|"+m.op, "the "+m.op+" token must become match type "+m.ty+", the table says "+table[m.k], nm)
			continue
		}
		kindIs := func(k string, pos bool) LitM {
			return LRe(`\(&\w+:am/matcher/parse\.token\.kind == `+k+`\)`, pos)
		}
		lit := kindIs(m.k, true)
		if !e.litKnown(pm, lit) {
			o.Fail("type|"+m.op, "parseMatcher no longer distinguishes the "+m.op+" token", nm)
			continue
		}
		var others []LitM
		for _, k2 := range []string{eq, ne, re, nre} {
			if k2 != m.k {
				others = append(others, kindIs(k2, false))
			}
		}
		r := (&Walk{Fn: pm, Cut: e.CutContradicting(append(others, lit)...)}).FromEntry()
		if !o.Check(r.Has(nm), "type-reach|"+m.op, "the "+m.op+" token never reaches the construction of the matcher", nm) {
			continue
		}
		vs := e.XsAt(r, nm, nm.Common().Args[0])
		o.Check(len(vs) == 1 && vs[0] == m.ty, "type|"+m.op, "the "+m.op+" token must become match type "+m.ty+", becomes "+strings.Join(vs, " | "), nm)
	}
	// unquoting: a quoted token is read with strconv.Unquote (the inverse of the printer's strconv.Quote) and is
	// refused exactly when the result is not valid UTF-8; an unquoted token is taken as it is
	{
		tq := kind("tokenQuoted")
		uf := o.Fn("(am/matcher/parse.token).unquote")
		o.Site(fnFirst(uf), "token.unquote")
		tv := "&t:am/matcher/parse.token"
		quoted := LRe(`\((&t:am/matcher/parse\.token|recv)\.kind == `+tq+`\)`, true)
		uq := `strconv\.Unquote\((&t:am/matcher/parse\.token|recv)\.value\)`
		uOK := LRe(`\(`+uq+`#1 == nil\)`, true)
		valid := LRe(`unicode/utf8\.ValidString\(`+uq+`#0\)`, true)
		_ = tv
		o.Table(uf, "unquote", []Row{
			{Name: "unquoted token", Assume: A(quoted.Neg()), Ret: [][]string{Vals("~(&t:am/matcher/parse\\.token|recv)\\.value"), Vals("nil")}},
			{Name: "bad quoting", Assume: A(quoted, uOK.Neg()), Ret: [][]string{Vals(`""`), Vals("~"+uq+"#1", "~fmt\\.Errorf\\(.*")}},
			{Name: "invalid UTF-8", Assume: A(quoted, uOK, valid.Neg()), Ret: [][]string{Vals(`""`), Vals(anyErr)}},
			{Name: "valid quoted text", Assume: A(quoted, uOK, valid), Ret: [][]string{Vals("~" + uq + "#0"), Vals("nil")}},
		})
	}
	// name and value: the unquoted first and third token
	uq := e.Calls(pm, "(am/matcher/parse.token).unquote")
	if o.Check(len(uq) == 2, "unquote", "name and value must each be unquoted once", nm) {
		first, second := uq[0], uq[1]
		if InstrDominates(second, first) {
			first, second = second, first
		}
		// the text of a token: the unquote result (a helper may join it with "" for its error exit)
		textOf := func(v ssa.Value, call ssa.CallInstruction) bool {
			hit := false
			for _, a := range AltsOf(v) {
				if x, ok := a.V.(*ssa.Extract); ok && x.Tuple == call.(ssa.Value) && x.Index == 0 {
					hit = true
					continue
				}
				if k, ok := a.V.(*ssa.Const); !ok || k.Value == nil || constant.StringVal(k.Value) != "" {
					return false
				}
			}
			return hit
		}
		o.Check(textOf(nm.Common().Args[1], first) && textOf(nm.Common().Args[2], second), "name-value", "the matcher must be built from the unquoted name token and the unquoted value token, in this order", nm)
	}
	// kept
	kept := false
	for _, st := range e.StoresToField(pm, "am/matcher/parse.parser", "matchers") {
		_, parts := e.AppendParts(st.Val)
		for _, p := range parts {
			if x, ok := p.V.(*ssa.Extract); ok && x.Tuple == nm.(ssa.Value) && x.Index == 0 {
				kept = true
				o.Check(len((&Walk{Fn: pm, Cut: e.CutContradicting(L("("+e.X(pm, nm.(*ssa.Call))+"#1 == nil)", true)), Barrier: IsInstr(st)}).After(nm).Returns()) == 0, "kept-skip", "a parsed matcher can be dropped", st)
			}
		}
	}
	o.Check(kept, "kept", "the parsed matcher is not added to the result", nm)
}

func init() {
	reg("C16", "C16.10", "T6,T9", "UTF-8 parser operator tables: scanOperator maps '!=' '!~' '=~' '=' to their token kinds and rejects anything else; parseMatcher maps each kind to its match type and builds the matcher from the unquoted name and value tokens; every parsed matcher is kept", func(o *Ob) {
		utf8OperatorRule(o)
		o.MinSites(2)
	})
}

// lookupOf: v is the value (or the comma-ok value part) of a map lookup.
func lookupOf(v ssa.Value) *ssa.Lookup {
	if x, ok := v.(*ssa.Extract); ok && x.Index == 0 {
		v = x.Tuple
	}
	lk, _ := v.(*ssa.Lookup)
	return lk
}
