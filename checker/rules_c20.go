package main

import (
	"go/token"
	"strings"

	"golang.org/x/tools/go/ssa"
)

// retryStageRule decides the shape of RetryStage.exec.
func retryStageRule(o *Ob) {
	e := o.E
	fn := o.Fn("(am/notify.RetryStage).exec")
	nt := o.One(e.Calls(fn, "(*am/notify.Integration).Notify"), "notify", "RetryStage.exec must deliver through the integration's Notify", fn)
	o.Site(nt, "Notify")
	nx := e.X(fn, nt.(*ssa.Call))
	SR := LRe(`\(\*am/notify\.Integration\)\.SendResolved\(&r:am/notify\.RetryStage\.integration\)`, true)
	hasF := L("am/notify.FiringAlerts(ctx)#1", true)
	noF := L("(len(am/notify.FiringAlerts(ctx)#0) == 0)", true)
	// --- prologue
	o.Table(fn, "prologue", []Row{
		{Name: "send_resolved off, nothing firing", Assume: A(SR.Neg(), hasF, noF), Ret: [][]string{nil, Vals("p2"), Vals("nil")}, Never: []func(ssa.Instruction) bool{IsInstr(nt)}},
		{Name: "send_resolved off, firing hashes missing", Assume: A(SR.Neg(), hasF.Neg()), Ret: [][]string{nil, Vals("nil"), Vals(anyErr)}, Never: []func(ssa.Instruction) bool{IsInstr(nt)}},
	})
	// --- what is sent
	sentArg := nt.Common().Args[len(nt.Common().Args)-1]
	resolvedLit := LRe(`\(\(\*model\.Alert\)\.Status\(p2\[i\](\.Alert)?\) == "resolved"\)`, true)
	for _, pol := range []bool{true, false} {
		cut := e.CutContradicting(SR)
		tag := "on"
		if !pol {
			cut = e.CutContradicting(SR.Neg())
			tag = "off"
		}
		r := (&Walk{Fn: fn, Cut: cut, Barrier: IsInstr(nt)}).FromEntry()
		if !o.Check(r.Has(nt), "sent-unset|"+tag, "with send_resolved "+tag+" the integration is never notified", nt) {
			continue
		}
		leaves := e.ValsAt(r, nt, sentArg)
		o.Check(len(leaves) >= 1, "sent-unset|"+tag, "the notified slice is never set on this path", nt)
		for _, lf := range leaves {
			v := e.X(fn, lf)
			if pol {
				o.SiteS("send_resolved on: sent := " + v)
				o.Check(v == "p2", "sent-all", "with send_resolved the whole batch must be sent, sent is "+v, nt)
				continue
			}
			o.SiteS("send_resolved off: sent := " + v)
			if IsEmptySlice(lf) {
				continue
			}
			c, isApp := lf.(*ssa.Call)
			if !o.Check(isApp && isBuiltinCall("append")(c), "sent-filter-shape", "with send_resolved off the notified slice must be built by appending the firing alerts to a fresh slice, is "+v, nt) {
				continue
			}
			bases, parts := e.AppendPartsUnder(r, lf)
			for _, bs := range bases {
				o.Check(IsEmptySlice(bs), "sent-alias", "the filtered slice is seeded with "+e.X(fn, bs)+": re-using the backing array of the input batch lets sibling integrations of the receiver see firing alerts overwrite resolved ones", nt)
			}
			for _, pt := range parts {
				o.Check(!pt.Spread && e.X(fn, pt.V) == "p2[i]", "sent-elem", "only the alert under test may be appended", pt.Call)
				o.Guarded(pt.Call, "sent-firing-only", "notifying an alert although send_resolved is off", resolvedLit.Neg())
				if l := e.LoopOf(pt.Call); o.Check(l != nil, "sent-loop", "the batch is not filtered in a loop", pt.Call) {
					coll, _ := e.RangeOver(l)
					o.Check(coll == "p2" && len(e.EarlyExits(l)) == 0, "sent-range", "every alert of the batch must be considered", pt.Call)
					o.Check(!loopBackWithout(o, l, IsInstr(pt.Call), e.CutContradicting(resolvedLit.Neg())), "sent-firing-dropped", "a firing alert can be left out of the notification", pt.Call)
				}
			}
		}
	}
	// --- delivery only on a tick
	o.Guarded(nt, "notify-on-tick", "calling Notify", LRe(`sel:recv:github\.com/cenkalti/backoff/v5\.NewTicker\(.*\)\.C`, true))
	// --- outcome handling
	errNil := L("("+nx+"#1 == nil)", true)
	retry := L(nx+"#0", true)
	var loop *Loop
	for _, l := range e.Loops(fn) {
		if l.Blocks[nt.Block().Index] && (loop == nil || len(l.Blocks) > len(loop.Blocks)) {
			loop = l
		}
	}
	o.Require(loop != nil, "retry-loop", "Notify is not called in a retry loop", nt)
	after := func(cut func(*ssa.BasicBlock, int) bool) *Reached {
		return (&Walk{Fn: fn, Cut: cut, Barrier: func(in ssa.Instruction) bool { return in.Block() == loop.Header && in == loop.Header.Instrs[0] }}).After(nt)
	}
	resultsIn := func(r *Reached) (alerts, errs []string, n int) {
		for _, rs := range e.ResultStores(fn, 2) {
			if r.Has(rs.Instr) {
				n++
				errs = append(errs, e.X(fn, rs.Val))
			}
		}
		for _, rs := range e.ResultStores(fn, 1) {
			if r.Has(rs.Instr) {
				alerts = append(alerts, e.X(fn, rs.Val))
			}
		}
		return
	}
	{
		r := after(e.CutContradicting(errNil))
		al, er, n := resultsIn(r)
		o.Check(n >= 1, "success-no-exit", "a successful delivery does not end the retry loop", nt)
		for _, s := range er {
			o.Check(s == "nil", "success-error", "a successful delivery must be reported as success, reports "+s, nt)
		}
		for _, s := range al {
			o.Check(s == "p2", "success-alerts", "after success the whole batch must be passed on (the log must record resolved alerts too), passes "+s, nt)
		}
		for _, be := range loop.Back {
			o.Check(!r.Edge[be], "success-retries", "after a successful delivery the stage can send again", nt)
		}
		o.SiteS("row success → " + strings.Join(er, "|"))
	}
	{
		r := after(e.CutContradicting(errNil.Neg(), retry.Neg()))
		_, er, n := resultsIn(r)
		o.Check(n >= 1, "unrecoverable-no-exit", "an unrecoverable error does not end the retry loop", nt)
		for _, s := range er {
			o.Check(s != "nil" && strings.Contains(s, nx+"#1"), "unrecoverable-error", "an unrecoverable error must be returned (wrapping the integration's error), returns "+s, nt)
		}
		for _, be := range loop.Back {
			o.Check(!r.Edge[be], "unrecoverable-retried", "an unrecoverable error is retried", nt)
		}
		headerReached := false
		for _, p := range loop.Header.Preds {
			if r.Edge[[2]int{p.Index, loop.Header.Index}] {
				headerReached = true
			}
		}
		o.Check(!headerReached, "unrecoverable-retried", "an unrecoverable error is retried", nt)
		o.SiteS("row unrecoverable → " + strings.Join(er, "|"))
	}
	{
		r := after(e.CutContradicting(errNil.Neg(), retry))
		_, er, n := resultsIn(r)
		o.Check(n == 0, "recoverable-gives-up", "a recoverable error ends the flush's retries before the flush deadline (returns "+strings.Join(er, "|")+"): only the context may end the loop", nt)
		o.SiteS("row recoverable → stays in loop")
	}
	// --- context end: error returned derives from the last integration error or the context's error
	done := LRe(`nb-sel:recv:invoke:context\.Context\.Done\(ctx\)`, true)
	{
		n := 0
		for _, b := range fn.Blocks {
			for si := range b.Succs {
				if li, isL := e.EdgeLit(b, si); isL && done.F(li) {
					n++
					r := (&Walk{Fn: fn}).FromEdge(b, si)
					o.Check(!r.Has(nt), "done-notifies", "after the flush context ended the stage still notifies", nt)
					// a flush that ended without a delivery must not be reported as delivered: the dispatcher drops the
					// resolved alerts of a flush that returns no error.  (The context's error is non-nil once Done is closed.)
					assumedNonNil = func(v ssa.Value) bool {
						c, isC := v.(*ssa.Call)
						return isC && calleeName(&c.Call) == "invoke:context.Context.Err"
					}
					rs0 := (&Walk{Fn: fn}).FromEdge(b, si)
					assumedNonNil = nil
					for _, rs := range e.ResultStores(fn, 2) {
						if rs0.Has(rs.Instr) && isNilConst(rs.Val) {
							o.Fail("done-silent", "the retries can end with the flush context and report success although nothing was delivered: the flush counts as delivered and its resolved alerts are dropped unreported", rs.Instr)
						}
					}
					for _, rs := range e.ResultStores(fn, 2) {
						if !r.Has(rs.Instr) || isNilConst(rs.Val) {
							continue
						}
						okSrc := e.DerivesFrom(rs.Val, true, func(v ssa.Value) bool {
							if c, isC := v.(*ssa.Call); isC {
								return calleeName(&c.Call) == "invoke:context.Context.Err" || c == nt.(*ssa.Call)
							}
							return false
						})
						o.Check(okSrc, "done-error", "the error reported when the flush deadline ends the retries must carry the last integration error or the context error", rs.Instr)
					}
				}
			}
		}
		o.Check(n >= 1, "done-test", "the retry loop no longer checks the flush context before each attempt", nt)
	}
}

func init() {
	propInfos["C20"] = &propInfo{
		Explanation: "Decides the delivery contract's structure: (1) RetryStage.exec: with send_resolved off and nothing firing it reports success without notifying; otherwise it notifies exactly the batch (minus resolved ones when send_resolved is off, built in a fresh slice), only on back-off ticks; success → (batch, nil); unrecoverable error → that error, no further attempt; recoverable error → stays in the loop until the flush context ends, then a non-nil error carrying the last failure; (2) MultiStage stops at the first failing stage and otherwise runs every stage, FanoutStage starts every integration, waits for all and joins their errors without cancelling siblings, RoutingStage fails for unknown receivers; (3) the record stage is the last stage of each integration's chain and returns Log's error; each integration has its own log key; (4) Retrier.Check: 2xx → success, otherwise error with retry iff 5xx or listed code; (5) template data lists one entry per alert, status from the alerts, common labels/annotations only ever lose keys; webhook truncation drops exactly the alerts beyond max_alerts and reports their count.",
		NotDecided:  "back-off values, truncation arithmetic on runes/bytes (numeric), the integrations' HTTP payload formats.",
	}

	reg("C20", "C20.1", "T6", "RetryStage.exec: prologue, what is sent, outcome table (success / unrecoverable / recoverable), context end (an error, never success without a delivery)", func(o *Ob) {
		retryStageRule(o)
		o.MinSites(6)
	})

	reg("C20", "C20.2", "T2,T8", "failure propagates and siblings are isolated: MultiStage, FanoutStage, RoutingStage", func(o *Ob) {
		multiStageRule(o)
		fanoutStageRule(o)
		routingStageRule(o)
		o.MinSites(3)
	})

	reg("C20", "C20.3", "T2", "record after success: set-notifies is the last stage of each integration chain, after retry; it returns Log's error; one log key per integration", func(o *Ob) {
		_, inner := pipelineOrder(o)
		r, s := indexOfPrefix(inner, "am/notify.NewRetryStage("), indexOfPrefix(inner, "am/notify.NewSetNotifiesStage(")
		o.Check(r >= 0 && s >= 0 && r < s && s == len(inner)-1, "chain-order", "each integration's chain must end with retry(send) → set-notifies(record), is "+strings.Join(inner, " → "), nil)
		integrationLogKeyRule(o)
		for i := range registry {
			if registry[i].ID == "C04.3" {
				registry[i].Run(o)
			}
		}
		o.MinSites(4)
	})

	reg("C20", "C20.4", "T6", "Retrier.Check: 2xx → (false, nil); otherwise an error, retry iff 5xx or a listed code", func(o *Ob) {
		e := o.E
		fn := o.Fn("(*am/notify.Retrier).Check")
		ok2xx := L("((p0 / 100) == 2)", true)
		is5xx := L("((p0 / 100) == 5)", true)
		o.RequireFn(e.CountLitEdges(fn, ok2xx)+e.CountLitEdges(fn, ok2xx.Neg()) > 0, "no-2xx", "Retrier.Check no longer classifies 2xx as success", fn)
		{
			r := (&Walk{Fn: fn, Cut: e.CutContradicting(ok2xx)}).FromEntry()
			for _, ret := range r.Returns() {
				v0, v1 := e.ValStrs(fn, e.RetVals(r, ret, 0)), e.ValStrs(fn, e.RetVals(r, ret, 1))
				o.Site(ret, "2xx → ("+strings.Join(v0, "|")+", "+strings.Join(v1, "|")+")")
				o.Check(len(v0) == 1 && v0[0] == "false" && len(v1) == 1 && v1[0] == "nil", "2xx-result", "a 2xx response must be (no retry, no error)", ret)
			}
		}
		{
			r := (&Walk{Fn: fn, Cut: e.CutContradicting(ok2xx.Neg())}).FromEntry()
			n := 0
			for _, ret := range r.Returns() {
				n++
				v1 := e.ValStrs(fn, e.RetVals(r, ret, 1))
				for _, s := range v1 {
					o.Check(s != "nil", "non2xx-nil", "a non-2xx response is reported as success", ret)
				}
				v0 := e.X(fn, ret.Results[0])
				o.Site(ret, "non-2xx → retry = "+v0)
				o.Check(strings.Contains(v0, "(p0 / 100) == 5") || strings.Contains(v0, "phi("), "non2xx-retry", "retry must be decided by 5xx or the listed codes, is "+v0, ret)
			}
			o.Check(n >= 1, "non2xx-noexit", "no exit for non-2xx responses", nil)
			_ = is5xx
		}
		o.MinSites(2)
	})

	reg("C20", "C20.5", "T8,T11", "payload: template data has one entry per alert of the batch, status from the alerts, common labels/annotations only lose keys; webhook truncation drops alerts beyond max_alerts and reports the count", func(o *Ob) {
		templateDataRule(o)
		o.MinSites(3)
	})
}

// templateDataRule: Template.Data appends one Alert per input alert (no filter); truncateAlerts.
func templateDataRule(o *Ob) {
	e := o.E
	fn := o.Fn("(*am/template.Template).Data")
	// the Alerts field of the returned Data is built by appending one element per input alert
	var app *ssa.Call
	for _, in := range AllInstrs(fn) {
		c, ok := in.(*ssa.Call)
		if ok && isBuiltinCall("append")(in) && typeKey(c.Type()) == "am/template.Alerts" {
			app = c
		}
	}
	o.Require(app != nil, "data-append", "Template.Data no longer collects the alerts", nil)
	o.Site(app, "Data.Alerts += alert")
	l := e.LoopOf(app)
	o.Require(l != nil, "data-loop", "alerts are not collected in a loop", app)
	coll, kind := e.RangeOver(l)
	_ = kind
	o.Check(strings.Contains(coll, "p4"), "data-range", "every alert of the batch must be listed, loop ranges over "+coll, app)
	o.Check(len(e.EarlyExits(l)) == 0, "data-early-exit", "the loop over the batch can stop early", app)
	o.Check(!loopBackWithout(o, l, IsInstr(app), nil), "data-filter", "an alert of the batch can be left out of the template data", app)
	// status
	sts := e.StoresToField(fn, "am/template.Data", "Status")
	if o.Check(len(sts) == 1, "data-status", "Data.Status must be set once", nil) {
		v := e.X(fn, sts[0].Val)
		o.Site(sts[0], "Data.Status = "+v)
		o.Check(strings.Contains(v, ".Status("), "data-status-src", "Data.Status must be the status of the alerts (firing iff any fires), is "+v, sts[0])
	}
	// common labels / annotations = what the first alert has, minus every pair some later alert does not share:
	// each set starts as a copy of the first alert's, every later alert is compared with both sets, a pair is
	// deleted exactly when that alert's value differs, and the comparison may stop early only when both sets are empty
	for _, kind := range []string{"Labels", "Annotations"} {
		if commonsOverCollectedSets(o, fn, kind) {
			continue
		}
		set := "(model.LabelSet).Clone(p4[0].Alert." + kind + ")"
		var del *ssa.Call
		for _, in := range AllInstrs(fn) {
			if isBuiltinCall("delete")(in) {
				c := in.(*ssa.Call)
				if e.X(fn, c.Call.Args[0]) == set {
					o.Check(del == nil, "common-delete-once|"+kind, "pairs are removed from the common "+kind+" in more than one place", c)
					del = c
				}
			}
		}
		if !o.Check(del != nil, "common-delete|"+kind, "the common "+kind+" are no longer reduced by the later alerts (or no longer start from the first alert's "+kind+")", fnFirst(fn)) {
			continue
		}
		o.Site(del, "common "+kind+" lose a pair")
		inner := e.LoopOf(del)
		if !o.Check(inner != nil, "common-inner|"+kind, "pairs must be checked in a loop over the common set", del) {
			continue
		}
		coll, _ := e.RangeOver(inner)
		o.Check(coll == set && len(e.EarlyExits(inner)) == 0, "common-inner-range|"+kind, "every pair of the common "+kind+" must be compared, loop ranges over "+clip(coll), del)
		k := "next(range(" + set + "))#1"
		v := "next(range(" + set + "))#2"
		o.Check(e.X(fn, del.Call.Args[1]) == k, "common-delete-key|"+kind, "the pair removed must be the one compared", del)
		same := LRe(`\(`+regexpQuote(v)+` == slice\(p4,lo=1\)\[i\]\.Alert\.`+kind+`\[`+regexpQuote(k)+`\]\)|\(slice\(p4,lo=1\)\[i\]\.Alert\.`+kind+`\[`+regexpQuote(k)+`\] == `+regexpQuote(v)+`\)`, true)
		o.Guarded(del, "common-delete-guard|"+kind, "removing a pair from the common "+kind, same.Neg())
		o.Check(!loopBackWithout(o, inner, IsInstr(del), e.CutContradicting(same.Neg())), "common-delete-forced|"+kind, "a pair a later alert does not share can stay in the common "+kind, del)
		// the outer loop: every later alert, both sets each time
		var outer *Loop
		for _, l := range e.Loops(fn) {
			if l.Header != inner.Header && l.Blocks[inner.Header.Index] && (outer == nil || len(l.Blocks) < len(outer.Blocks)) {
				outer = l
			}
		}
		if o.Check(outer != nil, "common-outer|"+kind, "the common "+kind+" must be compared with every later alert", del) {
			oc, _ := e.RangeOver(outer)
			o.Check(oc == "slice(p4,lo=1)" || oc == "p4", "common-outer-range|"+kind, "the comparison must run over the alerts after the first, runs over "+clip(oc), del)
			rangeInstr := func(in ssa.Instruction) bool {
				r, ok := in.(*ssa.Range)
				return ok && e.X(fn, r.X) == set && inner.Blocks[blockOfUse(r).Index]
			}
			// stopping early needs every set this loop reduces to be empty already
			for _, k2 := range []string{"Labels", "Annotations"} {
				set2 := "(model.LabelSet).Clone(p4[0].Alert." + k2 + ")"
				reducedHere := k2 == kind
				for _, in := range AllInstrs(fn) {
					if isBuiltinCall("delete")(in) && outer.Blocks[in.Block().Index] && e.X(fn, in.(*ssa.Call).Call.Args[0]) == set2 {
						reducedHere = true
					}
				}
				if !reducedHere {
					continue
				}
				empty := L("(len("+set2+") == 0)", true)
				o.LoopExitsGuarded(outer, "common-early-exit|"+kind+"|"+k2, "the comparison with later alerts may stop early only when every common set it reduces is empty", empty)
			}
			o.Check(!loopBackWithout(o, outer, rangeInstr, nil), "common-skip|"+kind, "a later alert can be skipped when the common "+kind+" are reduced", del)
		}
		// and what the data carries is that set
		n := 0
		var cloneCall ssa.Value
		for _, in := range AllInstrs(fn) {
			if c, ok := in.(*ssa.Call); ok && e.X(fn, c) == set {
				cloneCall = c
			}
		}
		fromSet := func(v ssa.Value) bool {
			return cloneCall != nil && (v == cloneCall || e.DerivesFrom(v, true, func(x ssa.Value) bool { return x == cloneCall }))
		}
		for _, in := range AllInstrs(fn) {
			if m, ok := in.(*ssa.MapUpdate); ok && strings.HasSuffix(e.X(fn, m.Map), "Data.Common"+kind) {
				n++
				o.Check(fromSet(m.Key) && fromSet(m.Value), "common-result|"+kind, "Data.Common"+kind+" must be filled from the reduced set", m)
			}
		}
		for _, st := range e.StoresToField(fn, "am/template.Data", "Common"+kind) {
			if fromSet(st.Val) {
				n = 1
				continue
			}
			// a fresh map the pairs of the reduced set are put into (before or after it is stored in the field)
			filled := false
			for _, in := range AllInstrs(fn) {
				if m, ok := in.(*ssa.MapUpdate); ok && m.Map == st.Val {
					if o.Check(fromSet(m.Key) && fromSet(m.Value), "common-result|"+kind, "Data.Common"+kind+" must be filled from the reduced set", m) {
						filled = true
					}
				}
			}
			if filled {
				n = 1
			} else if n == 0 {
				if _, isMk := st.Val.(*ssa.MakeMap); !isMk {
					o.Fail("common-result|"+kind, "Data.Common"+kind+" must be filled from the reduced set, is "+clip(e.X(fn, st.Val)), st)
				}
			}
		}
		if n > 1 {
			n = 1
		}
		o.Check(n == 1, "common-result-site|"+kind, "Data.Common"+kind+" must be filled from the reduced set in one place", del)
	}
	// webhook truncation
	tr := o.Fn("am/notify/webhook.truncateAlerts")
	over := LRe(`\(conv:int\(p0\) < len\(p1\)\)|\(p0 < conv:uint64\(len\(p1\)\)\)|\(conv:uint64\(len\(p1\)\) > p0\)`, true)
	on := L("(p0 == 0)", false)
	_ = over
	rets := (&Walk{Fn: tr}).FromEntry().Returns()
	o.Check(len(rets) >= 2, "trunc-rets", "truncateAlerts must distinguish truncation from pass-through", nil)
	{
		r := (&Walk{Fn: tr, Cut: e.CutContradicting(on.Neg())}).FromEntry()
		for _, ret := range r.Returns() {
			v0, v1 := e.ValStrs(tr, e.RetVals(r, ret, 0)), e.ValStrs(tr, e.RetVals(r, ret, 1))
			o.Site(ret, "max_alerts = 0 → ("+strings.Join(v0, "|")+", "+strings.Join(v1, "|")+")")
			o.Check(len(v0) == 1 && v0[0] == "p1" && len(v1) == 1 && v1[0] == "0", "trunc-off", "with max_alerts = 0 nothing may be truncated", ret)
		}
	}
	for _, ret := range rets {
		v0, v1 := e.X(tr, ret.Results[0]), e.X(tr, ret.Results[1])
		if v0 == "p1" {
			o.Check(v1 == "0", "trunc-count-pass", "an untruncated batch must report 0 truncated alerts", ret)
			continue
		}
		o.Site(ret, "truncated → ("+v0+", "+v1+")")
		o.Check(strings.HasPrefix(v0, "slice(p1,hi="), "trunc-prefix", "truncation must keep the first max_alerts alerts, keeps "+v0, ret)
		o.Check(strings.Contains(v1, "len(p1)") && strings.Contains(v1, "-"), "trunc-count", "the number of truncated alerts must be len(alerts) − max_alerts, is "+v1, ret)
	}
}

// integrationPassThroughRule: Integration.Notify is the wrapper between the retry stage and the integration's
// notifier.  The retry decision is the integration's own: the wrapper hands the batch to the notifier unchanged
// and returns the notifier's (recoverable, error) unchanged; its deferred bookkeeping does not write them.
func integrationPassThroughRule(o *Ob) {
	e := o.E
	fn := o.Fn("(*am/notify.Integration).Notify")
	c := o.One(e.Calls(fn, "invoke:am/notify.Notifier.Notify"), "delegate", "the integration wrapper must call its notifier exactly once", fn)
	o.Site(c, "Integration.Notify → notifier.Notify")
	o.Check(e.Arg(c, 0) == "recv.notifier" && e.Arg(c, 2) == "p1", "delegate-args", "the notifier must get the batch unchanged", c)
	cx := e.X(fn, c.(*ssa.Call))
	r := (&Walk{Fn: fn}).FromEntry()
	n := 0
	for _, ret := range r.Returns() {
		for idx := 0; idx < 2; idx++ {
			vs := e.ValStrs(fn, e.RetVals(r, ret, idx))
			n++
			want := cx + "#" + itoa(idx)
			ok := len(vs) >= 1
			for _, v := range vs {
				if v != want && v != "phi(cyc|"+want+")" {
					ok = false
				}
			}
			o.Check(ok, "verdict|"+itoa(idx), "the wrapper must return the notifier's result #"+itoa(idx)+" unchanged (the retry decision belongs to the integration), may return "+clip(strings.Join(vs, " | ")), ret)
		}
	}
	o.Check(n >= 2, "verdict-exits", "Integration.Notify has no normal exit", nil)
	// the deferred bookkeeping only reads the results
	for _, in := range AllInstrs(fn) {
		d, ok := in.(*ssa.Defer)
		if !ok {
			continue
		}
		if lit := e.FuncValue(d.Call.Value); lit != nil {
			for _, in2 := range AllInstrs(lit) {
				if s, ok := in2.(*ssa.Store); ok {
					if fv, ok := s.Addr.(*ssa.FreeVar); ok {
						o.Check(fv.Name() != "recoverable" && fv.Name() != "err", "verdict-deferred", "the deferred bookkeeping rewrites the result "+fv.Name(), s)
					}
				}
			}
		}
	}
}

func init() {
	reg("C20", "C20.9", "T6", "the retry decision is the integration's: Integration.Notify hands the batch to its notifier and returns the notifier's (recoverable, error) unchanged", func(o *Ob) {
		integrationPassThroughRule(o)
		o.MinSites(1)
	})
}

// sliceBoundsRule: truncation cuts a prefix x[:h].  A cut never panics and never keeps more than it may only if h is
// known not to exceed len(x) where the cut is made.  Accepted evidence, per cut:
//
//	(a) the cut is only reachable under a test that bounds h (or the value h was decremented from) by len(x);
//	(b) h is len(y)-1 for a y that is itself a prefix of x (a shrinking loop);
//	(c) h is min(..., len(x)).
//
// A bound on a different measure of the same text (bytes of the string vs. runes of its conversion) is not evidence.
func sliceBoundsRule(o *Ob) {
	e := o.E
	for _, name := range []string{"am/notify.TruncateInRunes", "am/notify.TruncateInBytes", "am/notify/webhook.truncateAlerts"} {
		fn := o.Fn(name)
		n := 0
		for _, in := range AllInstrs(fn) {
			sl, ok := in.(*ssa.Slice)
			if !ok || sl.High == nil {
				continue
			}
			n++
			base := sl.X
			// the underlying sequence when x is itself a prefix of it
			for {
				if p, ok := base.(*ssa.Slice); ok && p.Low == nil {
					base = p.X
					continue
				}
				break
			}
			bx := e.X(fn, base)
			o.Site(sl, fnName(fn)+": "+bx+"[:"+e.X(fn, sl.High)+"]")
			if sliceHighBounded(e, fn, sl, base) {
				o.Checks++
				o.Passed++
				continue
			}
			o.Fail("slice-bound|"+fnName(fn)+"|"+e.X(fn, sl.High), "the cut "+clip(bx)+"[:"+e.X(fn, sl.High)+"] is not bounded by len("+clip(bx)+") on every path (a text with fewer elements than the bound panics instead of being truncated)", sl)
		}
		o.Check(n >= 1, "slice-sites|"+fnName(fn), fnName(fn)+" no longer cuts a prefix", fnFirst(fn))
	}
}

func sliceHighBounded(e *Eng, fn *ssa.Function, sl *ssa.Slice, base ssa.Value) bool {
	lens := []string{"len(" + e.X(fn, base) + ")", "len(" + e.X(fn, sl.X) + ")"}
	// the number of runes of a string is the length of its rune slice
	for _, x := range []string{e.X(fn, base), e.X(fn, sl.X)} {
		if strings.HasPrefix(x, "conv:[]rune(") && strings.HasSuffix(x, ")") {
			lens = append(lens, "unicode/utf8.RuneCountInString("+x[len("conv:[]rune("):len(x)-1]+")")
		}
	}
	isLenOfBase := func(v ssa.Value) bool {
		s := e.X(fn, v)
		for _, l := range lens {
			if s == l {
				return true
			}
		}
		return false
	}
	// prefixOfBase: y is base, a prefix of it, or the sliced value itself (possibly through phis)
	var prefixOfBase func(y ssa.Value, seen map[ssa.Value]bool) bool
	prefixOfBase = func(y ssa.Value, seen map[ssa.Value]bool) bool {
		if seen[y] {
			return true
		}
		seen[y] = true
		switch v := y.(type) {
		case *ssa.Phi:
			for _, ed := range v.Edges {
				if !prefixOfBase(ed, seen) {
					return false
				}
			}
			return true
		case *ssa.Slice:
			return v.Low == nil && prefixOfBase(v.X, seen)
		}
		return y == base
	}
	guarded := func(h ssa.Value, a *Alt) bool {
		hs := []string{e.X(fn, h)}
		if bo, ok := h.(*ssa.BinOp); ok && bo.Op == token.SUB {
			if k, isK := bo.Y.(*ssa.Const); isK && k.Value != nil && k.Int64() >= 0 {
				hs = append(hs, e.X(fn, bo.X))
			}
		}
		for _, hx := range hs {
			for _, ln := range lens {
				// either side may be converted to the other's integer type
				hq := `(conv:\w+\()?` + regexpQuote(hx) + `\)?`
				lq := `(conv:\w+\()?` + regexpQuote(ln) + `\)?`
				lits := []LitM{
					LRe(`\(`+hq+` < `+lq+`\)`, true),  // h < len
					LRe(`\(`+lq+` < `+hq+`\)`, false), // ¬(len < h)
					LRe(`\(`+lq+` <= `+hq+`\)`, false), // ¬(len ≤ h)
					LRe(`\(`+hq+` >= `+lq+`\)`, false), // ¬(h ≥ len)
					LRe(`\(`+hq+` == `+lq+`\)|\(`+lq+` == `+hq+`\)`, true),
				}
				if e.OnlyUnder(sl, lits...) || a != nil && e.AltUnder(*a, lits...) {
					return true
				}
			}
		}
		return false
	}
	var bounded func(h ssa.Value, a *Alt, seen map[ssa.Value]bool, depth int) bool
	bounded = func(h ssa.Value, a *Alt, seen map[ssa.Value]bool, depth int) bool {
		if depth > 4 {
			return false
		}
		if isLenOfBase(h) {
			return true
		}
		switch v := h.(type) {
		case *ssa.Call:
			if b, isB := v.Call.Value.(*ssa.Builtin); isB && b.Name() == "min" {
				for _, x := range v.Call.Args {
					if bounded(x, a, seen, depth+1) {
						return true
					}
				}
			}
		case *ssa.BinOp:
			if v.Op == token.SUB {
				if k, isK := v.Y.(*ssa.Const); isK && k.Value != nil && k.Int64() >= 0 {
					// len(y) - c for a prefix y of the base; or a bounded value made smaller
					if c, ok := v.X.(*ssa.Call); ok {
						if b, isB := c.Call.Value.(*ssa.Builtin); isB && b.Name() == "len" && prefixOfBase(c.Call.Args[0], map[ssa.Value]bool{ssa.Value(sl): true}) {
							return true
						}
					}
					if seen[v.X] || bounded(v.X, a, seen, depth+1) {
						return true
					}
				}
			}
		case *ssa.Phi:
			if seen[h] {
				return true
			}
			seen[h] = true
			// a counter: starts bounded, and is only ever incremented by one where "counter < len(x)" holds
			if counterBelowLen(e, fn, v, isLenOfBase) {
				start := true
				for i, ed := range v.Edges {
					if bo, ok := ed.(*ssa.BinOp); ok && bo.Op == token.ADD && bo.X == ssa.Value(v) {
						continue
					}
					alt := Alt{ed, v.Block().Preds[i], v.Block()}
					if k, isK := ed.(*ssa.Const); !(isK && k.Value != nil && k.Int64() == 0) && !bounded(ed, &alt, seen, depth+1) {
						start = false
					}
				}
				if start {
					return true
				}
			}
			for i, ed := range v.Edges {
				alt := Alt{ed, v.Block().Preds[i], v.Block()}
				if !bounded(ed, &alt, seen, depth+1) {
					return false
				}
			}
			return true
		}
		return guarded(h, a)
	}
	return bounded(sl.High, nil, map[ssa.Value]bool{}, 0)
}

func init() {
	reg("C20", "C20.10", "T1,T12", "truncation never cuts beyond the text: every prefix cut x[:h] in TruncateInRunes, TruncateInBytes and the webhook's truncateAlerts is made under evidence that h ≤ len(x) (a bound on the same sequence, a shrinking prefix, or min)", func(o *Ob) {
		sliceBoundsRule(o)
		o.MinSites(3)
	})
}

// blockOfUse: the block in which a range iterator is advanced (its Next), which is the header of its loop.
func blockOfUse(r *ssa.Range) *ssa.BasicBlock {
	if refs := r.Referrers(); refs != nil {
		for _, u := range *refs {
			if nx, ok := u.(*ssa.Next); ok {
				return nx.Block()
			}
		}
	}
	return r.Block()
}

// webhookOutcomeRule: the webhook integration's verdict.  A request that could not be completed (connection error,
// the integration's own per-request timeout, a cancelled attempt) is recoverable: the retry stage, not the
// integration, knows how much of the flush is left.  A completed request is judged by Retrier.Check on the response
// status, and its verdict is returned as it is.  The batch sent is the truncated one, with the count reported.
func webhookOutcomeRule(o *Ob) {
	e := o.E
	fn := o.Fn("(*am/notify/webhook.Notifier).Notify")
	post := o.One(e.Calls(fn, "am/notify.PostJSON"), "post", "the webhook must post its message", fn)
	o.Site(post, "webhook POST")
	px := e.X(fn, post.(*ssa.Call))
	failed := L("("+px+"#1 == nil)", false)
	r := (&Walk{Fn: fn, Cut: e.CutContradicting(failed)}).After(post)
	rets := r.Returns()
	o.Check(len(rets) >= 1, "post-error-exit", "no exit for a failed POST", post)
	for _, ret := range rets {
		for _, v := range e.ValStrs(fn, e.RetVals(r, ret, 0)) {
			o.Check(v == "true", "post-error-recoverable", "a POST that could not be completed must be reported as recoverable (the retry stage decides whether time is left), is "+clip(v), ret)
		}
		for _, v := range e.ValStrs(fn, e.RetVals(r, ret, 1)) {
			o.Check(v != "nil", "post-error-reported", "a failed POST is reported as success", ret)
		}
	}
	chk := o.One(e.Calls(fn, "(*am/notify.Retrier).Check"), "check", "a completed request must be judged by Retrier.Check", fn)
	o.Check(strings.HasSuffix(e.Arg(chk, 1), ".StatusCode") && strings.HasPrefix(e.Arg(chk, 1), px+"#0"), "check-status", "Retrier.Check must judge the status of this response, judges "+clip(e.Arg(chk, 1)), chk)
	cx := e.X(fn, chk.(*ssa.Call))
	r2 := (&Walk{Fn: fn}).After(chk)
	for _, ret := range r2.Returns() {
		for _, v := range e.ValStrs(fn, e.RetVals(r2, ret, 0)) {
			o.Check(v == cx+"#0", "check-verdict", "the verdict of Retrier.Check must be returned as it is, returns "+clip(v), ret)
		}
		for _, v := range e.ValStrs(fn, e.RetVals(r2, ret, 1)) {
			o.Check(v == "nil" || strings.Contains(v, cx+"#1"), "check-error", "the error of Retrier.Check must be returned (possibly with a reason), returns "+clip(v), ret)
		}
	}
	errNil := L("("+cx+"#1 == nil)", true)
	{
		r3 := (&Walk{Fn: fn, Cut: e.CutContradicting(errNil.Neg())}).After(chk)
		for _, ret := range r3.Returns() {
			for _, v := range e.ValStrs(fn, e.RetVals(r3, ret, 1)) {
				o.Check(v != "nil", "check-error-dropped", "a response Retrier.Check rejects is reported as success", ret)
			}
		}
	}
	// what is sent: the truncated batch and the count of what was cut
	tr := o.One(e.Calls(fn, "am/notify/webhook.truncateAlerts"), "truncate", "the webhook must apply max_alerts", fn)
	o.Check(e.Arg(tr, 0) == "recv.conf.MaxAlerts" && e.Arg(tr, 1) == "p1", "truncate-args", "truncation must apply the configured max_alerts to the batch", tr)
	tx := e.X(fn, tr.(*ssa.Call))
	gd := o.One(e.Calls(fn, "am/notify.GetTemplateData"), "data", "the webhook message must be built from the template data of the batch", fn)
	o.Check(e.Arg(gd, 2) == tx+"#0", "data-batch", "the message must list the truncated batch, lists "+clip(e.Arg(gd, 2)), gd)
	for _, st := range e.StoresToField(fn, "am/notify/webhook.Message", "TruncatedAlerts") {
		o.Check(e.X(fn, st.Val) == tx+"#1", "truncated-count", "the message must report how many alerts were cut, reports "+clip(e.X(fn, st.Val)), st)
	}
}

func init() {
	reg("C20", "C20.12", "T6,T11", "webhook verdict: a POST that could not be completed is recoverable; a completed one is judged by Retrier.Check on its status and that verdict is returned unchanged; the message lists the truncated batch and the count of what was cut", func(o *Ob) {
		webhookOutcomeRule(o)
		o.MinSites(1)
	})
}

// counterBelowLen: every edge of phi that is not its start value is "phi + 1", computed only where an enclosing test
// "phi < len(x)" holds (so phi never exceeds len(x)).
func counterBelowLen(e *Eng, fn *ssa.Function, phi *ssa.Phi, isLen func(ssa.Value) bool) bool {
	incs := 0
	for _, ed := range phi.Edges {
		bo, ok := ed.(*ssa.BinOp)
		if !ok || bo.X != ssa.Value(phi) {
			continue
		}
		if bo.Op != token.ADD || !isIntConst(bo.Y, 1) {
			return false
		}
		incs++
		guarded := false
		for _, b := range fn.Blocks {
			if len(b.Instrs) == 0 {
				continue
			}
			iff, isIf := b.Instrs[len(b.Instrs)-1].(*ssa.If)
			if !isIf {
				continue
			}
			c, isB := iff.Cond.(*ssa.BinOp)
			if !isB || c.Op != token.LSS || c.X != ssa.Value(phi) || !isLen(c.Y) {
				continue
			}
			l := e.CondLit(fn, iff.Cond)
			if e.OnlyUnder(bo, L(l.Atom, l.Pos)) {
				guarded = true
			}
		}
		if !guarded {
			return false
		}
	}
	return incs > 0
}

// commonsOverCollectedSets: the common labels / annotations computed as an intersection over a list of the
// alerts' sets: the sets of all alerts of the batch are collected into a list S; the result M is a map made
// here, filled with every pair of S[0]; for every later set S[1:][i] every pair of M is compared with that
// set's value for the name and deleted exactly when it differs; the comparison with later sets may stop early
// only when M is empty; Data.Common<kind> is M (or an empty map when there are no alerts).
func commonsOverCollectedSets(o *Ob, fn *ssa.Function, kind string) bool {
	e := o.E
	sts := e.StoresToField(fn, "am/template.Data", "Common"+kind)
	if len(sts) != 1 {
		return false
	}
	var M *ssa.MakeMap
	var del *ssa.Call
	for _, a := range AltsOf(sts[0].Val) {
		mm, ok := a.V.(*ssa.MakeMap)
		if !ok {
			continue
		}
		for _, r := range *mm.Referrers() {
			if c, ok := r.(*ssa.Call); ok && isBuiltinCall("delete")(c) && c.Call.Args[0] == ssa.Value(mm) {
				M, del = mm, c
			}
		}
	}
	if M == nil {
		return false
	}
	o.Site(del, "common "+kind+" lose a pair (intersection over the collected sets)")
	for _, a := range AltsOf(sts[0].Val) {
		if a.V == ssa.Value(M) {
			continue
		}
		mm, ok := a.V.(*ssa.MakeMap)
		empty := ok
		if ok {
			for _, r := range *mm.Referrers() {
				if _, isUp := r.(*ssa.MapUpdate); isUp {
					empty = false
				}
			}
		}
		o.Check(empty, "common-result|"+kind, "Data.Common"+kind+" may be "+clip(e.X(fn, a.V))+", which is neither the intersection nor an empty set", sts[0])
	}
	// the list S of all alerts' sets
	var S ssa.Value
	var fill *ssa.MapUpdate
	for _, r := range *M.Referrers() {
		if mu, ok := r.(*ssa.MapUpdate); ok && mu.Map == ssa.Value(M) {
			if !o.Check(fill == nil, "common-fill|"+kind, "the common "+kind+" are filled in more than one place", mu) {
				continue
			}
			fill = mu
		}
	}
	if !o.Check(fill != nil, "common-delete|"+kind, "the common "+kind+" no longer start from the first alert's "+kind, del) {
		return true
	}
	fl := e.LoopOf(fill)
	var first *ssa.Range
	if fl != nil {
		for bi := range fl.Blocks {
			for _, in := range fn.Blocks[bi].Instrs {
				if nx, ok := in.(*ssa.Next); ok {
					if rg, ok := nx.Iter.(*ssa.Range); ok {
						first = rg
					}
				}
			}
		}
	}
	if !o.Check(first != nil && len(e.EarlyExits(fl)) == 0 && !loopBackWithout(o, fl, IsInstr(fill), nil), "common-fill|"+kind, "every pair of the first alert's "+kind+" must go into the common set", fill) {
		return true
	}
	kx, vx := "next(range("+e.X(fn, first.X)+"))#1", "next(range("+e.X(fn, first.X)+"))#2"
	o.Check(e.X(fn, fill.Key) == kx && e.X(fn, fill.Value) == vx, "common-fill|"+kind, "the common set must start as the first alert's pairs unchanged, is filled with "+clip(e.X(fn, fill.Key))+" → "+clip(e.X(fn, fill.Value)), fill)
	if u, ok := first.X.(*ssa.UnOp); ok {
		if ia, ok := u.X.(*ssa.IndexAddr); ok && e.X(fn, ia.Index) == "0" {
			S = ia.X
		}
	}
	if !o.Check(S != nil, "common-fill|"+kind, "the common set must start from the first of the collected sets, starts from "+clip(e.X(fn, first.X)), fill) {
		return true
	}
	_, parts := e.AppendParts(S)
	o.Check(len(parts) >= 1, "common-sets|"+kind, "the sets the intersection runs over are not collected from the batch", fill)
	for _, p := range parts {
		l := e.LoopOf(p.Call)
		okPart := !p.Spread && strings.HasSuffix(e.X(fn, p.V), "p4)[i]."+kind) || strings.HasSuffix(e.X(fn, p.V), "p4[i].Alert."+kind) || strings.HasSuffix(e.X(fn, p.V), "p4[i]."+kind)
		o.Check(okPart, "common-sets|"+kind, "the intersection runs over "+clip(e.X(fn, p.V))+", not over every alert's "+kind, p.Call)
		o.Check(l != nil && len(e.EarlyExits(l)) == 0 && !loopBackWithout(o, l, IsInstr(p.Call), nil), "common-skip|"+kind, "an alert's "+kind+" can be left out of the intersection", p.Call)
	}
	// the reduction
	inner := e.LoopOf(del)
	if !o.Check(inner != nil, "common-inner|"+kind, "pairs must be checked in a loop over the common set", del) {
		return true
	}
	var over *ssa.Range
	for bi := range inner.Blocks {
		for _, in := range fn.Blocks[bi].Instrs {
			if nx, ok := in.(*ssa.Next); ok {
				if rg, ok := nx.Iter.(*ssa.Range); ok && rg.X == ssa.Value(M) {
					over = rg
				}
			}
		}
	}
	o.Check(over != nil && len(e.EarlyExits(inner)) == 0, "common-inner-range|"+kind, "every pair of the common "+kind+" must be compared", del)
	mx := e.X(fn, M)
	k, v := "next(range("+mx+"))#1", "next(range("+mx+"))#2"
	o.Check(e.X(fn, del.Call.Args[1]) == k, "common-delete-key|"+kind, "the pair removed must be the one compared", del)
	later := "slice(" + e.X(fn, S) + ",lo=1)[i]"
	other := later + "[" + k + "]"
	same := LitM{"the later alert has the same value", func(l Lit) bool {
		eq := l.Atom == "("+v+" == "+other+")" || l.Atom == "("+other+" == "+v+")"
		ne := l.Atom == "("+v+" != "+other+")" || l.Atom == "("+other+" != "+v+")"
		return eq && l.Pos || ne && !l.Pos
	}}
	o.Check(e.CountLitEdges(fn, same)+e.CountLitEdges(fn, same.Neg()) > 0, "common-delete-guard|"+kind, "the common "+kind+" are no longer compared with the later alerts' values", del)
	o.Guarded(del, "common-delete-guard|"+kind, "removing a pair from the common "+kind, same.Neg())
	o.Check(!loopBackWithout(o, inner, IsInstr(del), e.CutContradicting(same.Neg())), "common-delete-forced|"+kind, "a pair a later alert does not share can stay in the common "+kind, del)
	var outer *Loop
	for _, l := range e.Loops(fn) {
		if l.Header != inner.Header && l.Blocks[inner.Header.Index] && (outer == nil || len(l.Blocks) < len(outer.Blocks)) {
			outer = l
		}
	}
	if o.Check(outer != nil, "common-outer|"+kind, "the common "+kind+" must be compared with every later alert", del) {
		oc, kindOf := e.RangeOver(outer)
		o.Check(oc == "slice("+e.X(fn, S)+",lo=1)" && kindOf == "index", "common-outer-range|"+kind, "the comparison must run over the sets after the first, runs over "+clip(oc), del)
		o.LoopExitsGuarded(outer, "common-early-exit|"+kind+"|"+kind, "the comparison with later alerts may stop early only when the common set is empty", L("(len("+mx+") == 0)", true))
		o.Check(!loopBackWithout(o, outer, func(in ssa.Instruction) bool { return in == ssa.Instruction(over) }, nil), "common-skip|"+kind, "a later alert can be skipped when the common "+kind+" are reduced", del)
	}
	return true
}
