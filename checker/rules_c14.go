package main

import (
	"strings"

	"golang.org/x/tools/go/ssa"
)

func init() {
	propInfos["C14"] = &propInfo{
		Explanation: "A schedule property, decided structurally: updates of one alert reach a group in submission order only if (1) the provider hands alerts to subscribers in the order it stored them (the hand-over happens inside the storing critical section), (2) the start-up snapshot is fully routed, synchronously, before the subscription is consumed, and (3) the subscription is consumed so that two versions of one alert cannot overtake each other: a single consumer, OR a monotone group store (an older UpdatedAt never overwrites a newer one), OR consumers sharded by alert fingerprint. The checker reports the triple (consumer fan-out, call chain, unguarded overwrite) when none of the three holds.",
		NotDecided:  "nothing beyond the scheduler: the rule shows that a bad schedule exists, it does not enumerate schedules.",
	}

	reg("C14", "C14.1", "T4,T1", "ordered ingestion: single consumer ∨ monotone group store ∨ sharding by fingerprint", func(o *Ob) {
		e := o.E
		d := o.Fn("(*am/dispatch.Dispatcher).run")
		// consumers of the subscription
		var worker *ssa.Function
		var goInstr ssa.Instruction
		for _, gs := range e.GoSites(d) {
			// the goroutine's function: a literal or a method, started with go or WaitGroup.Go
			f := gs.Fn
			if f == nil || len(f.Blocks) == 0 {
				continue
			}
			routes := false
			for _, x := range e.DeepInstrs(f, 2) {
				if IsCall("(*am/dispatch.Dispatcher).routeAlert")(x) {
					routes = true
				}
			}
			if routes {
				worker, goInstr = f, gs.Instr
			}
		}
		o.Require(worker != nil, "consumer", "no goroutine consumes the alert subscription", nil)
		o.Site(goInstr, "ingestion worker started")
		multi := false
		bound := ""
		if l := e.LoopOf(goInstr); l != nil {
			multi = true
			bound, _ = e.RangeOver(l)
			if bound == "1" {
				multi = false
			}
		}
		// all workers read the same channel?
		sharded := false
		for _, in := range AllInstrs(worker) {
			if s, ok := in.(*ssa.Select); ok {
				for _, st := range s.States {
					x := e.X(worker, st.Chan)
					if strings.Contains(x, "AlertIterator.Next") {
						o.SiteS("worker receives from " + x)
					} else if strings.Contains(x, "[") && !strings.Contains(x, "Done") {
						sharded = true // per-worker channel indexed by something
					}
				}
			}
		}
		// monotone store?
		set := o.Fn("(*am/store.Alerts).Set")
		monotone := false
		for _, in := range AllInstrs(set) {
			if m, ok := in.(*ssa.MapUpdate); ok && e.X(set, m.Map) == "recv.alerts" {
				o.Site(m, "group store write")
				guard := LitM{"comparison of UpdatedAt", func(l Lit) bool { return strings.Contains(l.Atom, "UpdatedAt") }}
				if e.CountLitEdges(set, guard)+e.CountLitEdges(set, guard.Neg()) > 0 && (e.OnlyUnder(m, guard) || e.OnlyUnder(m, guard.Neg())) {
					monotone = true
				}
			}
		}
		ins := o.Fn("(*am/dispatch.aggrGroup).insert")
		chain := len(e.Calls(ins, "(*am/store.Alerts).Set")) == 1
		o.Check(chain, "chain", "insert no longer stores through store.Set; the ordering argument must be re-examined", nil)
		o.Note("consumers: multiple=%v (loop bound %s); sharded=%v; monotone store=%v", multi, bound, sharded, monotone)
		if multi && !sharded && !monotone {
			o.Fail("unordered-ingestion|(*am/dispatch.Dispatcher).run", "several ingestion workers ("+bound+") receive from one subscription channel and store.Alerts.Set overwrites unconditionally: two versions of one alert taken by different workers can be applied in either order, so an older version can overwrite a newer one in its group (fire→resolve seen as still firing; resolve→fire notified as resolved and dropped)", goInstr)
		} else {
			o.Check(true, "", "", nil)
		}
		o.MinSites(2)
	})

	reg("C14", "C14.2", "T2,T5", "the provider publishes in store order: hand-over to subscribers inside the critical section that stored the alert", func(o *Ob) {
		putFanoutRule(o)
		o.MinSites(1)
	})

	reg("C14", "C14.3", "T2", "the start-up snapshot is routed completely and synchronously before the subscription is consumed", func(o *Ob) {
		e := o.E
		run := o.Fn("(*am/dispatch.Dispatcher).Run")
		ra := o.One(e.Calls(run, "(*am/dispatch.Dispatcher).routeAlert"), "route-slurped", "slurped alerts must be routed synchronously by Run itself (a concurrent replay can overwrite newer versions that arrived through the subscription)", run)
		rn := o.One(e.Calls(run, "(*am/dispatch.Dispatcher).run"), "run", "Run must start the ingestion loop", run)
		o.Site(ra, "snapshot replay")
		o.Site(rn, "start consuming")
		l := e.LoopOf(ra)
		if o.Check(l != nil, "loop", "the snapshot is not replayed in a loop", ra) {
			hx, _ := l.HeaderExit()
			r := (&Walk{Fn: run, Cut: func(b *ssa.BasicBlock, s int) bool { return b == l.Header && s == hx }}).FromEntry()
			o.Check(!r.Has(rn), "consume-early", "the subscription is consumed before the snapshot replay finished", rn)
		}
		if _, isGo := rn.(*ssa.Go); isGo {
			o.Note("run is started as a goroutine")
		}
		for _, in := range AllInstrs(run) {
			if g, ok := in.(*ssa.Go); ok {
				if mc, ok := g.Call.Value.(*ssa.MakeClosure); ok {
					if len(e.Calls(mc.Fn.(*ssa.Function), "(*am/dispatch.Dispatcher).routeAlert")) > 0 {
						o.Fail("replay-concurrent", "the snapshot is replayed in a goroutine", g)
					}
				}
			}
		}
		// the worker applies an alert synchronously: routeAlert → groupAlert → insert are plain calls
		for _, name := range []string{"(*am/dispatch.Dispatcher).routeAlert", "(*am/dispatch.Dispatcher).groupAlert"} {
			f := o.Fn(name)
			for _, in := range AllInstrs(f) {
				if g, ok := in.(*ssa.Go); ok {
					o.Fail("async-apply|"+name, name+" applies the alert asynchronously: order of application is no longer the order of reception", g)
				}
			}
		}
		o.MinSites(2)
	})
}
