package main

import (
	"go/constant"
	"go/token"
	"regexp"
	"strings"

	"golang.org/x/tools/go/ssa"
)

// storeSetRule: store.Alerts.Set refuses when destroyed (ErrDestroyed) or when
// the per-name bucket refuses (ErrLimited), in both cases without writing; the
// map write stores the alert under its fingerprint; everything under the mutex.
func storeSetRule(o *Ob) {
	e := o.E
	fn := o.Fn("(*am/store.Alerts).Set")
	// the writes of the alert map (one, or one per path)
	var mus []ssa.Instruction
	var mu *ssa.MapUpdate
	for _, in := range AllInstrs(fn) {
		if m, ok := in.(*ssa.MapUpdate); ok && e.X(fn, m.Map) == "recv.alerts" {
			mus = append(mus, m)
			mu = m
			o.Site(m, "alerts[fp] = alert")
			fpOK := strings.HasPrefix(e.X(fn, m.Key), "(*model.Alert).Fingerprint(p0") && e.X(fn, m.Value) == "p0"
			o.Check(fpOK, "set-write-shape", "Set must store the alert under its own fingerprint", m)
			held, why := e.HeldAt(m, fn.Params[0], "Mutex", 'W', 0)
			o.Check(held, "set-lock", "Set writes without the store mutex: "+why, m)
		}
	}
	o.Require(mu != nil, "set-write", "Set no longer stores the alert", nil)
	isW := IsInstr(mus...)
	dest := L("recv.destroyed", true)
	limOn := L("(recv.perAlertLimit < 1)", false)
	up := LRe(`\(\*am/limit\.Bucket\[V\]\)\.Upsert\(.*, \(\*model\.Alert\)\.Fingerprint\(p0(\.Alert)?\), p0(\.Alert)?\.EndsAt\)`, true)
	o.Table(fn, "Set", []Row{
		{Name: "store destroyed", Assume: A(dest), Ret: [][]string{Vals("am/store.ErrDestroyed")}, Never: []func(ssa.Instruction) bool{isW}},
		{Name: "limit refuses", Assume: A(dest.Neg(), limOn, up.Neg()), Ret: [][]string{Vals("am/store.ErrLimited")}, Never: []func(ssa.Instruction) bool{isW}},
		{Name: "limit admits", Assume: A(dest.Neg(), limOn, up), Ret: [][]string{Vals("nil")}, Must: []func(ssa.Instruction) bool{isW}},
		{Name: "no limit", Assume: A(dest.Neg(), limOn.Neg()), Ret: [][]string{Vals("nil")}, Must: []func(ssa.Instruction) bool{isW}},
	})
	// the bucket is the one for the alert's name, created with the configured capacity
	for _, in := range AllInstrs(fn) {
		if m, ok := in.(*ssa.MapUpdate); ok && e.X(fn, m.Map) == "recv.limits" {
			o.Check(strings.HasPrefix(e.X(fn, m.Key), "(*model.Alert).Name(p0") && e.X(fn, m.Value) == "am/limit.NewBucket(recv.perAlertLimit)", "set-bucket", "the limit bucket must be created per alert name with the configured capacity", in)
		}
	}
}

// limitWiringRule: a limit that is enforced correctly against the wrong number is not enforced.
// (1) main: the four limit flags fill the options of their names; (2) setup hands PerAlertNameLimit to
// mem.NewAlerts, the silence limits as functions returning their own option, GetConcurrency to the API;
// (3) mem.NewAlerts builds its store with that limit, WithPerAlertLimit keeps it, silence.New keeps
// Options.Limits, api.New sizes the semaphore with Options.Concurrency when it is positive.
func limitWiringRule(o *Ob) {
	e := o.E
	// (1)
	run := o.Fn("am/cmd/alertmanager.run")
	flags := map[string]string{
		"MaxSilences":         "silences.max-silences",
		"MaxSilenceSizeBytes": "silences.max-silence-size-bytes",
		"PerAlertNameLimit":   "alerts.per-alertname-limit",
		"GetConcurrency":      "web.get-concurrency",
	}
	for _, f := range []string{"GetConcurrency", "MaxSilenceSizeBytes", "MaxSilences", "PerAlertNameLimit"} {
		sts := e.StoresToField(run, "am/app.Options", f)
		if !o.Check(len(sts) == 1, "flag|"+f, "the option "+f+" must be filled from its command-line flag, exactly once", fnFirst(run)) {
			continue
		}
		o.Site(sts[0], "Options."+f+" := flag "+flags[f])
		var names []string
		for _, m := range regexp.MustCompile(`kingpin/v2\.Flag\(("[^"]*")`).FindAllStringSubmatch(e.X(run, sts[0].Val), -1) {
			names = append(names, m[1])
		}
		o.Check(len(names) == 1 && names[0] == `"`+flags[f]+`"`, "flag-source|"+f, "the option "+f+" is filled from "+strings.Join(names, ",")+", not from --"+flags[f], sts[0])
	}
	// (2)
	setup := o.Fn("(*am/app.App).setup")
	na := o.One(e.Calls(setup, "am/provider/mem.NewAlerts"), "setup-alerts", "setup must create the alert provider", setup)
	o.Site(na, "mem.NewAlerts(…, "+e.Arg(na, 2)+", …)")
	o.Check(strings.HasSuffix(e.Arg(na, 2), "am/app.Options.PerAlertNameLimit"), "setup-per-name", "the alert provider is created with "+clip(e.Arg(na, 2))+" as per-name limit, not with Options.PerAlertNameLimit", na)
	for _, f := range []string{"MaxSilences", "MaxSilenceSizeBytes"} {
		sts := e.StoresToField(setup, "am/silence.Limits", f)
		if !o.Check(len(sts) == 1, "setup-sil|"+f, "setup must hand the silence limit "+f+" to the silence store", fnFirst(setup)) {
			continue
		}
		fv := e.FuncValue(sts[0].Val)
		if !o.Check(fv != nil, "setup-sil-fn|"+f, "the silence limit "+f+" is not a resolvable function: "+clip(e.X(setup, sts[0].Val)), sts[0]) {
			continue
		}
		for _, ret := range (&Walk{Fn: fv}).FromEntry().Returns() {
			v := e.X(fv, ret.Results[0])
			o.Site(ret, "silence limit "+f+" = "+v)
			o.Check(strings.HasSuffix(v, "am/app.Options."+f), "setup-sil-value|"+f, "the silence limit "+f+" answers "+clip(v)+", not Options."+f, ret)
		}
	}
	sn := o.One(e.Calls(setup, "am/silence.New"), "setup-silences", "setup must create the silence store", setup)
	for _, f := range []string{"MaxSilences", "MaxSilenceSizeBytes"} {
		for _, st := range e.StoresToField(setup, "am/silence.Limits", f) {
			o.Check(!(&Walk{Fn: setup}).After(sn).Has(st), "setup-sil-late|"+f, "the silence limit is set after the store was created from the options (the store keeps a copy)", st)
		}
	}
	cs := e.StoresToField(setup, "am/api.Options", "Concurrency")
	if o.Check(len(cs) == 1, "setup-conc", "setup must hand the GET concurrency to the API", fnFirst(setup)) {
		v := e.X(setup, cs[0].Val)
		o.Site(cs[0], "api.Options.Concurrency := "+v)
		o.Check(strings.HasSuffix(v, "am/app.Options.GetConcurrency"), "setup-conc-value", "the API's GET concurrency is "+clip(v)+", not Options.GetConcurrency", cs[0])
	}
	// (3)
	mn := o.Fn("am/provider/mem.NewAlerts")
	wl := o.One(e.Calls(mn, "(*am/store.Alerts).WithPerAlertLimit"), "mem-limit", "the provider's store must be given the per-name limit", mn)
	o.Site(wl, e.X(mn, wl.(*ssa.Call)))
	o.Check(e.Arg(wl, 1) == "p2", "mem-limit-arg", "the provider's store is limited to "+e.Arg(wl, 1)+", not to the limit NewAlerts was given", wl)
	as := e.StoresToField(mn, "am/provider/mem.Alerts", "alerts")
	if o.Check(len(as) >= 1, "mem-store", "NewAlerts no longer fills the provider's store", fnFirst(mn)) {
		for _, st := range as {
			o.Check(e.DerivesFrom(st.Val, false, func(v ssa.Value) bool { return v == ssa.Value(wl.(*ssa.Call)) }), "mem-store-limited", "the provider's store is not the one that was given the limit: "+clip(e.X(mn, st.Val)), st)
		}
	}
	wp := o.Fn("(*am/store.Alerts).WithPerAlertLimit")
	ps := e.StoresTo(wp, "recv.perAlertLimit")
	if o.Check(len(ps) == 1, "store-limit", "WithPerAlertLimit must keep the limit", fnFirst(wp)) {
		o.Site(ps[0], "perAlertLimit := "+e.X(wp, ps[0].Val))
		o.Check(e.X(wp, ps[0].Val) == "p0", "store-limit-value", "WithPerAlertLimit keeps "+e.X(wp, ps[0].Val)+", not the limit it was given", ps[0])
	}
	for _, ret := range (&Walk{Fn: wp}).FromEntry().Returns() {
		o.Check(e.X(wp, ret.Results[0]) == "recv", "store-limit-ret", "WithPerAlertLimit must return the store it configured", ret)
	}
	snew := o.Fn("am/silence.New")
	ls := e.StoresToField(snew, "am/silence.Silences", "limits")
	if o.Check(len(ls) == 1, "sil-limits", "silence.New must keep the limits of its options", fnFirst(snew)) {
		v := e.X(snew, ls[0].Val)
		o.Site(ls[0], "Silences.limits := "+v)
		o.Check(strings.HasSuffix(v, "am/silence.Options.Limits"), "sil-limits-value", "the silence store keeps "+clip(v)+" as its limits, not Options.Limits", ls[0])
	}
	an := o.Fn("am/api.New")
	var mc *ssa.MakeChan
	for _, st := range e.StoresToField(an, "am/api.API", "inFlightSem") {
		mc, _ = st.Val.(*ssa.MakeChan)
		o.Check(mc != nil, "api-sem", "the GET semaphore must be a buffered channel made in New, is "+clip(e.X(an, st.Val)), st)
	}
	if o.Check(mc != nil, "api-sem", "api.New no longer creates the GET semaphore", fnFirst(an)) {
		unset := LRe(`^\(&?[a-z]+:?am/api\.Options\.Concurrency < 1\)$|^\(p0\.Concurrency < 1\)$`, true)
		if o.Check(e.CountLitEdges(an, unset)+e.CountLitEdges(an, unset.Neg()) > 0, "api-sem-default", "api.New no longer distinguishes a configured GET concurrency from the default", mc) {
			r := (&Walk{Fn: an, Cut: e.CutContradicting(unset.Neg())}).FromEntry()
			for _, v := range e.ValStrs(an, e.ValsAt(r, mc, mc.Size)) {
				o.Site(mc, "semaphore capacity (configured) = "+v)
				o.Check(strings.HasSuffix(v, "am/api.Options.Concurrency") || v == "p0.Concurrency", "api-sem-size", "with a configured GET concurrency the semaphore holds "+clip(v)+" requests, not Options.Concurrency", mc)
			}
			r2 := (&Walk{Fn: an, Cut: e.CutContradicting(unset)}).FromEntry()
			for _, v := range e.ValStrs(an, e.ValsAt(r2, mc, mc.Size)) {
				o.Check(!strings.HasSuffix(v, "Options.Concurrency"), "api-sem-zero", "without a configured GET concurrency the semaphore would have capacity "+clip(v)+" (≤ 0: every GET refused or blocked)", mc)
			}
		}
	}
	o.MinSites(10)
}

func init() {
	propInfos["C18"] = &propInfo{
		Explanation: "Decides the limit mechanisms' structure: (1) Bucket.Upsert's decision table (capacity<1 → refuse; known value → refresh, accept; below capacity → add; full ∧ oldest expired → evict exactly that one and add; full ∧ oldest live → refuse, nothing changed); (2) a bucket is reported stale only if every item is expired, and only stale buckets are dropped; (3) store.Set refuses without writing and mem.Put counts the refusal; the dispatcher counts a refused group creation; a full oversize gossip queue is counted; the GET concurrency limiter answers 503 and counts; (4) silence limits are checked before any mutation with len(st)+1 > max; (5) the GET semaphore is only taken for GET, released on every path, and the handler is not invoked on refusal; (6) bucket and limit state under their mutexes.",
		NotDecided:  "the counting invariant over all histories (needs an inductive argument over Upsert/expiry sequences); heap-order correctness of container/heap (library).",
		Trusted:     []string{"container/heap maintains the min-heap order given Less/Swap/Push/Pop"},
	}

	reg("C18", "C18.1", "T6", "Bucket.Upsert decision table", func(o *Ob) {
		e := o.E
		fn := o.Fn("(*am/limit.Bucket[V]).Upsert")
		noCap := L("(recv.capacity < 1)", true)
		known := L("recv.index[p0]#1", true)
		room := L("((am/limit.sortedItems[V]).Len(recv.items) < recv.capacity)", true)
		room2 := L("(len(recv.items) < recv.capacity)", true)
		roomM := LitM{"below capacity", func(l Lit) bool { return room.F(l) || room2.F(l) }}
		oldExp := L("(*am/limit.item[V]).expired(recv.items[0], time.Now())", true)
		isUpd := IsCall("(*am/limit.sortedItems[V]).update")
		isPush := IsCall("container/heap.Push")
		isPop := IsCall("container/heap.Pop")
		idxW := func(in ssa.Instruction) bool {
			m, ok := in.(*ssa.MapUpdate)
			return ok && e.X(fn, m.Map) == "recv.index"
		}
		idxDel := func(in ssa.Instruction) bool {
			c, ok := in.(*ssa.Call)
			return ok && isBuiltinCall("delete")(in) && e.X(fn, c.Call.Args[0]) == "recv.index"
		}
		any := AnyOf(isUpd, isPush, isPop, idxW, idxDel)
		o.Table(fn, "Upsert", []Row{
			{Name: "no capacity", Assume: A(noCap), Ret: [][]string{Vals("false")}, Never: []func(ssa.Instruction) bool{any}},
			{Name: "value already admitted", Assume: A(noCap.Neg(), known), Ret: [][]string{Vals("true")}, Must: []func(ssa.Instruction) bool{isUpd}, Never: []func(ssa.Instruction) bool{isPush, isPop, idxDel}},
			{Name: "room left", Assume: A(noCap.Neg(), known.Neg(), roomM), Ret: [][]string{Vals("true")}, Must: []func(ssa.Instruction) bool{isPush, idxW}, Never: []func(ssa.Instruction) bool{isPop, idxDel}},
			{Name: "full, oldest expired", Assume: A(noCap.Neg(), known.Neg(), roomM.Neg(), oldExp), Ret: [][]string{Vals("true")}, Must: []func(ssa.Instruction) bool{isPop, idxDel, isPush, idxW}},
			{Name: "full, oldest live", Assume: A(noCap.Neg(), known.Neg(), roomM.Neg(), oldExp.Neg()), Ret: [][]string{Vals("false")}, Never: []func(ssa.Instruction) bool{any}},
		})
		// the refreshed item is the indexed one, with the new priority; the evicted index entry is the heap root's value
		for _, c := range e.Calls(fn, "(*am/limit.sortedItems[V]).update") {
			o.Check(e.Arg(c, 1) == "recv.index[p0]#0" && e.Arg(c, 2) == "p1", "update-args", "a re-sent value must have its own item refreshed with the new expiry", c)
		}
		for _, in := range AllInstrs(fn) {
			if idxDel(in) {
				o.Check(e.X(fn, in.(*ssa.Call).Call.Args[1]) == "recv.items[0].value", "evict-key", "the evicted index entry must be the heap root's value", in)
			}
			if st, ok := in.(*ssa.Store); ok && strings.HasSuffix(e.X(fn, st.Addr), ".priority") {
				o.Check(e.X(fn, st.Val) == "p1", "item-priority", "a new item's expiry must be the given priority", st)
			}
			if st, ok := in.(*ssa.Store); ok && strings.HasSuffix(e.X(fn, st.Addr), ".value") {
				o.Check(e.X(fn, st.Val) == "p0", "item-value", "a new item's value must be the given value", st)
			}
		}
		// expired(): strict before
		ex := o.Fn("(*am/limit.item[V]).expired")
		rets := (&Walk{Fn: ex}).FromEntry().Returns()
		o.Require(len(rets) == 1, "expired", "item.expired must be a single comparison", nil)
		o.Check(e.X(ex, rets[0].Results[0]) == "(recv.priority <t p0)", "expired-shape", "an item is expired iff its expiry is before the given time, is "+e.X(ex, rets[0].Results[0]), rets[0])
		// heap order: Less by priority
		ls := o.Fn("(am/limit.sortedItems[V]).Less")
		lr := (&Walk{Fn: ls}).FromEntry().Returns()
		o.Check(len(lr) == 1 && e.X(ls, lr[0].Results[0]) == "(recv[p0].priority <t recv[p1].priority)", "less", "the heap must be ordered by expiry, earliest first", nil)
		o.MinSites(5)
	})

	reg("C18", "C18.2", "T8", "a bucket is stale only if every item is expired; only stale buckets are dropped", func(o *Ob) {
		e := o.E
		fn := o.Fn("(*am/limit.Bucket[V]).IsStale")
		// true must depend on every item: every path to a 'true' result passes the loop over all items with each item tested expired
		exp := LRe(`\(\*am/limit\.item\[V\]\)\.expired\(recv\.items\[i\], .*\)`, true)
		trues := 0
		for _, rs := range e.ResultStores(fn, 0) {
			v := e.X(fn, rs.Val)
			o.Site(rs.Instr, "IsStale result "+v)
			if v == "false" {
				continue
			}
			// "no item is live", said with the library's search: !slices.ContainsFunc(items, item is not expired)
			if u, ok := rs.Val.(*ssa.UnOp); ok && u.Op == token.NOT {
				if c, ok := u.X.(*ssa.Call); ok && calleeName(&c.Call) == "slices.ContainsFunc" && e.X(fn, c.Call.Args[0]) == "recv.items" {
					pred := e.FuncValue(c.Call.Args[1])
					okPred := pred != nil
					if pred != nil {
						for _, ret := range (&Walk{Fn: pred}).FromEntry().Returns() {
							if !regexpMatch(`^!\(\*am/limit\.item\[V\]\)\.expired\(p0, .*\)$`, e.X(pred, ret.Results[0])) {
								okPred = false
							}
						}
					}
					trues++
					o.Check(okPred, "stale-live-skipped", "IsStale searches the items for something other than 'not expired': "+clip(e.X(fn, c)), rs.Instr)
					continue
				}
			}
			// the answer joined from several paths: each way of answering is judged on the path it comes from
			if alts := AltsOf(rs.Val); len(alts) > 1 {
				allConst := true
				for _, a := range alts {
					if k, ok := a.V.(*ssa.Const); !ok || k.Value == nil || k.Value.Kind() != constant.Bool {
						allConst = false
					}
				}
				if allConst {
					var lp *Loop
					for _, l := range e.Loops(fn) {
						if coll, kind := e.RangeOver(l); coll == "recv.items" && kind == "index" {
							lp = l
						} else if e.CoversAll(l, "recv.items") {
							lp = l
						}
					}
					for _, a := range alts {
						if !constant.BoolVal(a.V.(*ssa.Const).Value) {
							continue
						}
						trues++
						if !o.Check(lp != nil, "stale-no-scan|(*am/limit.Bucket[V]).IsStale", "IsStale answers true without examining every item", rs.Instr) {
							continue
						}
						hx, _ := lp.HeaderExit()
						r := (&Walk{Fn: fn, Cut: func(b *ssa.BasicBlock, s int) bool { return b == lp.Header && s == hx }}).FromEntry()
						o.Check(!r.Has(a.Pred.Instrs[len(a.Pred.Instrs)-1]), "stale-bypass", "IsStale can answer true without finishing the scan over all items", rs.Instr)
						bi, _ := lp.BodyEntry()
						rr := (&Walk{Fn: fn, Cut: e.CutLits(exp)}).FromEdge(lp.Header, bi)
						for _, be := range lp.Back {
							o.Check(!rr.Edge[be], "stale-live-skipped", "the scan moves on past an item without finding it expired", rs.Instr)
						}
					}
					continue
				}
			}
			trues++
			// reachable only via the exhaustion exit of a loop over recv.items in which a live item leaves with false
			var lp *Loop
			for _, l := range e.Loops(fn) {
				if coll, kind := e.RangeOver(l); coll == "recv.items" && kind == "index" {
					lp = l
				} else if e.CoversAll(l, "recv.items") {
					lp = l
				}
			}
			if !o.Check(lp != nil, "stale-no-scan|(*am/limit.Bucket[V]).IsStale", "IsStale answers true without examining every item: the items form a min-heap, a single slot (e.g. the last one) says nothing about the latest expiry, so a bucket that still holds an unexpired alert can be dropped and a fresh bucket admits N more", rs.Instr) {
				continue
			}
			hx, _ := lp.HeaderExit()
			r := (&Walk{Fn: fn, Cut: func(b *ssa.BasicBlock, s int) bool { return b == lp.Header && s == hx }}).FromEntry()
			o.Check(!r.Has(rs.Instr), "stale-bypass", "IsStale can answer true without finishing the scan over all items", rs.Instr)
			// within the loop: continuing to the next item requires this item to be expired
			bi, _ := lp.BodyEntry()
			rr := (&Walk{Fn: fn, Cut: e.CutLits(exp)}).FromEdge(lp.Header, bi)
			for _, be := range lp.Back {
				o.Check(!rr.Edge[be], "stale-live-skipped", "the scan moves on past an item without finding it expired", rs.Instr)
			}
		}
		o.Check(trues >= 1, "stale-never", "IsStale can never report stale: buckets would leak", nil)
		// gcLimitBuckets deletes only stale buckets, the one examined
		gc := o.Fn("(*am/store.Alerts).gcLimitBuckets")
		for _, in := range AllInstrs(gc) {
			if isBuiltinCall("delete")(in) {
				c := in.(*ssa.Call)
				o.Site(in, "drop bucket")
				staleLit := LRe(`\(\*am/limit\.Bucket\[V\]\)\.IsStale\(next\(range\(recv\.limits\)\)#2\)`, true)
				// the names found stale collected first and dropped afterwards: every collected name was found stale
				if u, isU := c.Call.Args[1].(*ssa.UnOp); isU {
					if ia, isIA := u.X.(*ssa.IndexAddr); isIA {
						if _, parts := e.AppendParts(ia.X); len(parts) > 0 {
							okAll := e.X(gc, c.Call.Args[0]) == "recv.limits"
							for _, p := range parts {
								if p.Spread || e.X(gc, p.V) != "next(range(recv.limits))#1" || !e.OnlyUnder(p.Call, staleLit) {
									okAll = false
								}
							}
							if okAll {
								o.Checks += 2
								o.Passed += 2
								continue
							}
						}
					}
				}
				o.Guarded(in, "drop-guard", "dropping a limit bucket", staleLit)
				o.Check(e.X(gc, c.Call.Args[0]) == "recv.limits" && e.X(gc, c.Call.Args[1]) == "next(range(recv.limits))#1", "drop-key", "the dropped bucket must be the one found stale", in)
			}
		}
		o.MinSites(2)
	})

	reg("C18", "C18.3", "T1,T7", "refusals are never silent: store.Set returns ErrLimited without writing, Put counts it; group-limit and concurrency-limit refusals are counted and reported", func(o *Ob) {
		e := o.E
		storeSetRule(o)
		put := o.Fn("(*am/provider/mem.Alerts).Put")
		set := o.One(e.Calls(put, "(*am/store.Alerts).Set"), "put-set", "Put must store through store.Set", put)
		sx := e.X(put, set.(*ssa.Call))
		limited := L("errors.Is("+sx+", am/store.ErrLimited)", true)
		var inc ssa.CallInstruction
		for _, c := range e.Calls(put, "invoke:prometheus.Counter.Inc") {
			if strings.Contains(e.Arg(c, 0), "recv.alertsLimitedTotal") {
				inc = c
			}
		}
		if o.Check(inc != nil, "put-limited-counter", "a refused alert is no longer counted", nil) {
			o.Site(inc, "alertsLimitedTotal++")
			n := 0
			for _, b := range put.Blocks {
				for si := range b.Succs {
					if li, ok := e.EdgeLit(b, si); ok && limited.F(li) {
						n++
						r := (&Walk{Fn: put, Barrier: IsInstr(inc)}).FromEdge(b, si)
						if l := e.LoopOf(set); l != nil {
							for _, be := range l.Back {
								o.Check(!r.Edge[be], "put-limited-silent", "an alert refused by the per-name limit can be dropped without incrementing the counter", inc)
							}
						}
					}
				}
			}
			o.Check(n > 0, "put-limited-test", "Put no longer recognises the limit refusal", set)
		}
		// dispatcher group limit
		ga := o.Fn("(*am/dispatch.Dispatcher).groupAlert")
		var ginc ssa.CallInstruction
		for _, c := range e.Calls(ga, "invoke:prometheus.Counter.Inc") {
			if e.Arg(c, 0) == "recv.metrics.aggrGroupLimitReached" {
				ginc = c
			}
		}
		if o.Check(ginc != nil, "group-limit-counter", "a refused aggregation group is no longer counted", nil) {
			o.Site(ginc, "aggrGroupLimitReached++")
			over := LRe(`\(conv:int\(\(\*sync/atomic\.Int(32|64)\)\.Load\(recv\.aggrGroupsNum\)\) < invoke:am/dispatch\.Limits\.MaxNumberOfAggregationGroups\(recv\.limits\)\)`, false)
			on := LRe(`\(invoke:am/dispatch\.Limits\.MaxNumberOfAggregationGroups\(recv\.limits\) < 1\)`, false)
			o.Guarded(ginc, "group-limit-guard1", "counting a group-limit refusal", over)
			o.Guarded(ginc, "group-limit-guard2", "counting a group-limit refusal", on)
			// refusal ⇒ no group created
			r := (&Walk{Fn: ga}).After(ginc)
			for _, c := range e.Calls(ga, "am/dispatch.newAggrGroup") {
				o.Check(!r.Has(c), "group-limit-creates", "a group is created although the limit refused it", c)
			}
			// limit reached ⇒ counted before return
			lc := o.One(e.Calls(ga, "invoke:am/dispatch.Limits.MaxNumberOfAggregationGroups"), "group-limit-read", "groupAlert must read the group limit", ga)
			o.ForcedAfter(lc, "group-limit-forced", "a group-limit refusal must be counted", IsInstr(ginc), on, over)
		}
		// API concurrency limiter
		lh := o.Fn("(*am/api.API).limitHandler$1")
		var cinc ssa.CallInstruction
		for _, c := range e.Calls(lh, "invoke:prometheus.Counter.Inc") {
			if strings.Contains(e.Arg(c, 0), "concurrencyLimitExceeded") {
				cinc = c
			}
		}
		if o.Check(cinc != nil, "concurrency-counter", "a refused GET is no longer counted", nil) {
			o.Site(cinc, "concurrencyLimitExceeded++")
		}
		o.MinSites(3)
	})

	reg("C18", "C18.9", "T4,T11", "the configured limits are the ones enforced: each command-line limit reaches the option of its name, and each option reaches its own mechanism (bucket capacity, silence count and size limits, GET semaphore capacity)", limitWiringRule)

	reg("C18", "C18.4", "T1,T2", "silence limits are checked (count: len(st)+1 > max; size) before any mutation; a rejected create or edit leaves existing silences untouched", func(o *Ob) {
		f := resolveSilSet(o)
		checkSilenceLimitsBeforeMutation(o, f)
		// checkSizeLimits: n > m rejects, m > 0, only when configured
		e := o.E
		cs := o.Fn("(*am/silence.Silences).checkSizeLimits")
		sz := o.One(e.Calls(cs, "proto.Size"), "size", "the size check must measure the encoded silence", cs)
		o.Check(e.Arg(sz, 0) == "p0", "size-arg", "the measured message must be the silence to store", sz)
		tooBig := LRe(`\(dyn\(fn=recv\.limits\.MaxSilenceSizeBytes\) < proto\.Size\(p0\)\)`, true)
		on := L("(dyn(fn=recv.limits.MaxSilenceSizeBytes) < 1)", false)
		conf := L("(recv.limits.MaxSilenceSizeBytes == nil)", false)
		o.Table(cs, "size", []Row{
			{Name: "not configured", Assume: A(conf.Neg()), Ret: [][]string{Vals("nil")}},
			{Name: "configured, too big", Assume: A(conf, on, tooBig), Ret: [][]string{Vals(anyErr)}},
			{Name: "configured, fits", Assume: A(conf, on, tooBig.Neg()), Ret: [][]string{Vals("nil")}},
		})
		o.MinSites(4)
	})

	reg("C18", "C18.5", "T2,T1", "GET concurrency limiter: semaphore only for GET; refusal → 503, counted, handler not invoked; a successful acquire is always released; other methods bypass", func(o *Ob) {
		e := o.E
		fn := o.Fn("(*am/api.API).limitHandler$1")
		isGet := LRe(`\(p1\.Method == "GET"\)`, true)
		var sel *ssa.Select
		for _, in := range AllInstrs(fn) {
			if s, ok := in.(*ssa.Select); ok {
				sel = s
			}
		}
		o.Require(sel != nil, "acquire", "the limiter no longer tries to acquire the semaphore", nil)
		o.Site(sel, "acquire "+e.X(fn, sel))
		o.Check(!sel.Blocking, "acquire-blocking", "acquiring the semaphore must not block (excess requests are refused, not queued)", sel)
		o.Guarded(sel, "acquire-get-only", "taking the GET semaphore", isGet)
		serve := o.Some(e.Calls(fn, "invoke:net/http.Handler.ServeHTTP"), "serve", "the limiter must invoke the wrapped handler", fn)
		got := LRe(`nb-sel:send:.*inFlightSem`, true)
		o.Check(e.CountLitEdges(fn, got)+e.CountLitEdges(fn, got.Neg()) > 0, "acquire-test", "the result of the acquire attempt is not tested", sel)
		// refusal: 503 and no serve
		{
			n := 0
			for _, b := range fn.Blocks {
				for si := range b.Succs {
					if li, ok := e.EdgeLit(b, si); ok && got.Neg().F(li) {
						n++
						r := (&Walk{Fn: fn}).FromEdge(b, si)
						for _, s := range serve {
							o.Check(!r.Has(s), "refused-served", "a refused request is still served", s)
						}
						wrote := false
						for _, in := range AllInstrs(fn) {
							if c, ok := in.(*ssa.Call); ok && r.Has(in) {
								x := e.X(fn, c)
								if strings.Contains(x, "503") || strings.Contains(x, "StatusServiceUnavailable") {
									wrote = true
								}
							}
						}
						o.Check(wrote, "refused-503", "a refused request is not answered with 503", sel)
						counted := false
						for _, c := range e.Calls(fn, "invoke:prometheus.Counter.Inc") {
							if r.Has(c) && strings.Contains(e.Arg(c, 0), "concurrencyLimitExceeded") {
								counted = true
							}
						}
						o.Check(counted, "refused-counted", "a refused request is not counted", sel)
					}
				}
			}
			o.Check(n > 0, "refused-branch", "no refusal branch found", sel)
		}
		// release: a deferred receive from the semaphore is registered on the acquired path
		var rel *ssa.Defer
		for _, in := range AllInstrs(fn) {
			if d, ok := in.(*ssa.Defer); ok {
				// the deferred function (a literal or a method) receives from the semaphore
				if lf := d.Call.StaticCallee(); lf != nil {
					for _, x := range e.DeepInstrs(lf, 2) {
						if u, ok := x.(*ssa.UnOp); ok && u.Op.String() == "<-" && strings.Contains(e.X(x.Parent(), u.X), "inFlightSem") {
							rel = d
						}
					}
				}
			}
		}
		if o.Check(rel != nil, "release", "the semaphore is never released", nil) {
			o.Site(rel, "deferred release")
			o.Guarded(rel, "release-guard", "releasing the semaphore", got)
			for _, s := range serve {
				// on the acquired path the release is registered before serving
				r := (&Walk{Fn: fn, Cut: e.CutContradicting(isGet, got), Barrier: IsInstr(rel)}).FromEntry()
				o.Check(!r.Has(s), "release-late", "on the acquired path the handler can run before the release is registered (a panic would leak the slot)", s)
			}
		}
		// non-GET bypasses and is served
		{
			r := (&Walk{Fn: fn, Cut: e.CutContradicting(isGet.Neg())}).FromEntry()
			o.Check(!r.Has(sel), "post-acquires", "non-GET requests take the GET semaphore", sel)
			servedPost := false
			for _, s := range serve {
				if r.Has(s) {
					servedPost = true
				}
			}
			o.Check(servedPost, "post-not-served", "non-GET requests are no longer served", sel)
		}
		o.MinSites(2)
	})

	reg("C18", "C18.6", "T5", "bucket state under the bucket mutex; store alerts/limits/destroyed under the store mutex", func(o *Ob) {
		n := 0
		for _, f := range []string{"index", "items"} {
			n += o.LockedAccesses("am/limit.Bucket", f, "mtx", map[string]string{"am/limit.NewBucket[V]": "constructor", "am/limit.NewBucket": "constructor"})
		}
		for _, f := range []string{"alerts", "limits", "destroyed", "perAlertLimit"} {
			n += o.LockedAccesses("am/store.Alerts", f, "Mutex", map[string]string{"am/store.NewAlerts": "constructor"})
		}
		lockBalanceRule(o, "am/limit", "am/store", "am/api")
		o.Check(n >= 15, "few", "implausibly few guarded accesses: "+itoa(n), nil)
		o.MinSites(15)
	})
}
