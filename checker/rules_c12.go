package main

import (
	"go/token"
	"go/types"
	"sort"
	"strings"

	"golang.org/x/tools/go/ssa"
)

// silSetFacts resolves the sites of Silences.Set shared by C12, C18 and C02.
type silSetFacts struct {
	fn               *ssa.Function
	get              ssa.CallInstruction // getSilence(recv, sil.Id)
	found, canUpd    LitM
	prev             string
	validate         ssa.CallInstruction
	setCalls         []ssa.CallInstruction // setSilence calls
	expCalls         []ssa.CallInstruction // expire calls
	updSets, creSets []ssa.CallInstruction // in-place / create setSilence calls
	sizeOK           LitM
	mutating         func(ssa.Instruction) bool
	createPathReach  *Reached
}

// clockReadingOf: the call of nowUTC a time value comes from (through timestamppb.New), nil when it is not one
// single reading.
func clockReadingOf(v ssa.Value) *ssa.Call {
	for k := 0; k < 3; k++ {
		c, ok := v.(*ssa.Call)
		if !ok {
			return nil
		}
		switch calleeName(&c.Call) {
		case "(*am/silence.Silences).nowUTC":
			return c
		case "google.golang.org/protobuf/types/known/timestamppb.New", "timestamppb.New":
			if len(c.Call.Args) != 1 {
				return nil
			}
			v = c.Call.Args[0]
		default:
			return nil
		}
	}
	return nil
}

// oneClockRule: the instant a write is stamped with is the reading its admission was decided at.  An edit that was
// judged against an older reading (taken before waiting for the lock) and stamped with a newer one passes merge's
// "newer wins" although the stored silence changed in between: an expired silence comes back under its id.  A stamp
// that is the decision's reading, or an earlier one, is dropped by merge in that case.
func oneClockRule(o *Ob, fn *ssa.Function, decision ssa.CallInstruction, argIdx int, stamps []*ssa.Store, what string) {
	if decision == nil || argIdx >= len(decision.Common().Args) {
		return
	}
	rd := clockReadingOf(decision.Common().Args[argIdx])
	if rd == nil {
		return
	}
	o.Site(rd, what+": clock reading the decision is taken at")
	for _, st := range stamps {
		rs := clockReadingOf(st.Val)
		if rs == nil || rs == rd {
			continue
		}
		o.Check(InstrDominates(rs, rd), "one-clock|"+what, what+": the write is stamped with a clock reading taken after the one its admission was decided at (an edit decided against an older view of the store then overrides what was stored meanwhile, e.g. revives a silence expired in between)", st)
	}
}

func resolveSilSet(o *Ob) *silSetFacts {
	e := o.E
	f := &silSetFacts{}
	f.fn = o.Fn("(*am/silence.Silences).Set")
	fn := f.fn
	f.get = o.One(e.Calls(fn, "(*am/silence.Silences).getSilence"), "get", "Set must look the id up once with getSilence", fn)
	o.Check(e.Arg(f.get, 0) == "recv" && e.Arg(f.get, 1) == "p1.Id", "get-args", "Set must look up the submitted id in its own state", f.get)
	gs := e.X(fn, f.get.(*ssa.Call))
	f.prev = gs + "#0"
	// "the id is known": getSilence's second result, or equivalently a non-nil first result (getSilence
	// returns (nil, false) exactly when the id is unknown — asserted by rule C12.1's get-contract — and a
	// stored entry without a silence would already crash canUpdate)
	f.found = LitM{gs + "#1 (or " + gs + "#0 != nil)", func(l Lit) bool {
		return l.Atom == gs+"#1" && l.Pos || l.Atom == "("+gs+"#0 == nil)" && !l.Pos
	}}
	gsf := o.Fn("(*am/silence.Silences).getSilence")
	has := LRe(`recv\.st\[p0\]#1`, true)
	o.Table(gsf, "get-contract", []Row{
		{Name: "unknown id", Assume: A(has.Neg()), Ret: [][]string{Vals("nil"), Vals("false")}},
		{Name: "known id", Assume: A(has), Ret: [][]string{Vals("recv.st[p0]#0.Silence"), Vals("true")}},
	})
	cu := o.One(e.Calls(fn, "am/silence.canUpdate"), "canupdate", "Set must decide in-place update with canUpdate", fn)
	o.Check(e.Arg(cu, 0) == f.prev && e.Arg(cu, 1) == "p1" && strings.Contains(e.Arg(cu, 2), "nowUTC"), "canupdate-args", "canUpdate must compare the stored silence with the submitted one at the current time, got "+e.X(fn, cu.(*ssa.Call)), cu)
	f.canUpd = L(e.X(fn, cu.(*ssa.Call)), true)
	f.validate = o.One(e.Calls(fn, "am/silence.validateSilence"), "validate", "Set must validate the silence", fn)
	f.setCalls = e.Calls(fn, "(*am/silence.Silences).setSilence")
	f.expCalls = e.Calls(fn, "(*am/silence.Silences).expire")
	f.mutating = AnyOf(IsCall("(*am/silence.Silences).setSilence"), IsCall("(*am/silence.Silences).expire"), IsCall("(am/silence.state).merge"),
		IsCall("(*am/silence.Silences).indexSilence"), isMapUpdate)
	o.Require(len(f.setCalls) >= 2, "set-calls", "Set must store through setSilence on the update and the create path, found "+itoa(len(f.setCalls))+" call(s)", nil)
	// create path = what is reachable without taking the canUpdate-true edge
	f.createPathReach = (&Walk{Fn: fn, Cut: e.CutLits(f.canUpd)}).FromEntry()
	for _, c := range f.setCalls {
		if f.createPathReach.Has(c) {
			f.creSets = append(f.creSets, c)
		} else {
			f.updSets = append(f.updSets, c)
		}
	}
	o.Require(len(f.creSets) > 0 && len(f.updSets) > 0, "set-paths", "Set must have one in-place store (under canUpdate) and one create store", nil)
	f.sizeOK = LRe(`\(\(\*am/silence\.Silences\)\.checkSizeLimits\(recv, \(\*am/silence\.Silences\)\.toMeshSilence\(recv, p1\)\) == nil\)`, true)
	return f
}

func init() {
	propInfos["C12"] = &propInfo{
		Explanation: "Decides the silence life-cycle discipline: (1) Silences.Set validates before locking and mutating, rejects unknown ids, updates in place iff found ∧ canUpdate, otherwise assigns a fresh UUID, never lets the start lie in the past, expires the previous silence iff it exists and is not expired, and no rejection (validation, unknown id, count/size limit, UUID) can happen after a mutation; (2) canUpdate's decision table; (3) expire's table, writing only to a clone; (4) getState's table (strict comparisons); (5) GC removes exactly entries whose retention deadline is not after now and keeps st/mi/vi in step; (6) the API rejects start ≥ end and end in the past before Set and maps not-found to 404; (7) query results are clones.",
		NotDecided:  "retention timing over wall-clock time; interleavings with GC beyond the lock discipline (C02.4).",
	}

	reg("C12", "C12.1", "T1,T2,T7", "Silences.Set: validate first; unknown id rejected; in place iff found ∧ canUpdate; fresh id, start ≥ now, UpdatedAt=now (the reading the edit was admitted at, not a later one); previous expired iff found ∧ not expired; no rejecting exit after a mutation", func(o *Ob) {
		e := o.E
		f := resolveSilSet(o)
		fn := f.fn
		// (a) validation precedes the lock and every mutation
		for _, lk := range o.Some(e.Calls(fn, "(*sync.RWMutex).Lock"), "lock", "Set must take the write lock", fn) {
			o.Site(lk, "write lock")
			o.Precedes(lk, "validate-before-lock", "validation must precede taking the lock", IsInstr(f.validate))
		}
		vOK := L("(am/silence.validateSilence(p1) == nil)", true)
		for _, in := range AllInstrs(fn) {
			if f.mutating(in) {
				o.Site(in, "mutation")
				o.Guarded(in, "validate-before-mutation", "a mutation of the silence state", vOK)
			}
		}
		// (b) unknown id
		{
			idSet := L(`(p1.Id == "")`, false)
			r := (&Walk{Fn: fn, Cut: e.CutContradicting(idSet, f.found.Neg(), vOK)}).FromEntry()
			for _, in := range AllInstrs(fn) {
				if r.Has(in) && f.mutating(in) {
					o.Fail("unknown-id-mutates", "an unknown id must be rejected, but a mutation is reachable for id≠\"\" ∧ not found", in)
				}
			}
			n := 0
			for _, rs := range e.ResultStores(fn, 0) {
				if r.Has(rs.Instr) {
					n++
					v := e.X(fn, rs.Val)
					o.Site(rs.Instr, "result for unknown id: "+v)
					o.Check(v == "am/silence.ErrNotFound", "unknown-id-result", "an unknown id must yield ErrNotFound, yields "+v, rs.Instr)
				}
			}
			o.Check(n > 0, "unknown-id-noexit", "no exit found for an unknown id", nil)
		}
		// (c) in-place iff found ∧ canUpdate
		for _, us := range f.updSets {
			o.Guarded(us, "inplace-found", "the in-place update", f.found)
			o.Guarded(us, "inplace-canupdate", "the in-place update", f.canUpd)
			o.Check(e.Arg(us, 1) == "(*am/silence.Silences).toMeshSilence(recv, p1)", "inplace-arg", "the in-place update must store the submitted silence", us)
		}
		hasAny := func(r *Reached, cs []ssa.CallInstruction) ssa.CallInstruction {
			for _, c := range cs {
				if r.Has(c) {
					return c
				}
			}
			return nil
		}
		// found ∧ canUpdate ⇒ the create path is not taken
		{
			r := (&Walk{Fn: fn, Cut: e.CutContradicting(f.found, f.canUpd)}).FromEntry()
			o.Check(hasAny(r, f.creSets) == nil, "canupdate-creates", "although the edit may be applied in place a new silence can be created", f.creSets[0])
			for _, x := range f.expCalls {
				o.Check(!r.Has(x), "canupdate-expires", "although the edit may be applied in place the old silence can be expired", x)
			}
		}
		// (d) create path: fresh UUID, start not in the past, UpdatedAt=now
		{
			ids := e.StoresTo(fn, "p1.Id")
			o.Require(len(ids) >= 1, "fresh-id", "the create path must assign an id", nil)
			for _, st := range ids {
				v := e.X(fn, st.Val)
				o.Site(st, "sil.Id := "+v)
				o.Check(strings.Contains(v, "github.com/google/uuid.NewRandom()#0"), "fresh-id-source", "a new silence must get a fresh random UUID, gets "+v, st)
				o.Check(!f.createPathReach.Has(st) == false, "fresh-id-path", "the id is reassigned on the in-place path", st)
			}
			for _, cs := range f.creSets {
				o.Precedes(cs, "fresh-id-before-store", "a created silence must get its fresh id before it is stored", func(in ssa.Instruction) bool {
					st, ok := in.(*ssa.Store)
					return ok && e.X(fn, st.Addr) == "p1.Id"
				})
			}
			// inplace path never changes the id
			for _, st := range ids {
				r := (&Walk{Fn: fn, Barrier: IsInstr(st)}).FromEntry()
				_ = r
				rr := (&Walk{Fn: fn}).After(st)
				o.Check(hasAny(rr, f.updSets) == nil, "inplace-keeps-id", "the id can be replaced before an in-place update", st)
			}
			past := LRe(`\(p1\.StartsAt\.AsTime <t \(\*am/silence\.Silences\)\.nowUTC\(recv\)\)`, true)
			var raises []ssa.Instruction
			for _, st := range e.StoresTo(fn, "p1.StartsAt") {
				if f.createPathReach.Has(st) && hasAny((&Walk{Fn: fn}).After(st), f.creSets) != nil && !(&Walk{Fn: fn}).After(st).Has(f.validate) {
					raises = append(raises, st)
				}
			}
			if o.Check(len(raises) > 0, "start-raise", "a new silence whose start lies in the past must have its start raised to now", nil) {
				for _, ri := range raises {
					raise := ri.(*ssa.Store)
					o.Site(raise, "StartsAt := now")
					o.Guarded(raise, "start-raise-guard", "raising the start", past)
					o.Check(e.X(fn, raise.Val) == "timestamppb.New((*am/silence.Silences).nowUTC(recv))", "start-raise-value", "the start must be raised to now", raise)
				}
				// past ⇒ raised before the create store
				r := (&Walk{Fn: fn, Cut: e.CutContradicting(past), Barrier: IsInstr(raises...)}).FromEntry()
				o.Check(hasAny(r, f.creSets) == nil, "start-raise-forced", "a silence starting in the past can be created without raising its start", f.creSets[0])
			}
			for _, cu := range e.Calls(fn, "am/silence.canUpdate") {
				oneClockRule(o, fn, cu, 2, e.StoresTo(fn, "p1.UpdatedAt"), "Set")
			}
			for _, sc := range f.setCalls {
				o.Precedes(sc, "updatedat", "UpdatedAt must be set to now before the silence is stored", func(in ssa.Instruction) bool {
					st, ok := in.(*ssa.Store)
					return ok && e.X(fn, st.Addr) == "p1.UpdatedAt" && e.X(fn, st.Val) == "timestamppb.New((*am/silence.Silences).nowUTC(recv))"
				})
			}
		}
		// (e) previous silence expired iff found ∧ not expired
		o.Require(len(f.expCalls) >= 1, "expire-call", "the replaced silence must be expired, found no call of expire", nil)
		notExp := LRe(`\(am/silence\.getState\(`+regexpQuote(f.prev)+`, \(\*am/silence\.Silences\)\.nowUTC\(recv\)\) == "expired"\)`, false)
		var exIns []ssa.Instruction
		for _, ex := range f.expCalls {
			exIns = append(exIns, ex)
			o.Site(ex, "expire previous")
			o.Guarded(ex, "expire-found", "expiring the previous silence", f.found)
			o.Guarded(ex, "expire-state", "expiring the previous silence", notExp)
			o.Check(e.Arg(ex, 1) == f.prev+".Id", "expire-arg", "the silence that is expired must be the previous one, is "+e.Arg(ex, 1), ex)
			o.Check(f.createPathReach.Has(ex), "expire-path", "the previous silence is expired on the in-place path", ex)
		}
		{
			r := (&Walk{Fn: fn, Cut: func(b *ssa.BasicBlock, s int) bool {
				return e.CutContradicting(f.found, notExp)(b, s) || e.CutLits(f.canUpd)(b, s)
			}, Barrier: IsInstr(exIns...)}).FromEntry()
			o.Check(hasAny(r, f.creSets) == nil, "expire-forced", "a history-rewriting edit can create the new silence without expiring the old pending/active one", f.creSets[0])
		}
		// (f) no rejecting exit after a mutation: after expire / setSilence only their own errors
		for _, m := range append(append([]ssa.CallInstruction{}, f.expCalls...), f.setCalls...) {
			after := (&Walk{Fn: fn}).After(m)
			for _, rs := range e.ResultStores(fn, 0) {
				if !after.Has(rs.Instr) {
					continue
				}
				if k, ok := rs.Val.(*ssa.Const); ok && k.Value == nil {
					continue
				}
				own := e.DerivesFrom(rs.Val, true, func(v ssa.Value) bool {
					c, ok := v.(*ssa.Call)
					return ok && f.mutating(c)
				})
				o.Check(own, "reject-after-mutation", "after a mutation ("+calleeName(m.Common())+") Set can still fail with "+e.X(fn, rs.Val)+": a rejected edit would leave a half-applied change", rs.Instr)
			}
		}
		// (g) limits are checked before any mutation (shared with C18.4)
		checkSilenceLimitsBeforeMutation(o, f)
		o.MinSites(6)
	})

	reg("C12", "C12.13", "T3,T12", "a stored silence is never changed in place: outside the generated code, fields of a silence are written only on an object the writing function built or cloned, or on the not yet stored request", storedSilenceImmutableRule)
	reg("C12", "C12.0", "T6", "getState: pending iff now < start; expired iff now > end; else active (both comparisons strict)", getStateRule)

	reg("C12", "C12.2", "T6", "canUpdate: false for different matcher sets; active: start (seconds) unchanged ∧ new end ≥ now; pending: new start ≥ now; expired: never", func(o *Ob) {
		fn := o.Fn("am/silence.canUpdate")
		same := LRe(`slices\.EqualFunc\(p0\.MatcherSets, p1\.MatcherSets, (func|closure):[^,()]*\)`, true)
		st := func(s string) LitM { return L(`(am/silence.getState(p0, p2) == "`+s+`")`, true) }
		sameStart := L("((time.Time).Unix(p0.StartsAt.AsTime) == (time.Time).Unix(p1.StartsAt.AsTime))", true)
		endPast := L("(p1.EndsAt.AsTime <t p2)", true)
		startPast := L("(p1.StartsAt.AsTime <t p2)", true)
		F, T := [][]string{Vals("false")}, [][]string{Vals("true")}
		// the comparison of the matcher sets: slices.EqualFunc over the two lists, or the same thing spelled out
		// (equal counts, then every pair compared with proto.Equal in a loop over all indexes)
		sameA, sameO := A(same), []LitM(nil)
		rows := []Row{{Name: "different matchers", Assume: A(same.Neg()), Ret: F}}
		if !o.E.litKnown(fn, same) {
			lenEq := L("(len(p0.MatcherSets) == len(p1.MatcherSets))", true)
			pairEq := L("proto.Equal(p0.MatcherSets[i], p1.MatcherSets[i])", true)
			if o.E.litKnown(fn, lenEq) && o.E.litKnown(fn, pairEq) {
				sameA, sameO = nil, A(lenEq, pairEq)
				rows = []Row{
					{Name: "different number of matcher sets", Assume: A(lenEq.Neg()), Ret: F},
				}
				// a differing pair: from the edge that found it only `false` is returned (the table cannot
				// say "some pair differs": the other iterations of the loop are unconstrained)
				ecs := o.E.EdgesAsserting(fn, pairEq.Neg())
				o.Check(len(ecs) > 0, "canUpdate|a matcher set differs|missing", "canUpdate no longer tests the pairs of matcher sets", fnFirst(fn))
				for _, ec := range ecs {
					r := (&Walk{Fn: fn}).FromEdgeCtx(ec)
					for _, ret := range r.Returns() {
						for _, v := range o.E.ValStrs(fn, o.E.RetVals(r, ret, 0)) {
							o.Check(v == "false", "canUpdate|a matcher set differs|ret0", "a silence with a different matcher set may be updated in place (result "+v+")", ret)
						}
					}
					o.SiteS("canUpdate: a matcher set differs ⇒ false")
				}
				for _, c := range o.E.Calls(fn, "proto.Equal") {
					if l := o.E.LoopOf(c); o.Check(l != nil, "matcher-loop", "matcher sets must be compared pair by pair", c) {
						o.Site(c, "matcher sets compared pair by pair")
						o.Check(o.E.CoversAll(l, "p0.MatcherSets") || o.E.CoversAll(l, "p1.MatcherSets"), "matcher-loop-all", "every pair of matcher sets must be compared", c)
						o.LoopExitsGuarded(l, "matcher-loop-exit", "the comparison may stop early only at a differing pair", pairEq.Neg())
					}
				}
			}
		}
		with := func(rest ...LitM) []LitM { return append(append([]LitM{}, sameA...), rest...) }
		rows = append(rows,
			Row{Name: "active, start moved", Assume: with(st("active"), sameStart.Neg()), Opt: sameO, Ret: F},
			Row{Name: "active, end before now", Assume: with(st("active"), sameStart, endPast), Opt: sameO, Ret: F},
			Row{Name: "active, ok", Assume: with(st("active"), sameStart, endPast.Neg()), Opt: sameO, Ret: T},
			Row{Name: "pending, start before now", Assume: with(st("pending"), startPast), Opt: sameO, Ret: F},
			Row{Name: "pending, ok", Assume: with(st("pending"), startPast.Neg()), Opt: sameO, Ret: T},
			Row{Name: "expired", Assume: with(st("expired")), Opt: sameO, Ret: F},
			Row{Name: "unknown state", Assume: with(st("active").Neg(), st("pending").Neg(), st("expired").Neg()), Opt: sameO, NoReturn: true},
		)
		o.Table(fn, "canUpdate", rows)
		// the matcher comparison is proto.Equal element-wise
		// (the comparison function is whatever is handed to slices.EqualFunc)
		if sameA != nil {
			ef := o.One(o.E.Calls(fn, "slices.EqualFunc"), "matcher-eqfunc", "matcher sets must be compared element-wise", fn)
			var eq *ssa.Function
			switch x := ef.Common().Args[2].(type) {
			case *ssa.MakeClosure:
				eq, _ = x.Fn.(*ssa.Function)
			case *ssa.Function:
				eq = x
			}
			o.Require(eq != nil, "matcher-eqfunc-fn", "the matcher set comparison function cannot be resolved", ef)
			protoEqualOrFieldwise(o, eq, "matcher-eq", 0)
		}
		o.MinSites(7)
	})

	reg("C12", "C12.3", "T6,T1", "expire: unknown id → ErrNotFound; expired → nil, nothing written; active → EndsAt=now; pending → StartsAt=EndsAt=now; UpdatedAt=now (the reading the state was judged at); writes go to a clone only", func(o *Ob) {
		e := o.E
		fn := o.Fn("(*am/silence.Silences).expire")
		get := o.One(e.Calls(fn, "(*am/silence.Silences).getSilence"), "get", "expire must look the id up", fn)
		o.Check(e.Arg(get, 1) == "p0", "get-arg", "expire must look up the given id", get)
		found := L(e.X(fn, get.(*ssa.Call))+"#1", true)
		cl := o.One(e.Calls(fn, "am/silence.cloneSilence"), "clone", "expire must work on a clone of the stored silence", fn)
		o.Check(e.Arg(cl, 0) == e.X(fn, get.(*ssa.Call))+"#0", "clone-arg", "the clone must be of the stored silence", cl)
		clone := e.X(fn, cl.(*ssa.Call))
		now := "(*am/silence.Silences).nowUTC(recv)"
		stored := e.X(fn, get.(*ssa.Call)) + "#0"
		// the state may be evaluated on the stored silence or on its (equal) clone
		st := func(s string) LitM {
			return LRe(`\(am/silence\.getState\((`+regexpQuote(clone)+`|`+regexpQuote(stored)+`), `+regexpQuote(now)+`\) == "`+s+`"\)`, true)
		}
		tsNow := "timestamppb.New(" + now + ")"
		isSet := IsCall("(*am/silence.Silences).setSilence")
		stField := func(f string) func(ssa.Instruction) bool {
			return func(in ssa.Instruction) bool {
				s, ok := in.(*ssa.Store)
				return ok && e.X(fn, s.Addr) == clone+"."+f && e.X(fn, s.Val) == tsNow
			}
		}
		anyFieldStore := func(f string) func(ssa.Instruction) bool {
			return func(in ssa.Instruction) bool {
				s, ok := in.(*ssa.Store)
				return ok && e.X(fn, s.Addr) == clone+"."+f
			}
		}
		o.Table(fn, "expire", []Row{
			{Name: "unknown id", Assume: A(found.Neg()), Ret: [][]string{Vals("am/silence.ErrNotFound")}, Never: []func(ssa.Instruction) bool{isSet}},
			{Name: "already expired", Assume: A(found, st("expired")), Ret: [][]string{Vals("nil")}, Never: []func(ssa.Instruction) bool{isSet}},
			{Name: "active", Assume: A(found, st("active")), Ret: [][]string{Vals("~.*setSilence.*#2")},
				Must: []func(ssa.Instruction) bool{stField("EndsAt"), stField("UpdatedAt"), isSet}, Never: []func(ssa.Instruction) bool{anyFieldStore("StartsAt")}},
			{Name: "pending", Assume: A(found, st("pending")), Ret: [][]string{Vals("~.*setSilence.*#2")},
				Must: []func(ssa.Instruction) bool{stField("EndsAt"), stField("StartsAt"), stField("UpdatedAt"), isSet}},
		})
		// all field stores target the clone
		for _, in := range AllInstrs(fn) {
			if s, ok := in.(*ssa.Store); ok {
				if fa, ok := s.Addr.(*ssa.FieldAddr); ok && typeKey(fa.X.Type()) == "am/silence/silencepb.Silence" {
					o.Site(in, "field write "+e.X(fn, s.Addr))
					o.Check(strings.HasPrefix(e.X(fn, s.Addr), clone+"."), "write-to-stored", "expire writes "+e.X(fn, s.Addr)+": the stored silence must not be modified in place (history is immutable)", in)
				}
			}
		}
		{
			var stamps []*ssa.Store
			for _, in := range AllInstrs(fn) {
				if s, ok := in.(*ssa.Store); ok && strings.HasPrefix(e.X(fn, s.Addr), clone+".") {
					stamps = append(stamps, s)
				}
			}
			for _, gs := range e.Calls(fn, "am/silence.getState") {
				oneClockRule(o, fn, gs, 1, stamps, "expire")
			}
		}
		sc := o.One(e.Calls(fn, "(*am/silence.Silences).setSilence"), "set", "expire must store through setSilence", fn)
		argOK := e.Arg(sc, 1) == "(*am/silence.Silences).toMeshSilence(recv, "+clone+")"
		if tm, ok := sc.Common().Args[1].(*ssa.Call); ok && !argOK && calleeName(&tm.Call) == "(*am/silence.Silences).toMeshSilence" {
			// the clone joined with the nothing a helper returns for an expired silence: what reaches the store
			vs := e.ValStrs(fn, e.ValsAt((&Walk{Fn: fn}).FromEntry(), tm, tm.Call.Args[1]))
			argOK = len(vs) == 1 && vs[0] == clone
		}
		o.Check(argOK, "set-arg", "expire must store the modified clone", sc)
		// Expire holds the lock and delegates
		ex := o.Fn("(*am/silence.Silences).Expire")
		c := o.One(e.Calls(ex, "(*am/silence.Silences).expire"), "Expire-delegate", "Expire must delegate to expire", ex)
		o.Check(e.Arg(c, 1) == "p1", "Expire-arg", "Expire must expire the given id", c)
		held, why := e.HeldAt(c, ex.Params[0], "mtx", 'W', 0)
		o.Check(held, "Expire-lock", "Expire calls expire without the write lock: "+why, c)
		o.MinSites(5)
	})

	reg("C12", "C12.4", "T1,T2", "GC removes an entry iff its retention deadline is not after now (or invalid), from st and mi together, and drops it from the rebuilt version index", func(o *Ob) {
		e := o.E
		fn := o.Fn("(*am/silence.Silences).GC")
		var delSt, delMi []ssa.Instruction
		for _, in := range AllInstrs(fn) {
			if isBuiltinCall("delete")(in) {
				c := in.(*ssa.Call)
				switch e.X(fn, c.Call.Args[0]) {
				case "recv.st":
					delSt = append(delSt, in)
				case "recv.mi":
					delMi = append(delMi, in)
				}
			}
		}
		// (one removal site, or one per reason for removing: each removes from both)
		o.Require(len(delSt) >= 1 && len(delSt) == len(delMi), "deletes", "GC must delete from the state and from the matcher index together", nil)
		var stLk *ssa.Lookup
		for _, in := range AllInstrs(fn) {
			if lk, ok := in.(*ssa.Lookup); ok && lk.CommaOk && e.X(fn, lk.X) == "recv.st" {
				stLk = lk
			}
		}
		o.Require(stLk != nil, "gc-lookup", "GC no longer looks the indexed silences up in the state", nil)
		ent := e.X(fn, stLk) + "#0"
		live := LRe(`\(\(\*am/silence\.Silences\)\.nowUTC\(recv\) <t `+regexpQuote(ent)+`\.ExpiresAt\.AsTime\)`, true)
		nilExp := L("("+ent+".ExpiresAt == nil)", true)
		zeroExp := L("(time.Time).IsZero("+ent+".ExpiresAt.AsTime)", true)
		for _, d := range append(delSt, delMi...) {
			o.Site(d, "GC delete "+e.X(fn, d.(*ssa.Call)))
			o.Guarded(d, "gc-guard", "removing a silence", live.Neg(), nilExp, zeroExp)
			o.Check(strings.HasSuffix(e.X(fn, d.(*ssa.Call).Call.Args[1]), ".Silence.Id") || strings.HasSuffix(e.X(fn, d.(*ssa.Call).Call.Args[1]), ".id"), "gc-key", "GC must delete the entry it examined", d)
		}
		l := e.LoopOf(delSt[0])
		o.Require(l != nil, "gc-loop", "GC does not iterate", delSt[0])
		// still-live entries are kept: under live ∧ valid, no delete reachable in an iteration and the entry is re-appended to the index
		{
			bi, _ := l.BodyEntry()
			r := (&Walk{Fn: fn, Cut: e.CutContradicting(live, nilExp.Neg(), zeroExp.Neg())}).FromEdge(l.Header, bi)
			for _, d := range append(delSt, delMi...) {
				o.Check(!r.Has(d), "gc-live-deleted", "a silence whose retention deadline is still in the future can be garbage collected", d)
			}
		}
		// st and mi deleted together
		for _, ds := range delSt {
			paired := false
			for _, dm := range delMi {
				if ds.Block() == dm.Block() && e.X(fn, ds.(*ssa.Call).Call.Args[1]) == e.X(fn, dm.(*ssa.Call).Call.Args[1]) {
					paired = true
				}
			}
			o.Check(paired, "gc-together", "the state and the matcher index must be pruned together", ds)
		}
		// the version index keeps exactly the surviving entries: the append to the new index is unreachable on the delete path
		vis := e.StoresTo(fn, "recv.vi")
		o.Require(len(vis) == 1, "gc-vi", "GC must publish the rebuilt version index once", nil)
		_, parts := e.AppendParts(vis[0].Val)
		o.Require(len(parts) >= 1, "gc-vi-parts", "the rebuilt version index is not built by appending survivors", vis[0])
		for _, p := range parts {
			o.Site(p.Call, "survivor appended to version index")
			for _, ds := range delSt {
				after := (&Walk{Fn: fn, Barrier: func(in ssa.Instruction) bool { return in.Block() == l.Header && in == l.Header.Instrs[0] }}).After(ds)
				o.Check(!after.Has(p.Call), "gc-vi-keeps-deleted", "an id removed from the state can stay in the version index", p.Call)
			}
			o.Guarded(p.Call, "gc-vi-guard", "keeping an id in the version index", live)
		}
		// live ⇒ kept in vi
		{
			bi, _ := l.BodyEntry()
			r := (&Walk{Fn: fn, Cut: e.CutContradicting(live, nilExp.Neg(), zeroExp.Neg(), L(e.X(fn, stLk)+"#1", true)), Barrier: func(in ssa.Instruction) bool {
				for _, p := range parts {
					if in == ssa.Instruction(p.Call) {
						return true
					}
				}
				return false
			}}).FromEdge(l.Header, bi)
			back := false
			for _, be := range l.Back {
				if r.Edge[be] {
					back = true
				}
			}
			o.Check(!back, "gc-vi-drops-live", "a surviving silence can be dropped from the version index (it would become invisible to queries)", vis[0])
		}
		coll, _ := e.RangeOver(l)
		o.Check(coll == "recv.vi", "gc-range", "GC must visit every indexed silence", delSt[0])
		held, why := e.HeldAt(delSt[0], fn.Params[0], "mtx", 'W', 0)
		o.Check(held, "gc-lock", "GC mutates without the write lock: "+why, delSt[0])
		o.MinSites(3)
	})

	reg("C12", "C12.5", "T1", "the API rejects start ≥ end and end in the past before calling Set, and maps ErrNotFound to 404", func(o *Ob) {
		e := o.E
		fn := o.Fn("(*am/api/v2.API).postSilencesHandler")
		set := o.One(e.Calls(fn, "(*am/silence.Silences).Set"), "set", "the handler must store through Silences.Set", fn)
		o.Site(set, "Silences.Set")
		sil := e.Arg(set, 2)
		o.Check(strings.HasPrefix(sil, "am/api/v2.PostableSilenceToProto("), "set-arg", "the stored silence must be the converted request body", set)
		startAfterEnd := L("("+sil+".EndsAt.AsTime <t "+sil+".StartsAt.AsTime)", false)
		startEqEnd := LRe(`\(`+regexpQuote(sil)+`\.(EndsAt|StartsAt)\.AsTime ==t `+regexpQuote(sil)+`\.(EndsAt|StartsAt)\.AsTime\)`, false)
		endPast := L("("+sil+".EndsAt.AsTime <t time.Now())", false)
		convOK := L("("+sil[:len(sil)-2]+"#1 == nil)", true)
		o.Guarded(set, "conv-ok", "storing the silence", convOK)
		o.Guarded(set, "start-before-end", "storing the silence", startAfterEnd)
		o.Guarded(set, "start-not-equal-end", "storing the silence", startEqEnd)
		o.Guarded(set, "end-not-past", "storing the silence", endPast)
		nf := o.Some(e.Calls(fn, "am/api/v2/restapi/operations/silence.NewPostSilencesNotFound"), "notfound", "an unknown id must be answered with 404", fn)
		for _, c := range nf {
			o.Site(c, "404")
			o.Guarded(c, "notfound-guard", "answering 404", LRe(`errors\.Is\(.*Set\(.*, am/silence\.ErrNotFound\)`, true))
		}
		okc := o.Some(e.Calls(fn, "am/api/v2/restapi/operations/silence.NewPostSilencesOK"), "ok", "success must be answered with 200", fn)
		for _, c := range okc {
			o.Guarded(c, "ok-guard", "answering success", LRe(`\(.*\(\*am/silence\.Silences\)\.Set\(.*\) == nil\)`, true))
		}
		o.MinSites(2)
	})

	reg("C12", "C12.6", "T11", "query results are clones: no pointer into the state map escapes through Query", func(o *Ob) {
		e := o.E
		q := o.Fn("(*am/silence.Silences).query")
		n := 0
		for _, fn := range append([]*ssa.Function{q}, Anons(q)...) {
			for _, in := range AllInstrs(fn) {
				c, ok := in.(*ssa.Call)
				if !ok {
					continue
				}
				b, ok := c.Call.Value.(*ssa.Builtin)
				if !ok || b.Name() != "append" {
					continue
				}
				if typeKey(c.Type()) != "[]*am/silence/silencepb.Silence" {
					continue
				}
				_, parts := e.AppendParts(c)
				for _, p := range parts {
					if p.Call != c {
						continue
					}
					n++
					s := e.X(fn, p.V)
					o.Site(c, "result element "+s)
					o.Check(!p.Spread && strings.HasPrefix(s, "am/silence.cloneSilence("), "alias", "a query result element is "+s+", not a clone: callers could modify stored history", c)
				}
			}
		}
		o.Check(n >= 1, "no-append", "query no longer builds its result by appending clones", nil)
		o.MinSites(1)
	})
}

// checkSilenceLimitsBeforeMutation: in Silences.Set every mutation is preceded by a passed size check of the
// silence about to be stored, and every create-path mutation by a passed count check (len(st)+1 > max rejects).
func checkSilenceLimitsBeforeMutation(o *Ob, f *silSetFacts) {
	e := o.E
	fn := f.fn
	noLimit := L("(recv.limits.MaxSilences == nil)", true)
	limOff := L("(dyn(fn=recv.limits.MaxSilences) < 1)", true)
	fits := L("(len(recv.st) < dyn(fn=recv.limits.MaxSilences))", true)
	o.Check(e.CountLitEdges(fn, fits)+e.CountLitEdges(fn, fits.Neg()) > 0, "count-check", "Set no longer rejects when len(st)+1 exceeds the silence count limit", nil)
	for _, m := range append(append([]ssa.CallInstruction{}, f.expCalls...), f.setCalls...) {
		o.Site(m, "mutation after limit checks")
		o.Guarded(m, "size-before-mutation|"+calleeName(m.Common()), "the size limit must have been checked (and passed) before "+calleeName(m.Common()), f.sizeOK)
		if f.createPathReach.Has(m) {
			o.Guarded(m, "count-before-mutation|"+calleeName(m.Common()), "the silence count limit must have been checked (and passed) before "+calleeName(m.Common())+" on the create path", noLimit, limOff, fits)
		}
	}
	// the size that is checked is the size that is stored: the silence is not modified between the check and the store
	for _, c := range e.Calls(fn, "(*am/silence.Silences).checkSizeLimits") {
		o.Site(c, "size check")
		o.NeverAfter(c, "size-then-modified", "the silence is modified after its size was checked (the stored/gossiped encoding can exceed the limit that was checked)", func(in ssa.Instruction) bool {
			st, ok := in.(*ssa.Store)
			return ok && strings.HasPrefix(e.X(fn, st.Addr), "p1.")
		}, f.mutating)
	}
	// the rejected count check returns an error without mutation
	r := (&Walk{Fn: fn, Cut: e.CutContradicting(fits.Neg(), noLimit.Neg(), limOff.Neg())}).FromEntry()
	for _, m := range append(append([]ssa.CallInstruction{}, f.expCalls...), f.creSets...) {
		o.Check(!r.Has(m), "count-exceeded-mutates", "with the count limit exceeded a mutation is still reachable", m)
	}
}

func getStateRule(o *Ob) {
	fn := o.Fn("am/silence.getState")
	pend := L("(p1 <t p0.StartsAt.AsTime)", true)
	exp := L("(p0.EndsAt.AsTime <t p1)", true)
	o.Table(fn, "getState", []Row{
		{Name: "before start", Assume: A(pend), Ret: [][]string{Vals(`"pending"`)}},
		{Name: "after end", Assume: A(pend.Neg(), exp), Ret: [][]string{Vals(`"expired"`)}},
		{Name: "within", Assume: A(pend.Neg(), exp.Neg()), Ret: [][]string{Vals(`"active"`)}},
	})
	o.MinSites(3)
}

func regexpQuote(s string) string {
	var b strings.Builder
	for _, r := range s {
		if strings.ContainsRune(`\.+*?()|[]{}^$`, r) {
			b.WriteByte('\\')
		}
		b.WriteRune(r)
	}
	return b.String()
}

// protoEqualOrFieldwise: eq(p0, p1 *T) decides equality of two messages either with proto.Equal(p0, p1) or field
// by field; in the second form every exported field of T must take part: scalar fields through p0.F == p1.F on
// every path that answers true, repeated message fields through slices.EqualFunc(p0.F, p1.F, f) with f checked
// the same way.
func protoEqualOrFieldwise(o *Ob, eq *ssa.Function, key string, depth int) {
	e := o.E
	if cs := e.Calls(eq, "proto.Equal"); len(cs) > 0 {
		c := o.One(cs, key, "messages must be compared with one proto.Equal", eq)
		o.Check(e.Arg(c, 0) == "p0" && e.Arg(c, 1) == "p1", key+"-args", "matcher sets must be compared pairwise", c)
		return
	}
	if !o.Check(len(eq.Params) == 2 && depth < 3, key, "matcher sets must be compared with proto.Equal or field by field", fnFirst(eq)) {
		return
	}
	pt, ok := eq.Params[0].Type().Underlying().(*types.Pointer)
	if !o.Check(ok, key, "the comparison function does not take message pointers", fnFirst(eq)) {
		return
	}
	st, ok := pt.Elem().Underlying().(*types.Struct)
	if !o.Check(ok, key, "the comparison function does not take message pointers", fnFirst(eq)) {
		return
	}
	F := [][]string{Vals("false")}
	for i := 0; i < st.NumFields(); i++ {
		f := st.Field(i)
		if !f.Exported() || strings.HasPrefix(f.Name(), "XXX_") {
			continue
		}
		if sl, isSl := f.Type().Underlying().(*types.Slice); isSl {
			if _, isP := sl.Elem().Underlying().(*types.Pointer); isP {
				var ef ssa.CallInstruction
				for _, c := range e.Calls(eq, "slices.EqualFunc") {
					if e.Arg(c, 0) == "p0."+f.Name() && e.Arg(c, 1) == "p1."+f.Name() {
						ef = c
					}
				}
				if !o.Check(ef != nil, key+"|"+f.Name(), "field "+f.Name()+" does not take part in the comparison (two silences differing only there would count as the same)", fnFirst(eq)) {
					continue
				}
				o.Table(eq, key+"|"+f.Name(), []Row{{Name: f.Name() + " differs", Assume: A(L(e.X(eq, ef.(*ssa.Call)), false)), Ret: F}})
				if inner := e.FuncValue(ef.Common().Args[2]); o.Check(inner != nil, key+"|"+f.Name()+"-fn", "the element comparison cannot be resolved", ef) {
					protoEqualOrFieldwise(o, inner, key+"|"+f.Name(), depth+1)
				}
				continue
			}
		}
		o.Table(eq, key+"|"+f.Name(), []Row{{Name: f.Name() + " differs", Assume: A(L("(p0."+f.Name()+" == p1."+f.Name()+")", false)), Ret: F}})
	}
}

// silenceConversionRule: the silence the API shows is the stored one and the silence it stores is the posted one,
// field by field.  Times are converted, never adjusted (an edit that sends back what GET returned must compare equal
// to the stored silence to the second, or it is taken for an attempt to move the start); id, comment, creator and the
// matchers' name, pattern and operator flags map one to one in both directions.
func silenceConversionRule(o *Ob) {
	e := o.E
	resolve := func(fn *ssa.Function, v ssa.Value) string {
		if a, ok := v.(*ssa.Alloc); ok {
			if sv := singleStore(a); sv != nil {
				return e.X(fn, sv)
			}
		}
		return e.X(fn, v)
	}
	out := o.Fn("am/api/v2.GettableSilenceFromProto")
	o.Site(fnFirst(out), "stored silence → reported silence")
	for _, c := range []struct{ typ, f, want string }{
		{"am/api/v2/models.Silence", "StartsAt", `(conv:\S+\()?p0\.StartsAt\.AsTime\)?`},
		{"am/api/v2/models.Silence", "EndsAt", `(conv:\S+\()?p0\.EndsAt\.AsTime\)?`},
		{"am/api/v2/models.GettableSilence", "UpdatedAt", `(conv:\S+\()?p0\.UpdatedAt\.AsTime\)?`},
		{"am/api/v2/models.Silence", "Comment", `&?p0\.Comment`},
		{"am/api/v2/models.Silence", "CreatedBy", `&?p0\.CreatedBy`},
		{"am/api/v2/models.GettableSilence", "ID", `&?p0\.Id`},
	} {
		sts := e.StoresToField(out, c.typ, c.f)
		if !o.Check(len(sts) >= 1, "out-field|"+c.f, "the reported silence's "+c.f+" must be set from the stored silence", fnFirst(out)) {
			continue
		}
		for _, st := range sts {
			v := resolve(out, st.Val)
			o.Check(regexpMatch(c.want, v), "out-value|"+c.f, "the reported silence's "+c.f+" must be the stored silence's, unchanged; is "+clip(v), st)
		}
	}
	for f, src := range map[string]string{"Name": "Name", "Value": "Pattern"} {
		for _, st := range e.StoresToField(out, "am/api/v2/models.Matcher", f) {
			v := resolve(out, st.Val)
			o.Check(regexpMatch(`&?p0\.MatcherSets\[0\]\.Matchers\[i\]\.`+src, v), "out-matcher|"+f, "a reported matcher's "+f+" must be the stored matcher's "+src+", is "+clip(v), st)
		}
	}
	// operator flags out: type → (isEqual, isRegex)
	mt := "p0.MatcherSets[0].Matchers[i].Type"
	pbType := func(name string) string {
		for path, pkg := range e.SSAPkgs {
			if strings.HasSuffix(path, "/silence/silencepb") {
				if c, ok := pkg.Members[name].(*ssa.NamedConst); ok {
					return itoa(int(c.Value.Int64()))
				}
			}
		}
		o.Fail("pb-type|"+name, "matcher type "+name+" not found in silencepb", nil)
		return "?"
	}
	tEq, tNe, tRe, tNre := pbType("Matcher_EQUAL"), pbType("Matcher_NOT_EQUAL"), pbType("Matcher_REGEXP"), pbType("Matcher_NOT_REGEXP")
	for _, m := range []struct {
		ty, op  string
		eq, rex bool
	}{{tEq, "=", true, false}, {tNe, "!=", false, false}, {tRe, "=~", true, true}, {tNre, "!~", false, true}} {
		var cut []LitM
		for _, t := range []string{tEq, tNe, tRe, tNre} {
			cut = append(cut, L("("+mt+" == "+t+")", t == m.ty))
		}
		if !e.litKnown(out, cut[0]) {
			o.Fail("out-flags|"+m.op, "GettableSilenceFromProto no longer distinguishes matcher type "+m.ty, fnFirst(out))
			continue
		}
		r := (&Walk{Fn: out, Cut: e.CutContradicting(cut...)}).FromEntry()
		for f, want := range map[string]bool{"IsEqual": m.eq, "IsRegex": m.rex} {
			seen := false
			for _, st := range e.StoresToField(out, "am/api/v2/models.Matcher", f) {
				if !r.Has(st) {
					continue
				}
				seen = true
				var vs []string
				if a, ok := st.Val.(*ssa.Alloc); ok {
					// the address of a local holding the flag: the value stored there on the paths of this row
					for _, r2 := range *a.Referrers() {
						if s2, ok := r2.(*ssa.Store); ok && s2.Addr == ssa.Value(a) && r.Has(s2) {
							vs = append(vs, e.XsAt(r, s2, s2.Val)...)
						}
					}
				} else {
					vs = e.XsAt(r, st, st.Val)
				}
				okf := len(vs) >= 1
				for _, v := range vs {
					okf = okf && v == map[bool]string{true: "true", false: "false"}[want]
				}
				o.Check(okf, "out-flags|"+m.op+"|"+f, "operator "+m.op+" must be reported with "+f+"="+map[bool]string{true: "true", false: "false"}[want]+", is "+strings.Join(vs, " | "), st)
			}
			o.Check(seen, "out-flags-set|"+m.op+"|"+f, "operator "+m.op+" is reported without "+f, fnFirst(out))
		}
	}
	// the reported state: pending before the start, active from the start until the end, expired from then on
	{
		cs := o.Fn("am/silence.CurrentState")
		o.Site(fnFirst(cs), "CurrentState")
		beforeStart, beforeEnd := L("(time.Now() <t p0)", true), L("(time.Now() <t p1)", true)
		o.Table(cs, "state", []Row{
			{Name: "before the start", Assume: A(beforeStart), Ret: [][]string{Vals(`"pending"`)}},
			{Name: "between start and end", Assume: A(beforeStart.Neg(), beforeEnd), Ret: [][]string{Vals(`"active"`)}},
			{Name: "from the end on", Assume: A(beforeStart.Neg(), beforeEnd.Neg()), Ret: [][]string{Vals(`"expired"`)}},
		})
		sc := o.One(e.Calls(out, "am/silence.CurrentState"), "out-state", "the reported state must be computed by CurrentState", out)
		o.Check(e.Arg(sc, 0) == "p0.StartsAt.AsTime" && e.Arg(sc, 1) == "p0.EndsAt.AsTime", "out-state-args", "the state must be computed from the silence's own start and end, in this order", sc)
		for _, st := range e.StoresToField(out, "am/api/v2/models.SilenceStatus", "State") {
			v := resolve(out, st.Val)
			o.Check(strings.Contains(v, e.X(out, sc.(*ssa.Call))), "out-state-value", "the reported state must be CurrentState's answer, is "+clip(v), st)
		}
	}
	in := o.Fn("am/api/v2.PostableSilenceToProto")
	o.Site(fnFirst(in), "posted silence → stored silence")
	for f, want := range map[string]string{
		"Id":        `p0\.ID`,
		"StartsAt":  `timestamppb\.New\((conv:time\.Time\()?\*p0\.Silence\.StartsAt\)?\)`,
		"EndsAt":    `timestamppb\.New\((conv:time\.Time\()?\*p0\.Silence\.EndsAt\)?\)`,
		"Comment":   `\*p0\.Silence\.Comment`,
		"CreatedBy": `\*p0\.Silence\.CreatedBy`,
	} {
		sts := e.StoresToField(in, "am/silence/silencepb.Silence", f)
		if !o.Check(len(sts) >= 1, "in-field|"+f, "the stored silence's "+f+" must be set from the posted silence", fnFirst(in)) {
			continue
		}
		for _, st := range sts {
			v := resolve(in, st.Val)
			o.Check(regexpMatch(want, v), "in-value|"+f, "the stored silence's "+f+" must be the posted one, unchanged; is "+clip(v), st)
		}
	}
	for f, src := range map[string]string{"Name": "Name", "Pattern": "Value"} {
		for _, st := range e.StoresToField(in, "am/silence/silencepb.Matcher", f) {
			v := resolve(in, st.Val)
			o.Check(regexpMatch(`\*p0\.Silence\.Matchers\[i\]\.`+src, v), "in-matcher|"+f, "a stored matcher's "+f+" must be the posted matcher's "+src+", is "+clip(v), st)
		}
	}
	// operator flags in: (isEqual, isRegex) → type, a missing isEqual counting as true and a missing isRegex as false
	{
		mp := "p0.Silence.Matchers[i]"
		eqNil, reNil := L("("+mp+".IsEqual == nil)", true), L("("+mp+".IsRegex == nil)", true)
		eqV, reV := L("*"+mp+".IsEqual", true), L("*"+mp+".IsRegex", true)
		typeStores := e.StoresToField(in, "am/silence/silencepb.Matcher", "Type")
		o.Check(len(typeStores) >= 1, "in-flags-sites", "PostableSilenceToProto must set the matcher type", fnFirst(in))
		for _, m := range []struct {
			op, ty  string
			eq, rex bool
		}{{"=", tEq, true, false}, {"!=", tNe, false, false}, {"=~", tRe, true, true}, {"!~", tNre, false, true}} {
			as := []LitM{eqNil.Neg(), reNil.Neg(), eqV, reV}
			if !m.eq {
				as[2] = eqV.Neg()
			}
			if !m.rex {
				as[3] = reV.Neg()
			}
			r := (&Walk{Fn: in, Cut: e.CutContradicting(as...)}).FromEntry()
			got := map[string]bool{}
			for _, st := range typeStores {
				if r.Has(st) {
					// the value as it reads on the paths of this row (a helper's joined result is fixed by the path)
					for _, x := range e.XsAt(r, st, st.Val) {
						got[x] = true
					}
				}
			}
			var gs []string
			for g := range got {
				gs = append(gs, g)
			}
			sort.Strings(gs)
			o.Check(len(gs) == 1 && gs[0] == m.ty, "in-flags|"+m.op, "flags of operator "+m.op+" (isEqual="+map[bool]string{true: "true", false: "false"}[m.eq]+", isRegex="+map[bool]string{true: "true", false: "false"}[m.rex]+") must become matcher type "+m.ty+", become "+strings.Join(gs, " | "), fnFirst(in))
		}
	}
	// every posted matcher is kept
	for _, st := range e.StoresToField(in, "am/silence/silencepb.MatcherSet", "Matchers") {
		_, parts := e.AppendParts(st.Val)
		for _, p := range parts {
			if p.Call == nil {
				continue
			}
			if l := e.LoopOf(p.Call); o.Check(l != nil, "in-matchers-loop", "posted matchers must be converted in a loop", p.Call) {
				o.Check(e.CoversAll(l, "p0.Silence.Matchers") && len(e.EarlyExits(l)) == 0 && !loopBackWithout(o, l, IsInstr(p.Call), nil), "in-matchers-all", "a posted matcher can be dropped", p.Call)
			}
		}
	}
}

func init() {
	reg("C12", "C12.10", "T8,T11", "the API's silence conversions are field-faithful: times are converted without adjustment, id / comment / creator / matcher name, pattern and operator flags map one to one, every posted matcher is kept", func(o *Ob) {
		silenceConversionRule(o)
		o.MinSites(2)
	})
}

// storedSilenceImmutableRule: Query hands out the stored silences themselves, and the per-alert cache and
// the replicas are only told about a change through setSilence (version bump, broadcast).  So nobody may
// write a field of a silence it did not build or clone.  Every write to a field of silencepb.Silence or
// MeshSilence outside the generated package must address (a) an object allocated in the writing function,
// (b) the result of cloneSilence / proto.Clone there, or (c) the function's own parameter in one of the
// listed functions whose contract is to fill in the caller's not yet stored object.
func storedSilenceImmutableRule(o *Ob) {
	e := o.E
	ownParam := map[string]string{
		"(*am/silence.Silences).Set":                "fills in the request (id, start, update time) before it is stored; no write after the store (checked below)",
		"am/silence.postprocessUnmarshalledSilence": "upgrades a silence that was just decoded (callers checked below)",
		"am/silence.prepareSilenceForMarshalling":   "fills the legacy field on the copy made for encoding (callers checked below)",
		"am/silence.validateSilence":                "normalises the request object before it is stored",
		"(am/silence.state).merge":                  "upgrades the incoming entry (legacy comments) before it is stored; the stored entry is only replaced, never written",
	}
	classify := func(fn *ssa.Function, v ssa.Value, seen map[ssa.Value]bool) string {
		return ownedValue(e, fn, v, seen, ownParam, []string{"am/silence.cloneSilence", "proto.Clone", "am/silence.decodeState"}, "am/silence/silencepb.MeshSilence")
	}
	n := 0
	for _, T := range []string{"Silence", "MeshSilence"} {
		nt := e.NamedType("am/silence/silencepb", T)
		if !o.Check(nt != nil, "type|"+T, "silencepb."+T+" no longer exists", nil) {
			continue
		}
		st, _ := nt.Underlying().(*types.Struct)
		for i := 0; st != nil && i < st.NumFields(); i++ {
			f := st.Field(i).Name()
			for _, w := range e.Writers("am/silence/silencepb."+T, f) {
				if fnPkgPath(w.Fn) == long("am/silence/silencepb") {
					continue
				}
				n++
				o.Site(w.Instr, w.Kind+" of "+T+"."+f+" in "+fnName(w.Fn))
				why := classify(w.Fn, w.Base, map[ssa.Value]bool{})
				o.Check(why == "", "silence-write|"+fnName(w.Fn)+"|"+T+"."+f, fnName(w.Fn)+" writes "+T+"."+f+" of a silence it neither built nor cloned ("+why+"): stored silences are shared with Query results, the cache and the index", w.Instr)
			}
		}
	}
	o.Check(n >= 10, "few", "implausibly few writes of silence fields found: "+itoa(n), nil)
	// Set: nothing is written to the request after it has been handed to the store
	set := o.Fn("(*am/silence.Silences).Set")
	for _, c := range e.Calls(set, "(*am/silence.Silences).setSilence") {
		r := (&Walk{Fn: set}).After(c)
		for _, T := range []string{"Silence", "MeshSilence"} {
			for _, in := range AllInstrs(set) {
				if st, ok := in.(*ssa.Store); ok && r.Has(st) {
					if fa, ok := st.Addr.(*ssa.FieldAddr); ok && typeKey(fa.X.Type()) == "am/silence/silencepb."+T {
						o.Fail("set-write-after-store", "Set writes "+T+"."+fieldName(fa.X.Type(), fa.Field)+" after the silence was stored", st)
					}
				}
			}
		}
		o.Site(c, "Set: no write to the request after setSilence")
	}
	// the callers of the two helpers that write their parameter hand them an object of their own
	for _, h := range []string{"am/silence.postprocessUnmarshalledSilence", "am/silence.prepareSilenceForMarshalling"} {
		hf := o.Fn(h)
		for _, cs := range e.callers[hf] {
			arg := cs.Instr.Common().Args[0]
			why := classify(cs.Caller, arg, map[ssa.Value]bool{})
			// a silence reached through a mesh silence the caller built or decoded itself
			if why != "" {
				if u, ok := arg.(*ssa.UnOp); ok && u.Op == token.MUL {
					if fa, ok := u.X.(*ssa.FieldAddr); ok && typeKey(fa.X.Type()) == "am/silence/silencepb.MeshSilence" {
						why = classify(cs.Caller, fa.X, map[ssa.Value]bool{})
					}
				}
			}
			o.Site(cs.Instr, fnName(cs.Caller)+" → "+h)
			o.Check(why == "", "helper-arg|"+h+"|"+fnName(cs.Caller), fnName(cs.Caller)+" hands "+h+" a silence it neither built, decoded nor cloned ("+why+")", cs.Instr)
		}
	}
	o.MinSites(10)
}
