package main

import (
	"go/token"
	"strings"

	"golang.org/x/tools/go/ssa"
)

// LAny matches a literal that equals any of the given atoms (same polarity).
func LAny(pos bool, atoms ...string) LitM {
	d := strings.Join(atoms, " | ")
	if !pos {
		d = "¬(" + d + ")"
	}
	return LitM{d, func(l Lit) bool {
		if l.Pos != pos {
			return false
		}
		for _, a := range atoms {
			if l.Atom == a || l.Alt == a {
				return true
			}
		}
		return false
	}}
}

// stripCtx shortens the tracer-derived context rendering.
func stripCtx(s string) string {
	for {
		i := strings.Index(s, "invoke:go.opentelemetry.io/otel/trace.Tracer.Start(")
		if i < 0 {
			return s
		}
		// find matching paren
		depth := 0
		j := i + len("invoke:go.opentelemetry.io/otel/trace.Tracer.Start")
		k := j
		for ; k < len(s); k++ {
			if s[k] == '(' {
				depth++
			} else if s[k] == ')' {
				depth--
				if depth == 0 {
					break
				}
			}
		}
		if k >= len(s) {
			return s
		}
		rest := s[k+1:]
		rest = strings.TrimPrefix(rest, "#0")
		s = s[:i] + "CTX" + rest
	}
}

func needsUpdateRule(o *Ob) {
	e := o.E
	fn := o.Fn("(*am/notify.DedupStage).needsUpdate")
	no, ok := e.ConstInt("am/notify", "ReasonDoNotNotify")
	o.Require(ok, "const", "ReasonDoNotNotify not found", nil)
	first, _ := e.ConstInt("am/notify", "ReasonFirstNotification")
	NO := Vals(itoa(int(no)))
	var yes []string
	for _, n := range []string{"ReasonFirstNotification", "ReasonNewAlertsInGroup", "ReasonNewResolvedAlerts", "ReasonAllAlertsResolved", "ReasonRepeatIntervalElapsed"} {
		v, ok := e.ConstInt("am/notify", n)
		o.Require(ok, "const", n+" not found", nil)
		yes = append(yes, itoa(int(v)))
	}
	NIL := L("(p0 == nil)", true)
	F0 := L("(len(p1) == 0)", true)
	FS := L("(*am/nflog/nflogpb.Entry).IsFiringSubset(p0, p1)", true)
	EF0 := L("(len(p0.FiringAlerts) == 0)", true)
	SR := L("invoke:am/notify.ResolvedSender.SendResolved(recv.rs)", true)
	RS := L("(*am/nflog/nflogpb.Entry).IsResolvedSubset(p0, p2)", true)
	EL := LAny(true, "(p0.Timestamp.AsTime <t (time.Time).Add(p4, -p3))", "((time.Time).Add(p0.Timestamp.AsTime, p3) <t p4)", "(p3 < (time.Time).Sub(p4, p0.Timestamp.AsTime))")
	Y := [][]string{yes}
	N := [][]string{NO}
	o.Table(fn, "needsUpdate", []Row{
		{Name: "never notified, something fires", Assume: A(NIL, F0.Neg()), Ret: [][]string{Vals(itoa(int(first)))}},
		{Name: "never notified, nothing fires", Assume: A(NIL, F0), Ret: N},
		// an empty set is a subset of anything (C04.14 decides that of the subset test), so "not a subset" implies
		// that something fires: a function that looks at emptiness first cannot be on this row's path with F0
		{Name: "a firing alert the last notification did not list", Assume: A(NIL.Neg(), FS.Neg()), Opt: A(F0.Neg()), Ret: Y},
		{Name: "nothing fires any more, last notification listed firing alerts", Assume: A(NIL.Neg(), FS, F0, EF0.Neg()), Ret: Y},
		{Name: "nothing fires, last notification listed none", Assume: A(NIL.Neg(), FS, F0, EF0), Ret: N},
		{Name: "send_resolved and a resolved alert not yet reported", Assume: A(NIL.Neg(), FS, F0.Neg(), SR, RS.Neg()), Ret: Y},
		{Name: "unchanged, repeat interval elapsed (send_resolved off)", Assume: A(NIL.Neg(), FS, F0.Neg(), SR.Neg(), EL), Ret: Y},
		{Name: "unchanged, repeat interval not elapsed (send_resolved off)", Assume: A(NIL.Neg(), FS, F0.Neg(), SR.Neg(), EL.Neg()), Ret: N},
		{Name: "unchanged, repeat interval elapsed (send_resolved on)", Assume: A(NIL.Neg(), FS, F0.Neg(), SR, RS, EL), Ret: Y},
		{Name: "unchanged, repeat interval not elapsed (send_resolved on)", Assume: A(NIL.Neg(), FS, F0.Neg(), SR, RS, EL.Neg()), Ret: N},
	})
	// a group that had a moment with no firing alert starts a new cycle: first-notification reason when the entry lists no firing alerts
	o.Table(fn, "needsUpdate-cycle", []Row{
		{Name: "new firing after an all-resolved notification is a first notification", Assume: A(NIL.Neg(), FS.Neg(), EF0), Opt: A(F0.Neg()), Ret: [][]string{Vals(itoa(int(first)))}},
	})
	o.MinSites(10)
}

func init() {
	propInfos["C04"] = &propInfo{
		Explanation: "Decides the de-duplication discipline: (1) needsUpdate's decision table over its seven conditions equals the property's cases (first notification iff something fires; new firing alert; all resolved iff the previous notification listed firing alerts; new resolved alert under send_resolved; otherwise iff the entry is strictly older than now − repeat_interval); (2) DedupStage.Exec feeds it the logged entry for (group key, receiver), this flush's firing/resolved hash sets, the context's repeat interval and the flush's clock, passes alerts on iff it says notify; the dispatcher puts tick time and the route's repeat interval into the context; (3) SetNotifiesStage logs this flush's hashes with expiry 2×repeat; Log's expiry table; (4) one key function for every access to the log state; (5) GC deletes iff the expiry is not after now; (6) alerts are partitioned by Resolved(); hashAlert is a deterministic function of the sorted label pairs; the entry the de-duplication reads is the newest one: nflog state.merge is a last-writer-wins join and Log replaces the stored entry (shared with C10).",
		NotDecided:  "that repeats arrive on time (timers, scheduling); interaction of retention with very long repeat intervals beyond the expiry table.",
	}

	reg("C04", "C04.1", "T6", "needsUpdate decision table (notify / do not notify for every consistent valuation of its conditions)", needsUpdateRule)

	reg("C04", "C04.2", "T11,T1", "DedupStage.Exec: logged entry for (group key, receiver); this flush's hash sets; context repeat interval; the flush's clock; alerts pass iff needsUpdate says notify", func(o *Ob) {
		e := o.E
		fn := o.Fn("(*am/notify.DedupStage).Exec")
		nu := o.One(e.Calls(fn, "(*am/notify.DedupStage).needsUpdate"), "needsupdate-call", "DedupStage.Exec must decide with needsUpdate", fn)
		args := nu.Common().Args // recv, entry, firing, resolved, repeat, now
		o.Site(nu, "needsUpdate("+stripCtx(e.X(fn, nu.(*ssa.Call)))+")")
		q := o.One(e.Calls(fn, "invoke:am/notify.NotificationLog.Query"), "query", "DedupStage.Exec must query the notification log", fn)
		var qs []string
		for _, el := range VariadicElems(q) {
			qs = append(qs, e.X(fn, el))
		}
		o.Check(len(qs) == 2 && qs[0] == "am/nflog.QGroupKey(am/notify.GroupKey(ctx)#0)" && qs[1] == "am/nflog.QReceiver(recv.recv)", "query-params", "the log must be queried for (this group's key, this stage's receiver), is queried with "+strings.Join(qs, ", "), q)
		qx := e.X(fn, q.(*ssa.Call))
		// entry
		ent := e.ValStrs(fn, e.ValsUnder(nil, args[1]))
		okEnt := len(ent) >= 1
		for _, s := range ent {
			if s != "nil" && s != qx+"#0[0]" {
				okEnt = false
			}
		}
		o.Check(okEnt && len(ent) == 2, "entry", "needsUpdate must be given the queried entry (or nil when there is none), is given "+stripCtx(strings.Join(ent, "|")), nu)
		// entry nil only when no result
		part := o.One(e.Calls(fn, "am/notify.partitionAlertsByState"), "partition", "alerts must be partitioned by state", fn)
		o.Check(e.Arg(part, 0) == "p2" && e.Arg(part, 1) == "recv.hash", "partition-args", "the whole batch must be partitioned with the stage's hash function", part)
		px := e.X(fn, part.(*ssa.Call))
		o.Check(e.X(fn, args[2]) == px+"#2" && e.X(fn, args[3]) == px+"#3", "sets", "needsUpdate must get the firing set and the resolved set of this flush, gets "+e.X(fn, args[2])+", "+e.X(fn, args[3]), nu)
		rep := stripCtx(e.X(fn, args[4]))
		o.Check(rep == "am/notify.RepeatInterval(ctx)#0", "repeat", "the repeat interval must come from the flush context, is "+rep, nu)
		// now: context tick preferred
		var nows []string
		for _, v := range e.ValsUnder(nil, args[5]) {
			nows = append(nows, stripCtx(e.X(fn, v)))
		}
		hasCtx, hasOwn := false, false
		for _, s := range nows {
			if strings.HasPrefix(s, "am/notify.Now(") && strings.HasSuffix(s, "#0") {
				hasCtx = true
			} else if s == "dyn(fn=recv.now)" {
				hasOwn = true
			} else {
				o.Fail("now-foreign", "needsUpdate is given the time "+s, nu)
			}
		}
		o.Check(hasCtx, "now-ctx", "the flush's own clock (Now(ctx)) must be used for the repeat-interval decision when present", nu)
		_ = hasOwn
		// under Now(ctx) present, the value must be the context's
		if phi, ok := args[5].(*ssa.Phi); ok {
			for i, ed := range phi.Edges {
				pred := phi.Block().Preds[i]
				s := stripCtx(e.X(fn, ed))
				if strings.HasPrefix(s, "am/notify.Now(") {
					// the edge must come from the branch where ok is true
					okEdge := false
					for _, pp := range pred.Preds {
						for si, sx := range pp.Succs {
							if sx == pred {
								if l, ok := e.EdgeLit(pp, si); ok && l.Pos && strings.HasPrefix(stripCtx(l.Atom), "am/notify.Now(") && strings.HasSuffix(l.Atom, "#1") {
									okEdge = true
								}
							}
						}
					}
					o.Check(okEdge, "now-ctx-guard", "the context clock is used without checking that it is present", nu)
				}
			}
		}
		// firing/resolved hashes go into the context for SetNotifiesStage
		wf := o.One(e.Calls(fn, "am/notify.WithFiringAlerts"), "ctx-firing", "the firing hashes of this flush must be put into the context", fn)
		wr := o.One(e.Calls(fn, "am/notify.WithResolvedAlerts"), "ctx-resolved", "the resolved hashes of this flush must be put into the context", fn)
		o.Check(e.Arg(wf, 1) == px+"#0", "ctx-firing-arg", "the context must carry this flush's firing hashes", wf)
		o.Check(e.Arg(wr, 1) == px+"#1", "ctx-resolved-arg", "the context must carry this flush's resolved hashes", wr)
		// result: alerts iff shouldNotify
		nux := e.X(fn, nu.(*ssa.Call))
		notify := LAny(true, "(am/notify.NotifyReason).shouldNotify("+nux+")")
		notify2 := LAny(false, "("+nux+" == 0)")
		for _, rs := range e.ResultStores(fn, 1) {
			if e.X(fn, rs.Val) == "p2" {
				o.Site(rs.Instr, "passes the batch on")
				o.Guarded(rs.Instr, "pass-guard", "passing the alerts on to delivery", notify, notify2)
			}
		}
		// not notify ⇒ nil alerts and nil error
		{
			r := (&Walk{Fn: fn, Cut: e.CutContradicting(notify.Neg())}).FromEntry()
			if e.CountLitEdges(fn, notify)+e.CountLitEdges(fn, notify.Neg()) == 0 {
				r = (&Walk{Fn: fn, Cut: e.CutContradicting(notify2.Neg())}).FromEntry()
			}
			after := (&Walk{Fn: fn}).After(nu)
			for _, rs := range e.ResultStores(fn, 1) {
				if r.Has(rs.Instr) && after.Has(rs.Instr) {
					o.Check(e.X(fn, rs.Val) == "nil", "suppress", "although nothing needs to be sent, alerts are passed on to delivery", rs.Instr)
				}
			}
		}
		// query failure other than not-found is an error (no silent 'first notification')
		qerr := L("("+qx+"#1 == nil)", false)
		nf := L("errors.Is("+qx+"#1, am/nflog.ErrNotFound)", true)
		{
			r := (&Walk{Fn: fn, Cut: e.CutContradicting(qerr, nf.Neg())}).FromEntry()
			o.Check(!r.Has(nu), "query-error-ignored", "a failing log query (other than not-found) is treated as 'never notified'", nu)
		}
		// dispatcher context: tick time and route's repeat interval
		run := o.Fn("(*am/dispatch.aggrGroup).run")
		wn := o.One(e.Calls(run, "am/notify.WithNow"), "run-now", "the flush context must carry the tick time", run)
		nowArg := e.Arg(wn, 1)
		o.Site(wn, "WithNow("+nowArg+")")
		o.Check(strings.Contains(nowArg, "recv.next.C") || strings.Contains(nowArg, "select["), "run-now-arg", "the flush clock must be the time received from the group's timer, is "+nowArg, wn)
		wri := o.One(e.Calls(run, "am/notify.WithRepeatInterval"), "run-repeat", "the flush context must carry the route's repeat interval", run)
		o.Check(e.Arg(wri, 1) == "recv.opts.RepeatInterval", "run-repeat-arg", "the repeat interval in the context must be the route's, is "+e.Arg(wri, 1), wri)
		o.MinSites(3)
	})

	reg("C04", "C04.3", "T11,T6", "SetNotifiesStage logs this flush's hashes for (receiver, group) with expiry 2×repeat; Log keeps min(retention, expiry) and stamps now", func(o *Ob) {
		e := o.E
		fn := o.Fn("(am/notify.SetNotifiesStage).Exec")
		lg := o.One(e.Calls(fn, "invoke:am/notify.NotificationLog.Log"), "log-call", "SetNotifiesStage must record the notification", fn)
		var as []string
		for i := 1; i <= 6; i++ {
			a := stripCtx(e.Arg(lg, i))
			// an argument read from a local struct that a helper filled: the value the field was given
			if i-1 < len(lg.Common().Args) {
				var vals []string
				for _, alt := range e.FieldAlternatives(fn, lg.Common().Args[i-1]) {
					if alt != "zero" {
						vals = append(vals, stripCtx(alt))
					}
				}
				if len(vals) == 1 {
					a = vals[0]
				}
				// an argument joined with the zero value a helper returns next to its error: the value on the
				// paths that reach the record
				if strings.HasPrefix(a, "phi(") {
					if vs := e.ValStrs(fn, e.ValsAt((&Walk{Fn: fn}).FromEntry(), lg, lg.Common().Args[i-1])); len(vs) == 1 {
						a = stripCtx(vs[0])
					}
				}
			}
			as = append(as, a)
		}
		o.Site(lg, "Log("+strings.Join(as, ", ")+")")
		o.Check(strings.HasSuffix(as[0], ".recv") || as[0] == "recv.recv", "log-recv", "the entry must be logged for this stage's receiver, is "+as[0], lg)
		o.Check(as[1] == "am/notify.GroupKey(ctx)#0", "log-gkey", "the entry must be logged under the flush's group key, is "+as[1], lg)
		o.Check(strings.HasPrefix(as[2], "am/notify.FiringAlerts(") && strings.HasSuffix(as[2], "#0"), "log-firing", "the logged firing hashes must be this flush's (from the context), are "+as[2], lg)
		o.Check(strings.HasPrefix(as[3], "am/notify.ResolvedAlerts(") && strings.HasSuffix(as[3], "#0"), "log-resolved", "the logged resolved hashes must be this flush's (from the context), are "+as[3], lg)
		o.Check(strings.HasPrefix(as[4], "am/notify.NflogStore(") && strings.HasSuffix(as[4], "#0"), "log-store", "receiver data must come from the context's store, is "+as[4], lg)
		twice := strings.HasPrefix(as[5], "(2 * am/notify.RepeatInterval(") || strings.HasPrefix(as[5], "(am/notify.RepeatInterval(") && strings.HasSuffix(as[5], " * 2)") ||
			regexpMatch(`\((am/notify\.RepeatInterval\(.*\)#0) \+ (am/notify\.RepeatInterval\(.*\)#0)\)`, as[5]) && strings.Count(as[5], "am/notify.RepeatInterval(") == 2
		o.Check(twice, "log-expiry", "the entry must be kept for 2×repeat_interval, expiry is "+as[5], lg)
		// always then: the only exits that skip the record are the ones for a flush context without its values
		{
			missing := LRe(`am/notify\.(GroupKey|FiringAlerts|ResolvedAlerts|RepeatInterval)\(.*\)#1`, false)
			for _, ret := range (&Walk{Fn: fn, Barrier: IsInstr(lg)}).FromEntry().Returns() {
				o.Guarded(ret, "log-skipped", "leaving the record stage without recording a delivered notification (it would be sent again at the next flush)", missing)
			}
		}
		// the stage returns Log's error
		for _, rs := range e.ResultStores(fn, 2) {
			if (&Walk{Fn: fn}).After(lg).Has(rs.Instr) || rs.Instr.Block() == lg.Block() {
				lx := e.X(fn, lg.(*ssa.Call))
				okv := e.X(fn, rs.Val) == lx || strings.Contains(e.X(fn, rs.Val), "NotificationLog.Log(")
				if !okv && isNilConst(rs.Val) {
					// "if err != nil { return err }; return nil": the nil stands for Log's nil
					okv = e.OnlyUnder(rs.Instr, L("("+lx+" == nil)", true))
				}
				o.Check(okv, "log-error-dropped", "a failure to record the notification is not reported", rs.Instr)
			}
		}
		// Log
		l := o.Fn("(*am/nflog.Log).Log")
		now := "(*am/nflog.Log).now(recv)"
		exp := e.StoresToField(l, "am/nflog/nflogpb.MeshEntry", "ExpiresAt")
		o.Require(len(exp) == 1, "log-expires", "Log must set the entry's expiry once", nil)
		var expArg ssa.Value
		if c, ok := exp[0].Val.(*ssa.Call); ok && calleeName(&c.Call) == "timestamppb.New" {
			expArg = c.Call.Args[0]
		}
		o.Require(expArg != nil, "log-expires-shape", "the entry's expiry is not a timestamp built from a time", exp[0])
		wantR, wantE := "(time.Time).Add("+now+", recv.retention)", "(time.Time).Add("+now+", p5)"
		posE, ltR := L("(p5 < 1)", false), LAny(true, "(p5 < recv.retention)")
		o.Check(e.CountLitEdges(l, posE)+e.CountLitEdges(l, posE.Neg()) > 0 && e.CountLitEdges(l, ltR)+e.CountLitEdges(l, ltR.Neg()) > 0,
			"log-expiry-cases", "the expiry must be now+retention, or now+expiry when 0 < expiry < retention: Log no longer compares the requested expiry with 0 and the retention", exp[0])
		for _, cs := range []struct {
			name   string
			assume []LitM
			want   string
		}{
			{"a requested expiry shorter than the retention", A(posE, ltR), wantE},
			{"no requested expiry", A(posE.Neg()), wantR},
			{"a requested expiry not shorter than the retention", A(ltR.Neg()), wantR},
		} {
			r := (&Walk{Fn: l, Cut: e.CutContradicting(cs.assume...)}).FromEntry()
			if !o.Check(r.Has(exp[0]), "log-expiry-unset", "with "+cs.name+" the entry gets no expiry", exp[0]) {
				continue
			}
			xs := e.XsAt(r, exp[0], expArg)
			o.SiteS("ExpiresAt with " + cs.name + " ∈ {" + strings.Join(xs, " , ") + "}")
			for _, x := range xs {
				o.Check(x == cs.want, "log-expiry-foreign", "with "+cs.name+" the entry's expiry may be "+x+", must be "+cs.want, exp[0])
			}
		}
		ts := e.StoresToField(l, "am/nflog/nflogpb.Entry", "Timestamp")
		o.Check(len(ts) == 1 && e.X(l, ts[0].Val) == "timestamppb.New("+now+")", "log-timestamp", "the entry must be stamped with the log's current time", nil)
		for f, want := range map[string]string{"Receiver": "p0", "GroupKey": "conv:[]byte(p1)", "FiringAlerts": "p2", "ResolvedAlerts": "p3"} {
			st := e.StoresToField(l, "am/nflog/nflogpb.Entry", f)
			o.Check(len(st) == 1 && e.X(l, st[0].Val) == want, "log-field|"+f, "Entry."+f+" must be "+want, nil)
		}
		rd := e.StoresToField(l, "am/nflog/nflogpb.Entry", "ReceiverData")
		o.Check(len(rd) == 1 && (e.X(l, rd[0].Val) == "phi(nil|p4.data)" || e.X(l, rd[0].Val) == "p4.data"), "log-field|ReceiverData", "Entry.ReceiverData must be the store's data", nil)
		o.MinSites(2)
	})

	reg("C04", "C04.4", "T2,T6", "a notification is recorded only after success and always then: MultiStage stops at the first failing stage and otherwise runs every stage; Log skips only entries from the future", func(o *Ob) {
		multiStageRule(o)
		_, inner := pipelineOrder(o)
		r, s := indexOfPrefix(inner, "am/notify.NewRetryStage("), indexOfPrefix(inner, "am/notify.NewSetNotifiesStage(")
		d := indexOfPrefix(inner, "am/notify.NewDedupStage(")
		o.Check(d >= 0 && r >= 0 && s >= 0 && d < r && r < s, "chain-order", "each integration's chain must be dedup → retry(send) → set-notifies(record), is "+strings.Join(inner, " → "), nil)
		o.Check(s == len(inner)-1, "record-not-last", "recording the notification must be the last stage of the chain", nil)
		nflogLogRule(o)
		integrationLogKeyRule(o)
		o.MinSites(3)
	})

	reg("C04", "C04.5", "T4,T1", "every access to the log state uses stateKey(group key, receiver); Query returns exactly the entry at that key or ErrNotFound; GC deletes iff expiry is not after now", func(o *Ob) {
		e := o.E
		n := 0
		for _, fn := range e.FuncsOfPkg("am/nflog") {
			for _, in := range AllInstrs(fn) {
				var m, k ssa.Value
				switch x := in.(type) {
				case *ssa.Lookup:
					m, k = x.X, x.Index
				case *ssa.MapUpdate:
					m, k = x.Map, x.Key
				}
				if m == nil || typeKey(m.Type()) != "am/nflog.state" {
					continue
				}
				n++
				ks := e.X(fn, k)
				o.Site(in, "state["+ks+"]")
				okKey := strings.HasPrefix(ks, "am/nflog.stateKey(")
				if fnName(fn) == "am/nflog.decodeState" || fnName(fn) == "(am/nflog.state).clone" {
					okKey = okKey || true
					if fnName(fn) == "am/nflog.decodeState" {
						// (the key as it is on the paths that reach the write: a key joined with a validity flag is
						// the computed key wherever the flag lets the write happen)
						okKey = true
						r := (&Walk{Fn: fn}).FromEntry()
						for _, v := range e.ValStrs(fn, e.ValsAt(r, in, k)) {
							if !strings.HasPrefix(v, "am/nflog.stateKey(") {
								okKey = false
								ks = v
							}
						}
					}
				}
				o.Check(okKey, "key|"+fnName(fn), "the log state is indexed with "+ks+" instead of stateKey(group key, receiver)", in)
			}
		}
		o.Check(n >= 4, "few-index-sites", "implausibly few accesses to the log state", nil)
		sk := o.Fn("am/nflog.stateKey")
		rets := (&Walk{Fn: sk}).FromEntry().Returns()
		o.Require(len(rets) == 1, "statekey", "stateKey must be a single expression", nil)
		v := e.X(sk, rets[0].Results[0])
		o.Site(rets[0], "stateKey = "+v)
		fieldsOf := func(f *ssa.Function, ret *ssa.Return, prefix string) map[string]bool {
			out := map[string]bool{}
			for sv := range e.Sources(ret.Results[0], true) {
				x := e.X(f, sv)
				if (x == prefix || strings.HasPrefix(x, prefix+".")) && !strings.Contains(x, "(") {
					out[x] = true
				}
			}
			return out
		}
		if rk := o.FnOpt("am/nflog.receiverKey"); rk != nil && len(e.Calls(sk, "am/nflog.receiverKey")) > 0 {
			o.Check(strings.Contains(v, "p0") && strings.Contains(v, "am/nflog.receiverKey(p1)"), "statekey-parts", "the state key must combine the group key and the receiver key, is "+v, rets[0])
			rr := (&Walk{Fn: rk}).FromEntry().Returns()
			if o.Check(len(rr) == 1, "receiverkey", "receiverKey must be a single expression", nil) {
				parts := fieldsOf(rk, rr[0], "p0")
				for _, f := range []string{"p0.GroupName", "p0.Integration", "p0.Idx"} {
					o.Check(parts[f], "receiverkey-part|"+f, "the receiver key no longer includes "+f+": two integrations of a receiver could share a log entry", rr[0])
				}
			}
		} else {
			// the receiver's part written out in the state key itself
			parts := fieldsOf(sk, rets[0], "p1")
			o.Check(fieldsOf(sk, rets[0], "p0")["p0"], "statekey-parts", "the state key must include the group key, is "+clip(v), rets[0])
			for _, f := range []string{"p1.GroupName", "p1.Integration", "p1.Idx"} {
				o.Check(parts[f], "receiverkey-part|"+strings.Replace(f, "p1.", "p0.", 1), "the state key no longer includes the receiver's "+f[3:]+": two integrations of a receiver could share a log entry", rets[0])
			}
			// the pieces are kept apart: a separator stands between any two of them
			o.Check(strings.Count(v, `"/"`)+strings.Count(v, `"%s`) >= 1 && (strings.Contains(v, `":"`) || strings.Contains(v, `%s:`)), "statekey-parts", "the pieces of the state key are not separated, is "+clip(v), rets[0])
		}
		// Query
		var qf *ssa.Function
		qfn := o.Fn("(*am/nflog.Log).Query")
		for _, a := range append([]*ssa.Function{qfn}, Anons(qfn)...) {
			for _, in := range AllInstrs(a) {
				if lk, ok := in.(*ssa.Lookup); ok && typeKey(lk.X.Type()) == "am/nflog.state" {
					qf = a
				}
			}
		}
		o.Require(qf != nil, "query-fn", "Log.Query no longer looks the entry up", nil)
		var lk *ssa.Lookup
		for _, in := range AllInstrs(qf) {
			if x, ok := in.(*ssa.Lookup); ok && typeKey(x.X.Type()) == "am/nflog.state" {
				lk = x
			}
		}
		lx := e.X(qf, lk)
		o.Check(strings.Contains(lx, "[am/nflog.stateKey(&complit:am/nflog.query.groupKey, &complit:am/nflog.query.recv)]") || strings.Contains(lx, "stateKey("), "query-key", "Query must read the state at stateKey(groupKey, recv)", lk)
		has := L(lx+"#1", true)
		nnf := 0
		for _, in := range AllInstrs(qf) {
			// the not-found error is read where it is returned
			if ld, ok := in.(*ssa.UnOp); ok && ld.Op == token.MUL {
				if g, ok := ld.X.(*ssa.Global); ok && g.Name() == "ErrNotFound" && g.Pkg.Pkg.Path() == long("am/nflog") {
					nnf++
					o.Site(in, "not found")
					o.Guarded(in, "query-notfound-guard", "answering not-found", has.Neg())
				}
			}
		}
		o.Check(nnf >= 1, "query-notfound", "Query never answers not-found", lk)
		held, why := e.HeldAt(lk, lk.X.(*ssa.UnOp).X.(*ssa.FieldAddr).X, "mtx", 'R', 2)
		o.Check(held, "query-lock", "Query reads the state without the lock: "+why, lk)
		// GC
		gc := o.Fn("(*am/nflog.Log).GC")
		var del ssa.Instruction
		for _, in := range AllInstrs(gc) {
			if isBuiltinCall("delete")(in) {
				del = in
			}
		}
		o.Require(del != nil, "gc-delete", "GC no longer deletes", nil)
		o.Site(del, "GC delete")
		live := LRe(`\(\(\*am/nflog\.Log\)\.now\(recv\) <t next\(range\(recv\.st\)\)#2\.ExpiresAt\.AsTime\)`, true)
		o.Guarded(del, "gc-guard", "deleting a log entry", live.Neg())
		o.Check(e.X(gc, del.(*ssa.Call).Call.Args[0]) == "recv.st" && e.X(gc, del.(*ssa.Call).Call.Args[1]) == "next(range(recv.st))#1", "gc-key", "GC must delete the entry it examined", del)
		l := e.LoopOf(del)
		if o.Check(l != nil, "gc-loop", "GC does not iterate", del) {
			bi, _ := l.BodyEntry()
			r := (&Walk{Fn: gc, Cut: e.CutContradicting(live.Neg(), L("(time.Time).IsZero(next(range(recv.st))#2.ExpiresAt.AsTime)", false)), Barrier: IsInstr(del)}).FromEdge(l.Header, bi)
			back := false
			for _, be := range l.Back {
				if r.Edge[be] {
					back = true
				}
			}
			o.Check(!back, "gc-forced", "an entry past its expiry can survive garbage collection", del)
		}
		o.MinSites(6)
	})

	reg("C04", "C04.7", "T1,T12", "alerts are partitioned by Resolved(); the alert hash is a function of the sorted label pairs only", func(o *Ob) {
		e := o.E
		fn := o.Fn("am/notify.partitionAlertsByState")
		res := LRe(`\(\*model\.Alert\)\.Resolved\(p0\[i\](\.Alert)?\)`, true)
		rets := (&Walk{Fn: fn}).FromEntry().Returns()
		o.Require(len(rets) == 1 && len(rets[0].Results) == 4, "partition-ret", "partitionAlertsByState must return (firing, resolved, firingSet, resolvedSet)", nil)
		for i, want := range []LitM{res.Neg(), res} {
			_, parts := e.AppendParts(rets[0].Results[i])
			o.Check(len(parts) >= 1, "partition-empty|"+itoa(i), "result #"+itoa(i)+" is never filled", rets[0])
			for _, p := range parts {
				o.Site(p.Call, "result #"+itoa(i)+" gets "+e.X(fn, p.V))
				o.Guarded(p.Call, "partition-guard|"+itoa(i), "classifying an alert", want)
				o.Check(e.X(fn, p.V) == "dyn(fn=p1, p0[i])", "partition-hash|"+itoa(i), "the recorded value must be the hash of the alert under test", p.Call)
			}
		}
		// sets
		for i, want := range []LitM{res.Neg(), res} {
			mm, ok := rets[0].Results[2+i].(*ssa.MakeMap)
			if !o.Check(ok, "partition-set|"+itoa(i), "result set #"+itoa(i)+" is not a fresh map", rets[0]) {
				continue
			}
			n := 0
			for _, in := range AllInstrs(fn) {
				if mu, ok := in.(*ssa.MapUpdate); ok && mu.Map == ssa.Value(mm) {
					n++
					o.Guarded(in, "partition-set-guard|"+itoa(i), "adding to a hash set", want)
				}
			}
			o.Check(n >= 1, "partition-set-empty|"+itoa(i), "hash set #"+itoa(i)+" is never filled", rets[0])
		}
		for _, l := range e.Loops(fn) {
			coll, kind := e.RangeOver(l)
			o.Check(coll == "p0" && kind == "index" && len(e.EarlyExits(l)) == 0, "partition-range", "every alert of the batch must be classified", rets[0])
		}
		// hashAlert: deterministic
		h := o.Fn("am/notify.hashAlert")
		srt := e.Calls(h, "sort.Sort")
		o.Check(len(srt) >= 1, "hash-unsorted", "hashAlert iterates a map without sorting the label names: the hash would differ between flushes and every flush would look like 'new alerts'", nil)
		for _, in := range AllInstrs(h) {
			if c, ok := in.(ssa.CallInstruction); ok {
				n := calleeName(c.Common())
				bad := strings.HasPrefix(n, "time.") || strings.HasPrefix(n, "math/rand") || strings.HasPrefix(n, "crypto/rand") || strings.HasPrefix(n, "os.")
				o.Check(!bad, "hash-impure", "hashAlert calls "+n, in)
			}
		}
		sum := e.Calls(h, "github.com/cespare/xxhash/v2.Sum64")
		o.Check(len(sum) == 1, "hash-fn", "hashAlert must hash the serialised label pairs", nil)
		for _, c := range srt {
			o.Site(c, "label names sorted")
			for _, s := range sum {
				o.Check(InstrDominates(c, s), "hash-sort-late", "label names are sorted after hashing", s)
			}
		}
		o.MinSites(3)
	})
}

// subsetTestsRule: "did the previous notification already list these alerts" is a subset test of this flush's
// hashes against the hashes of the logged entry.  IsFiringSubset looks at the entry's firing hashes, IsResolvedSubset
// at its resolved ones, every hash of the entry takes part, and isSubset answers false exactly when some element of
// the asked set is missing.
func subsetTestsRule(o *Ob) {
	e := o.E
	for _, s := range []struct{ fn, field string }{{"IsFiringSubset", "FiringAlerts"}, {"IsResolvedSubset", "ResolvedAlerts"}} {
		fn := o.Fn("(*am/nflog/nflogpb.Entry)." + s.fn)
		c := o.One(e.Calls(fn, "am/nflog/nflogpb.isSubset"), "delegate|"+s.fn, s.fn+" must decide through isSubset", fn)
		o.Site(c, s.fn)
		set := e.Arg(c, 0)
		o.Check(e.Arg(c, 1) == "p0", "asked|"+s.fn, "the set asked about must be the caller's, is "+e.Arg(c, 1), c)
		// the answer is the subset test's; the two trivial cases may be answered early: an empty asked set is a
		// subset of anything, a non-empty one of no empty list
		askedEmpty := LRe(`\(len\(p0\) == 0\)|\(len\(p0\) < 1\)`, true)
		entryEmpty := LRe(`\(len\(recv\.`+s.field+`\) == 0\)|\(len\(recv\.`+s.field+`\) < 1\)`, true)
		underAskedEmpty := (&Walk{Fn: fn, Cut: e.CutContradicting(askedEmpty)}).FromEntry()
		for _, ret := range (&Walk{Fn: fn}).FromEntry().Returns() {
			for _, a := range AltsOf(ret.Results[0]) {
				switch v := e.X(fn, a.V); {
				case v == e.X(fn, c.(*ssa.Call)):
				case v == "true":
					o.Check(e.OnlyUnder(ret, askedEmpty) || e.AltUnder(a, askedEmpty), "answer-true|"+s.fn, s.fn+" answers 'already listed' without the subset test for a non-empty asked set", ret)
				case v == "false":
					o.Check((e.OnlyUnder(ret, entryEmpty) || e.AltUnder(a, entryEmpty)) && (a.Pred == nil && !underAskedEmpty.Has(ret) || a.Pred != nil && e.AltUnder(a, askedEmpty.Neg())), "answer-false|"+s.fn, s.fn+" answers 'not listed' without the subset test although the entry has hashes or nothing was asked", ret)
				default:
					o.Fail("answer|"+s.fn, s.fn+" must return the subset test's answer, returns "+clip(v), ret)
				}
			}
		}
		n := 0
		for _, in := range AllInstrs(fn) {
			m, ok := in.(*ssa.MapUpdate)
			if !ok || e.X(fn, m.Map) != set {
				continue
			}
			n++
			o.Check(e.X(fn, m.Key) == "recv."+s.field+"[i]", "members|"+s.fn, s.fn+" must compare against the entry's "+s.field+", uses "+e.X(fn, m.Key), m)
			if l := e.LoopOf(m); o.Check(l != nil, "members-loop|"+s.fn, "the entry's hashes must be collected in a loop", m) {
				coll, _ := e.RangeOver(l)
				o.Check(coll == "recv."+s.field && len(e.EarlyExits(l)) == 0 && !loopBackWithout(o, l, IsInstr(m), nil), "members-all|"+s.fn, "a hash of the entry can be left out of the comparison", m)
				o.Check(InstrDominates(m, c) || blockReaches(m.Block(), c.Block()), "members-order|"+s.fn, "the hashes are collected after the test", m)
			}
		}
		o.Check(n == 1, "members-site|"+s.fn, s.fn+" must collect the entry's "+s.field+" once", c)
	}
	is := o.Fn("am/nflog/nflogpb.isSubset")
	o.Site(fnFirst(is), "isSubset")
	ls := e.Loops(is)
	if o.Check(len(ls) == 1, "subset-loop", "isSubset must be one loop over the asked set", fnFirst(is)) {
		coll, _ := e.RangeOver(ls[0])
		o.Check(coll == "p1", "subset-range", "isSubset must range over the asked set, ranges over "+coll, fnFirst(is))
	}
	has := L("p0[next(range(p1))#1]#1", true)
	more := L("next(range(p1))#0", true)
	// a larger set is never a subset: a size test in front of the loop may answer false early (pigeonhole), so the
	// "true" rows are stated for asked sets that are not larger
	larger := LRe(`\(len\(p0\) < len\(p1\)\)`, true)
	o.Table(is, "subset", []Row{
		{Name: "an element is missing", Assume: A(more, has.Neg()), Ret: [][]string{Vals("false")}},
		{Name: "every element found", Assume: A(has), Opt: A(larger.Neg()), Ret: [][]string{Vals("true")}},
		{Name: "empty asked set", Assume: A(more.Neg()), Opt: A(larger.Neg()), Ret: [][]string{Vals("true")}},
	})
	// the only early answer besides a missing element is that size test
	for _, ret := range (&Walk{Fn: is, Cut: e.CutContradicting(larger.Neg())}).FromEntry().Returns() {
		if e.X(is, ret.Results[0]) == "false" {
			o.Guarded(ret, "subset-false", "answering 'not a subset'", has.Neg())
		}
	}
}

func init() {
	desc := "IsFiringSubset / IsResolvedSubset compare against all firing / resolved hashes of the logged entry; isSubset is false exactly when an asked hash is missing"
	reg("C04", "C04.14", "T6,T8", "'already notified' is a subset test: "+desc, func(o *Ob) { subsetTestsRule(o); o.MinSites(3) })
	reg("C05", "C05.13", "T6,T8", "'already reported resolved' is a subset test: "+desc, func(o *Ob) { subsetTestsRule(o); o.MinSites(3) })
	reg("C08", "C08.13", "T6,T8", "'another instance already sent this' is a subset test: "+desc, func(o *Ob) { subsetTestsRule(o); o.MinSites(3) })
	reg("C10", "C10.13", "T6,T8", "what is read from a stored entry is what it holds: "+desc, func(o *Ob) { subsetTestsRule(o); o.MinSites(3) })
}
