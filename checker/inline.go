package main

import (
	_ "embed"
	"fmt"
	"go/constant"
	"go/types"
	"reflect"
	"sort"
	"strings"
	"unsafe"

	"golang.org/x/tools/go/ssa"
)

// ---------------------------------------------------------------------------
// Transparent helpers.
//
// Every rule of this checker is anchored in functions that exist in the
// reference tree (baseline_funcs.txt, the module's functions at the commit the
// rules were confirmed on).  A function that is NOT in that list is a helper
// introduced by a later change; no rule can name it, so the rules would lose
// sight of whatever moved into it.  Such helpers are therefore made
// transparent: every static call of one is replaced, in the resolved program,
// by the helper's body (parameters bound to the arguments, returns turned into
// jumps to the continuation, results joined by phis).  The rules then see the
// caller as if the code had never been moved, and decide the same obligations
// on it.  On the reference tree itself nothing is inlined.
//
// go/ssa offers no API to edit functions; instructions are cloned by reflection
// and the unexported block / type / parent links are set through unsafe.  The
// dominator tree of go/ssa is stale afterwards, so this package computes its own
// (dominates below).
// ---------------------------------------------------------------------------

//go:embed baseline_funcs.txt
var baselineFuncsTxt string

// baselineFuncs: the functions of the reference tree; baselineLitSig: for a function literal, its
// signature there (a literal is named by its ordinal within its parent, so a literal of another
// shape under the same name is a different literal).
var baselineFuncs, baselineLitSig = func() (map[string]bool, map[string]string) {
	m, sig := map[string]bool{}, map[string]string{}
	for _, l := range strings.Split(baselineFuncsTxt, "\n") {
		l = strings.TrimSpace(l)
		if l == "" || strings.HasPrefix(l, "#") {
			continue
		}
		if i := strings.Index(l, "\t"); i >= 0 {
			sig[l[:i]] = l[i+1:]
			l = l[:i]
		}
		m[l] = true
	}
	return m, sig
}()

func setUnexported(obj any, field string, val any) {
	v := reflect.ValueOf(obj).Elem()
	f := v.FieldByName(field)
	if !f.IsValid() {
		panic(fmt.Sprintf("inline: %T has no field %s", obj, field))
	}
	dst := reflect.NewAt(f.Type(), unsafe.Pointer(f.UnsafeAddr())).Elem()
	if val == nil {
		dst.Set(reflect.Zero(f.Type()))
		return
	}
	dst.Set(reflect.ValueOf(val))
}

func setBlock(in ssa.Instruction, b *ssa.BasicBlock) { setUnexported(in, "block", b) }

func newBlock(fn *ssa.Function, comment string) *ssa.BasicBlock {
	b := &ssa.BasicBlock{Comment: comment}
	setUnexported(b, "parent", fn)
	return b
}

// cloneInstr makes a copy of in that shares no operand storage with it.
func cloneInstr(in ssa.Instruction) ssa.Instruction {
	rv := reflect.ValueOf(in)
	nv := reflect.New(rv.Type().Elem())
	nv.Elem().Set(rv.Elem())
	ni := nv.Interface().(ssa.Instruction)
	switch x := ni.(type) {
	case *ssa.Phi:
		x.Edges = append([]ssa.Value(nil), x.Edges...)
	case *ssa.Call:
		x.Call.Args = append([]ssa.Value(nil), x.Call.Args...)
	case *ssa.Go:
		x.Call.Args = append([]ssa.Value(nil), x.Call.Args...)
	case *ssa.Defer:
		x.Call.Args = append([]ssa.Value(nil), x.Call.Args...)
	case *ssa.MakeClosure:
		x.Bindings = append([]ssa.Value(nil), x.Bindings...)
	case *ssa.Return:
		x.Results = append([]ssa.Value(nil), x.Results...)
	case *ssa.Select:
		st := make([]*ssa.SelectState, len(x.States))
		for i, s := range x.States {
			c := *s
			st[i] = &c
		}
		x.States = st
	}
	if v, ok := ni.(ssa.Value); ok {
		if r := v.Referrers(); r != nil {
			*r = nil
		}
	}
	// no operand slot may be shared with the original
	a, b := in.Operands(nil), ni.Operands(nil)
	for i := range a {
		if i < len(b) && a[i] == b[i] {
			panic(fmt.Sprintf("inline: clone of %T shares operand storage", in))
		}
	}
	return ni
}

// forceTransparent: small private helpers of the reference tree that the rules read through (the
// rule is stated over the caller with the helper's body in place), so that neither moving code
// into such a helper nor folding the helper back into its caller changes what the rule sees.
var forceTransparent = map[string]string{
	"(*am/config.Coordinator).loadFromFile":      "C17.7 reads Reload as: LoadFile, store, notify",
	"(*am/config.Coordinator).notifySubscribers": "C17.7 reads Reload as: LoadFile, store, call every subscriber",
	"(*am/silence.Silences).Maintenance$2":       "C11.3 reads Maintenance with the run wrapper in place: the maintenance function is called on every tick and at shutdown",
	"(*am/nflog.Log).Maintenance$2":              "C11.3, as for silences",
	"(am/silence.matcherIndex).get":              "C02.8 reads the match filter as: look the silence's compiled matchers up in the store's index, evaluate them",
}

// isNewFunc: the function (or, for a literal, the literal itself) is not part of the reference tree
// (or is one of the helpers the rules read through).
func isNewFunc(f *ssa.Function) bool {
	if f == nil || !strings.HasPrefix(fnPkgPath(f), Mod) {
		return false
	}
	if f.Synthetic != "" && f.Origin() == nil {
		return false
	}
	if _, ok := forceTransparent[fnName(f)]; ok {
		return true
	}
	if s, ok := baselineLitSig[fnName(f)]; ok && f.Parent() != nil && s != f.Signature.String() {
		return true
	}
	return !baselineFuncs[fnName(f)]
}

type inliner struct {
	touched  map[*ssa.Function]bool
	dropped  map[*ssa.Function]bool
	e        *Eng
	newFuncs map[*ssa.Function]bool
	recCache map[*ssa.Function]bool
	Log      []string
}

// recursive: f can reach itself through static calls of new functions.
func (il *inliner) recursive(f *ssa.Function) bool {
	if v, ok := il.recCache[f]; ok {
		return v
	}
	seen := map[*ssa.Function]bool{}
	var rec func(g *ssa.Function) bool
	rec = func(g *ssa.Function) bool {
		for _, b := range g.Blocks {
			for _, in := range b.Instrs {
				ci, ok := in.(ssa.CallInstruction)
				if !ok {
					continue
				}
				c := ci.Common().StaticCallee()
				if c == nil {
					continue
				}
				if c == f {
					return true
				}
				if il.newFuncs[c] && !seen[c] {
					seen[c] = true
					if rec(c) {
						return true
					}
				}
			}
		}
		return false
	}
	r := rec(f)
	il.recCache[f] = r
	return r
}

// eligible decides whether the call can be replaced by the callee's body.
func (il *inliner) eligible(call *ssa.Call) (*ssa.Function, string) {
	if call.Call.IsInvoke() {
		return nil, ""
	}
	f := call.Call.StaticCallee()
	if f == nil || !il.newFuncs[f] {
		return nil, ""
	}
	if len(f.Blocks) == 0 {
		return nil, "no body"
	}
	if callsRecover(f) {
		return nil, "recovers"
	}
	if f == call.Parent() || il.recursive(f) {
		return nil, "recursive"
	}
	if len(call.Call.Args) != len(f.Params) {
		return nil, "arity"
	}
	if len(f.FreeVars) > 0 {
		mc, ok := call.Call.Value.(*ssa.MakeClosure)
		if !ok || len(mc.Bindings) != len(f.FreeVars) {
			return nil, "free variables not bound at the call"
		}
	}
	n, nret := 0, 0
	live := reachableBlocks(f)
	var defers []*ssa.Defer
	var runs []*ssa.RunDefers
	for _, b := range f.Blocks {
		if !live[b] {
			continue
		}
		for _, in := range b.Instrs {
			n++
			switch x := in.(type) {
			case *ssa.Defer:
				defers = append(defers, x)
			case *ssa.RunDefers:
				runs = append(runs, x)
			case *ssa.Return:
				nret++
			}
		}
	}
	// a deferred call is replayed at an exit it dominates and omitted at an exit it cannot reach
	for _, d := range defers {
		for _, r := range runs {
			if !InstrDominates(d, r) && blockReaches(d.Block(), r.Block()) {
				return nil, "conditional defer"
			}
		}
		if l := loopHeaderOf(d.Block()); l {
			return nil, "defer in a loop"
		}
	}
	if n > 600 {
		return nil, "too large"
	}
	if nret == 0 {
		return nil, "never returns"
	}
	if f.Signature.Results().Len() > 1 {
		if refs := call.Referrers(); refs != nil {
			for _, r := range *refs {
				if _, ok := r.(*ssa.Extract); !ok {
					return nil, "tuple used directly"
				}
			}
		}
	}
	return f, ""
}

func reachableBlocks(f *ssa.Function) map[*ssa.BasicBlock]bool {
	live := map[*ssa.BasicBlock]bool{}
	if len(f.Blocks) == 0 {
		return live
	}
	st := []*ssa.BasicBlock{f.Blocks[0]}
	for len(st) > 0 {
		b := st[len(st)-1]
		st = st[:len(st)-1]
		if live[b] {
			continue
		}
		live[b] = true
		st = append(st, b.Succs...)
	}
	return live
}

func blockReaches(a, b *ssa.BasicBlock) bool {
	seen := map[*ssa.BasicBlock]bool{}
	st := []*ssa.BasicBlock{a}
	for len(st) > 0 {
		x := st[len(st)-1]
		st = st[:len(st)-1]
		if x == b {
			return true
		}
		if seen[x] {
			continue
		}
		seen[x] = true
		st = append(st, x.Succs...)
	}
	return false
}

// loopHeaderOf: the block lies on a cycle.
func loopHeaderOf(b *ssa.BasicBlock) bool {
	for _, s := range b.Succs {
		if blockReaches(s, b) {
			return true
		}
	}
	return false
}

// callsRecover: f or one of its literals calls recover().
func callsRecover(f *ssa.Function) bool {
	fs := append([]*ssa.Function{f}, Anons(f)...)
	for _, g := range fs {
		for _, b := range g.Blocks {
			for _, in := range b.Instrs {
				if c, ok := in.(*ssa.Call); ok {
					if bi, ok := c.Call.Value.(*ssa.Builtin); ok && bi.Name() == "recover" {
						return true
					}
				}
			}
		}
	}
	return false
}

// inlineCall splices the body of f in place of call.
func (il *inliner) inlineCall(call *ssa.Call, f *ssa.Function) {
	g := call.Parent()
	B := call.Block()
	k := -1
	for i, in := range B.Instrs {
		if in == ssa.Instruction(call) {
			k = i
		}
	}
	if k < 0 {
		panic("inline: call not in its block")
	}
	// continuation block
	B2 := newBlock(g, "inl.cont")
	B2.Instrs = append([]ssa.Instruction(nil), B.Instrs[k+1:]...)
	for _, in := range B2.Instrs {
		setBlock(in, B2)
	}
	B2.Succs = append([]*ssa.BasicBlock(nil), B.Succs...)
	for _, s := range B2.Succs {
		for i, p := range s.Preds {
			if p == B {
				s.Preds[i] = B2
			}
		}
	}
	B.Instrs = append([]ssa.Instruction(nil), B.Instrs[:k]...)
	B.Succs = nil

	// clone callee
	bm := map[*ssa.BasicBlock]*ssa.BasicBlock{}
	var clones []*ssa.BasicBlock
	live := reachableBlocks(f)
	var fblocks []*ssa.BasicBlock
	for _, fb := range f.Blocks {
		if !live[fb] {
			continue // the recover block and other dead code
		}
		fblocks = append(fblocks, fb)
		nb := newBlock(g, "inl:"+f.Name()+":"+fb.Comment)
		bm[fb] = nb
		clones = append(clones, nb)
	}
	vm := map[ssa.Value]ssa.Value{}
	for i, p := range f.Params {
		vm[p] = call.Call.Args[i]
	}
	if len(f.FreeVars) > 0 {
		mc := call.Call.Value.(*ssa.MakeClosure)
		for i, fv := range f.FreeVars {
			vm[fv] = mc.Bindings[i]
		}
	}
	type retSite struct {
		blk  *ssa.BasicBlock
		vals []ssa.Value
	}
	var rets []retSite
	var defers []*ssa.Defer
	var cloned []ssa.Instruction
	emit := func(nb *ssa.BasicBlock, ni ssa.Instruction) {
		setBlock(ni, nb)
		nb.Instrs = append(nb.Instrs, ni)
		cloned = append(cloned, ni)
	}
	for _, fb := range fblocks {
		for _, in := range fb.Instrs {
			if d, ok := in.(*ssa.Defer); ok {
				defers = append(defers, d)
			}
		}
	}
	for _, fb := range fblocks {
		nb := bm[fb]
		for _, in := range fb.Instrs {
			switch x := in.(type) {
			case *ssa.Defer:
				continue
			case *ssa.RunDefers:
				for i := len(defers) - 1; i >= 0; i-- {
					d := defers[i]
					if !InstrDominates(d, x) {
						continue // not executed on the paths to this exit
					}
					c := &ssa.Call{Call: d.Call}
					c.Call.Args = append([]ssa.Value(nil), d.Call.Args...)
					var rt types.Type = types.NewTuple()
					if sig, ok := d.Call.Value.Type().Underlying().(*types.Signature); ok && !d.Call.IsInvoke() {
						switch sig.Results().Len() {
						case 0:
						case 1:
							rt = sig.Results().At(0).Type()
						default:
							rt = sig.Results()
						}
					} else if d.Call.IsInvoke() {
						sig := d.Call.Method.Type().(*types.Signature)
						switch sig.Results().Len() {
						case 0:
						case 1:
							rt = sig.Results().At(0).Type()
						default:
							rt = sig.Results()
						}
					}
					setUnexported(c, "typ", rt)
					setUnexported(c, "pos", d.Pos())
					emit(nb, c)
				}
				continue
			case *ssa.Return:
				rets = append(rets, retSite{nb, append([]ssa.Value(nil), x.Results...)})
				j := &ssa.Jump{}
				emit(nb, j)
				continue
			}
			ni := cloneInstr(in)
			if v, ok := in.(ssa.Value); ok {
				vm[v] = ni.(ssa.Value)
			}
			if a, ok := ni.(*ssa.Alloc); ok && !a.Heap {
				g.Locals = append(g.Locals, a)
			}
			emit(nb, ni)
		}
	}
	mapv := func(v ssa.Value) ssa.Value {
		if nv, ok := vm[v]; ok {
			return nv
		}
		return v
	}
	for _, ni := range cloned {
		for _, op := range ni.Operands(nil) {
			if *op != nil {
				*op = mapv(*op)
			}
		}
	}
	for _, fb := range fblocks {
		nb := bm[fb]
		for _, p := range fb.Preds {
			if !live[p] {
				panic("inline: live block with dead predecessor")
			}
			nb.Preds = append(nb.Preds, bm[p])
		}
		if len(fb.Instrs) > 0 {
			if _, isRet := fb.Instrs[len(fb.Instrs)-1].(*ssa.Return); isRet {
				nb.Succs = []*ssa.BasicBlock{B2}
				B2.Preds = append(B2.Preds, nb)
				continue
			}
		}
		for _, s := range fb.Succs {
			nb.Succs = append(nb.Succs, bm[s])
		}
	}
	// enter the callee
	entry := bm[f.Blocks[0]]
	j := &ssa.Jump{}
	setBlock(j, B)
	B.Instrs = append(B.Instrs, j)
	B.Succs = []*ssa.BasicBlock{entry}
	entry.Preds = append([]*ssa.BasicBlock{B}, entry.Preds...)
	if len(entry.Preds) > 1 {
		// phis of the entry block (a loop back to the entry) would need an edge for B; go/ssa never builds those
		for _, in := range entry.Instrs {
			if _, ok := in.(*ssa.Phi); ok {
				panic("inline: callee entry block has phis")
			}
		}
	}
	// results
	nres := f.Signature.Results().Len()
	res := make([]ssa.Value, nres)
	var phis []ssa.Instruction
	for i := 0; i < nres; i++ {
		if len(rets) == 1 {
			res[i] = mapv(rets[0].vals[i])
			continue
		}
		phi := &ssa.Phi{Comment: "inl.result"}
		setUnexported(phi, "typ", f.Signature.Results().At(i).Type())
		setUnexported(phi, "pos", call.Pos())
		setBlock(phi, B2)
		for _, p := range B2.Preds {
			for _, r := range rets {
				if r.blk == p {
					phi.Edges = append(phi.Edges, mapv(r.vals[i]))
				}
			}
		}
		if len(phi.Edges) != len(B2.Preds) {
			panic("inline: result phi edges do not match predecessors")
		}
		res[i] = phi
		phis = append(phis, phi)
	}
	B2.Instrs = append(phis, B2.Instrs...)

	// splice blocks after B
	var blocks []*ssa.BasicBlock
	for _, b := range g.Blocks {
		blocks = append(blocks, b)
		if b == B {
			blocks = append(blocks, clones...)
			blocks = append(blocks, B2)
		}
	}
	g.Blocks = blocks
	for i, b := range g.Blocks {
		b.Index = i
	}

	// replace the uses of the call's value
	repl := map[ssa.Value]ssa.Value{}
	if nres == 1 {
		repl[call] = res[0]
	} else if nres > 1 {
		for _, b := range g.Blocks {
			var keep []ssa.Instruction
			for _, in := range b.Instrs {
				if ex, ok := in.(*ssa.Extract); ok && ex.Tuple == ssa.Value(call) {
					repl[ex] = res[ex.Index]
					continue
				}
				keep = append(keep, in)
			}
			b.Instrs = keep
		}
	}
	// a replacement may itself be replaced (extract of a call returning an extract…): resolve chains
	resolve := func(v ssa.Value) ssa.Value {
		for i := 0; i < 8; i++ {
			nv, ok := repl[v]
			if !ok {
				return v
			}
			v = nv
		}
		return v
	}
	for _, b := range g.Blocks {
		for _, in := range b.Instrs {
			for _, op := range in.Operands(nil) {
				if *op != nil {
					*op = resolve(*op)
				}
			}
		}
	}
	rebuildReferrers(g)
}

// simplifyCFG folds branches on constants (an inlined helper called with a constant argument)
// and drops the code that became unreachable, so that rules enumerating the call sites of a
// function do not see dead copies.
func simplifyCFG(g *ssa.Function) {
	removePred := func(s, p *ssa.BasicBlock) {
		for j, q := range s.Preds {
			if q == p {
				s.Preds = append(s.Preds[:j:j], s.Preds[j+1:]...)
				for _, in := range s.Instrs {
					phi, ok := in.(*ssa.Phi)
					if !ok {
						break
					}
					phi.Edges = append(phi.Edges[:j:j], phi.Edges[j+1:]...)
				}
				return
			}
		}
	}
	for round := 0; round < 8; round++ {
		changed := false
		for _, b := range g.Blocks {
			if len(b.Instrs) == 0 {
				continue
			}
			iff, ok := b.Instrs[len(b.Instrs)-1].(*ssa.If)
			if !ok {
				continue
			}
			v, known := evalCond(iff.Cond, pctx{})
			if !known {
				if k, isK := iff.Cond.(*ssa.Const); isK && k.Value != nil && k.Value.Kind() == constant.Bool {
					v, known = constant.BoolVal(k.Value), true
				}
			}
			if !known {
				continue
			}
			taken, other := b.Succs[0], b.Succs[1]
			if !v {
				taken, other = other, taken
			}
			j := &ssa.Jump{}
			setBlock(j, b)
			b.Instrs[len(b.Instrs)-1] = j
			b.Succs = []*ssa.BasicBlock{taken}
			removePred(other, b)
			changed = true
		}
		live := reachableBlocks(g)
		var keep []*ssa.BasicBlock
		for _, b := range g.Blocks {
			if live[b] || b == g.Recover {
				keep = append(keep, b)
				continue
			}
			for _, s := range b.Succs {
				if live[s] {
					removePred(s, b)
				}
			}
			changed = true
		}
		g.Blocks = keep
		for i, b := range g.Blocks {
			b.Index = i
		}
		if !changed {
			break
		}
	}
	delete(domCacheG, g)
	rebuildReferrers(g)
}

// rebuildReferrers recomputes the referrer lists of all values of g.
func rebuildReferrers(g *ssa.Function) {
	clear := func(v ssa.Value) {
		if r := v.Referrers(); r != nil {
			*r = nil
		}
	}
	for _, p := range g.Params {
		clear(p)
	}
	for _, fv := range g.FreeVars {
		clear(fv)
	}
	for _, b := range g.Blocks {
		for _, in := range b.Instrs {
			if v, ok := in.(ssa.Value); ok {
				clear(v)
			}
		}
	}
	for _, b := range g.Blocks {
		for _, in := range b.Instrs {
			for _, op := range in.Operands(nil) {
				if *op == nil {
					continue
				}
				if r := (*op).Referrers(); r != nil {
					// only values of g have referrer lists we own
					switch x := (*op).(type) {
					case *ssa.Parameter:
						if x.Parent() != g {
							continue
						}
					case *ssa.FreeVar:
						if x.Parent() != g {
							continue
						}
					case ssa.Instruction:
						if x.Parent() != g {
							continue
						}
					}
					*r = append(*r, in)
				}
			}
		}
	}
}

// inlineNewHelpers makes every function that is not in the reference tree transparent.
func (e *Eng) inlineNewHelpers(all map[*ssa.Function]bool) {
	il := &inliner{e: e, newFuncs: map[*ssa.Function]bool{}, recCache: map[*ssa.Function]bool{}, touched: map[*ssa.Function]bool{}, dropped: map[*ssa.Function]bool{}}
	var mod []*ssa.Function
	for f := range all {
		if !strings.HasPrefix(fnPkgPath(f), Mod) || len(f.Blocks) == 0 {
			continue
		}
		mod = append(mod, f)
		if isNewFunc(f) {
			il.newFuncs[f] = true
		}
	}
	if len(il.newFuncs) == 0 {
		return
	}
	sort.Slice(mod, func(i, j int) bool {
		// new functions first, so that their bodies are flat before they are copied
		a, b := il.newFuncs[mod[i]], il.newFuncs[mod[j]]
		if a != b {
			return a
		}
		if mod[i].String() != mod[j].String() {
			return mod[i].String() < mod[j].String()
		}
		return mod[i].Pos() < mod[j].Pos()
	})
	skipped := map[string]bool{}
	for round := 0; round < 6; round++ {
		changed := false
		for _, g := range mod {
			for n := 0; n < 64; n++ {
				var site *ssa.Call
				var callee *ssa.Function
			scan:
				for _, b := range g.Blocks {
					for _, in := range b.Instrs {
						c, ok := in.(*ssa.Call)
						if !ok {
							continue
						}
						f, why := il.eligible(c)
						if f != nil {
							site, callee = c, f
							break scan
						}
						if why != "" {
							k := fnName(c.Call.StaticCallee()) + ": " + why
							if !skipped[k] {
								skipped[k] = true
								e.InlineLog = append(e.InlineLog, "not inlined: "+k)
							}
						}
					}
				}
				if site == nil {
					break
				}
				e.InlineLog = append(e.InlineLog, fmt.Sprintf("inlined %s into %s at %s", fnName(callee), fnName(g), e.InstrPos(site)))
				il.inlineCall(site, callee)
				il.touched[g] = true
				changed = true
			}
		}
		if !changed {
			break
		}
	}
	for g := range il.touched {
		simplifyCFG(g)
		// a local helper literal whose every call has been replaced by its body is gone: the closure
		// value is built for nobody, and the variables it captured are the host's own again
		dropped := false
		for _, b := range g.Blocks {
			var keep []ssa.Instruction
			for _, in := range b.Instrs {
				if mc, ok := in.(*ssa.MakeClosure); ok {
					if f, _ := mc.Fn.(*ssa.Function); f != nil && il.newFuncs[f] && (mc.Referrers() == nil || len(*mc.Referrers()) == 0) {
						e.InlineLog = append(e.InlineLog, "literal "+fnName(f)+" is called nowhere any more, dropped from "+fnName(g))
						il.dropped[f] = true
						dropped = true
						continue
					}
				}
				keep = append(keep, in)
			}
			b.Instrs = keep
		}
		if dropped {
			rebuildReferrers(g)
		}
	}
	// a literal defined in a helper that now lives in exactly one caller is that caller's literal
	for _, f := range mod {
		if f.Parent() == nil || !il.newFuncs[f.Parent()] {
			continue
		}
		n := 0
		var host *ssa.Function
		for _, g := range mod {
			if g == f.Parent() {
				continue
			}
			for _, b := range g.Blocks {
				for _, in := range b.Instrs {
					if mc, ok := in.(*ssa.MakeClosure); ok && mc.Fn == ssa.Value(f) {
						if host != g {
							n++
						}
						host = g
					}
				}
			}
		}
		if n == 1 && host != nil && !il.newFuncs[host] {
			setUnexported(f, "parent", host)
			host.AnonFuncs = append(host.AnonFuncs, f)
			e.InlineLog = append(e.InlineLog, "literal "+fnName(f)+" now belongs to "+fnName(host))
		}
	}
	// helpers that are now referenced nowhere are absorbed: whole-program rules do not see them
	refd := map[*ssa.Function]bool{}
	for f := range all {
		for _, b := range f.Blocks {
			for _, in := range b.Instrs {
				for _, op := range in.Operands(nil) {
					if *op == nil {
						continue
					}
					if t, ok := (*op).(*ssa.Function); ok && t != f {
						if f.Synthetic != "" && f.Object() != nil && f.Object() == t.Object() {
							continue // wrapper of the same method
						}
						refd[t] = true
						if t.Synthetic != "" && t.Object() != nil {
							for nf := range il.newFuncs {
								if nf.Object() == t.Object() {
									refd[nf] = true
								}
							}
						}
					}
				}
			}
		}
	}
	e.absorbed = map[*ssa.Function]bool{}
	for f := range il.dropped {
		e.absorbed[f] = true
	}
	for f := range il.newFuncs {
		if f.Parent() != nil {
			continue // literals stay with their parent
		}
		if !refd[f] && (f.Object() == nil || !f.Object().Exported()) {
			e.absorbed[f] = true
			e.InlineLog = append(e.InlineLog, "absorbed: "+fnName(f))
		}
	}
}

// ---------------------------------------------------------------------------
// Dominators (go/ssa's own tree is stale after inlining)
// ---------------------------------------------------------------------------

type domTree struct {
	idom []int // by block index; -1 for entry / unreachable
	nblk int
	sig  *ssa.BasicBlock
}

var domCacheG = map[*ssa.Function]*domTree{}

func domOf(fn *ssa.Function) *domTree {
	if d, ok := domCacheG[fn]; ok && d.nblk == len(fn.Blocks) {
		return d
	}
	n := len(fn.Blocks)
	d := &domTree{idom: make([]int, n), nblk: n}
	for i := range d.idom {
		d.idom[i] = -1
	}
	if n == 0 {
		domCacheG[fn] = d
		return d
	}
	// reverse postorder
	var order []int
	seen := make([]bool, n)
	var dfs func(b *ssa.BasicBlock)
	dfs = func(b *ssa.BasicBlock) {
		seen[b.Index] = true
		for _, s := range b.Succs {
			if !seen[s.Index] {
				dfs(s)
			}
		}
		order = append(order, b.Index)
	}
	dfs(fn.Blocks[0])
	rpoNum := make([]int, n)
	for i := range rpoNum {
		rpoNum[i] = -1
	}
	for i, j := 0, len(order)-1; i < j; i, j = i+1, j-1 {
		order[i], order[j] = order[j], order[i]
	}
	for i, b := range order {
		rpoNum[b] = i
	}
	d.idom[0] = 0
	intersect := func(a, b int) int {
		for a != b {
			for rpoNum[a] > rpoNum[b] {
				a = d.idom[a]
			}
			for rpoNum[b] > rpoNum[a] {
				b = d.idom[b]
			}
		}
		return a
	}
	for changed := true; changed; {
		changed = false
		for _, bi := range order[1:] {
			b := fn.Blocks[bi]
			ni := -1
			for _, p := range b.Preds {
				if rpoNum[p.Index] < 0 || d.idom[p.Index] < 0 {
					continue
				}
				if ni < 0 {
					ni = p.Index
				} else {
					ni = intersect(p.Index, ni)
				}
			}
			if ni >= 0 && d.idom[bi] != ni {
				d.idom[bi] = ni
				changed = true
			}
		}
	}
	domCacheG[fn] = d
	return d
}

// dominates reports whether block a dominates block b (reflexive).
func dominates(a, b *ssa.BasicBlock) bool {
	if a.Parent() != b.Parent() {
		return false
	}
	d := domOf(a.Parent())
	if b.Index != 0 && d.idom[b.Index] < 0 {
		return false // unreachable
	}
	x := b.Index
	for {
		if x == a.Index {
			return true
		}
		if x == 0 {
			return false
		}
		nx := d.idom[x]
		if nx < 0 || nx == x {
			return false
		}
		x = nx
	}
}
