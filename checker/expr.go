package main

import (
	"fmt"
	"go/constant"
	"go/token"
	"go/types"
	"sort"
	"strings"

	"golang.org/x/tools/go/ssa"
)

// ---------------------------------------------------------------------------
// Canonical rendering of SSA values ("access paths").
//
// The rendering is a function of the resolved program only: parameters are
// named by position (recv, p0, p1, ...; ^p0 for a parameter of the enclosing
// function seen from a literal), fields by name, callees by their resolved
// object.  Loads, interface conversions and type changes are transparent;
// variables boxed for closures are replaced by the value(s) stored into them.
// ---------------------------------------------------------------------------

const maxDepth = 32

type rctx struct {
	e       *Eng
	fn      *ssa.Function // function from whose point of view we render
	seen    map[ssa.Value]bool
	depth   int
	inline  bool                      // render calls of small pure helpers by their body
	subst   map[*ssa.Parameter]string // parameter renderings while inlining
	ilevel  int
	phiSub  map[*ssa.Phi]ssa.Value       // phis fixed to one incoming value (XsAt)
	boolFix func(ssa.Value) (bool, bool) // conditions decided by the assumptions under which v is read
}

// X renders v from the point of view of function fn.
func (e *Eng) X(fn *ssa.Function, v ssa.Value) string {
	c := &rctx{e: e, fn: fn, seen: map[ssa.Value]bool{}}
	return c.x(v)
}

// XI renders v like X but replaces calls of small pure single-expression helpers of the
// module by their body (so that extracting such a helper does not change the rendering).
func (e *Eng) XI(fn *ssa.Function, v ssa.Value) string {
	c := &rctx{e: e, fn: fn, seen: map[ssa.Value]bool{}, inline: true}
	return c.x(v)
}

// XsAt renders v as seen at instruction at in every way the walk r reached it: phis anywhere
// inside the expression are fixed to the incoming value of the path (by the path context,
// else by the reached edges).  "now.Add(d)" with d joined from two branches renders as the two
// expressions a reader would write for the two branches.
func (e *Eng) XsAt(r *Reached, at ssa.Instruction, v ssa.Value) []string {
	return e.XsAtFix(r, at, v, nil)
}

// XsAtFix is XsAt with conditions inside the expression decided by fix where it can.
func (e *Eng) XsAtFix(r *Reached, at ssa.Instruction, v ssa.Value, fix func(ssa.Value) (bool, bool)) []string {
	fn := at.Parent()
	var phis []*ssa.Phi
	seen := map[ssa.Value]bool{}
	var collect func(v ssa.Value, d int)
	collect = func(v ssa.Value, d int) {
		if v == nil || seen[v] || d > 14 {
			return
		}
		seen[v] = true
		if p, ok := v.(*ssa.Phi); ok {
			if inductionPhi(p, 0) {
				return
			}
			phis = append(phis, p)
		}
		if in, ok := v.(ssa.Instruction); ok {
			if in.Parent() != fn {
				return
			}
			for _, op := range in.Operands(nil) {
				if *op != nil {
					collect(*op, d+1)
				}
			}
		}
	}
	collect(v, 0)
	ctxs := []pctx{{}}
	if r != nil {
		if cs := r.Ctx[at.Block().Index]; len(cs) > 0 && len(cs) <= 128 {
			ctxs = cs
		}
	}
	out := map[string]bool{}
	for _, c := range ctxs {
		opts := make([][]ssa.Value, len(phis))
		combos := 1
		for i, p := range phis {
			if slot, _, ok := c.get(p.Block().Index, -1); ok && slot < len(p.Edges) {
				opts[i] = []ssa.Value{p.Edges[slot]}
				continue
			}
			dd := map[ssa.Value]bool{}
			for j, ed := range p.Edges {
				if r != nil && !r.Edge[[2]int{p.Block().Preds[j].Index, p.Block().Index}] {
					continue
				}
				if ed == ssa.Value(p) || dd[ed] {
					continue
				}
				dd[ed] = true
				opts[i] = append(opts[i], ed)
			}
			if len(opts[i]) == 0 {
				opts[i] = nil
			} else {
				combos *= len(opts[i])
			}
		}
		if combos > 64 {
			out[e.X(fn, v)] = true
			continue
		}
		idx := make([]int, len(phis))
		for {
			sub := map[*ssa.Phi]ssa.Value{}
			for i, p := range phis {
				if len(opts[i]) > 0 {
					sub[p] = opts[i][idx[i]]
				}
			}
			rc := &rctx{e: e, fn: fn, seen: map[ssa.Value]bool{}, phiSub: sub, boolFix: fix}
			out[rc.x(v)] = true
			k := 0
			for k < len(phis) {
				if len(opts[k]) == 0 {
					k++
					continue
				}
				idx[k]++
				if idx[k] < len(opts[k]) {
					break
				}
				idx[k] = 0
				k++
			}
			if k >= len(phis) {
				break
			}
		}
	}
	var ks []string
	for k := range out {
		ks = append(ks, k)
	}
	sort.Strings(ks)
	return ks
}

// inlinable: a module function with a single block, one result, no effects.
func (e *Eng) inlinable(f *ssa.Function) bool {
	if f == nil || len(f.Blocks) != 1 || len(f.FreeVars) != 0 || f.Signature.Results().Len() != 1 {
		return false
	}
	if !strings.HasPrefix(fnPkgPath(f), Mod) {
		return false
	}
	ins := f.Blocks[0].Instrs
	if len(ins) == 0 || len(ins) > 16 {
		return false
	}
	for _, in := range ins {
		switch x := in.(type) {
		case *ssa.Store, *ssa.MapUpdate, *ssa.Send, *ssa.Go, *ssa.Defer, *ssa.Panic, *ssa.RunDefers, *ssa.Select, *ssa.Alloc, *ssa.MakeClosure:
			return false
		case *ssa.Call:
			if x.Call.StaticCallee() == f {
				return false
			}
		}
	}
	_, ok := ins[len(ins)-1].(*ssa.Return)
	return ok
}

func calleeName(c *ssa.CallCommon) string {
	if c.IsInvoke() {
		recv := c.Value.Type()
		return "invoke:" + typeStr(recv) + "." + c.Method.Name()
	}
	if f := c.StaticCallee(); f != nil {
		return fnName(f)
	}
	if b, ok := c.Value.(*ssa.Builtin); ok {
		return b.Name()
	}
	return "dyn"
}

// fnName is the canonical name of a function (generic instances are named by their origin).
func fnName(f *ssa.Function) string {
	if o := f.Origin(); o != nil {
		f = o
	}
	s := f.String()
	// bound method closures / thunks: "(T).M$bound" -> keep
	return short(s)
}

func (c *rctx) up(p *ssa.Function) string {
	n := 0
	for f := c.fn; f != nil && f != p; f = f.Parent() {
		n++
	}
	// if p is not an ancestor, n counts to root; mark with '?'
	ok := false
	for f := c.fn; f != nil; f = f.Parent() {
		if f == p {
			ok = true
		}
	}
	if !ok {
		return "?"
	}
	return strings.Repeat("^", n)
}

func (c *rctx) param(p *ssa.Parameter) string {
	if s, ok := c.subst[p]; ok {
		return s
	}
	fn := p.Parent()
	pre := c.up(fn)
	isMethod := fn.Signature.Recv() != nil
	for i, q := range fn.Params {
		if q == p {
			if isMethod {
				if i == 0 {
					return pre + "recv"
				}
				return fmt.Sprintf("%sp%d", pre, i-1)
			}
			return fmt.Sprintf("%sp%d", pre, i)
		}
	}
	return pre + "p?"
}

func constStr(k *ssa.Const) string {
	if k.Value == nil {
		if _, ok := k.Type().Underlying().(*types.Basic); ok {
			return "zero"
		}
		switch k.Type().Underlying().(type) {
		case *types.Struct, *types.Array:
			return "zero:" + typeStr(k.Type())
		}
		return "nil"
	}
	switch k.Value.Kind() {
	case constant.String:
		return fmt.Sprintf("%q", constant.StringVal(k.Value))
	case constant.Bool:
		if constant.BoolVal(k.Value) {
			return "true"
		}
		return "false"
	}
	return k.Value.ExactString()
}

// boxValues returns the values stored into a local variable cell (an Alloc),
// looking through closures that capture it.  escaped reports whether the cell's
// address is used in any way other than load/store/capture/field access.
func (e *Eng) boxValues(a *ssa.Alloc) (vals []ssa.Value, escaped bool) {
	var visit func(addr ssa.Value)
	seen := map[ssa.Value]bool{}
	visit = func(addr ssa.Value) {
		if seen[addr] {
			return
		}
		seen[addr] = true
		refs := addr.Referrers()
		if refs == nil {
			return
		}
		for _, r := range *refs {
			switch r := r.(type) {
			case *ssa.Store:
				if r.Addr == addr {
					vals = append(vals, r.Val)
				} else {
					escaped = true
				}
			case *ssa.UnOp:
				// load
			case *ssa.FieldAddr, *ssa.IndexAddr:
				// partial access; the cell is a struct/array variable
			case *ssa.MakeClosure:
				fn := r.Fn.(*ssa.Function)
				for i, b := range r.Bindings {
					if b == addr && i < len(fn.FreeVars) {
						visit(fn.FreeVars[i])
					}
				}
			case *ssa.DebugRef:
			default:
				escaped = true
			}
		}
	}
	visit(a)
	return vals, escaped
}

// boxStores is boxValues returning the store instructions (stores in closures included).
func (e *Eng) boxStores(a *ssa.Alloc) (sts []*ssa.Store, escaped bool) {
	var visit func(addr ssa.Value)
	seen := map[ssa.Value]bool{}
	visit = func(addr ssa.Value) {
		if seen[addr] {
			return
		}
		seen[addr] = true
		refs := addr.Referrers()
		if refs == nil {
			return
		}
		for _, r := range *refs {
			switch r := r.(type) {
			case *ssa.Store:
				if r.Addr == addr {
					sts = append(sts, r)
				} else {
					escaped = true
				}
			case *ssa.UnOp, *ssa.FieldAddr, *ssa.IndexAddr, *ssa.DebugRef:
			case *ssa.MakeClosure:
				fn := r.Fn.(*ssa.Function)
				for i, b := range r.Bindings {
					if b == addr && i < len(fn.FreeVars) {
						visit(fn.FreeVars[i])
					}
				}
			default:
				escaped = true
			}
		}
	}
	visit(a)
	return sts, escaped
}

// freeVarBinding resolves a free variable of a literal to the value bound in the enclosing function.
func freeVarBinding(fv *ssa.FreeVar) ssa.Value {
	fn := fv.Parent()
	par := fn.Parent()
	if par == nil {
		return nil
	}
	idx := -1
	for i, f := range fn.FreeVars {
		if f == fv {
			idx = i
		}
	}
	if idx < 0 {
		return nil
	}
	for _, b := range par.Blocks {
		for _, in := range b.Instrs {
			if mc, ok := in.(*ssa.MakeClosure); ok && mc.Fn == fn && idx < len(mc.Bindings) {
				return mc.Bindings[idx]
			}
		}
	}
	return nil
}

func (c *rctx) x(v ssa.Value) string {
	if v == nil {
		return "<nil>"
	}
	c.depth++
	defer func() { c.depth-- }()
	if c.depth > maxDepth {
		return "…"
	}
	if c.boolFix != nil {
		if _, isK := v.(*ssa.Const); !isK && isBoolType(v.Type()) {
			if b, ok := c.boolFix(v); ok {
				if b {
					return "true"
				}
				return "false"
			}
		}
	}
	if isContextType(v.Type()) {
		// contexts are plumbing: which derived context is passed is never what a rule
		// decides by rendering (rules that care inspect the With* calls directly)
		return "ctx"
	}
	switch v := v.(type) {
	case *ssa.Parameter:
		return c.param(v)
	case *ssa.Const:
		return constStr(v)
	case *ssa.Global:
		return short(v.Pkg.Pkg.Path()) + "." + v.Name()
	case *ssa.Function:
		return "func:" + fnName(v)
	case *ssa.Builtin:
		return v.Name()
	case *ssa.FreeVar:
		b := freeVarBinding(v)
		if b == nil {
			return "fv:" + v.Name()
		}
		return c.x(b)
	case *ssa.Alloc:
		return c.alloc(v)
	case *ssa.FieldAddr:
		return c.x(v.X) + "." + fieldName(v.X.Type(), v.Field)
	case *ssa.Field:
		return c.x(v.X) + "." + fieldName(v.X.Type(), v.Field)
	case *ssa.IndexAddr:
		if lit, ok := c.arrayLit(v.X); ok {
			return lit + "[" + c.x(v.Index) + "]"
		}
		return c.x(v.X) + "[" + c.x(v.Index) + "]"
	case *ssa.Index:
		if lit, ok := c.arrayLit(v.X); ok {
			return lit + "[" + c.x(v.Index) + "]"
		}
		return c.x(v.X) + "[" + c.x(v.Index) + "]"
	case *ssa.Lookup:
		return c.x(v.X) + "[" + c.x(v.Index) + "]"
	case *ssa.UnOp:
		switch v.Op {
		case token.MUL:
			return c.load(v.X)
		case token.NOT:
			return "!" + c.x(v.X)
		case token.SUB:
			return "-" + c.x(v.X)
		case token.ARROW:
			return "<-" + c.x(v.X)
		case token.XOR:
			return "^" + c.x(v.X)
		}
		return v.Op.String() + c.x(v.X)
	case *ssa.BinOp:
		if isInduction(v) {
			return "i"
		}
		if v.Op == token.EQL || v.Op == token.NEQ {
			// comparison of a condition with a boolean constant: "x != true" is "!x"
			xs, ys := c.x(v.X), c.x(v.Y)
			if isBoolType(v.X.Type()) {
				for _, pr := range [][2]string{{xs, ys}, {ys, xs}} {
					if pr[1] == "true" || pr[1] == "false" {
						same := (pr[1] == "true") == (v.Op == token.EQL)
						if same {
							return pr[0]
						}
						if strings.HasPrefix(pr[0], "!") {
							return pr[0][1:]
						}
						return "!" + pr[0]
					}
				}
			}
			return "(" + xs + " " + v.Op.String() + " " + ys + ")"
		}
		return "(" + c.x(v.X) + " " + v.Op.String() + " " + c.x(v.Y) + ")"
	case *ssa.Call:
		if b, ok := v.Call.Value.(*ssa.Builtin); ok && b.Name() == "append" {
			return c.acc(v)
		}
		return c.call(v.Common())
	case *ssa.Phi:
		if sub, ok := c.phiSub[v]; ok {
			if c.seen[v] {
				return "cyc"
			}
			c.seen[v] = true
			defer delete(c.seen, v)
			return c.x(sub)
		}
		if inductionPhi(v, 0) {
			return "i"
		}
		if _, ok := v.Type().Underlying().(*types.Slice); ok {
			if _, parts := c.e.AppendParts(v); len(parts) > 0 {
				return c.acc(v)
			}
		}
		return c.phi(v)
	case *ssa.Extract:
		return c.x(v.Tuple) + "#" + fmt.Sprint(v.Index)
	case *ssa.MakeInterface:
		return c.x(v.X)
	case *ssa.ChangeType:
		return c.x(v.X)
	case *ssa.ChangeInterface:
		return c.x(v.X)
	case *ssa.Convert:
		return "conv:" + typeStr(v.Type()) + "(" + c.x(v.X) + ")"
	case *ssa.MultiConvert:
		return "conv:" + typeStr(v.Type()) + "(" + c.x(v.X) + ")"
	case *ssa.TypeAssert:
		s := "assert:" + typeStr(v.AssertedType) + "(" + c.x(v.X) + ")"
		return s
	case *ssa.MakeClosure:
		return "closure:" + fnName(v.Fn.(*ssa.Function))
	case *ssa.MakeMap:
		return "makemap:" + typeStr(v.Type())
	case *ssa.MakeSlice:
		return "makeslice:" + typeStr(v.Type())
	case *ssa.MakeChan:
		return "makechan:" + typeStr(v.Type())
	case *ssa.Slice:
		if a, ok := v.X.(*ssa.Alloc); ok && (a.Comment == "varargs" || a.Comment == "slicelit") && v.Low == nil && v.High == nil {
			els := c.e.OrderedElems(v)
			if len(els) > 0 && len(els) <= 8 {
				var xs []string
				for _, el := range els {
					xs = append(xs, c.x(el))
				}
				return "[" + strings.Join(xs, ", ") + "]"
			}
		}
		s := "slice(" + c.x(v.X)
		if v.Low != nil {
			s += ",lo=" + c.x(v.Low)
		}
		if v.High != nil {
			s += ",hi=" + c.x(v.High)
		}
		return s + ")"
	case *ssa.SliceToArrayPointer:
		return c.x(v.X)
	case *ssa.Range:
		return "range(" + c.x(v.X) + ")"
	case *ssa.Next:
		return "next(" + c.x(v.Iter) + ")"
	case *ssa.Select:
		return c.sel(v)
	}
	return fmt.Sprintf("?%T", v)
}

func fieldName(t types.Type, i int) string {
	if p, ok := t.Underlying().(*types.Pointer); ok {
		t = p.Elem()
	}
	if st, ok := t.Underlying().(*types.Struct); ok && i < st.NumFields() {
		return st.Field(i).Name()
	}
	return fmt.Sprintf("f%d", i)
}

// copySource: if the local is an unmodified copy of a struct stored elsewhere ("mt := list[i]",
// range value variables), the address it was copied from.  Reading a field of the copy is reading
// the field of the original, however the source spells it.
func copySource(a *ssa.Alloc) ssa.Value {
	t := a.Type().(*types.Pointer).Elem()
	if _, ok := t.Underlying().(*types.Struct); !ok {
		return nil
	}
	refs := a.Referrers()
	if refs == nil {
		return nil
	}
	var src ssa.Value
	for _, r := range *refs {
		switch x := r.(type) {
		case *ssa.Store:
			if x.Addr != ssa.Value(a) || src != nil {
				return nil
			}
			// the stored value: *addr, or a field of such a loaded struct
			v := x.Val
			for {
				if f, ok := v.(*ssa.Field); ok {
					v = f.X
					continue
				}
				break
			}
			ld, ok := v.(*ssa.UnOp)
			if !ok || ld.Op != token.MUL {
				return nil
			}
			switch ld.X.(type) {
			case *ssa.IndexAddr, *ssa.FieldAddr, *ssa.Alloc:
				src = x.Val
			default:
				return nil
			}
		case *ssa.FieldAddr:
			// fields (and fields of embedded structs) may only be read
			if !onlyRead(x, 0) {
				return nil
			}
		case *ssa.UnOp:
			if x.Op != token.MUL {
				return nil
			}
		case *ssa.DebugRef:
		default:
			return nil
		}
	}
	return src
}

func onlyRead(addr ssa.Value, d int) bool {
	fr := addr.Referrers()
	if fr == nil || d > 4 {
		return d <= 4
	}
	for _, u := range *fr {
		switch x := u.(type) {
		case *ssa.UnOp:
			if x.Op != token.MUL {
				return false
			}
		case *ssa.FieldAddr:
			if !onlyRead(x, d+1) {
				return false
			}
		case *ssa.DebugRef:
		default:
			return false
		}
	}
	return true
}

func (c *rctx) alloc(a *ssa.Alloc) string {
	if src := copySource(a); src != nil && !c.seen[a] {
		c.seen[a] = true
		defer delete(c.seen, a)
		// render the location the value was read from
		var loc func(v ssa.Value) string
		loc = func(v ssa.Value) string {
			switch y := v.(type) {
			case *ssa.Field:
				return loc(y.X) + "." + fieldName(y.X.Type(), y.Field)
			case *ssa.UnOp:
				return c.x(y.X)
			}
			return c.x(v)
		}
		return loc(src)
	}
	t := a.Type().(*types.Pointer).Elem()
	pre := c.up(a.Parent())
	name := a.Comment
	if name == "" {
		name = "tmp"
	}
	return pre + "&" + name + ":" + typeStr(t)
}

// load renders *addr.
func (c *rctx) load(addr ssa.Value) string {
	switch a := addr.(type) {
	case *ssa.FreeVar:
		b := freeVarBinding(a)
		if b == nil {
			return "fv:" + a.Name()
		}
		return c.load(b)
	case *ssa.Alloc:
		if c.seen[a] {
			return "cyc"
		}
		vals, esc := c.e.boxValues(a)
		t := a.Type().(*types.Pointer).Elem()
		_, isStruct := t.Underlying().(*types.Struct)
		if esc || len(vals) == 0 || isStruct && len(vals) != 1 {
			pre := c.up(a.Parent())
			name := a.Comment
			if name == "" {
				name = "tmp"
			}
			return pre + "var:" + name
		}
		c.seen[a] = true
		defer delete(c.seen, a)
		set := map[string]bool{}
		for _, v := range vals {
			set[c.x(v)] = true
		}
		return joinSet("phi", set)
	case *ssa.FieldAddr:
		// a field of a local struct that is filled exactly once (directly, or as a whole from another local built
		// field by field): the value it was given
		if v := localFieldValue(a); v != nil && !c.seen[v] {
			c.seen[v] = true
			defer delete(c.seen, v)
			return c.x(v)
		}
		return c.x(a)
	case *ssa.IndexAddr, *ssa.Global:
		return c.x(a)
	}
	return "*" + c.x(addr)
}

// localFieldValue: fa addresses field f of a local struct variable whose field f receives exactly one value over
// the whole function: one direct store, or one whole-struct store from another local whose field f is stored once.
// Returns that value, or nil.
func localFieldValue(fa *ssa.FieldAddr) ssa.Value {
	al, ok := fa.X.(*ssa.Alloc)
	if !ok || al.Heap {
		return nil
	}
	var find func(a *ssa.Alloc, depth int) (ssa.Value, int)
	find = func(a *ssa.Alloc, depth int) (ssa.Value, int) {
		if depth > 3 || a.Referrers() == nil {
			return nil, 2
		}
		var val ssa.Value
		n := 0
		for _, r := range *a.Referrers() {
			switch x := r.(type) {
			case *ssa.FieldAddr:
				if x.Field != fa.Field {
					continue
				}
				for _, r2 := range *x.Referrers() {
					switch s := r2.(type) {
					case *ssa.Store:
						if s.Addr == ssa.Value(x) {
							val = s.Val
							n++
						}
					case *ssa.UnOp, *ssa.DebugRef, *ssa.FieldAddr, *ssa.IndexAddr:
					default:
						if _, isCall := r2.(ssa.CallInstruction); isCall {
							return nil, 2 // the field's address escapes
						}
					}
				}
			case *ssa.Store:
				if x.Addr != ssa.Value(a) {
					return nil, 2 // the address itself is stored somewhere
				}
				u, isLoad := x.Val.(*ssa.UnOp)
				if !isLoad || u.Op != token.MUL {
					return nil, 2
				}
				src, isAlloc := u.X.(*ssa.Alloc)
				if !isAlloc || src.Heap {
					return nil, 2
				}
				v, k := find(src, depth+1)
				if k != 1 {
					return nil, 2
				}
				val = v
				n++
			case *ssa.UnOp, *ssa.DebugRef:
			default:
				if _, isCall := r.(ssa.CallInstruction); isCall {
					return nil, 2
				}
			}
		}
		return val, n
	}
	v, n := find(al, 0)
	if n != 1 {
		return nil
	}
	return v
}

func joinSet(tag string, set map[string]bool) string {
	if len(set) == 1 {
		for k := range set {
			return k
		}
	}
	var ks []string
	for k := range set {
		ks = append(ks, k)
	}
	sort.Strings(ks)
	return tag + "(" + strings.Join(ks, "|") + ")"
}

func (c *rctx) phi(p *ssa.Phi) string {
	if c.seen[p] {
		return "cyc"
	}
	c.seen[p] = true
	defer delete(c.seen, p)
	set := map[string]bool{}
	var add func(v ssa.Value)
	add = func(v ssa.Value) {
		if q, ok := v.(*ssa.Phi); ok {
			if c.seen[q] && q != p {
				return
			}
			if q != p {
				c.seen[q] = true
				defer delete(c.seen, q)
			}
			for _, e := range q.Edges {
				if e != p {
					add(e)
				}
			}
			return
		}
		set[c.x(v)] = true
	}
	for _, e := range p.Edges {
		if e != p {
			add(e)
		}
	}
	delete(set, "cyc")
	return joinSet("phi", set)
}

func (c *rctx) call(cc *ssa.CallCommon) string {
	if c.inline && c.ilevel < 3 && !cc.IsInvoke() {
		if f := cc.StaticCallee(); f != nil && c.e.inlinable(f) && len(cc.Args) == len(f.Params) {
			sub := map[*ssa.Parameter]string{}
			for i, a := range cc.Args {
				sub[f.Params[i]] = c.x(a)
			}
			ret := f.Blocks[0].Instrs[len(f.Blocks[0].Instrs)-1].(*ssa.Return)
			ic := &rctx{e: c.e, fn: f, seen: map[ssa.Value]bool{}, inline: true, subst: sub, ilevel: c.ilevel + 1, depth: c.depth}
			return ic.x(ret.Results[0])
		}
	}
	// readability normalisations on resolved callees
	switch calleeName(cc) {
	case "(*timestamppb.Timestamp).AsTime":
		if len(cc.Args) == 1 {
			return c.x(cc.Args[0]) + ".AsTime"
		}
	case "(time.Time).Before":
		if len(cc.Args) == 2 {
			return "(" + c.x(cc.Args[0]) + " <t " + c.x(cc.Args[1]) + ")"
		}
	case "(time.Time).After":
		if len(cc.Args) == 2 {
			return "(" + c.x(cc.Args[1]) + " <t " + c.x(cc.Args[0]) + ")"
		}
	case "(time.Time).Equal":
		if len(cc.Args) == 2 {
			a, b := c.x(cc.Args[0]), c.x(cc.Args[1])
			if a > b {
				a, b = b, a
			}
			return "(" + a + " ==t " + b + ")"
		}
	case "(time.Time).UTC":
		if len(cc.Args) == 1 {
			return c.x(cc.Args[0]) + ".UTC"
		}
	}
	var args []string
	if cc.IsInvoke() {
		args = append(args, c.x(cc.Value))
	} else if cc.StaticCallee() == nil {
		if _, ok := cc.Value.(*ssa.Builtin); !ok {
			args = append(args, "fn="+c.x(cc.Value))
		}
	}
	for _, a := range cc.Args {
		args = append(args, c.x(a))
	}
	return calleeName(cc) + "(" + strings.Join(args, ", ") + ")"
}

// acc renders a slice built by appends as acc(bases; parts), independent of
// the point in the loop at which it is observed.
func (c *rctx) acc(v ssa.Value) string {
	if c.seen[v] {
		return "cyc"
	}
	c.seen[v] = true
	defer delete(c.seen, v)
	bases, parts := c.e.AppendParts(v)
	bs, ps := map[string]bool{}, map[string]bool{}
	for _, b := range bases {
		bs[c.x(b)] = true
	}
	for _, p := range parts {
		s := c.x(p.V)
		if p.Spread {
			s = "..." + s
		}
		ps[s] = true
	}
	return "acc(" + joinBar(bs) + "; " + joinBar(ps) + ")"
}

func joinBar(set map[string]bool) string {
	var ks []string
	for k := range set {
		ks = append(ks, k)
	}
	sort.Strings(ks)
	return strings.Join(ks, "|")
}

func (c *rctx) sel(s *ssa.Select) string {
	var st []string
	for _, x := range s.States {
		if x.Dir == types.SendOnly {
			st = append(st, "send:"+c.x(x.Chan)+"<-"+c.x(x.Send))
		} else {
			st = append(st, "recv:"+c.x(x.Chan))
		}
	}
	b := "blocking"
	if !s.Blocking {
		b = "nonblocking"
	}
	return "select[" + b + "](" + strings.Join(st, "; ") + ")"
}

// ---------------------------------------------------------------------------
// Branch literals
// ---------------------------------------------------------------------------

// Lit is a branch condition in normal form with a polarity.
type Lit struct {
	Atom string
	Pos  bool
	Alt  string // the atom with small pure helpers inlined, when different
}

func (l Lit) String() string {
	if l.Pos {
		return l.Atom
	}
	return "¬" + l.Atom
}

func isConstLike(v ssa.Value) bool {
	switch v := v.(type) {
	case *ssa.Const:
		return true
	case *ssa.MakeInterface:
		return isConstLike(v.X)
	case *ssa.ChangeType:
		return isConstLike(v.X)
	case *ssa.Convert:
		return isConstLike(v.X)
	}
	return false
}

// CondLit normalises the condition value of an If: strips negations, turns
// != into ¬==, > / >= / <= into < with swapped operands or flipped polarity,
// puts constants on the right, and names select cases by their channel.
func (e *Eng) CondLit(fn *ssa.Function, v ssa.Value) Lit {
	l := e.condLit(fn, v, false)
	if a := e.condLit(fn, v, true); a.Atom != l.Atom && a.Pos == l.Pos {
		l.Alt = a.Atom
	}
	return l
}

// curPhiSub: phis fixed by the path under which a condition is being read (set by EdgeLit).
var curPhiSub map[*ssa.Phi]ssa.Value

func (e *Eng) condLit(fn *ssa.Function, v ssa.Value, inline bool) Lit {
	pos := true
	for k := 0; k < 16; k++ {
		if u, ok := v.(*ssa.UnOp); ok && u.Op == token.NOT {
			pos = !pos
			v = u.X
			continue
		}
		if p, ok := v.(*ssa.Phi); ok {
			if sv, ok := curPhiSub[p]; ok && sv != v {
				v = sv
				continue
			}
		}
		break
	}
	c := &rctx{e: e, fn: fn, seen: map[ssa.Value]bool{}, inline: inline, phiSub: curPhiSub}
	if inline {
		// a call of an inlinable boolean helper is itself a condition: look at its body
		if call, ok := v.(*ssa.Call); ok && !call.Call.IsInvoke() {
			if f := call.Call.StaticCallee(); f != nil && e.inlinable(f) && len(call.Call.Args) == len(f.Params) {
				s := c.x(v)
				// normalise leading negation / comparison spelled in the body
				for strings.HasPrefix(s, "!") {
					s = s[1:]
					pos = !pos
				}
				return Lit{Atom: s, Pos: pos}
			}
		}
	}
	if b, ok := v.(*ssa.BinOp); ok {
		x, y, op := b.X, b.Y, b.Op
		switch op {
		case token.NEQ:
			op, pos = token.EQL, !pos
		case token.GTR: // x > y  ==  y < x
			x, y, op = y, x, token.LSS
		case token.GEQ: // x >= y == !(x < y)
			op, pos = token.LSS, !pos
		case token.LEQ: // x <= y == !(y < x)
			x, y, op, pos = y, x, token.LSS, !pos
		}
		// a.Compare(b) against -1 / 0 / 1 is a time order test
		if l, ok := timeCompareLit(c, x, y, op, pos); ok {
			return l
		}
		if op == token.EQL {
			// select case?
			if ex, ok := x.(*ssa.Extract); ok && ex.Index == 0 {
				if s, ok := ex.Tuple.(*ssa.Select); ok {
					if k, ok := y.(*ssa.Const); ok && k.Value != nil {
						if i, ok := constant.Int64Val(k.Value); ok && int(i) < len(s.States) && i >= 0 {
							st := s.States[i]
							d := "recv:"
							if st.Dir == types.SendOnly {
								d = "send:"
							}
							bl := ""
							if !s.Blocking {
								bl = "nb-"
							}
							return Lit{Atom: bl + "sel:" + d + c.x(st.Chan), Pos: pos}
						}
						if i, ok := constant.Int64Val(k.Value); ok && i == -1 {
							return Lit{Atom: "sel:default", Pos: pos}
						}
					}
				}
			}
			// boolean compared with constant
			if k, ok := y.(*ssa.Const); ok && k.Value != nil && k.Value.Kind() == constant.Bool {
				l := e.condLit(fn, x, inline)
				if !constant.BoolVal(k.Value) {
					l.Pos = !l.Pos
				}
				if !pos {
					l.Pos = !l.Pos
				}
				return l
			}
			xs, ys := c.x(x), c.x(y)
			if isConstLike(x) && !isConstLike(y) || (!isConstLike(y) && xs > ys) {
				xs, ys = ys, xs
			}
			return Lit{Atom: "(" + xs + " == " + ys + ")", Pos: pos}
		}
		if op == token.LSS {
			// 0 < len(x)  ==  ¬(len(x) == 0);   len(x) < 1  ==  (len(x) == 0)
			if isIntConst(x, 0) && isLenCall(y) {
				return Lit{Atom: "(" + c.x(y) + " == 0)", Pos: !pos}
			}
			if isIntConst(y, 1) && isLenCall(x) {
				return Lit{Atom: "(" + c.x(x) + " == 0)", Pos: pos}
			}
			// integers: a < b+1  ==  ¬(b < a);   a-1 < b  ==  ¬(b < a);   c < a  ==  ¬(a < c+1)
			if isIntType(x.Type()) {
				if k, ok := x.(*ssa.Const); ok && k.Value != nil && k.Value.Kind() == constant.Int {
					if _, yk := y.(*ssa.Const); !yk {
						if ci, exact := constant.Int64Val(k.Value); exact && ci < 1<<62 {
							return Lit{Atom: "(" + c.x(y) + " < " + fmt.Sprint(ci+1) + ")", Pos: !pos}
						}
					}
				}
				if yb, ok := y.(*ssa.BinOp); ok && yb.Op == token.ADD && isIntConst(yb.Y, 1) {
					return Lit{Atom: "(" + c.x(yb.X) + " < " + c.x(x) + ")", Pos: !pos}
				}
				if xb, ok := x.(*ssa.BinOp); ok && xb.Op == token.SUB && isIntConst(xb.Y, 1) {
					return Lit{Atom: "(" + c.x(y) + " < " + c.x(xb.X) + ")", Pos: !pos}
				}
			}
		}
		return Lit{Atom: "(" + c.x(x) + " " + op.String() + " " + c.x(y) + ")", Pos: pos}
	}
	return Lit{Atom: c.x(v), Pos: pos}
}

func isIntConst(v ssa.Value, n int64) bool {
	k, ok := v.(*ssa.Const)
	if !ok || k.Value == nil || k.Value.Kind() != constant.Int {
		return false
	}
	i, ok := constant.Int64Val(k.Value)
	return ok && i == n
}

func isLenCall(v ssa.Value) bool {
	c, ok := v.(*ssa.Call)
	if !ok {
		return false
	}
	b, ok := c.Call.Value.(*ssa.Builtin)
	return ok && b.Name() == "len"
}

func isIntType(t types.Type) bool {
	b, ok := t.Underlying().(*types.Basic)
	return ok && b.Info()&types.IsInteger != 0
}

func isBoolType(t types.Type) bool {
	b, ok := t.Underlying().(*types.Basic)
	return ok && b.Info()&types.IsBoolean != 0
}

func isContextType(t types.Type) bool {
	n, ok := t.(*types.Named)
	if !ok {
		return false
	}
	o := n.Obj()
	return o != nil && o.Pkg() != nil && o.Pkg().Path() == "context" && o.Name() == "Context"
}

// timeCompareLit: "a.Compare(b) op k" (op already reduced to == or <, either side the call) as the order test it
// stands for, in the same form Before/After/Equal are rendered in.
func timeCompareLit(c *rctx, x, y ssa.Value, op token.Token, pos bool) (Lit, bool) {
	cmpOf := func(v ssa.Value) (a, b string, ok bool) {
		call, isC := v.(*ssa.Call)
		if !isC || calleeName(&call.Call) != "(time.Time).Compare" || len(call.Call.Args) != 2 {
			return "", "", false
		}
		return c.x(call.Call.Args[0]), c.x(call.Call.Args[1]), true
	}
	konst := func(v ssa.Value) (int64, bool) {
		k, ok := v.(*ssa.Const)
		if !ok || k.Value == nil || k.Value.Kind() != constant.Int {
			return 0, false
		}
		i, exact := constant.Int64Val(k.Value)
		return i, exact
	}
	before := func(a, b string, p bool) Lit { return Lit{Atom: "(" + a + " <t " + b + ")", Pos: p} }
	equal := func(a, b string, p bool) Lit {
		if a > b {
			a, b = b, a
		}
		return Lit{Atom: "(" + a + " ==t " + b + ")", Pos: p}
	}
	if a, b, ok := cmpOf(x); ok {
		k, isK := konst(y)
		if !isK {
			return Lit{}, false
		}
		switch {
		case op == token.LSS && k == 0: // cmp < 0
			return before(a, b, pos), true
		case op == token.LSS && k == 1: // cmp < 1  ==  ¬(b < a)
			return before(b, a, !pos), true
		case op == token.EQL && k == 0:
			return equal(a, b, pos), true
		case op == token.EQL && k == -1:
			return before(a, b, pos), true
		case op == token.EQL && k == 1:
			return before(b, a, pos), true
		}
	}
	if a, b, ok := cmpOf(y); ok {
		k, isK := konst(x)
		if !isK {
			return Lit{}, false
		}
		switch {
		case op == token.LSS && k == 0: // 0 < cmp
			return before(b, a, pos), true
		case op == token.LSS && k == -1: // -1 < cmp  ==  ¬(a < b)
			return before(a, b, !pos), true
		case op == token.EQL && k == 0:
			return equal(a, b, pos), true
		case op == token.EQL && k == -1:
			return before(a, b, pos), true
		case op == token.EQL && k == 1:
			return before(b, a, pos), true
		}
	}
	return Lit{}, false
}

// arrayLit: v is (the address or the value of) a local array literal whose elements are each set once at a constant
// index and which is otherwise only read: "[...]T{a, b}".  Rendered like a slice literal, "[a, b]".
func (c *rctx) arrayLit(v ssa.Value) (string, bool) {
	if u, ok := v.(*ssa.UnOp); ok && u.Op == token.MUL {
		v = u.X
	}
	al, ok := v.(*ssa.Alloc)
	if !ok || al.Comment != "complit" {
		return "", false
	}
	arr, ok := al.Type().(*types.Pointer).Elem().Underlying().(*types.Array)
	if !ok || arr.Len() == 0 || arr.Len() > 8 {
		return "", false
	}
	els := make([]ssa.Value, arr.Len())
	for _, r := range *al.Referrers() {
		switch x := r.(type) {
		case *ssa.IndexAddr:
			k, isK := x.Index.(*ssa.Const)
			for _, r2 := range *x.Referrers() {
				if st, ok := r2.(*ssa.Store); ok && st.Addr == ssa.Value(x) {
					if !isK || k.Value == nil {
						return "", false // written at a computed index
					}
					i := k.Int64()
					if i < 0 || i >= arr.Len() || els[i] != nil {
						return "", false
					}
					els[i] = st.Val
				}
			}
		case *ssa.UnOp, *ssa.DebugRef:
		case *ssa.Store:
			if x.Addr == ssa.Value(al) {
				return "", false // assigned as a whole
			}
		default:
			if _, isCall := r.(ssa.CallInstruction); isCall {
				return "", false // escapes
			}
		}
	}
	var xs []string
	for _, el := range els {
		if el == nil {
			return "", false
		}
		xs = append(xs, c.x(el))
	}
	return "[" + strings.Join(xs, ", ") + "]", true
}
