package main

import (
	"go/token"
	"strings"

	"golang.org/x/tools/go/ssa"
)

// matchWorker: Route.Match written as a thin wrapper around a recursive worker that appends the
// matches of a subtree to a list handed down (worker(node, list, labels) → (list, node matched)).
func matchWorker(e *Eng, fn *ssa.Function) (*ssa.Function, *ssa.Call) {
	var w *ssa.Function
	var call *ssa.Call
	for _, in := range AllInstrs(fn) {
		c, ok := in.(*ssa.Call)
		if !ok {
			continue
		}
		f := c.Call.StaticCallee()
		if f == nil || !isNewFunc(f) || len(e.Calls(f, fnName(f))) == 0 {
			continue
		}
		if w != nil {
			return nil, nil
		}
		w, call = f, c
	}
	if w == nil || len(w.Params) != 3 || w.Signature.Results().Len() < 1 || w.Signature.Results().Len() > 2 {
		return nil, nil
	}
	return w, call
}

// routeMatchPointerAccumulator decides C07.1 for a worker W(node, labels, *list) bool that appends the matches
// of a subtree to one list behind a pointer and answers whether the node matched:
//
//	(wrapper) Match hands W a fresh (nil) list of its own and returns that list;
//	(a) the node's matchers fail ⇒ W answers false, consults no child, writes nothing;
//	(b) otherwise every child is consulted in configuration order with the same labels and the same list;
//	(c) the loop is left early only, and then always, after a child that matched and has continue unset;
//	(d) the node itself is appended — the only write W makes — iff the list is as long after the children as it
//	    was before them (the two lengths are read before and after the loop; they render alike and are told
//	    apart by where they are read); (e) W then answers true.
func routeMatchPointerAccumulator(o *Ob, fn, w *ssa.Function, outer *ssa.Call) {
	e := o.E
	wn := fnName(w)
	o.Site(outer, "Route.Match delegates to "+wn+" (list behind a pointer)")
	// wrapper
	cell, isCell := outer.Call.Args[2].(*ssa.Alloc)
	if o.Check(isCell && e.Arg(outer, 0) == "recv" && e.Arg(outer, 1) == "p0", "w-args", "the worker must start at the node Match is called on, with the given labels and a list of Match's own: "+clip(e.X(fn, outer)), outer) {
		for _, r := range *cell.Referrers() {
			if st, ok := r.(*ssa.Store); ok && st.Addr == ssa.Value(cell) {
				o.Check(isNilConst(st.Val) || IsEmptySlice(st.Val), "w-args", "the list handed to the worker must start empty, starts as "+clip(e.X(fn, st.Val)), st)
			}
		}
		for _, ret := range (&Walk{Fn: fn}).FromEntry().Returns() {
			u, ok := ret.Results[0].(*ssa.UnOp)
			o.Check(ok && u.X == ssa.Value(cell), "w-result", "Route.Match must return the list its worker filled, returns "+clip(e.X(fn, ret.Results[0])), ret)
		}
	}
	accP := w.Params[2]
	M := LRe(`^\(am/pkg/labels\.Matchers\)\.Matches\(recv\.Matchers, p0\)$`, true)
	o.RequireFn(e.CountLitEdges(w, M)+e.CountLitEdges(w, M.Neg()) > 0, "no-matcher-test", wn+" does not branch on r.Matchers.Matches(lset)", w)
	rec0 := o.One(e.Calls(w, wn), "b-rec", "recursive descent into children", w)
	rec := rec0.(*ssa.Call)
	var writes []*ssa.Store
	for _, in := range AllInstrs(w) {
		if st, ok := in.(*ssa.Store); ok && st.Addr == ssa.Value(accP) {
			writes = append(writes, st)
		}
	}
	// (a)
	{
		r := (&Walk{Fn: w, Cut: e.CutContradicting(M.Neg())}).FromEntry()
		rets := r.Returns()
		o.Require(len(rets) > 0, "a-noreturn", "no return reachable when matchers fail", nil)
		for _, ret := range rets {
			m := e.ValStrs(w, e.RetVals(r, ret, 0))
			o.Site(ret, "return under ¬Matches = "+strings.Join(m, "|"))
			o.Check(len(m) == 1 && m[0] == "false", "a-matched", "when the node's matchers do not match, the worker must say so but may answer "+strings.Join(m, "|"), ret)
		}
		o.Check(!r.Has(rec), "a-descend", "children are consulted although the node's matchers failed", rec)
		for _, st := range writes {
			o.Check(!r.Has(st), "a-nonnil", "the list is written although the node's matchers failed", st)
		}
	}
	// (b)
	o.Site(rec, "recursive call "+clip(e.X(w, rec)))
	o.Check(e.Arg(rec, 0) == "recv.Routes[i]" && e.Arg(rec, 1) == "p0" && rec.Call.Args[2] == ssa.Value(accP), "b-args", "the recursive call must be on r.Routes[i] with the same label set and the same list, got "+clip(e.X(w, rec)), rec)
	l := e.LoopOf(rec)
	o.Require(l != nil, "b-noloop", "the recursive call is not inside a loop over the children", rec)
	coll, kind := e.RangeOver(l)
	o.Check(coll == "recv.Routes" && kind == "index", "b-range", "the loop must visit r.Routes in ascending index order, ranges over "+coll+" ("+kind+")", rec)
	{
		bi, _ := l.BodyEntry()
		r := (&Walk{Fn: w, Barrier: IsInstr(rec)}).FromEdge(l.Header, bi)
		for _, ex := range e.EarlyExits(l) {
			o.Check(!r.Has(ex) || ex.Block() == l.Header, "b-skip", "an iteration can leave or skip without asking the child", ex)
		}
		for _, be := range l.Back {
			o.Check(!r.Edge[be], "b-skip-continue", "an iteration can continue to the next child without asking this one", rec)
		}
	}
	// (c)
	matched := L(e.X(w, rec), true)
	noCont := L("recv.Routes[i].Continue", false)
	o.LoopExitsGuarded(l, "c-exit-matched", "leaving the child loop early requires that the child matched", matched)
	o.LoopExitsGuarded(l, "c-exit-continue", "leaving the child loop early requires that the child has continue unset", noCont)
	{
		bi, _ := l.BodyEntry()
		r := (&Walk{Fn: w, Cut: e.CutContradicting(matched, noCont)}).FromEdge(l.Header, bi)
		o.Check(e.CountLitEdges(w, noCont)+e.CountLitEdges(w, noCont.Neg()) > 0, "c-no-continue-test", "the loop does not test the child's Continue flag", rec)
		o.Check(e.CountLitEdges(w, matched)+e.CountLitEdges(w, matched.Neg()) > 0, "c-no-matched-test", "the loop does not test whether the child matched", rec)
		for _, be := range l.Back {
			o.Check(!r.Edge[be], "c-must-stop", "after a matching child without continue the search must stop, but the loop can go on to the next sibling", rec)
		}
	}
	// (d)
	if o.Check(len(writes) == 1, "e-foreign", "the worker must write the list in exactly one place (adding the node itself), writes it in "+itoa(len(writes)), rec) {
		st := writes[0]
		ap, isAp := st.Val.(*ssa.Call)
		okSelf := isAp && isBuiltinCall("append")(ap)
		if okSelf {
			base, isLoad := ap.Call.Args[0].(*ssa.UnOp)
			els := VariadicElems(ap)
			okSelf = isLoad && base.X == ssa.Value(accP) && len(els) == 1 && e.X(w, els[0]) == "recv"
		}
		o.Check(okSelf, "e-foreign", "what is added to the matches must be the node itself, appended to the list: "+clip(e.X(w, st.Val)), st)
		o.Site(st, "the node itself is added")
		// the test "the list did not grow": len(list before the children) == len(list after them)
		lenAt := func(v ssa.Value) (*ssa.UnOp, bool) {
			c, ok := v.(*ssa.Call)
			if !ok || !isLenCall(c) {
				return nil, false
			}
			u, ok := c.Call.Args[0].(*ssa.UnOp)
			return u, ok && u.X == ssa.Value(accP)
		}
		var test *ssa.If
		for _, b := range w.Blocks {
			if len(b.Instrs) == 0 {
				continue
			}
			iff, ok := b.Instrs[len(b.Instrs)-1].(*ssa.If)
			if !ok {
				continue
			}
			c, ok := iff.Cond.(*ssa.BinOp)
			if !ok || c.Op != token.EQL {
				continue
			}
			x, okx := lenAt(c.X)
			y, oky := lenAt(c.Y)
			if !okx || !oky {
				continue
			}
			before, after := x, y
			if l.Blocks[before.Block().Index] || !dominates(before.Block(), l.Header) {
				before, after = y, x
			}
			okB := !l.Blocks[before.Block().Index] && dominates(before.Block(), l.Header)
			okA := !l.Blocks[after.Block().Index] && !dominates(after.Block(), l.Header)
			if okB && okA {
				test = iff
			}
		}
		if o.Check(test != nil, "d-self-forced", "when no child matched the node itself must be returned: the worker no longer compares the length of the list before and after the children", st) {
			o.Check(test.Block().Succs[0] == st.Block() || dominates(test.Block().Succs[0], st.Block()), "d-self-guard", "adding the node itself must happen exactly when the list did not grow", st)
			r := (&Walk{Fn: w, Barrier: IsInstr(st)}).FromEdge(test.Block(), 0)
			o.Check(len(r.Returns()) == 0, "d-self-forced", "when no child matched the node itself must be returned", st)
			r2 := (&Walk{Fn: w}).FromEdge(test.Block(), 1)
			o.Check(!r2.Has(st), "d-self-guard", "the node itself is added although a child already matched", st)
		}
	}
	// (e)
	{
		r := (&Walk{Fn: w, Cut: e.CutContradicting(M)}).FromEntry()
		for _, ret := range r.Returns() {
			m := e.ValStrs(w, e.RetVals(r, ret, 0))
			o.Site(ret, "returns "+strings.Join(m, "|"))
			o.Check(len(m) == 1 && m[0] == "true", "e-matched", "a node whose matchers match must report that it matched, may answer "+strings.Join(m, "|"), ret)
		}
	}
}

// routeMatchAccumulator decides C07.1 for the worker form.  With W(node, list, labels) = (list', matched):
//
//	(wrapper) Match returns the list of W(r, empty, lset);
//	(a) the node's matchers fail ⇒ W returns (list, false) without consulting a child;
//	(b) otherwise the children are consulted in configuration order, each with the list the previous
//	    one returned (the first with the list handed in) and the same labels, on every iteration;
//	(c) the loop is left early only, and then always, after a child that matched and has continue unset;
//	(d) the node itself is appended iff the list did not grow; (e) W returns (that list, true) and nothing else
//	    is ever put on the list.
//
// By induction a matching node adds at least one entry (d), a non-matching one none (a), so "the list did
// not grow" is "no child matched".
func routeMatchAccumulator(o *Ob, fn, w *ssa.Function, outer *ssa.Call) {
	e := o.E
	wn := fnName(w)
	o.Site(outer, "Route.Match delegates to "+wn)
	// wrapper
	for _, ret := range (&Walk{Fn: fn}).FromEntry().Returns() {
		ex, ok := ret.Results[0].(*ssa.Extract)
		o.Check(ok && ex.Tuple == ssa.Value(outer) && ex.Index == 0, "w-result", "Route.Match must return the list its worker built, returns "+clip(e.X(fn, ret.Results[0])), ret)
	}
	seed := outer.Call.Args[1]
	k, isNil := seed.(*ssa.Const)
	o.Check(e.Arg(outer, 0) == "recv" && e.Arg(outer, 2) == "p0" && (isNil && k.Value == nil || IsEmptySlice(seed)), "w-args", "the worker must start at the node Match is called on, with an empty list and the given labels: "+clip(e.X(fn, outer)), outer)
	M := LRe(`^\(am/pkg/labels\.Matchers\)\.Matches\(recv\.Matchers, p1\)$`, true)
	o.RequireFn(e.CountLitEdges(w, M)+e.CountLitEdges(w, M.Neg()) > 0, "no-matcher-test", wn+" does not branch on r.Matchers.Matches(lset)", w)
	rec0 := o.One(e.Calls(w, wn), "b-rec", "recursive descent into children", w)
	rec := rec0.(*ssa.Call)
	// (a)
	{
		r := (&Walk{Fn: w, Cut: e.CutContradicting(M.Neg())}).FromEntry()
		rets := r.Returns()
		o.Require(len(rets) > 0, "a-noreturn", "no return reachable when matchers fail", nil)
		for _, ret := range rets {
			l, m := e.ValStrs(w, e.RetVals(r, ret, 0)), e.ValStrs(w, e.RetVals(r, ret, 1))
			o.Site(ret, "return under ¬Matches = "+strings.Join(l, "|")+", "+strings.Join(m, "|"))
			o.Check(len(l) == 1 && l[0] == "p0", "a-nonnil", "when the node's matchers do not match, the list must come back unchanged but may be "+strings.Join(l, "|"), ret)
			o.Check(len(m) == 1 && m[0] == "false", "a-matched", "when the node's matchers do not match, the worker must say so but may answer "+strings.Join(m, "|"), ret)
		}
		o.Check(!r.Has(rec), "a-descend", "children are consulted although the node's matchers failed", rec)
	}
	// (b)
	o.Site(rec, "recursive call "+clip(e.X(w, rec)))
	o.Check(e.Arg(rec, 0) == "recv.Routes[i]" && e.Arg(rec, 2) == "p1", "b-args", "the recursive call must be on r.Routes[i] with the same label set, got "+clip(e.X(w, rec)), rec)
	l := e.LoopOf(rec)
	o.Require(l != nil, "b-noloop", "the recursive call is not inside a loop over the children", rec)
	coll, kind := e.RangeOver(l)
	o.Check(coll == "recv.Routes" && kind == "index", "b-range", "the loop must visit r.Routes in ascending index order, ranges over "+coll+" ("+kind+")", rec)
	isGrown := func(v ssa.Value) bool {
		ex, ok := v.(*ssa.Extract)
		return ok && ex.Tuple == ssa.Value(rec) && ex.Index == 0
	}
	acc, isPhi := rec.Call.Args[1].(*ssa.Phi)
	if o.Check(isPhi && acc.Block() == l.Header, "b-thread", "each child must extend the list the previous child returned, is handed "+clip(e.X(w, rec.Call.Args[1])), rec) {
		for i, ed := range acc.Edges {
			if l.Blocks[l.Header.Preds[i].Index] {
				o.Check(isGrown(ed), "b-keep-all", "the list a child returned must be carried to the next child, carried is "+clip(e.X(w, ed)), rec)
			} else {
				o.Check(e.X(w, ed) == "p0", "b-seed", "the first child must extend the list handed in, extends "+clip(e.X(w, ed)), rec)
			}
		}
	}
	{
		bi, _ := l.BodyEntry()
		r := (&Walk{Fn: w, Barrier: IsInstr(rec)}).FromEdge(l.Header, bi)
		for _, ex := range e.EarlyExits(l) {
			o.Check(!r.Has(ex) || ex.Block() == l.Header, "b-skip", "an iteration can leave or skip without asking the child", ex)
		}
		back := false
		for _, be := range l.Back {
			if r.Edge[be] {
				back = true
			}
		}
		o.Check(!back, "b-skip-continue", "an iteration can continue to the next child without asking this one", rec)
	}
	// (c)
	matched := L(e.X(w, rec)+"#1", true)
	noCont := L("recv.Routes[i].Continue", false)
	o.LoopExitsGuarded(l, "c-exit-matched", "leaving the child loop early requires that the child matched", matched)
	o.LoopExitsGuarded(l, "c-exit-continue", "leaving the child loop early requires that the child has continue unset", noCont)
	{
		bi, _ := l.BodyEntry()
		r := (&Walk{Fn: w, Cut: e.CutContradicting(matched, noCont)}).FromEdge(l.Header, bi)
		back := false
		for _, be := range l.Back {
			if r.Edge[be] {
				back = true
			}
		}
		o.Check(e.CountLitEdges(w, noCont)+e.CountLitEdges(w, noCont.Neg()) > 0, "c-no-continue-test", "the loop does not test the child's Continue flag", rec)
		o.Check(e.CountLitEdges(w, matched)+e.CountLitEdges(w, matched.Neg()) > 0, "c-no-matched-test", "the loop does not test whether the child matched", rec)
		o.Check(!back, "c-must-stop", "after a matching child without continue the search must stop, but the loop can go on to the next sibling", rec)
	}
	// (d), (e)
	{
		r := (&Walk{Fn: w, Cut: e.CutContradicting(M)}).FromEntry()
		var selfSites []ssa.Instruction
		var bases []ssa.Value
		var leaves func(v ssa.Value, at ssa.Instruction, seen map[ssa.Value]bool)
		leaves = func(v ssa.Value, at ssa.Instruction, seen map[ssa.Value]bool) {
			if seen[v] {
				return
			}
			seen[v] = true
			if v == ssa.Value(acc) || isGrown(v) {
				return
			}
			switch x := v.(type) {
			case *ssa.Phi:
				for _, ed := range x.Edges {
					leaves(ed, at, seen)
				}
				return
			case *ssa.Call:
				if isBuiltinCall("append")(x) {
					els := VariadicElems(x)
					o.Check(len(els) == 1 && e.X(w, els[0]) == "recv", "e-foreign", "something other than the node itself is added to the matches: "+clip(e.X(w, x)), x)
					selfSites = append(selfSites, x)
					bases = append(bases, x.Call.Args[0])
					leaves(x.Call.Args[0], at, seen)
					return
				}
			}
			o.Fail("e-foreign", "the list of matches is "+clip(e.X(w, v))+": neither the list the children built nor that list with the node itself", at)
		}
		for _, ret := range r.Returns() {
			m := e.ValStrs(w, e.RetVals(r, ret, 1))
			o.Site(ret, "returns "+clip(e.X(w, ret.Results[0])))
			o.Check(len(m) == 1 && m[0] == "true", "e-matched", "a node whose matchers match must report that it matched, may answer "+strings.Join(m, "|"), ret)
			leaves(ret.Results[0], ret, map[ssa.Value]bool{})
		}
		o.Check(len(selfSites) > 0, "d-self", "the node itself must be part of the result when no child matched", rec)
		emp := LitM{"len(list) unchanged", func(li Lit) bool {
			if !li.Pos {
				return false
			}
			for _, b := range bases {
				x := e.X(w, b)
				if li.Atom == "(len(p0) == len("+x+"))" || li.Atom == "(len("+x+") == len(p0))" {
					return true
				}
			}
			return false
		}}
		for _, ss := range selfSites {
			o.Guarded(ss, "d-self-guard", "adding the node itself", emp)
		}
		if len(selfSites) > 0 {
			if o.Check(e.CountLitEdges(w, emp)+e.CountLitEdges(w, emp.Neg()) > 0, "d-self-forced", "when no child matched the node itself must be returned: the worker no longer tests whether the list grew", rec) {
				rr := (&Walk{Fn: w, Cut: e.CutContradicting(M, emp), Barrier: IsInstr(selfSites...)}).FromEntry()
				for _, ret := range rr.Returns() {
					o.Fail("d-self-forced", "when no child matched the node itself must be returned", ret)
				}
				o.Checks++
				o.Passed++
			}
		}
	}
}

func init() {
	propInfos["C07"] = &propInfo{
		Explanation: "Decides the shape of the routing function and of option inheritance: (1) Route.Match returns nothing iff the node's matchers fail, recurses into the children in configuration order with the same label set, keeps all of each child's result, stops after a child only when that child matched and has continue unset, and adds the node itself iff no child matched; (2) newRoute starts from the parent's options (defaults at the root) and overwrites receiver, group_by, group_wait, group_interval, repeat_interval, labels only when the child sets them, from the child's own field, merging labels into a fresh map; (3) children are built from all configured child routes with the node as parent and matchers are the union of match, match_re and matchers; (4) API, amtool and dispatcher route through the one Route.Match on a tree built by NewRoute(cfg.Route, nil).",
		NotDecided:  "semantics of labels.Matcher.Matches (see C16); that the root always has a receiver (see C17).",
	}

	reg("C07", "C07.1", "T1,T6,T8", "Route.Match: nil iff matchers fail; depth-first over all children in order; stop only after a matching child without continue; self iff no child matched", func(o *Ob) {
		e := o.E
		fn := o.Fn("(*am/dispatch.Route).Match")
		M := LRe(`\(am/pkg/labels\.Matchers\)\.Matches\(recv\.Matchers, p0\)`, true)
		if e.CountLitEdges(fn, M)+e.CountLitEdges(fn, M.Neg()) == 0 {
			if w, call := matchWorker(e, fn); w != nil && w.Signature.Results().Len() == 1 {
				routeMatchPointerAccumulator(o, fn, w, call)
				o.MinSites(3)
				return
			}
			if w, call := matchWorker(e, fn); w != nil {
				routeMatchAccumulator(o, fn, w, call)
				o.MinSites(3)
				return
			}
		}
		o.RequireFn(e.CountLitEdges(fn, M)+e.CountLitEdges(fn, M.Neg()) > 0, "no-matcher-test", "Route.Match no longer branches on r.Matchers.Matches(lset)", fn)
		// (a) matchers fail -> only nil is returned
		{
			w := &Walk{Fn: fn, Cut: e.CutContradicting(M.Neg())}
			r := w.FromEntry()
			rets := r.Returns()
			o.Require(len(rets) > 0, "a-noreturn", "no return reachable when matchers fail", nil)
			for _, ret := range rets {
				vs := e.ValStrs(fn, e.RetVals(r, ret, 0))
				o.Site(ret, "return under ¬Matches = "+strings.Join(vs, "|"))
				o.Check(len(vs) == 1 && vs[0] == "nil", "a-nonnil", "when the node's matchers do not match, Match must return nil but may return "+strings.Join(vs, "|"), ret)
			}
			// and the recursive descent is not reachable
			for _, c := range e.Calls(fn, "(*am/dispatch.Route).Match") {
				o.Check(!r.Has(c), "a-descend", "children are consulted although the node's matchers failed", c)
			}
		}
		// (b) the recursion
		rec := o.One(e.Calls(fn, "(*am/dispatch.Route).Match"), "b-rec", "recursive descent into children", fn)
		o.Site(rec, "recursive call "+e.X(fn, rec.(*ssa.Call)))
		o.Check(e.Arg(rec, 0) == "recv.Routes[i]" && e.Arg(rec, 1) == "p0", "b-args", "the recursive call must be child.Match(lset) on r.Routes[i] with the same label set, got "+e.X(fn, rec.(*ssa.Call)), rec)
		l := e.LoopOf(rec)
		o.Require(l != nil, "b-noloop", "the recursive call is not inside a loop over the children", rec)
		coll, kind := e.RangeOver(l)
		o.Check(coll == "recv.Routes" && kind == "index", "b-range", "the loop must visit r.Routes in ascending index order, ranges over "+coll+" ("+kind+")", rec)
		// the call happens on every iteration before any exit
		{
			bi, _ := l.BodyEntry()
			w := &Walk{Fn: fn, Barrier: IsInstr(rec)}
			r := w.FromEdge(l.Header, bi)
			for _, ex := range e.EarlyExits(l) {
				o.Check(!r.Has(ex) || ex.Block() == l.Header, "b-skip", "an iteration can leave or skip without asking the child", ex)
			}
			back := false
			for _, be := range l.Back {
				if r.Edge[be] {
					back = true
				}
			}
			o.Check(!back, "b-skip-continue", "an iteration can continue to the next child without asking this one", rec)
		}
		// (c) early exit only when matched ∧ ¬continue; and then it must exit
		matched := LRe(`\(\(\*am/dispatch\.Route\)\.Match\(recv\.Routes\[i\], p0\) == nil\)`, false)
		matchedLen := LRe(`\(len\(\(\*am/dispatch\.Route\)\.Match\(recv\.Routes\[i\], p0\)\) == 0\)`, false)
		matchedLen2 := LRe(`\(0 < len\(\(\*am/dispatch\.Route\)\.Match\(recv\.Routes\[i\], p0\)\)\)`, true)
		noCont := L("recv.Routes[i].Continue", false)
		o.LoopExitsGuarded(l, "c-exit-matched", "leaving the child loop early requires that the child matched", matched, matchedLen, matchedLen2)
		o.LoopExitsGuarded(l, "c-exit-continue", "leaving the child loop early requires that the child has continue unset", noCont)
		{
			// matched ∧ ¬continue ⇒ no back edge
			bi, _ := l.BodyEntry()
			cut := e.CutContradicting(matched, matchedLen, matchedLen2, noCont)
			w := &Walk{Fn: fn, Cut: cut}
			r := w.FromEdge(l.Header, bi)
			back := false
			for _, be := range l.Back {
				if r.Edge[be] {
					back = true
				}
			}
			o.Check(e.CountLitEdges(fn, noCont)+e.CountLitEdges(fn, noCont.Neg()) > 0, "c-no-continue-test", "the loop does not test the child's Continue flag", rec)
			o.Check(!back, "c-must-stop", "after a matching child without continue the search must stop, but the loop can go on to the next sibling", rec)
		}
		// (b') all of the child's result is kept; (d) self iff nothing collected; (e) the collection is returned.
		// Stated over what the returns can hold, whether the node is appended to the collection or
		// returned as a one-element list of its own.
		{
			w := &Walk{Fn: fn, Cut: e.CutContradicting(M)}
			r := w.FromEntry()
			var selfSites []ssa.Instruction
			anySpread := false
			for _, ret := range r.Returns() {
				bases, parts := e.AppendPartsUnder(r, ret.Results[0])
				var ps []string
				for _, p := range parts {
					s := e.X(fn, p.V)
					if p.Spread && p.V == ssa.Value(rec.(*ssa.Call)) {
						anySpread = true
					} else if !p.Spread && s == "recv" {
						selfSites = append(selfSites, p.Call)
					} else {
						o.Fail("e-foreign", "the result of Match contains something other than the children's matches or the node itself: "+s, ret)
					}
					ps = append(ps, s)
				}
				for _, b := range bases {
					if IsEmptySlice(b) {
						continue
					}
					if sl, ok := b.(*ssa.Slice); ok {
						if els := e.OrderedElems(sl); len(els) == 1 && e.X(fn, els[0]) == "recv" {
							selfSites = append(selfSites, ret)
							ps = append(ps, "[recv]")
							continue
						}
					}
					o.Fail("e-base", "the result of Match is seeded with "+e.X(fn, b), ret)
				}
				o.Site(ret, "returns acc of {"+strings.Join(ps, ", ")+"}")
			}
			o.Check(anySpread, "b-keep-all", "the whole result of the child (matches...) must be appended to the returned slice", rec)
			o.Check(len(selfSites) > 0, "d-self", "the node itself must be part of the result when no child matched", rec)
			emp := LitM{"len(collected)==0", func(li Lit) bool {
				return li.Pos && strings.HasPrefix(li.Atom, "(len(acc(") && strings.HasSuffix(li.Atom, ") == 0)") && strings.Contains(li.Atom, "...(*am/dispatch.Route).Match(recv.Routes[i], p0)")
			}}
			empNil := LitM{"collected==nil", func(li Lit) bool {
				return li.Pos && strings.HasPrefix(li.Atom, "(acc(") && strings.HasSuffix(li.Atom, ") == nil)") && strings.Contains(li.Atom, "...(*am/dispatch.Route).Match(recv.Routes[i], p0)")
			}}
			for _, ss := range selfSites {
				// guarded by len(acc)==0 where acc holds the children's matches
				o.Guarded(ss, "d-self-guard", "returning the node itself", emp, empNil)
			}
			if len(selfSites) > 0 {
				// conversely: nothing collected ⇒ the node itself is in what is returned
				empAny := LitM{"empty", func(li Lit) bool { return emp.F(li) || empNil.F(li) }}
				if o.Check(e.CountLitEdges(fn, empAny)+e.CountLitEdges(fn, empAny.Neg()) > 0, "d-self-forced", "when no child matched the node itself must be returned: Match no longer tests whether anything was collected", rec) {
					rr := (&Walk{Fn: fn, Cut: e.CutContradicting(M, empAny), Barrier: IsInstr(selfSites...)}).FromEntry()
					isSelf := IsInstr(selfSites...)
					for _, ret := range rr.Returns() {
						if !isSelf(ret) {
							o.Fail("d-self-forced", "when no child matched the node itself must be returned", ret)
						}
					}
					o.Checks++
					o.Passed++
				}
			}
		}
		o.MinSites(3)
	})

	reg("C07", "C07.2", "T1,T2,T11", "newRoute: options start from the parent (defaults at the root); each inheritable option is overwritten iff the child sets it, from the child's own field", func(o *Ob) {
		e := o.E
		fn := o.Fn("am/dispatch.newRoute")
		const opts = "&opts:am/dispatch.RouteOpts"
		// initialisation
		inits := e.StoresTo(fn, opts)
		o.Require(len(inits) >= 1, "no-opts", "newRoute no longer builds its options in a local RouteOpts value", nil)
		sawDefault, sawParent := false, false
		for _, st := range inits {
			v := e.X(fn, st.Val)
			o.Site(st, "opts := "+v)
			switch v {
			case "am/dispatch.DefaultRouteOpts":
				sawDefault = true
			case "p1.RouteOpts":
				sawParent = true
				o.Guarded(st, "init-parent-guard", "copying the parent's options", L("(p1 == nil)", false))
			default:
				o.Fail("init-foreign", "options initialised from "+v+" (expected the defaults or the parent's options)", st)
			}
		}
		o.Check(sawDefault, "init-default", "the root's options must start from DefaultRouteOpts", nil)
		o.Check(sawParent, "init-parent", "a child's options must start from parent.RouteOpts (inheritance)", nil)
		// parent != nil ⇒ parent's options are taken
		for _, st := range inits {
			if e.X(fn, st.Val) == "p1.RouteOpts" {
				o.Forced(fn, "init-parent-forced", "with a parent, the parent's options must be copied", IsInstr(st), L("(p1 == nil)", false))
			}
		}
		type fld struct {
			name   string
			guards []LitM
			from   string // substring the stored value must contain when it is the child-set store
		}
		flds := []fld{
			{"Receiver", []LitM{L(`(p0.Receiver == "")`, false)}, "p0.Receiver"},
			{"GroupWait", []LitM{L("(p0.GroupWait == nil)", false)}, "p0.GroupWait"},
			{"GroupInterval", []LitM{L("(p0.GroupInterval == nil)", false)}, "p0.GroupInterval"},
			{"RepeatInterval", []LitM{L("(p0.RepeatInterval == nil)", false)}, "p0.RepeatInterval"},
			{"Labels", []LitM{L("(len(p0.Labels) == 0)", false), L("(p0.Labels == nil)", false)}, ""},
			{"GroupBy", []LitM{L("(p0.GroupBy == nil)", false)}, ""}, // not len()==0: an explicit empty group_by is an override (config keeps it non-nil)
			{"GroupByAll", []LitM{L("(p0.GroupBy == nil)", false), L("p0.GroupByAll", true)}, ""},
		}
		for _, f := range flds {
			sts := e.StoresTo(fn, opts+"."+f.name)
			o.Check(len(sts) > 0, "no-override|"+f.name, "the child's "+f.name+" is never applied to the route's options", nil)
			for _, st := range sts {
				v := e.X(fn, st.Val)
				o.Site(st, "opts."+f.name+" := "+v)
				o.Guarded(st, "override-guard|"+f.name, "overwriting the inherited "+f.name, f.guards...)
				if f.from != "" {
					o.Check(strings.Contains(v, f.from), "override-value|"+f.name, "opts."+f.name+" is set from "+v+", expected the child's "+f.from, st)
				}
			}
			// child sets it ⇒ a store happens (first guard is the canonical "is set" test)
			if len(sts) > 0 && f.name != "GroupByAll" {
				g := f.guards[0]
				if e.CountLitEdges(fn, g)+e.CountLitEdges(fn, g.Neg()) == 0 && len(f.guards) > 1 {
					g = f.guards[1]
				}
				o.Forced(fn, "override-forced|"+f.name, "a child that sets "+f.name+" must override the inherited value", isStoreAddr(e, opts+"."+f.name), g)
			}
		}
		// group_by_all: true in the child (without group_by) must set it; explicit group_by must clear it
		{
			okSet, okClear := false, false
			for _, st := range e.StoresTo(fn, opts+".GroupByAll") {
				v := e.X(fn, st.Val)
				if v == "p0.GroupByAll" || v == "true" {
					okSet = true
				}
				if v == "false" {
					okClear = true
					o.Guarded(st, "gba-clear-guard", "clearing group_by_all", L("(p0.GroupBy == nil)", false))
				}
			}
			o.Check(okSet, "gba-set", "group_by: ['...'] on a child is never applied", nil)
			o.Check(okClear, "gba-clear", "an explicit group_by list on a child must switch off an inherited group_by_all", nil)
		}
		// the route gets these options
		ro := e.StoresTo(fn, "&complit:am/dispatch.Route.RouteOpts")
		o.Require(len(ro) == 1, "route-opts", "the new Route's RouteOpts is not set exactly once", nil)
		// time intervals are a route's own: never inherited, so on every path they are (re)set from the child's lists
		for _, f := range []string{"MuteTimeIntervals", "ActiveTimeIntervals"} {
			var own []ssa.Instruction
			for _, st := range e.StoresTo(fn, opts+"."+f) {
				v := e.X(fn, st.Val)
				o.Site(st, "opts."+f+" := "+v)
				if v == "p0."+f {
					own = append(own, st)
					continue
				}
				if isNilConst(st.Val) || IsEmptySlice(st.Val) {
					own = append(own, st)
					o.Guarded(st, "own-intervals-clear|"+f, "clearing the route's "+f, L("(len(p0."+f+") == 0)", true), L("(p0."+f+" == nil)", true))
					continue
				}
				o.Fail("own-intervals-value|"+f, "a route's "+f+" must be the ones configured on that route, is "+v, st)
			}
			if o.Check(len(own) > 0, "own-intervals|"+f, "the route's "+f+" are never taken from its configuration", nil) {
				r := (&Walk{Fn: fn, Barrier: IsInstr(own...)}).FromEntry()
				o.Check(!r.Has(ro[0]), "own-intervals-forced|"+f, "a route can keep the "+f+" copied from its parent: time intervals are not inherited, an alert routed to a nested route would be muted (or only active) by the enclosing route's intervals", ro[0])
			}
		}
		o.Check(e.X(fn, ro[0].Val) == "var:opts", "route-opts-value", "the new Route's options are "+e.X(fn, ro[0].Val)+", expected the computed opts", ro[0])
		o.Site(ro[0], "Route.RouteOpts := opts")
		// no store to opts fields after it was copied into the route
		o.NeverAfter(ro[0], "late-store", "an option is written after the options were copied into the route (it has no effect)", func(in ssa.Instruction) bool {
			st, ok := in.(*ssa.Store)
			return ok && strings.HasPrefix(e.X(fn, st.Addr), opts)
		}, nil)
		o.MinSites(8)
	})

	reg("C07", "C07.3", "T1,T3", "newRoute writes only maps it allocated itself (parent's Labels / GroupBy are shared with siblings and never written)", func(o *Ob) {
		e := o.E
		fn := o.Fn("am/dispatch.newRoute")
		isFresh := func(v ssa.Value) bool {
			switch x := v.(type) {
			case *ssa.MakeMap:
				return x.Parent() == fn
			case *ssa.UnOp:
				// load of opts.GroupBy / opts.Labels: fresh iff every store to that address on every path before is a MakeMap — decided by dominance below
				return false
			}
			return false
		}
		n := 0
		for _, in := range AllInstrs(fn) {
			switch x := in.(type) {
			case *ssa.MapUpdate:
				n++
				o.Site(in, "map write to "+e.X(fn, x.Map))
				if isFresh(x.Map) {
					o.Check(true, "", "", in)
					continue
				}
				// map loaded from a local field: every path to here must pass a store of a fresh map to that field after the last copy of inherited options
				ld, ok := x.Map.(*ssa.UnOp)
				if !ok {
					o.Fail("mapwrite-foreign", "newRoute writes into map "+e.X(fn, x.Map)+" which it did not allocate", in)
					continue
				}
				addr := e.X(fn, ld.X)
				if !strings.HasPrefix(addr, "&opts:am/dispatch.RouteOpts.") {
					o.Fail("mapwrite-foreign", "newRoute writes into map "+addr+" which it did not allocate", in)
					continue
				}
				fresh := func(i ssa.Instruction) bool {
					st, ok := i.(*ssa.Store)
					if !ok || e.X(fn, st.Addr) != addr {
						return false
					}
					_, mk := st.Val.(*ssa.MakeMap)
					return mk
				}
				o.Precedes(in, "mapwrite-inherited|"+addr, "the map in "+addr+" may still be the parent's (or the defaults') when it is written: siblings share it", fresh)
			case *ssa.Call:
				if cn := calleeName(&x.Call); cn == "maps.Copy" || cn == "maps.Insert" {
					n++
					dst := x.Call.Args[0]
					o.Site(in, cn+" into "+e.X(fn, dst))
					o.Check(isFresh(dst), "copy-into-foreign", cn+" writes into "+e.X(fn, dst)+", not a map allocated in newRoute", in)
				}
				if bi, ok := x.Call.Value.(*ssa.Builtin); ok && (bi.Name() == "delete" || bi.Name() == "clear") {
					n++
					o.Check(isFresh(x.Call.Args[0]), "delete-foreign", "newRoute deletes from "+e.X(fn, x.Call.Args[0]), in)
				}
			}
		}
		// merged labels = parent's then child's
		var srcs []string
		for _, c := range e.Calls(fn, "maps.Copy") {
			srcs = append(srcs, e.Arg(c, 1))
		}
		o.Check(len(srcs) == 2 && srcs[0] == "&opts:am/dispatch.RouteOpts.Labels" && srcs[1] == "p0.Labels", "label-merge", "labels must be merged as inherited labels then the child's labels (child wins), got copies from "+strings.Join(srcs, ", "), nil)
		o.MinSites(2)
	})

	reg("C07", "C07.4", "T8,T11", "children are built from all of cr.Routes with the new node as parent; matchers are the union of match, match_re and matchers", func(o *Ob) {
		e := o.E
		fn := o.Fn("am/dispatch.newRoute")
		nrs := o.FnOpt("am/dispatch.newRoutes")
		// Route.Routes value
		st := e.StoresTo(fn, "&complit:am/dispatch.Route.Routes")
		o.Require(len(st) == 1, "routes-store", "the new Route's children are not set exactly once", nil)
		v := e.X(fn, st[0].Val)
		o.Site(st[0], "Route.Routes := "+v)
		if nrs != nil {
			o.Check(v == "am/dispatch.newRoutes(p0.Routes, &complit:am/dispatch.Route, p2)", "children-args", "children must be built from cr.Routes with the new route as parent, got "+v, st[0])
			c := o.One(e.Calls(nrs, "am/dispatch.newRoute"), "children-call", "newRoutes must build each child with newRoute", nrs)
			o.Check(e.Arg(c, 0) == "p0[i]" && e.Arg(c, 1) == "p1", "children-each", "each child must be newRoute(croutes[i], parent, …), got "+e.X(nrs, c.(*ssa.Call)), c)
			l := e.LoopOf(c)
			o.Require(l != nil, "children-loop", "children are not built in a loop", c)
			coll, kind := e.RangeOver(l)
			o.Check(coll == "p0" && kind == "index", "children-range", "children must be built in configuration order from all configured routes", c)
			o.Check(len(e.EarlyExits(l)) == 0, "children-early-exit", "the loop building the children can stop early", c)
			for _, ret := range (&Walk{Fn: nrs}).FromEntry().Returns() {
				_, parts := e.AppendParts(ret.Results[0])
				ok := false
				for _, p := range parts {
					if !p.Spread && p.V == ssa.Value(c.(*ssa.Call)) {
						ok = true
					}
				}
				o.Check(ok, "children-kept", "a built child is not added to the returned list", ret)
				// appended on every iteration
				bi, _ := l.BodyEntry()
				r := (&Walk{Fn: nrs, Barrier: func(in ssa.Instruction) bool {
					for _, p := range parts {
						if in == ssa.Instruction(p.Call) {
							return true
						}
					}
					return false
				}}).FromEdge(l.Header, bi)
				back := false
				for _, be := range l.Back {
					if r.Edge[be] {
						back = true
					}
				}
				o.Check(!back, "children-filter", "a child can be skipped", c)
			}
		} else {
			o.Fail("anchor-missing|newRoutes", "helper newRoutes is gone; children construction cannot be located", st[0])
		}
		// parent pointer
		ps := e.StoresTo(fn, "&complit:am/dispatch.Route.parent")
		o.Check(len(ps) == 1 && e.X(fn, ps[0].Val) == "p1", "parent-ptr", "Route.parent must be the parent argument (Key/ID walk it)", nil)
		cs := e.StoresTo(fn, "&complit:am/dispatch.Route.Continue")
		o.Check(len(cs) == 1 && e.X(fn, cs[0].Val) == "p0.Continue", "continue-copy", "Route.Continue must be the configured continue flag", nil)
		// matchers
		ms := e.StoresTo(fn, "&complit:am/dispatch.Route.Matchers")
		o.Require(len(ms) == 1, "matchers-store", "the new Route's matchers are not set exactly once", nil)
		_, parts := e.AppendParts(ms[0].Val)
		var got []string
		for _, p := range parts {
			s := e.X(fn, p.V)
			if p.Spread {
				s = "..." + s
			}
			got = append(got, s)
		}
		o.Site(ms[0], "Route.Matchers := acc{"+strings.Join(got, " ; ")+"}")
		want := map[string]string{
			"am/pkg/labels.NewMatcher(0, next(range(p0.Match))#1, next(range(p0.Match))#2)#0":                                     "match (equality)",
			"am/pkg/labels.NewMatcher(2, next(range(p0.MatchRE))#1, (*regexp.Regexp).String(next(range(p0.MatchRE))#2.Regexp))#0": "match_re (regex)",
			"...p0.Matchers": "matchers",
		}
		for w, what := range want {
			found := false
			for _, g := range got {
				if g == w {
					found = true
				}
			}
			o.Check(found, "matchers-missing|"+what, "the route's matchers do not include the configured "+what, ms[0])
		}
		o.Check(len(got) == 3, "matchers-extra", "the route's matchers contain unexpected parts: "+strings.Join(got, " ; "), ms[0])
		// every entry of Match / MatchRE is visited
		for _, c := range e.Calls(fn, "am/pkg/labels.NewMatcher") {
			l := e.LoopOf(c)
			if o.Check(l != nil, "matchers-loop", "a NewMatcher call is outside a loop", c) {
				for _, ex := range e.EarlyExits(l) {
					_, isPanic := ex.(*ssa.Panic)
					_, isIf := ex.(*ssa.If)
					ok := isPanic
					if isIf {
						// exit to a panic block
						ok = true
						for _, s := range ex.Block().Succs {
							if !l.Blocks[s.Index] {
								if _, p := s.Instrs[len(s.Instrs)-1].(*ssa.Panic); !p {
									ok = false
								}
							}
						}
					}
					o.Check(ok, "matchers-early-exit", "the loop over match / match_re can stop before all entries became matchers", ex)
				}
			}
		}
		o.MinSites(2)
	})

	reg("C07", "C07.6", "T4", "API, amtool and dispatcher all route with (*Route).Match on a tree built by NewRoute(cfg.Route, nil)", func(o *Ob) {
		e := o.E
		match := o.Fn("(*am/dispatch.Route).Match")
		type site struct{ fn, recv, arg string }
		need := map[string]site{
			"(*am/api/v2.API).getAlertsHandler":    {"", "recv.route", ".Labels"},
			"(*am/dispatch.Dispatcher).routeAlert": {"", "recv.route", ".Labels"},
			"am/cli.resolveAlertReceivers":         {"", "p0", ""},
		}
		seen := map[string]bool{}
		for _, cs := range e.callers[match] {
			n := fnName(cs.Caller)
			if n == "(*am/dispatch.Route).Match" {
				continue
			}
			o.Site(cs.Instr, "caller of Route.Match")
			seen[n] = true
			if w, ok := need[n]; ok {
				o.Check(e.Arg(cs.Instr, 0) == w.recv, "match-recv|"+n, n+" must route on its route tree ("+w.recv+"), routes on "+e.Arg(cs.Instr, 0), cs.Instr)
				if w.arg != "" {
					o.Check(strings.HasSuffix(e.Arg(cs.Instr, 1), w.arg), "match-arg|"+n, n+" must route by the alert's labels, routes by "+e.Arg(cs.Instr, 1), cs.Instr)
				}
			}
		}
		for n := range need {
			o.Check(seen[n], "match-missing|"+n, n+" no longer determines receivers with (*Route).Match: its answer can disagree with the dispatcher's", nil)
		}
		// trees are built by NewRoute(cfg.Route, nil)
		nr := o.Fn("am/dispatch.NewRoute")
		builders := map[string]bool{}
		for _, cs := range e.callers[nr] {
			n := fnName(cs.Caller)
			builders[n] = true
			o.Site(cs.Instr, "builds a routing tree")
			a0, a1 := e.Arg(cs.Instr, 0), e.Arg(cs.Instr, 1)
			o.Check(strings.HasSuffix(a0, ".Route") && a1 == "nil", "tree-args|"+n, "the routing tree must be NewRoute(cfg.Route, nil), got NewRoute("+a0+", "+a1+")", cs.Instr)
		}
		for _, n := range []string{"(*am/api/v2.API).Update", "(*am/app.reloader).reload", "(*am/cli.routingShow).routingTestAction"} {
			ok := builders[n]
			if !ok {
				// reload may be a method with a different rendering
				for b := range builders {
					if strings.HasSuffix(b, strings.TrimPrefix(n, "am/app.")) {
						ok = true
					}
				}
			}
			o.Check(ok, "tree-missing|"+n, n+" no longer builds its routing tree with NewRoute", nil)
		}
		// every configuration handed to the API replaces its tree: the tree the API matches with is the one of the
		// configuration in force (a tree kept across a reload answers with receivers of the previous configuration)
		{
			v2 := o.Fn("(*am/api/v2.API).Update")
			var sts []ssa.Instruction
			for _, st := range e.StoresToField(v2, "am/api/v2.API", "route") {
				sts = append(sts, st)
				v := e.X(v2, st.Val)
				o.Site(st, "API.route := "+v)
				o.Check(strings.HasPrefix(v, "am/dispatch.NewRoute(p0.Route"), "api-tree-value", "the API's routing tree must be built from the configuration given to Update, is "+v, st)
			}
			if o.Check(len(sts) >= 1, "api-tree-store", "API.Update no longer installs a routing tree", fnFirst(v2)) {
				o.Check(len((&Walk{Fn: v2, Barrier: IsInstr(sts...)}).FromEntry().Returns()) == 0, "api-tree-forced", "API.Update can return without rebuilding its routing tree from the new configuration: after a reload the API would match alerts against the previous tree and disagree with the dispatcher", sts[0])
			}
		}
		// NewRoute delegates to newRoute(cr, parent, counter)
		c := o.One(e.Calls(nr, "am/dispatch.newRoute"), "newroute-delegate", "NewRoute must delegate to newRoute", nr)
		o.Check(e.Arg(c, 0) == "p0" && e.Arg(c, 1) == "p1", "newroute-args", "NewRoute must pass its arguments through", c)
		// Dispatcher.route / API.route single writers
		for _, tf := range [][2]string{{"am/dispatch.Dispatcher", "route"}, {"am/api/v2.API", "route"}} {
			for _, w := range e.Writers(tf[0], tf[1]) {
				o.Site(w.Instr, "writer of "+tf[0]+"."+tf[1])
			}
		}
		o.MinSites(6)
	})
}
