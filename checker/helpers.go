package main

import (
	"fmt"
	"go/types"
	"os"
	"regexp"
	"sort"
	"strings"

	"golang.org/x/tools/go/ssa"
)

// Guarded: target is reachable only through an edge asserting one of lits (a disjunction).
func (o *Ob) Guarded(target ssa.Instruction, key, what string, lits ...LitM) bool {
	var ds []string
	for _, l := range lits {
		ds = append(ds, l.Desc)
	}
	ok := o.E.OnlyUnder(target, lits...)
	return o.Check(ok, key, what+": must be guarded by "+strings.Join(ds, " ∨ ")+" on every path, but a path reaches it without", target)
}

// Forced: assuming all of assume, every path of fn from entry to a return passes an instruction satisfying effect.
// Each assumed literal must occur in fn (otherwise the obligation would hold vacuously or be meaningless).
// Branches on anything else are unconstrained: a new guard in front of the tested conditions that lets a path
// skip the effect is a violation.  Obligations that only start at some point of the function (after a call whose
// result is assumed) use ForcedAfter; per-iteration obligations use loopBackWithout.
func (o *Ob) Forced(fn *ssa.Function, key, what string, effect func(ssa.Instruction) bool, assume ...LitM) bool {
	for _, a := range assume {
		if o.E.CountLitEdges(fn, a)+o.E.CountLitEdges(fn, a.Neg()) == 0 {
			o.FailAt(key, what+": no branch on "+a.Desc+" exists in "+fnName(fn), fn)
			return false
		}
	}
	w := &Walk{Fn: fn, Cut: o.E.CutContradicting(assume...), Barrier: effect}
	r := w.FromEntry()
	rets := r.Returns()
	if len(rets) > 0 {
		var ds []string
		for _, l := range assume {
			ds = append(ds, l.Desc)
		}
		o.Fail(key, what+": under "+strings.Join(ds, " ∧ ")+" a path reaches the return without it", rets[0])
		return false
	}
	o.Checks++
	o.Passed++
	return true
}

// ForcedAfter: from the instruction(s) start, every path to a return passes effect (cuts optional).
func (o *Ob) ForcedAfter(start ssa.Instruction, key, what string, effect func(ssa.Instruction) bool, assume ...LitM) bool {
	w := &Walk{Fn: start.Parent(), Cut: o.E.CutContradicting(assume...), Barrier: effect}
	r := w.After(start)
	if rets := r.Returns(); len(rets) > 0 {
		o.Fail(key, what+": a path from "+o.E.InstrPos(start)+" reaches the return at "+o.E.InstrPos(rets[0])+" without it", start)
		return false
	}
	o.Checks++
	o.Passed++
	return true
}

// NeverAfter: no instruction satisfying bad is reachable after start.
func (o *Ob) NeverAfter(start ssa.Instruction, key, what string, bad func(ssa.Instruction) bool, barrier func(ssa.Instruction) bool) bool {
	w := &Walk{Fn: start.Parent(), Barrier: barrier}
	r := w.After(start)
	for _, in := range AllInstrs(start.Parent()) {
		if r.Has(in) && bad(in) {
			o.Fail(key, what+": reachable at "+o.E.InstrPos(in)+" after "+o.E.InstrPos(start), in)
			return false
		}
	}
	o.Checks++
	o.Passed++
	return true
}

// Precedes: every path from entry to target passes an instruction satisfying first.
func (o *Ob) Precedes(target ssa.Instruction, key, what string, first func(ssa.Instruction) bool) bool {
	w := &Walk{Fn: target.Parent(), Barrier: func(in ssa.Instruction) bool { return in != target && first(in) }}
	ok := !w.FromEntry().Has(target)
	return o.Check(ok, key, what, target)
}

// StoresTo returns the stores of fn whose address renders exactly to addr.
func (e *Eng) StoresTo(fn *ssa.Function, addr string) []*ssa.Store {
	var out []*ssa.Store
	for _, in := range AllInstrs(fn) {
		if st, ok := in.(*ssa.Store); ok && e.X(fn, st.Addr) == addr {
			out = append(out, st)
		}
	}
	return out
}

// StoresToField returns stores in fn to field F of struct type T (any base).
func (e *Eng) StoresToField(fn *ssa.Function, T, F string) []*ssa.Store {
	var out []*ssa.Store
	for _, in := range AllInstrs(fn) {
		if st, ok := in.(*ssa.Store); ok {
			if fa, ok := st.Addr.(*ssa.FieldAddr); ok && typeKey(fa.X.Type()) == T && fieldName(fa.X.Type(), fa.Field) == F {
				out = append(out, st)
			}
		}
	}
	return out
}

func isStore(st *ssa.Store) func(ssa.Instruction) bool {
	return func(in ssa.Instruction) bool { return in == ssa.Instruction(st) }
}

func isStoreAddr(e *Eng, addr string) func(ssa.Instruction) bool {
	return func(in ssa.Instruction) bool {
		st, ok := in.(*ssa.Store)
		return ok && e.X(in.Parent(), st.Addr) == addr
	}
}

// One returns the single element of a call list, or records a violation and aborts.
func (o *Ob) One(cs []ssa.CallInstruction, key, what string, fn *ssa.Function) ssa.CallInstruction {
	if len(cs) != 1 {
		o.FailAt(key, what+": expected exactly one site in "+fnName(fn)+", found "+itoa(len(cs)), fn)
		panic(abortRule{})
	}
	return cs[0]
}

// Some returns the list if non-empty, or records a violation and aborts.
func (o *Ob) Some(cs []ssa.CallInstruction, key, what string, fn *ssa.Function) []ssa.CallInstruction {
	if len(cs) == 0 {
		o.FailAt(key, what+": no site found in "+fnName(fn), fn)
		panic(abortRule{})
	}
	return cs
}

func itoa(i int) string {
	return strings.TrimSpace(strings.Replace(strings.Repeat(" ", 0)+fmtInt(i), " ", "", -1))
}

func fmtInt(i int) string {
	if i == 0 {
		return "0"
	}
	neg := i < 0
	if neg {
		i = -i
	}
	var b []byte
	for i > 0 {
		b = append([]byte{byte('0' + i%10)}, b...)
		i /= 10
	}
	if neg {
		b = append([]byte{'-'}, b...)
	}
	return string(b)
}

// ExitsOnlyUnder: every exit edge of the loop other than the header (exhaustion) exit
// is reachable from the loop body entry only through an edge asserting one of lits.
func (o *Ob) LoopExitsGuarded(l *Loop, key, what string, lits ...LitM) bool {
	e := o.E
	cut := e.CutLits(lits...)
	hx, _ := l.HeaderExit()
	w := &Walk{Fn: l.Fn, Cut: func(b *ssa.BasicBlock, s int) bool {
		if b == l.Header && s == hx {
			return true // exhaustion exit is not of interest
		}
		if !l.Blocks[b.Index] {
			return true
		}
		return cut(b, s)
	}}
	// start at header
	r := w.run([]*ssa.BasicBlock{l.Header}, []int{0})
	for _, ex := range l.Exits {
		if ex[0] == l.Header.Index && ex[1] == hx {
			continue
		}
		b := l.Fn.Blocks[ex[0]]
		if r.Block[b.Index] || b == l.Header {
			// block reached; is the exit edge traversable?
			if r.Edge[[2]int{b.Index, b.Succs[ex[1]].Index}] {
				var ds []string
				for _, x := range lits {
					ds = append(ds, x.Desc)
				}
				o.Fail(key, what+": the loop can be left early without "+strings.Join(ds, " ∨ "), b.Instrs[len(b.Instrs)-1])
				return false
			}
		}
	}
	o.Checks++
	o.Passed++
	return true
}

// EarlyExits lists the exits of a loop other than exhaustion at the header, including
// returns and panics inside the loop body.
func (e *Eng) EarlyExits(l *Loop) []ssa.Instruction {
	var out []ssa.Instruction
	hx, ok := l.HeaderExit()
	for _, ex := range l.Exits {
		if ok && ex[0] == l.Header.Index && ex[1] == hx {
			continue
		}
		b := l.Fn.Blocks[ex[0]]
		if isUnreachablePanic(b.Succs[ex[1]]) {
			continue
		}
		out = append(out, b.Instrs[len(b.Instrs)-1])
	}
	for bi := range l.Blocks {
		b := l.Fn.Blocks[bi]
		if len(b.Succs) == 0 && len(b.Instrs) > 0 {
			out = append(out, b.Instrs[len(b.Instrs)-1])
		}
	}
	return out
}

// ---------------------------------------------------------------------------
// Decision tables (T6)
// ---------------------------------------------------------------------------

// Row is one row of a decision table: under the assumed literals, every
// reachable return must return values from the allowed sets, the Must effects
// lie on every path to a return and the Never effects on none.
type Row struct {
	Name   string
	Assume []LitM
	Opt    []LitM     // assumptions applied where the function tests them, without requiring that it does
	Ret    [][]string // per result index: allowed canonical renderings (nil = any)
	Must   []func(ssa.Instruction) bool
	Never  []func(ssa.Instruction) bool
	// NoReturn: the row must not reach any return (e.g. it panics or loops)
	NoReturn bool
}

func A(ms ...LitM) []LitM        { return ms }
func Vals(vs ...string) []string { return vs }

// BoolUnder decides a non-constant boolean value by a set of assumed literals: "return a && b"
// is the same decision as "if a && b { return true }; return false".
func (e *Eng) BoolUnder(fn *ssa.Function, val ssa.Value, assume []LitM) (bool, bool) {
	if _, isK := val.(*ssa.Const); isK {
		return false, false
	}
	b, ok := val.Type().Underlying().(*types.Basic)
	if !ok || b.Info()&types.IsBoolean == 0 {
		return false, false
	}
	l := e.CondLit(fn, val)
	for _, a := range assume {
		if a.F(Lit{Atom: l.Atom, Alt: l.Alt, Pos: true}) {
			return l.Pos, true
		}
		if a.F(Lit{Atom: l.Atom, Alt: l.Alt, Pos: false}) {
			return !l.Pos, true
		}
	}
	// x == k is false when x is assumed to equal a different constant
	for _, at := range []string{l.Atom, l.Alt} {
		if lhs, k, ok := eqAtom(at); ok {
			if ks := e.assumedEq(fn, assume)[lhs]; len(ks) > 0 && !ks[k] {
				return !l.Pos, true
			}
		}
	}
	return false, false
}

// assumedEq: for the equality atoms "x == k" occurring in fn (branches and returned conditions)
// that the assumptions assert, x ↦ {k}.
func (e *Eng) assumedEq(fn *ssa.Function, assume []LitM) map[string]map[string]bool {
	m := map[string]map[string]bool{}
	add := func(l Lit) {
		for _, a := range []string{l.Atom, l.Alt} {
			lhs, k, ok := eqAtom(a)
			if !ok {
				continue
			}
			for _, am := range assume {
				if am.F(Lit{Atom: a, Pos: true}) {
					if m[lhs] == nil {
						m[lhs] = map[string]bool{}
					}
					m[lhs][k] = true
				}
			}
		}
	}
	lhss := map[string]bool{}
	note := func(l Lit) {
		add(l)
		for _, a := range []string{l.Atom, l.Alt} {
			if lhs, _, ok := eqAtom(a); ok {
				lhss[lhs] = true
			}
		}
	}
	for _, b := range fn.Blocks {
		for _, l := range e.EdgeLits(b, 0) {
			note(l)
		}
	}
	for _, l := range e.retLits(fn) {
		note(l)
	}
	// an assumed value the function never compares with explicitly ("else" branch of a chain over the
	// other values): try the constants the package compares such expressions with
	for lhs := range lhss {
		for _, k := range e.pkgEqConsts(fnPkgPath(fn)) {
			a := "(" + lhs + " == " + k + ")"
			for _, am := range assume {
				if am.F(Lit{Atom: a, Pos: true}) {
					if m[lhs] == nil {
						m[lhs] = map[string]bool{}
					}
					m[lhs][k] = true
				}
			}
		}
	}
	return m
}

// pkgEqConsts: the constants that branch conditions of the package's functions compare expressions with.
func (e *Eng) pkgEqConsts(pkg string) []string {
	if cs, ok := e.eqConstCache[pkg]; ok {
		return cs
	}
	set := map[string]bool{}
	for _, f := range e.FuncsOfPkg(pkg) {
		for _, b := range f.Blocks {
			if len(b.Instrs) == 0 {
				continue
			}
			iff, ok := b.Instrs[len(b.Instrs)-1].(*ssa.If)
			if !ok {
				continue
			}
			l := e.CondLit(f, iff.Cond)
			if _, k, ok := eqAtom(l.Atom); ok {
				set[k] = true
			}
		}
	}
	var out []string
	for k := range set {
		out = append(out, k)
	}
	sort.Strings(out)
	if e.eqConstCache == nil {
		e.eqConstCache = map[string][]string{}
	}
	e.eqConstCache[pkg] = out
	return out
}

// litKnown: the function branches on the literal, or — for an equality with a constant — on the same
// expression against other constants (the value is then reached by exclusion).
func (e *Eng) litKnown(fn *ssa.Function, a LitM) bool {
	if e.CountLitEdges(fn, a)+e.CountLitEdges(fn, a.Neg()) > 0 {
		return true
	}
	for _, ks := range e.assumedEq(fn, []LitM{a}) {
		if len(ks) > 0 {
			return true
		}
	}
	// the condition is computed as a value (returned, or one operand of a conjunction that is returned)
	for _, in := range AllInstrs(fn) {
		v, ok := in.(ssa.Value)
		if !ok || !isBoolType(v.Type()) {
			continue
		}
		switch in.(type) {
		case *ssa.BinOp, *ssa.UnOp, *ssa.Call:
			l := e.CondLit(fn, v)
			if a.F(l) || a.Neg().F(l) {
				return true
			}
		}
	}
	return false
}

// Table evaluates a decision table on fn.  Every atom used in an assumption
// must be tested somewhere in fn.
func (o *Ob) Table(fn *ssa.Function, key string, rows []Row) {
	e := o.E
	for _, row := range rows {
		rk := key + "|" + row.Name
		missing := false
		for _, a := range row.Assume {
			if !e.litKnown(fn, a) {
				o.FailAt(rk+"|atom", "row '"+row.Name+"': "+fnName(fn)+" no longer branches on "+a.Desc+" (branch conditions present: "+strings.Join(e.LitsOf(fn), " ; ")+")", fn)
				missing = true
			}
		}
		if missing {
			continue
		}
		all := append(append([]LitM{}, row.Assume...), row.Opt...)
		cut := e.CutContradicting(all...)
		r := (&Walk{Fn: fn, Cut: cut}).FromEntry()
		rets := r.Returns()
		if os.Getenv("AMVERIF_DEBUG") == "table" {
			var bs []string
			for _, b := range fn.Blocks {
				if r.Block[b.Index] {
					bs = append(bs, itoa(b.Index))
				}
			}
			fmt.Fprintf(os.Stderr, "TABLE %s row %q reaches blocks %s\n", fnName(fn), row.Name, strings.Join(bs, ","))
		}
		var ds []string
		for _, a := range all {
			ds = append(ds, a.Desc)
		}
		under := strings.Join(ds, " ∧ ")
		if row.NoReturn {
			o.Check(len(rets) == 0, rk+"|returns", "row '"+row.Name+"': under "+under+" no normal return is expected", firstRet(rets))
			continue
		}
		if !o.Check(len(rets) > 0, rk+"|noreturn", "row '"+row.Name+"': under "+under+" no return is reachable", nil) {
			continue
		}
		for _, ret := range rets {
			var shown []string
			for i, allowed := range row.Ret {
				if allowed == nil {
					continue
				}
				vals := e.RetVals(r, ret, i)
				vs := e.ValStrs(fn, vals)
				shown = append(shown, strings.Join(vs, "|"))
				seenV := map[string]bool{}
				for _, val := range vals {
					v := e.X(fn, val)
					if seenV[v] {
						continue
					}
					seenV[v] = true
					// a returned condition is decided by the row's assumptions like a branch on it would be
					if bv, ok := e.BoolUnder(fn, val, all); ok {
						v = "false"
						if bv {
							v = "true"
						}
					}
					vi := e.XI(fn, val)
					// every way the value reads on the paths of this row (inner phis fixed by the path)
					match := func(f string) bool {
						for _, a := range allowed {
							if a == f || strings.HasPrefix(a, "~") && regexpMatch(a[1:], f) {
								return true
							}
						}
						return false
					}
					ok := match(v)
					if !ok && match("nil") {
						// the row assumes this very value to be nil (an error tested together with another condition
						// and returned as it is)
						for _, a := range row.Assume {
							if a.F(Lit{Atom: "(" + v + " == nil)", Pos: true}) {
								ok = true
							}
						}
					}
					if !ok && v != "true" && v != "false" {
						xs := e.XsAtFix(r, ret, val, func(x ssa.Value) (bool, bool) { return e.BoolUnder(fn, x, all) })
						ok = len(xs) > 0
						for _, f := range xs {
							if !match(f) {
								ok = false
							}
						}
						if !ok && match(vi) {
							ok = true
						}
						if !ok {
							v = strings.Join(xs, " | ")
						}
					}
					o.Check(ok, rk+"|ret"+itoa(i), "row '"+row.Name+"': under "+under+" result #"+itoa(i)+" may be "+v+", expected "+strings.Join(allowed, " or "), ret)
				}
			}
			o.Site(ret, "row '"+row.Name+"' ["+under+"] → "+strings.Join(shown, ", "))
		}
		for i, m := range row.Must {
			rr := (&Walk{Fn: fn, Cut: cut, Barrier: m}).FromEntry()
			o.Check(len(rr.Returns()) == 0, rk+"|must"+itoa(i), "row '"+row.Name+"': under "+under+" a required effect is skipped on some path", firstRet(rr.Returns()))
		}
		for i, m := range row.Never {
			for _, in := range AllInstrs(fn) {
				if r.Has(in) && m(in) {
					o.Fail(rk+"|never"+itoa(i), "row '"+row.Name+"': under "+under+" a forbidden effect is reachable", in)
				}
			}
			o.Checks++
			o.Passed++
		}
	}
}

func firstRet(rs []*ssa.Return) ssa.Instruction {
	if len(rs) == 0 {
		return nil
	}
	return rs[0]
}

var rxCache = map[string]*regexp.Regexp{}

func regexpMatch(re, s string) bool {
	rx := rxCache[re]
	if rx == nil {
		rx = regexp.MustCompile("^(?:" + re + ")$")
		rxCache[re] = rx
	}
	return rx.MatchString(s)
}

func isMapUpdate(in ssa.Instruction) bool { _, ok := in.(*ssa.MapUpdate); return ok }

func isBuiltinCall(name string) func(ssa.Instruction) bool {
	return func(in ssa.Instruction) bool {
		c, ok := in.(*ssa.Call)
		if !ok {
			return false
		}
		b, ok := c.Call.Value.(*ssa.Builtin)
		return ok && b.Name() == name
	}
}

// LockedAccesses checks that every access to field (T,F) holds the mutex field
// `mutex` of the same object: writes need the write lock, reads at least the
// read lock.  exempt maps canonical function names to the reason they are exempt.
func (o *Ob) LockedAccesses(T, F, mutex string, exempt map[string]string) int {
	n := 0
	for _, a := range o.E.Accesses(T, F) {
		name := fnName(a.Fn)
		if why, ok := exempt[name]; ok {
			o.Note("exempt from lock rule: %s accesses %s.%s — %s", name, T, F, why)
			continue
		}
		n++
		mode := byte('R')
		if a.Write {
			mode = 'W'
		}
		ok, why := o.E.HeldAt(a.Instr, a.Base, mutex, mode, 4)
		o.Site(a.Instr, a.Kind+" of "+T+"."+F)
		what := "read"
		if a.Write {
			what = "write"
		}
		o.Check(ok, "unlocked|"+F+"|"+name, what+" of "+T+"."+F+" without holding "+mutex+": "+why, a.Instr)
	}
	return n
}

// WritersWithin checks that the functions writing field (T,F) are within the allowed set.
func (o *Ob) WritersWithin(T, F string, allowed map[string]string) {
	for _, w := range o.E.Writers(T, F) {
		n := fnName(w.Fn)
		o.Site(w.Instr, w.Kind+" of "+T+"."+F)
		_, ok := allowed[n]
		o.Check(ok, "writer|"+F+"|"+n, T+"."+F+" is written ("+w.Kind+") by "+n+", which is not one of its owners", w.Instr)
	}
}

// lockBalanceRule: in the given packages no function returns with a mutex it
// acquired still held (unless an unlock is deferred on every path).
func lockBalanceRule(o *Ob, pkgs ...string) {
	lockBalanceRuleEx(o, nil, pkgs...)
}

// lockBalanceRuleEx is lockBalanceRule with named exemptions (function → reason).
func lockBalanceRuleEx(o *Ob, exempt map[string]string, pkgs ...string) {
	n := 0
	for _, p := range pkgs {
		for _, fn := range o.E.FuncsOfPkg(p) {
			hasLock := false
			for _, in := range AllInstrs(fn) {
				if _, op := o.E.lockOp(in); op == "W" || op == "R" {
					hasLock = true
				}
			}
			if !hasLock {
				continue
			}
			n++
			o.SiteS(fnName(fn) + " acquires a mutex")
			leaks := o.E.LockLeaks(fn)
			if why, ok := exempt[fnName(fn)]; ok {
				if len(leaks) > 0 {
					o.Note("exempt from lock balance: %s — %s", fnName(fn), why)
				}
				continue
			}
			for _, l := range leaks {
				o.Fail("lock-leak|"+fnName(fn)+"|"+l.Lock, fnName(fn)+" can return with "+l.Lock+" still held (no unlock on this path): every later writer, and then every reader, blocks forever", l.Ret)
			}
			if len(leaks) == 0 {
				o.Checks++
				o.Passed++
			}
		}
	}
	if n == 0 {
		o.fail("lock-balance-vacuous", "no locking function found in "+strings.Join(pkgs, ", "), "?")
	}
}

func structOf(n *types.Named) *types.Struct {
	st, _ := n.Underlying().(*types.Struct)
	return st
}

// isUnreachablePanic recognises the block go/ssa synthesises after a blocking
// select without default ("blocking select matched no case").
func isUnreachablePanic(b *ssa.BasicBlock) bool {
	if len(b.Instrs) == 0 || len(b.Instrs) > 2 {
		return false
	}
	p, ok := b.Instrs[len(b.Instrs)-1].(*ssa.Panic)
	if !ok {
		return false
	}
	mi, ok := p.X.(*ssa.MakeInterface)
	if !ok {
		return false
	}
	k, ok := mi.X.(*ssa.Const)
	return ok && k.Value != nil && strings.Contains(k.Value.ExactString(), "blocking select matched no case")
}

// fnFirst returns the first instruction of fn (a position for function-level findings).
func fnFirst(fn *ssa.Function) ssa.Instruction {
	if len(fn.Blocks) > 0 && len(fn.Blocks[0].Instrs) > 0 {
		return fn.Blocks[0].Instrs[0]
	}
	return nil
}

// DeepInstrs lists the instructions of f and of the module functions it calls statically, to the given depth.
func (e *Eng) DeepInstrs(f *ssa.Function, depth int) []ssa.Instruction {
	var out []ssa.Instruction
	seen := map[*ssa.Function]bool{}
	var rec func(g *ssa.Function, d int)
	rec = func(g *ssa.Function, d int) {
		if g == nil || seen[g] || len(g.Blocks) == 0 {
			return
		}
		seen[g] = true
		for _, in := range AllInstrs(g) {
			out = append(out, in)
			if d > 0 {
				if ci, ok := in.(ssa.CallInstruction); ok {
					if c := ci.Common().StaticCallee(); c != nil && strings.HasPrefix(fnPkgPath(c), Mod) {
						rec(c, d-1)
					}
				}
			}
		}
	}
	rec(f, depth)
	return out
}

// anyErr matches the rendering of a freshly constructed (non-nil) error, however it is built.
const anyErr = `~(fmt\.Errorf|errors\.New|am/notify\.NewErrorWithReason)\(.*`

func isErrCtor(s string) bool { return regexpMatch(anyErr[1:], s) }

// wraps: the rendering of fmt.Errorf("…%w…", …, x) — x reported with context.
func wraps(x string) string {
	return `~fmt\.Errorf\(".*%w.*", \[(.*, )?` + regexpQuote(x) + `\]\)`
}

// FuncValue resolves a function-typed value to the function it denotes: a literal, a function, or
// the method behind a method value (x.m).
func (e *Eng) FuncValue(v ssa.Value) *ssa.Function {
	for i := 0; i < 4; i++ {
		switch x := v.(type) {
		case *ssa.MakeClosure:
			v = x.Fn
			continue
		case *ssa.ChangeType:
			v = x.X
			continue
		case *ssa.MakeInterface:
			v = x.X
			continue
		case *ssa.UnOp:
			// a function kept in a local variable that is assigned once (possibly captured by a literal)
			if cell := cellOf(x.X); cell != nil {
				if sv := singleStore(cell); sv != nil {
					v = sv
					continue
				}
			}
		case *ssa.Function:
			if x.Synthetic != "" && x.Object() != nil {
				if tf, ok := x.Object().(*types.Func); ok {
					if m := e.Prog.FuncValue(tf); m != nil && m != x {
						return m
					}
				}
			}
			return x
		}
		break
	}
	return nil
}

// GoSite is a place where a goroutine is started: a go statement, or sync.WaitGroup.Go.
type GoSite struct {
	Instr ssa.CallInstruction
	Fn    *ssa.Function // the goroutine's function (literal, function or method), nil if dynamic
	Args  []ssa.Value   // arguments handed to it (none for WaitGroup.Go)
	ViaWG bool
}

func (e *Eng) GoSites(fn *ssa.Function) []GoSite {
	var out []GoSite
	for _, in := range AllInstrs(fn) {
		switch x := in.(type) {
		case *ssa.Go:
			out = append(out, GoSite{x, e.FuncValue(x.Call.Value), x.Call.Args, false})
		case *ssa.Call:
			if calleeName(&x.Call) == "(*sync.WaitGroup).Go" && len(x.Call.Args) == 2 {
				out = append(out, GoSite{x, e.FuncValue(x.Call.Args[1]), nil, true})
			}
		}
	}
	return out
}

// Alt is one of the values a phi can take, with the edge it arrives on.
type Alt struct {
	V    ssa.Value
	Pred *ssa.BasicBlock // nil when V is not a phi operand (a single value)
	At   *ssa.BasicBlock
}

// AltsOf lists the leaf alternatives of v (phis expanded, at most three levels).
func AltsOf(v ssa.Value) []Alt {
	var out []Alt
	var rec func(v ssa.Value, pred, at *ssa.BasicBlock, depth int)
	rec = func(v ssa.Value, pred, at *ssa.BasicBlock, depth int) {
		if p, ok := v.(*ssa.Phi); ok && depth < 3 {
			for i, ed := range p.Edges {
				rec(ed, p.Block().Preds[i], p.Block(), depth+1)
			}
			return
		}
		out = append(out, Alt{v, pred, at})
	}
	rec(v, nil, nil, 0)
	return out
}

// AltUnder reports whether the alternative only arrives under one of lits: the edge it arrives on asserts it, or
// the block it comes from is only reachable under it.
func (e *Eng) AltUnder(a Alt, lits ...LitM) bool {
	if a.Pred == nil {
		return false
	}
	for si, s := range a.Pred.Succs {
		if s == a.At {
			if li, ok := e.EdgeLit(a.Pred, si); ok {
				for _, l := range lits {
					if l.F(li) {
						return true
					}
				}
			}
		}
	}
	if n := len(a.Pred.Instrs); n > 0 {
		return e.OnlyUnder(a.Pred.Instrs[n-1], lits...)
	}
	return false
}

// cellOf: the local variable cell behind an address: the Alloc itself, or the Alloc a free variable is bound to.
func cellOf(addr ssa.Value) *ssa.Alloc {
	switch a := addr.(type) {
	case *ssa.Alloc:
		return a
	case *ssa.FreeVar:
		fn := a.Parent()
		if fn == nil || fn.Parent() == nil {
			return nil
		}
		idx := -1
		for i, fv := range fn.FreeVars {
			if fv == a {
				idx = i
			}
		}
		for _, in := range AllInstrs(fn.Parent()) {
			if mc, ok := in.(*ssa.MakeClosure); ok && mc.Fn == ssa.Value(fn) && idx >= 0 && idx < len(mc.Bindings) {
				return cellOf(mc.Bindings[idx])
			}
		}
	}
	return nil
}

// singleStore: the value of a cell that is written exactly once.
func singleStore(cell *ssa.Alloc) ssa.Value {
	var val ssa.Value
	n := 0
	var visit func(refs *[]ssa.Instruction)
	visit = func(refs *[]ssa.Instruction) {
		if refs == nil {
			return
		}
		for _, r := range *refs {
			if st, ok := r.(*ssa.Store); ok && st.Addr == ssa.Value(cell) {
				n++
				val = st.Val
			}
		}
	}
	visit(cell.Referrers())
	// writes through closures that captured the cell
	for _, r := range *cell.Referrers() {
		if mc, ok := r.(*ssa.MakeClosure); ok {
			f := mc.Fn.(*ssa.Function)
			for i, b := range mc.Bindings {
				if b == ssa.Value(cell) && i < len(f.FreeVars) {
					for _, in := range AllInstrs(f) {
						if st, ok := in.(*ssa.Store); ok && st.Addr == ssa.Value(f.FreeVars[i]) {
							n++
						}
					}
				}
			}
		}
	}
	if n == 1 {
		return val
	}
	return nil
}
