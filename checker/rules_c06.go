package main

import (
	"go/types"
	"strings"

	"golang.org/x/tools/go/ssa"
)

const groupsField = "groups" // routeAggrGroups.groups (sync.Map)

// syncMapCallsOnGroups lists every call of a sync.Map method whose receiver is field routeAggrGroups.groups.
func syncMapCallsOnGroups(e *Eng) []ssa.CallInstruction {
	var out []ssa.CallInstruction
	for _, fn := range e.FuncsOfPkg("am/dispatch") {
		for _, in := range AllInstrs(fn) {
			c, ok := in.(ssa.CallInstruction)
			if !ok {
				continue
			}
			cn := calleeName(c.Common())
			if !strings.HasPrefix(cn, "(*sync.Map).") || len(c.Common().Args) == 0 {
				continue
			}
			if T, F, ok := e.fieldOf(c.Common().Args[0]); ok && T == "am/dispatch.routeAggrGroups" && F == groupsField {
				out = append(out, c)
			}
		}
	}
	return out
}

type groupAlertFacts struct {
	fn              *ssa.Function
	key             string // rendering of the group fingerprint
	load, los, cas  ssa.CallInstruction
	newAG           ssa.CallInstruction
	inserts         []ssa.CallInstruction
	runAG           []ssa.CallInstruction
	stored, swapped LitM
	mapExpr         string
}

func resolveGroupAlert(o *Ob) *groupAlertFacts {
	e := o.E
	f := &groupAlertFacts{}
	f.fn = o.Fn("(*am/dispatch.Dispatcher).groupAlert")
	fn := f.fn
	f.mapExpr = "recv.routeGroupsSlice[p2.Idx].groups"
	f.key = "(model.LabelSet).Fingerprint(am/dispatch.getGroupLabels(p1, p2))"
	f.load = o.One(e.Calls(fn, "(*sync.Map).Load"), "load", "groupAlert must look the group up", fn)
	f.los = o.One(e.Calls(fn, "(*sync.Map).LoadOrStore"), "loadorstore", "groupAlert must create groups with LoadOrStore", fn)
	f.cas = o.One(e.Calls(fn, "(*sync.Map).CompareAndSwap"), "cas", "groupAlert must replace destroyed groups with CompareAndSwap", fn)
	f.newAG = o.One(e.Calls(fn, "am/dispatch.newAggrGroup"), "newag", "groupAlert must create groups with newAggrGroup", fn)
	f.inserts = e.Calls(fn, "(*am/dispatch.aggrGroup).insert")
	f.runAG = e.Calls(fn, "(*am/dispatch.Dispatcher).runAG")
	f.stored = L(e.X(fn, f.los.(*ssa.Call))+"#1", false) // !loaded
	f.swapped = L(e.X(fn, f.cas.(*ssa.Call)), true)
	return f
}

func init() {
	propInfos["C06"] = &propInfo{
		Explanation: "Decides the grouping mechanism's structure: (1) getGroupLabels copies exactly the alert's labels named in the route's group_by (all for '...'); (2) groupAlert keys the route's group map by the fingerprint of those labels and creates the group with the same labels and route; (3) the group map is only ever mutated through LoadOrStore / CompareAndSwap(old = the destroyed group just loaded) / CompareAndDelete(the destroyed group just examined) — never Store/Delete/Swap/LoadAndDelete — which is what makes 'one live group per key' possible; (4) a group is removed only when destroyed; (5) the group key is a pure function of the route's matcher path and the group labels; (6) a flush sends every alert of the group; (7) GET /alerts/groups visits every route and group, filtering only by the caller's predicates; (8) group counters move only with successful insertions/removals.",
		NotDecided:  "absence of duplicate groups under all interleavings of the lock-free loop (pinning the primitives is the necessary part; the interleaving argument is model-checking territory).",
	}

	reg("C06", "C06.1", "T1", "getGroupLabels: a label is copied iff it is in group_by or group_by is '...'; value from the alert; nothing else written", func(o *Ob) {
		// The obligation is stated over what is written into the result, not over one loop shape:
		// every entry written is (name, the alert's value of that name) for a name of the alert that
		// is selected (group_by names it, or group_by is '...'); every selected name of the alert is
		// written.  Both "for each label of the alert: if selected" and "for each group_by name: if
		// the alert has it" (with a bulk copy for '...') satisfy it.
		e := o.E
		fn := o.Fn("am/dispatch.getGroupLabels")
		labels := `p0(\.Alert)?\.Labels`
		groupBy := `p1\.RouteOpts\.GroupBy`
		all := L("p1.RouteOpts.GroupByAll", true)
		overLabels := `next\(range\(` + labels + `\)\)`
		overBy := `next\(range\(` + groupBy + `\)\)`
		written := map[ssa.Value]bool{}
		n := 0
		var updates []*ssa.MapUpdate
		for _, in := range AllInstrs(fn) {
			m, ok := in.(*ssa.MapUpdate)
			if !ok {
				continue
			}
			n++
			updates = append(updates, m)
			written[m.Map] = true
			k, v := e.X(fn, m.Key), e.X(fn, m.Value)
			o.Site(in, "groupLabels["+k+"] = "+v)
			_, fresh := m.Map.(*ssa.MakeMap)
			o.Check(fresh, "copy-target", "group labels must be built in a fresh map", in)
			switch {
			case regexpMatch(overLabels+"#1", k):
				// name from the alert's labels: value must be the same entry's value; selection by group_by lookup or '...'
				o.Check(regexpMatch(overLabels+"#2", v), "copy-shape", "the copied entry must be the alert's own label name and value", in)
				o.Guarded(in, "copy-guard", "copying a label into the group labels", LRe(groupBy+`\[`+regexpQuote(k)+`\]#1`, true), all)
			case regexpMatch(overBy+"#1", k):
				// name from group_by: value must be the alert's value of that name, and the alert must have it
				o.Check(regexpMatch(labels+`\[`+regexpQuote(k)+`\](#0)?`, v), "copy-shape", "the copied entry must be the alert's own label name and value", in)
				o.Guarded(in, "copy-guard", "copying a label the alert may not have into the group labels", LRe(labels+`\[`+regexpQuote(k)+`\]#1`, true))
			default:
				o.Fail("copy-shape", "the copied entry must be the alert's own label name and value: key is "+k, in)
			}
		}
		// bulk copies of the alert's labels are only right for '...'
		var bulk []ssa.Instruction
		for _, c := range e.Calls(fn, "~maps\\.(Copy|Clone)") {
			n++
			bulk = append(bulk, c)
			o.Site(c, calleeName(c.Common()))
			src := e.Arg(c, len(c.Common().Args)-1)
			o.Check(regexpMatch(labels, src), "copy-shape", "a bulk copy must copy the alert's labels, copies "+src, c)
			o.Guarded(c, "copy-guard", "copying every label into the group labels", all)
			if calleeName(c.Common()) == "maps.Copy" {
				dst := c.Common().Args[0]
				for {
					if ct, ok := dst.(*ssa.ChangeType); ok {
						dst = ct.X
						continue
					}
					break
				}
				_, fresh := dst.(*ssa.MakeMap)
				o.Check(fresh, "copy-target", "group labels must be built in a fresh map", c)
				written[dst] = true
			} else {
				written[c.(*ssa.Call)] = true
			}
		}
		o.Require(n >= 1, "no-copy", "getGroupLabels copies nothing", nil)
		// completeness: per selection mode there is a loop (or bulk copy) that cannot skip a selected name
		covered := func(assume LitM, mode string) bool {
			cut := e.CutContradicting(assume)
			r := (&Walk{Fn: fn, Cut: cut}).FromEntry()
			for _, bc := range bulk {
				if r.Has(bc) && len((&Walk{Fn: fn, Cut: cut, Barrier: IsInstr(bc)}).FromEntry().Returns()) == 0 {
					return true
				}
			}
			for _, l := range e.Loops(fn) {
				if !r.Block[l.Header.Index] {
					continue
				}
				coll, kind := e.RangeOver(l)
				if kind != "iter" || len(e.EarlyExits(l)) != 0 {
					continue
				}
				var sel LitM
				switch {
				case regexpMatch(labels, coll) && mode == "all":
					sel = all
				case regexpMatch(labels, coll) && mode == "by":
					sel = LRe(groupBy+`\[`+overLabels+`#1\]#1`, true)
				case regexpMatch(groupBy, coll) && mode == "by":
					sel = LRe(labels+`\[`+overBy+`#1\]#1`, true)
				default:
					continue
				}
				// the loop is entered on every path of this mode, and a selected name is never skipped
				bi, ok := l.BodyEntry()
				if !ok {
					continue
				}
				entered := len((&Walk{Fn: fn, Cut: cut, Barrier: func(in ssa.Instruction) bool { return in == l.Header.Instrs[0] }}).FromEntry().Returns()) == 0
				_ = bi
				if entered && !loopBackWithout(o, l, isMapUpdate, e.CutContradicting(sel, assume)) {
					return true
				}
			}
			return false
		}
		o.Check(covered(all.Neg(), "by"), "by-forced", "a label named in group_by can be left out of the group labels", fnFirst(fn))
		o.Check(covered(all, "all"), "all-forced", "with group_by: ['...'] a label can be left out of the group labels", fnFirst(fn))
		for _, ret := range (&Walk{Fn: fn}).FromEntry().Returns() {
			ok := false
			for _, v := range e.ValsUnder(nil, ret.Results[0]) {
				if written[v] {
					ok = true
				} else {
					ok = false
					break
				}
			}
			o.Check(ok, "result", "the returned set must be the one that was filled", ret)
		}
		o.MinSites(1)
	})

	reg("C06", "C06.2", "T11", "groupAlert: map of the alert's route, keyed by the fingerprint of the group labels; the new group gets the same labels and route", func(o *Ob) {
		e := o.E
		f := resolveGroupAlert(o)
		fn := f.fn
		for _, c := range []ssa.CallInstruction{f.load, f.los, f.cas} {
			o.Site(c, calleeName(c.Common()))
			o.Check(e.Arg(c, 0) == f.mapExpr, "map|"+calleeName(c.Common()), "the group must be looked up in the map of the alert's route (routeGroupsSlice[route.Idx]), uses "+e.Arg(c, 0), c)
			o.Check(e.Arg(c, 1) == f.key, "key|"+calleeName(c.Common()), "the group must be keyed by the fingerprint of getGroupLabels(alert, route), uses "+e.Arg(c, 1), c)
		}
		o.Check(e.Arg(f.newAG, 1) == "am/dispatch.getGroupLabels(p1, p2)" && e.Arg(f.newAG, 2) == "p2", "newag-args", "the new group must get the group labels and the route it is filed under", f.newAG)
		nx := e.X(fn, f.newAG.(*ssa.Call))
		o.Check(e.Arg(f.los, 2) == nx && e.Arg(f.cas, 3) == nx, "stored-value", "the value stored in the map must be the new group", f.los)
		// the new group's labels/route fields
		na := o.Fn("am/dispatch.newAggrGroup")
		for fld, want := range map[string]string{"labels": "p1", "opts": "p2.RouteOpts", "matchers": "p2.Matchers", "routeKey": "(*am/dispatch.Route).Key(p2)", "routeID": "(*am/dispatch.Route).ID(p2)"} {
			st := e.StoresToField(na, "am/dispatch.aggrGroup", fld)
			o.Check(len(st) == 1 && e.X(na, st[0].Val) == want, "ag-field|"+fld, "aggrGroup."+fld+" must be "+want, nil)
		}
		o.MinSites(3)
	})

	reg("C06", "C06.3", "T4", "the group map is mutated only by LoadOrStore, CompareAndSwap(old = loaded, destroyed group) and CompareAndDelete(the destroyed group examined)", func(o *Ob) {
		e := o.E
		allowed := map[string]map[string]bool{
			"(*sync.Map).Load":             {"(*am/dispatch.Dispatcher).groupAlert": true},
			"(*sync.Map).LoadOrStore":      {"(*am/dispatch.Dispatcher).groupAlert": true},
			"(*sync.Map).CompareAndSwap":   {"(*am/dispatch.Dispatcher).groupAlert": true},
			"(*sync.Map).CompareAndDelete": {"(*am/dispatch.Dispatcher).doMaintenance$1": true},
			"(*sync.Map).Range":            nil, // read-only iteration: anywhere
		}
		n := 0
		for _, c := range syncMapCallsOnGroups(e) {
			n++
			cn := calleeName(c.Common())
			who := fnName(c.Parent())
			o.Site(c, cn+" on the group map")
			fns, ok := allowed[cn]
			if !o.Check(ok, "primitive|"+cn+"|"+who, who+" uses "+cn+" on the group map: a non-conditional mutation can overwrite or drop a live group that another worker just created (two live groups with one key, or an orphaned running group)", c) {
				continue
			}
			if fns != nil {
				o.Check(fns[who], "who|"+cn+"|"+who, who+" mutates the group map with "+cn, c)
			}
		}
		o.Check(n >= 5, "few", "implausibly few uses of the group map", nil)
		f := resolveGroupAlert(o)
		fn := f.fn
		// CAS: old operand is the previously loaded value; only after that group refused the insert (destroyed)
		old := e.ArgV(f.cas, 2)
		src := e.Sources(old, false)
		okOld := false
		for s := range src {
			if s == ssa.Value(f.load.(*ssa.Call)) || s == ssa.Value(f.los.(*ssa.Call)) {
				okOld = true
			}
		}
		o.Check(okOld, "cas-old", "CompareAndSwap's old value must be the group that was loaded from the map", f.cas)
		// after a successful swap the replaced group is cancelled
		{
			can := func(in ssa.Instruction) bool {
				c, ok := in.(*ssa.Call)
				return ok && strings.HasPrefix(e.X(fn, c), "dyn(fn=assert:*am/dispatch.aggrGroup(") && strings.Contains(e.X(fn, c), ".cancel")
			}
			n := 0
			for _, b := range fn.Blocks {
				for si := range b.Succs {
					if li, ok := e.EdgeLit(b, si); ok && f.swapped.F(li) {
						n++
						r := (&Walk{Fn: fn, Barrier: can}).FromEdge(b, si)
						reach := false
						for _, c := range f.runAG {
							if r.Has(c) {
								reach = true
							}
						}
						o.Check(!reach && len(r.Returns()) == 0, "cas-cancel", "after swapping in a new group the replaced group must be cancelled (maintenance can no longer find it)", f.cas)
					}
				}
			}
			o.Check(n > 0, "cas-test", "the result of CompareAndSwap is not tested", f.cas)
		}
		// CompareAndDelete operand = the group examined, under destroyed()
		dm := o.Fn("(*am/dispatch.Dispatcher).doMaintenance$1")
		cd := o.One(e.Calls(dm, "(*sync.Map).CompareAndDelete"), "cad", "maintenance must remove groups with CompareAndDelete", dm)
		ag := "assert:*am/dispatch.aggrGroup(p1)"
		o.Check(e.Arg(cd, 1) == "(*am/dispatch.aggrGroup).fingerprint("+ag+")" && e.Arg(cd, 2) == ag, "cad-args", "maintenance must delete exactly the group it examined, under that group's own key", cd)
		fp := o.Fn("(*am/dispatch.aggrGroup).fingerprint")
		rets := (&Walk{Fn: fp}).FromEntry().Returns()
		o.Check(len(rets) == 1 && e.X(fp, rets[0].Results[0]) == "(model.LabelSet).Fingerprint(recv.labels)", "ag-fingerprint", "a group's key must be the fingerprint of its labels (the key it was stored under)", nil)
		o.MinSites(5)
	})

	reg("C06", "C06.4", "T1", "a group is stopped and removed only when destroyed; counters move only with a successful removal", func(o *Ob) {
		e := o.E
		dm := o.Fn("(*am/dispatch.Dispatcher).doMaintenance$1")
		ag := "assert:*am/dispatch.aggrGroup(p1)"
		dest := L("(*am/dispatch.aggrGroup).destroyed("+ag+")", true)
		for _, name := range []string{"(*am/dispatch.aggrGroup).stop", "(*sync.Map).CompareAndDelete"} {
			for _, c := range o.Some(e.Calls(dm, name), "call|"+name, "maintenance must call "+name, dm) {
				o.Site(c, name)
				o.Guarded(c, "destroyed-guard|"+name, name+" on a group", dest)
			}
		}
		cd := e.Calls(dm, "(*sync.Map).CompareAndDelete")[0]
		deleted := L(e.X(dm, cd.(*ssa.Call)), true)
		for _, in := range AllInstrs(dm) {
			if c, ok := in.(*ssa.Call); ok {
				cn := calleeName(&c.Call)
				if strings.HasSuffix(cn, ").Add") && strings.HasPrefix(cn, "(*sync/atomic.") {
					o.Site(c, "counter "+e.X(dm, c))
					o.Guarded(c, "counter-guard", "decrementing a group counter", deleted)
					o.Check(e.X(dm, c.Call.Args[1]) == "-1", "counter-step", "a removal must decrement by one", c)
				}
			}
		}
		// every group of every route is examined; Range callback returns true (continue)
		for _, ret := range (&Walk{Fn: dm}).FromEntry().Returns() {
			o.Check(e.X(dm, ret.Results[0]) == "true", "range-continue", "maintenance stops iterating the groups early", ret)
		}
		m := o.Fn("(*am/dispatch.Dispatcher).doMaintenance")
		rg := o.One(e.Calls(m, "(*sync.Map).Range"), "range", "maintenance must range over the groups", m)
		l := e.LoopOf(rg)
		if o.Check(l != nil, "routes-loop", "maintenance does not loop over the routes", rg) {
			coll, _ := e.RangeOver(l)
			o.Check(coll == "recv.routeGroupsSlice" && len(e.EarlyExits(l)) == 0, "routes-range", "maintenance must visit every route's groups", rg)
		}
		// destroyed() reflects the store
		d := o.Fn("(*am/dispatch.aggrGroup).destroyed")
		rets := (&Walk{Fn: d}).FromEntry().Returns()
		o.Check(len(rets) == 1 && e.X(d, rets[0].Results[0]) == "(*am/store.Alerts).Destroyed(recv.alerts)", "destroyed-def", "a group is destroyed iff its alert store is", nil)
		// groupAlert counters: only on the stored path, +1
		f := resolveGroupAlert(o)
		for _, in := range AllInstrs(f.fn) {
			if c, ok := in.(*ssa.Call); ok {
				cn := calleeName(&c.Call)
				if strings.HasSuffix(cn, ").Add") && strings.HasPrefix(cn, "(*sync/atomic.") && (strings.Contains(e.X(f.fn, c), "groupsLen") || strings.Contains(e.X(f.fn, c), "aggrGroupsNum")) {
					o.Site(c, "counter "+e.X(f.fn, c))
					o.Guarded(c, "inc-guard", "incrementing a group counter", f.stored)
					o.Check(e.X(f.fn, c.Call.Args[1]) == "1", "inc-step", "a creation must increment by one", c)
				}
			}
		}
		o.MinSites(5)
	})

	reg("C06", "C06.5", "T12,T11", "the group key is a pure function of the route's matcher path and the group labels", func(o *Ob) {
		e := o.E
		gk := o.Fn("(*am/dispatch.aggrGroup).GroupKey")
		rets := (&Walk{Fn: gk}).FromEntry().Returns()
		o.Require(len(rets) == 1, "gk", "GroupKey must be a single expression", nil)
		v := e.X(gk, rets[0].Results[0])
		o.Site(rets[0], "GroupKey = "+v)
		okKey := v == `fmt.Sprintf("%s:%s", [recv.routeKey, recv.labels])` ||
			v == `((recv.routeKey + ":") + (model.LabelSet).String(recv.labels))` || v == `(recv.routeKey + (":" + (model.LabelSet).String(recv.labels)))`
		if strings.HasPrefix(v, "(*strings.Builder).String(") && len(gk.Blocks) <= 2 {
			// written piece by piece into one builder, in straight-line code
			var pieces []string
			for _, in := range AllInstrs(gk) {
				if c, ok := in.(*ssa.Call); ok {
					switch calleeName(&c.Call) {
					case "(*strings.Builder).WriteString", "(*strings.Builder).WriteByte", "(*strings.Builder).WriteRune":
						pieces = append(pieces, e.X(gk, c.Call.Args[1]))
					}
				}
			}
			j := strings.Join(pieces, " | ")
			okKey = j == `recv.routeKey | 58 | (model.LabelSet).String(recv.labels)` || j == `recv.routeKey | ":" | (model.LabelSet).String(recv.labels)`
			v = "builder: " + j
		}
		o.Check(okKey, "gk-shape", "the group key must be routeKey:labels, is "+v, rets[0])
		rk := o.Fn("(*am/dispatch.Route).Key")
		// Key may hand one builder down a recursive worker (worker(node, builder) writes the ancestors' part, then
		// the node's own); the rule is then stated over the worker, and Key must return what that builder holds
		var worker *ssa.Function
		for _, in := range AllInstrs(rk) {
			if c, ok := in.(*ssa.Call); ok {
				if f := c.Call.StaticCallee(); f != nil && isNewFunc(f) && len(e.Calls(f, fnName(f))) > 0 && len(f.Params) == 2 && len(c.Call.Args) == 2 {
					worker = f
					o.Site(c, "Route.Key delegates to "+fnName(f))
					o.Check(e.Arg(c, 0) == "recv", "rk-shape", "the key worker must start at the route Key is called on, starts at "+e.Arg(c, 0), c)
					for _, ret := range (&Walk{Fn: rk}).FromEntry().Returns() {
						o.Check(e.X(rk, ret.Results[0]) == "(*strings.Builder).String("+e.Arg(c, 1)+")", "rk-shape", "Key must return what its worker wrote, returns "+clip(e.X(rk, ret.Results[0])), ret)
					}
				}
			}
		}
		if worker != nil {
			rk = worker
		}
		// The key is made of the matchers of the routes on the path from the root to this route and '/'
		// separators, and of nothing else — by recursion into the parent or by walking the parent links.
		var wrote []string
		recvP := rk.Params[0]
		onChain := func(v ssa.Value) (ok, own bool) {
			ok = true
			for sv := range e.Sources(v, false) {
				switch x := sv.(type) {
				case *ssa.Parameter:
					if x != recvP {
						ok = false
					}
					own = true
				case *ssa.Global:
					ok = false
				case *ssa.FieldAddr:
					if n := fieldName(x.X.Type(), x.Field); n != "parent" && n != "Matchers" {
						ok = false
					}
				case *ssa.Call:
					if _, isB := x.Call.Value.(*ssa.Builtin); !isB {
						ok = false
					}
				}
			}
			return ok, own
		}
		ownSeen, parentSeen := false, false
		for _, in := range AllInstrs(rk) {
			c, ok := in.(*ssa.Call)
			if !ok {
				continue
			}
			cn := calleeName(&c.Call)
			bad := strings.HasPrefix(cn, "time.") || strings.HasPrefix(cn, "math/rand") || strings.HasPrefix(cn, "os.") || strings.HasPrefix(cn, "github.com/google/uuid")
			o.Check(!bad, "rk-impure", "Route.Key calls "+cn, in)
			if worker != nil && cn == fnName(worker) {
				parentSeen = true
				o.Check(e.Arg(c, 0) == "recv.parent" && e.Arg(c, 1) == "p0", "rk-shape", "the recursion must go to the parent with the same builder, goes to "+e.X(rk, c), c)
				o.Guarded(c, "rk-parent-guard", "recursing into the parent", L("(recv.parent == nil)", false))
				o.Forced(rk, "rk-parent-forced", "a route with a parent must include the parent's key", IsInstr(c), L("(recv.parent == nil)", false))
				// ancestors first: nothing of the node itself is written before the parent's part
				for _, w := range e.Calls(rk, "(*strings.Builder).WriteString") {
					o.Check(!(&Walk{Fn: rk}).After(w).Has(c), "rk-shape", "the node's own part is written before its ancestors'", w)
				}
				continue
			}
			switch cn {
			case "(*strings.Builder).WriteRune", "(*strings.Builder).WriteByte":
				wrote = append(wrote, "sep:"+e.X(rk, c.Call.Args[1]))
				o.Check(e.X(rk, c.Call.Args[1]) == "47", "rk-shape", "the only separator of a route key is '/', writes "+e.X(rk, c.Call.Args[1]), in)
			case "strings.Join":
				// the components collected in a list and joined: every element is the matcher string of a
				// route on the parent chain, the separator is '/'
				o.Check(e.X(rk, c.Call.Args[1]) == `"/"`, "rk-shape", "the only separator of a route key is '/', joins with "+e.X(rk, c.Call.Args[1]), in)
				_, parts := e.AppendParts(c.Call.Args[0])
				o.Check(len(parts) >= 1, "rk-shape", "the joined route key components are not collected by appending: "+clip(e.X(rk, c.Call.Args[0])), in)
				for _, p := range parts {
					wrote = append(wrote, "elem:"+clip(e.X(rk, p.V)))
					sc, isC := p.V.(*ssa.Call)
					if !o.Check(!p.Spread && isC && calleeName(&sc.Call) == "(am/pkg/labels.Matchers).String", "rk-shape", "a route key component is not a matcher string: "+clip(e.X(rk, p.V)), p.Call) {
						continue
					}
					okc, own := onChain(sc.Call.Args[0])
					o.Check(okc, "rk-shape", "a route key component is the matcher string of something that is not on this route's parent chain: "+e.X(rk, sc), sc)
					if l := e.LoopOf(p.Call); l != nil {
						o.Check(!loopBackWithout(o, l, IsInstr(p.Call), nil), "rk-shape", "a route on the parent chain can be left out of the key", p.Call)
					}
					if own {
						ownSeen = true
					}
				}
			case "(*strings.Builder).WriteString":
				wrote = append(wrote, e.X(rk, c.Call.Args[1]))
				// what is written comes from Matchers.String() of a route on the parent chain, or from the parent's Key()
				n := 0
				for sv := range e.Sources(c.Call.Args[1], false) {
					sc, isC := sv.(*ssa.Call)
					if !isC {
						continue
					}
					switch calleeName(&sc.Call) {
					case "(am/pkg/labels.Matchers).String":
						n++
						okc, own := onChain(sc.Call.Args[0])
						o.Check(okc, "rk-shape", "a route key component is the matcher string of something that is not on this route's parent chain: "+e.X(rk, sc), sc)
						if own {
							ownSeen = true
						}
					case "(*am/dispatch.Route).Key":
						n++
						parentSeen = true
						o.Check(e.Arg(sc, 0) == "recv.parent", "rk-shape", "the recursion must go to the parent, goes to "+e.Arg(sc, 0), sc)
						o.Guarded(sc, "rk-parent-guard", "recursing into the parent", L("(recv.parent == nil)", false))
						o.Forced(rk, "rk-parent-forced", "a route with a parent must include the parent's key", IsInstr(sc), L("(recv.parent == nil)", false))
					default:
						if _, isB := sc.Call.Value.(*ssa.Builtin); !isB {
							o.Fail("rk-shape", "a route key component comes from "+calleeName(&sc.Call)+" (only matcher strings and the parent's key may be written)", sc)
						}
					}
				}
				o.Check(n >= 1, "rk-shape", "a route key component is neither a matcher string nor the parent's key: "+e.X(rk, c.Call.Args[1]), in)
			}
		}
		o.Site(rk.Blocks[0].Instrs[0], "Route.Key writes "+strings.Join(wrote, " , "))
		o.Check(ownSeen, "rk-shape", "the route's own matchers are not part of its key", nil)
		if !parentSeen {
			// iterative form: a loop that follows the parent links until nil, without another exit
			walked := false
			for _, l := range e.Loops(rk) {
				follows := false
				for bi := range l.Blocks {
					for _, in := range rk.Blocks[bi].Instrs {
						if fa, ok := in.(*ssa.FieldAddr); ok && fieldName(fa.X.Type(), fa.Field) == "parent" {
							follows = true
						}
					}
				}
				if !follows {
					continue
				}
				hx, okh := l.HeaderExit()
				lit, okl := e.EdgeLit(l.Header, hx)
				if okh && okl && lit.Pos && strings.HasSuffix(lit.Atom, " == nil)") && len(e.EarlyExits(l)) == 0 {
					walked = true
				}
			}
			o.Check(walked, "rk-shape", "the route key must include the ancestors: neither a recursion into the parent nor a walk over the parent links up to the root was found", nil)
		}
		// Matchers.String / Matcher.String: no clock / randomness, deterministic order (slice iteration)
		for _, name := range []string{"(am/pkg/labels.Matchers).String", "(*am/pkg/labels.Matcher).String"} {
			f := o.Fn(name)
			for _, in := range AllInstrs(f) {
				if c, ok := in.(ssa.CallInstruction); ok {
					cn := calleeName(c.Common())
					bad := strings.HasPrefix(cn, "time.") || strings.HasPrefix(cn, "math/rand") || strings.HasPrefix(cn, "os.")
					o.Check(!bad, "str-impure|"+name, name+" calls "+cn, in)
				}
				if rg, ok := in.(*ssa.Range); ok {
					// (ranging over a string visits its runes in order; only a map has no order)
					if _, isMap := rg.X.Type().Underlying().(*types.Map); isMap {
						o.Fail("str-maprange|"+name, name+" iterates a map: the printed form would depend on the iteration order", in)
					}
				}
			}
		}
		o.MinSites(2)
	})

	reg("C06", "C06.8", "T1,T2,T11", "the route's group_by used for grouping: a child's explicit group_by (even empty) replaces the inherited one, '...' is inherited/overridden consistently (shared with C07.2)", func(o *Ob) {
		for i := range registry {
			if registry[i].ID == "C07.2" {
				registry[i].Run(o)
				return
			}
		}
		o.Fail("missing", "rule C07.2 not registered", nil)
	})

	reg("C06", "C06.6", "T8", "a flush sends the whole group: every alert of the store is in the notified batch", func(o *Ob) {
		flushBatchRule(o)
		o.MinSites(1)
	})

	reg("C06", "C06.7", "T8", "GET /alerts/groups: every route, every group, every alert, filtered only by the caller's two predicates; reports the group's own labels and key", func(o *Ob) {
		e := o.E
		fn := o.Fn("(*am/dispatch.Dispatcher).Groups")
		rf := LRe(`dyn\(fn=p1, recv\.routeGroupsSlice\[i\]\.route\)`, true)
		af := LRe(`dyn\(fn=p2, .*\)`, true)
		// loops
		var routeLoop *Loop
		for _, l := range e.Loops(fn) {
			if coll, _ := e.RangeOver(l); coll == "recv.routeGroupsSlice" {
				routeLoop = l
			}
		}
		o.Require(routeLoop != nil, "routes-loop", "Groups does not loop over the routes", nil)
		o.Check(len(e.EarlyExits(routeLoop)) == 0, "routes-early-exit", "Groups can stop before all routes were visited", nil)
		o.SiteS("loop over routes")
		// skipping a route only when the filter rejects it
		rg := o.One(e.Calls(fn, "(*sync.Map).Range"), "range", "Groups must range over a route's groups", fn)
		o.Check(!loopBackWithout(o, routeLoop, IsInstr(rg), e.CutContradicting(rf)), "route-skipped", "a route accepted by the route filter can be skipped", rg)
		// snapshot literal appends every group and continues
		lit := rg.Common().Args[1].(*ssa.MakeClosure).Fn.(*ssa.Function)
		for _, ret := range (&Walk{Fn: lit}).FromEntry().Returns() {
			o.Check(e.X(lit, ret.Results[0]) == "true", "snapshot-continue", "the snapshot of a route's groups stops early", ret)
		}
		ls := e.Calls(fn, "(*am/store.Alerts).List")
		o.Check(len(ls) == 1, "list", "Groups must list each group's alerts", nil)
		// alerts filtered only by alertFilter: the append of an alert to the group's result is reached whenever the filter accepts
		for _, in := range AllInstrs(fn) {
			c, ok := in.(*ssa.Call)
			if !ok || !isBuiltinCall("append")(in) || typeKey(c.Type()) != "[]*am/alert.Alert" && typeKey(c.Type()) != "[]*am/types.Alert" {
				continue
			}
			l := e.LoopOf(c)
			if l == nil {
				continue
			}
			o.Site(c, "alert kept")
			o.Guarded(c, "alert-filter-guard", "keeping an alert", af)
			o.Check(!loopBackWithout(o, l, IsInstr(c), e.CutContradicting(af)), "alert-dropped", "an alert accepted by the alert filter can be left out", c)
		}
		for f, want := range map[string]string{"Labels": ".labels", "GroupKey": "(*am/dispatch.aggrGroup).GroupKey(", "RouteID": ".routeID"} {
			st := e.StoresToField(fn, "am/dispatch.AlertGroup", f)
			o.Check(len(st) == 1 && strings.Contains(e.X(fn, st[0].Val), want), "group-field|"+f, "AlertGroup."+f+" must come from the group itself", nil)
		}
		rc := e.StoresToField(fn, "am/dispatch.AlertGroup", "Receiver")
		o.Check(len(rc) == 1 && e.X(fn, rc[0].Val) == "recv.routeGroupsSlice[i].route.RouteOpts.Receiver", "group-receiver", "the reported receiver must be the group's route's receiver", nil)
		o.MinSites(2)
	})
}

// flushBatchRule: in aggrGroup.flush every element of alerts.List() is appended
// to the slice handed to notify (no filtering), as a copy.
func flushBatchRule(o *Ob) (batch ssa.Value, resolved ssa.Value, nf ssa.CallInstruction) {
	e := o.E
	fn := o.Fn("(*am/dispatch.aggrGroup).flush")
	for _, in := range AllInstrs(fn) {
		if c, ok := in.(*ssa.Call); ok && strings.HasPrefix(e.X(fn, c), "dyn(fn=p0,") {
			nf = c
		}
	}
	o.Require(nf != nil, "notify-call", "flush no longer calls the notify function", nil)
	o.Site(nf, "notify(batch)")
	batch = nf.Common().Args[0]
	_, parts := e.AppendParts(batch)
	o.Require(len(parts) >= 1, "batch-parts", "the notified batch is not built by appending the group's alerts", nf)
	ls := o.One(e.Calls(fn, "(*am/store.Alerts).List"), "list", "flush must list the group's alerts", fn)
	o.Check(e.Arg(ls, 0) == "recv.alerts", "list-arg", "flush must list its own store", ls)
	// an alert may be appended at more than one place (one per branch): what matters is that every iteration appends
	var appends []ssa.Instruction
	for _, p := range parts {
		if p.Call != nil {
			appends = append(appends, p.Call)
		}
	}
	for _, p := range parts {
		l := e.LoopOf(p.Call)
		if !o.Check(l != nil, "batch-loop", "the batch is not filled in a loop", p.Call) {
			continue
		}
		coll, kind := e.RangeOver(l)
		o.Check(coll == e.X(fn, ls.(*ssa.Call)) && kind == "index", "batch-range", "the batch must be built from every listed alert, loop ranges over "+coll, p.Call)
		o.Check(len(e.EarlyExits(l)) == 0, "batch-early-exit", "the loop over the group's alerts can stop early", p.Call)
		o.Check(!loopBackWithout(o, l, IsInstr(appends...), nil), "batch-filter", "an alert of the group can be left out of the notification (a delta instead of the whole group)", p.Call)
		// element is the per-iteration copy
		al, ok := p.V.(*ssa.Alloc)
		if o.Check(ok, "batch-elem", "the batch element must be a copy of the stored alert", p.Call) {
			o.Check(l.Blocks[al.Block().Index], "batch-elem-shared", "all batch elements point at one copy declared outside the loop", p.Call)
		}
	}
	return batch, nil, nf
}

// flushContextRule: what a stage reads from the flush context is what the group put there.
//
//	(a) sibling agreement in notify/context.go: every WithX stores its argument under one key, no two setters share a
//	    key, and the accessor that reads that key asserts the setter's type and returns what it read;
//	(b) aggrGroup.run fills the context with the group's own key, labels, receiver, route id and marker.
func flushContextRule(o *Ob) {
	e := o.E
	type setter struct {
		fn  *ssa.Function
		typ types.Type
	}
	setters := map[string]setter{} // key rendering → setter
	names := map[string]string{}   // setter name → key
	for _, fn := range e.allFuncs {
		n := fnName(fn)
		if !strings.HasPrefix(n, "am/notify.With") || strings.Contains(n, "$") || fn.Signature.Recv() != nil {
			continue
		}
		cs := e.Calls(fn, "context.WithValue")
		if len(cs) == 0 {
			continue // not a context setter (e.g. an option constructor)
		}
		if !o.Check(len(cs) == 1 && len(fn.Params) == 2, "setter-shape|"+n, n+" must store exactly its one argument", fnFirst(fn)) {
			continue
		}
		c := cs[0]
		k := e.X(fn, c.Common().Args[1])
		o.Site(c, n+" → key "+k)
		o.Check(e.X(fn, c.Common().Args[0]) == "ctx" || e.X(fn, c.Common().Args[0]) == "p0", "setter-parent|"+n, n+" must extend the given context", c)
		o.Check(e.X(fn, c.Common().Args[2]) == "p1", "setter-value|"+n, n+" must store its argument, stores "+e.X(fn, c.Common().Args[2]), c)
		if prev, dup := setters[k]; dup {
			o.Fail("setter-key-shared|"+n, n+" and "+fnName(prev.fn)+" store under the same context key "+k+": one overwrites the other", c)
			continue
		}
		setters[k] = setter{fn, fn.Params[1].Type()}
		names[n] = k
		for _, ret := range (&Walk{Fn: fn}).FromEntry().Returns() {
			o.Check(ret.Results[0] == ssa.Value(c.(*ssa.Call)), "setter-return|"+n, n+" must return the extended context", ret)
		}
	}
	o.Check(len(setters) >= 12, "setters", "fewer context setters than the reference tree has ("+itoa(len(setters))+")", nil)
	read := map[string]bool{}
	defer func() {
		for k, st := range setters {
			if isNewFunc(st.fn) {
				continue // a setter added after the reference tree: who reads it is not this rule's business
			}
			o.Check(read[k], "setter-unread|"+fnName(st.fn), "no accessor reads what "+fnName(st.fn)+" stores (key "+k+")", fnFirst(st.fn))
		}
	}()
	for _, fn := range e.allFuncs {
		n := fnName(fn)
		if !strings.HasPrefix(n, "am/notify.") || strings.Contains(n, "$") || fn.Signature.Recv() != nil || fn.Signature.Params().Len() != 1 || fn.Signature.Results().Len() != 2 {
			continue
		}
		var vc *ssa.Call
		for _, in := range AllInstrs(fn) {
			if c, ok := in.(*ssa.Call); ok && c.Call.IsInvoke() && c.Call.Method.Name() == "Value" && c.Call.Method.Pkg() != nil && c.Call.Method.Pkg().Path() == "context" {
				vc = c
			}
		}
		if vc == nil {
			continue
		}
		k := e.X(fn, vc.Call.Args[0])
		s, ok := setters[k]
		if !o.Check(ok, "getter-key|"+n, n+" reads context key "+k+", which no setter writes", vc) {
			continue
		}
		o.Check(!read[k], "getter-key-shared|"+n, n+" reads context key "+k+", which another accessor already reads: one of them reads the wrong key", vc)
		read[k] = true
		o.Site(vc, n+" ← key "+k+" ("+fnName(s.fn)+")")
		var ta *ssa.TypeAssert
		for _, r := range *vc.Referrers() {
			if t, ok := r.(*ssa.TypeAssert); ok {
				ta = t
			}
		}
		if o.Check(ta != nil && ta.CommaOk, "getter-assert|"+n, n+" must type-assert what it read (comma-ok)", vc) {
			o.Check(types.Identical(ta.AssertedType, s.typ), "getter-type|"+n, n+" asserts "+typeStr(ta.AssertedType)+" but "+fnName(s.fn)+" stores "+typeStr(s.typ)+": the value would never be found", ta)
			for _, ret := range (&Walk{Fn: fn}).FromEntry().Returns() {
				// what was read and whether it was there; (zero, false) is the other possible answer
				good := true
				for idx := 0; idx < 2; idx++ {
					hit := false
					for _, a := range AltsOf(ret.Results[idx]) {
						if x, ok := a.V.(*ssa.Extract); ok && x.Tuple == ssa.Value(ta) && x.Index == idx {
							hit = true
							continue
						}
						k, isC := a.V.(*ssa.Const)
						if !isC || idx == 1 && e.X(fn, a.V) != "false" || idx == 0 && !(k.Value == nil || e.X(fn, a.V) == `""` || e.X(fn, a.V) == "0") {
							good = false
						}
					}
					good = good && hit
				}
				o.Check(good, "getter-return|"+n, n+" must return what it read and whether it was there", ret)
			}
		}
	}
	// (b) the group's own identity
	run := o.Fn("(*am/dispatch.aggrGroup).run")
	for _, w := range []struct{ fn, want string }{
		{"am/notify.WithGroupKey", "(*am/dispatch.aggrGroup).GroupKey(recv)"},
		{"am/notify.WithGroupLabels", "recv.labels"},
		{"am/notify.WithReceiverName", "recv.opts.Receiver"},
		{"am/notify.WithRouteID", "recv.routeID"},
	} {
		c := o.One(e.Calls(run, w.fn), "flush|"+w.fn, "the flush context must be filled by "+w.fn, run)
		o.Check(e.Arg(c, 1) == w.want, "flush-arg|"+w.fn, w.fn+" must get "+w.want+", gets "+e.Arg(c, 1), c)
		o.Check(names[w.fn] != "", "flush-setter|"+w.fn, w.fn+" is not a context setter any more", c)
	}
	mc := o.One(e.Calls(run, "am/marker.WithContext"), "flush-marker", "the flush context must carry the alert marker", run)
	o.Check(e.Arg(mc, 1) == "recv.marker", "flush-marker-arg", "the flush context must carry the group's marker", mc)
	// the flush itself runs in that context
	fl := e.Calls(run, "(*am/dispatch.aggrGroup).flush")
	o.Check(len(fl) >= 1, "flush-call", "run no longer flushes", nil)
}

func init() {
	desc := "context setters and accessors of notify/context.go agree pairwise on key and type; aggrGroup.run puts the group's own key, labels, receiver, route id and marker into the flush context"
	reg("C06", "C06.11", "T9,T11", "a notification carries its own group's identity: "+desc, func(o *Ob) { flushContextRule(o); o.MinSites(20) })
	reg("C04", "C04.15", "T9,T11", "the log key of a flush is its own group and receiver: "+desc, func(o *Ob) { flushContextRule(o); o.MinSites(20) })
}
