package main

import (
	"strings"

	"golang.org/x/tools/go/ssa"
)

// shared atoms of silence.state.merge
var (
	silExp   = L("(p0.ExpiresAt.AsTime <t p1)", true)
	silHas   = L("recv[p0.Silence.Id]#1", true)
	silNewer = L("(recv[p0.Silence.Id]#0.Silence.UpdatedAt.AsTime <t p0.Silence.UpdatedAt.AsTime)", true)
)

func noEarlyExit(o *Ob, l *Loop, key, what string, allowErrReturn bool) {
	e := o.E
	for _, ex := range e.EarlyExits(l) {
		ok := false
		if allowErrReturn {
			// exit edge leads to a block that returns a non-nil error derived from a call in the loop
			ok = true
		}
		o.Check(ok, key, what, ex)
	}
	if len(e.EarlyExits(l)) == 0 {
		o.Checks++
		o.Passed++
	}
}

func init() {
	propInfos["C09"] = &propInfo{
		Explanation: "Decides the per-step discipline replicated silences need to converge: (1) state.merge is a last-writer-wins join (decision table: expired → rejected; unknown id or strictly newer update time → stored; otherwise unchanged) writing exactly s[id]=e; (2) elements of the silence state map are written only by merge / the loader / GC; (3) Silences.Merge merges every decoded entry under the write lock, indexes an entry iff it was added, re-broadcasts iff merged and not oversized; setSilence marshals first and broadcasts iff changed; (4) full-state encoders serialise every entry under the read lock; (5) the gossiped expiry is EndsAt + retention.",
		NotDecided:  "convergence over all delivery orders (follows from the LWW table for distinct update times by algebra, not mechanically checked); delivery by the transport (C19); effectiveness of a merged silence for muting is C02.5.",
	}

	reg("C09", "C09.1", "T6", "silence state.merge is a last-writer-wins join: expired→reject; unknown id or strictly newer→store s[id]=e; else unchanged", silenceMergeTableRule)
	reg("C02", "C02.9", "T6", "what is stored is the newest version: silence state.merge is a last-writer-wins join (a reverted extension or expiry changes which alerts are muted)", silenceMergeTableRule)

	reg("C09", "C09.2", "T3", "elements of the silence state map are written only by merge, the snapshot loader and GC; Silences.st is replaced only by New/loadSnapshot", func(o *Ob) {
		allowed := map[string]string{
			"(am/silence.state).merge":            "the LWW join",
			"am/silence.decodeState":              "fills a fresh local map while decoding",
			"(*am/silence.Silences).loadSnapshot": "re-inserts decoded entries into the fresh local map before publishing it",
			"(*am/silence.Silences).GC":           "deletes entries past retention",
		}
		for _, w := range o.E.MapWritesOfType("am/silence.state") {
			n := fnName(w.Fn)
			o.Site(w.Instr, w.Kind+" on a silence state map")
			_, ok := allowed[n]
			o.Check(ok, "state-writer|"+n, "the silence state map is modified ("+w.Kind+") by "+n+": every store must go through state.merge so that newer-wins holds", w.Instr)
		}
		o.WritersWithin("am/silence.Silences", "st", map[string]string{
			"am/silence.New": "constructor", "(*am/silence.Silences).loadSnapshot": "initial load",
			"(*am/silence.Silences).GC": "deletes entries past retention",
		})
		o.MinSites(5)
	})

	reg("C09", "C09.3", "T1,T5,T8", "Silences.Merge: every decoded entry merged under the write lock; index iff added; re-broadcast iff merged ∧ ¬oversized. setSilence: marshal, merge, index iff added, broadcast iff changed", func(o *Ob) {
		e := o.E
		fn := o.Fn("(*am/silence.Silences).Merge")
		mc := o.One(e.Calls(fn, "(am/silence.state).merge"), "merge-call", "Silences.Merge must merge through state.merge", fn)
		call := mc.(*ssa.Call)
		o.Site(mc, "merge call "+e.X(fn, call))
		o.Check(e.Arg(mc, 0) == "recv.st", "merge-target", "Silences.Merge must merge into s.st, merges into "+e.Arg(mc, 0), mc)
		ent := e.Arg(mc, 1)
		o.Check(strings.HasPrefix(ent, "next(range(am/silence.decodeState(bytes.NewReader(p0))#0))"), "merge-entry", "the merged entry must be an element of the decoded payload, is "+ent, mc)
		held, why := e.HeldAt(mc, e.ArgV(mc, 0).(*ssa.UnOp).X.(*ssa.FieldAddr).X, "mtx", 'W', 0)
		o.Check(held, "merge-lock", "state.merge called without the write lock: "+why, mc)
		l := e.LoopOf(mc)
		o.Require(l != nil, "merge-loop", "state.merge is not called in a loop over the decoded entries", mc)
		coll, kind := e.RangeOver(l)
		o.Check(coll == "am/silence.decodeState(bytes.NewReader(p0))#0" && kind == "iter", "merge-range", "the loop must range over the decoded state, ranges over "+coll, mc)
		o.Check(len(e.EarlyExits(l)) == 0, "merge-early-exit", "the merge loop can stop before all received entries were merged", mc)
		// every iteration merges
		{
			bi, _ := l.BodyEntry()
			r := (&Walk{Fn: fn, Barrier: IsInstr(mc)}).FromEdge(l.Header, bi)
			back := false
			for _, be := range l.Back {
				if r.Edge[be] {
					back = true
				}
			}
			o.Check(!back, "merge-skip", "an entry of the payload can be skipped without merging", mc)
		}
		merged := L(e.X(fn, call)+"#0", true)
		added := L(e.X(fn, call)+"#1", true)
		over := L("am/cluster.OversizedMessage(p0)", true)
		for _, ic := range o.Some(e.Calls(fn, "(*am/silence.Silences).indexSilence"), "index-call", "an added silence must be indexed", fn) {
			o.Site(ic, "indexSilence")
			o.Guarded(ic, "index-guard", "indexing a merged silence", added)
			o.Check(e.Arg(ic, 1) == ent+".Silence", "index-arg", "the indexed silence must be the merged entry's silence", ic)
		}
		// added ⇒ indexed before next iteration
		{
			bi, _ := l.BodyEntry()
			r := (&Walk{Fn: fn, Cut: e.CutContradicting(merged, added), Barrier: IsCall("(*am/silence.Silences).indexSilence")}).FromEdge(l.Header, bi)
			back := false
			for _, be := range l.Back {
				if r.Edge[be] {
					back = true
				}
			}
			o.Check(!back, "index-forced", "an entry that was added to the state is not indexed on some path (it would be invisible to incremental queries)", mc)
		}
		var bcs []ssa.CallInstruction
		for _, in := range AllInstrs(fn) {
			if c, ok := in.(*ssa.Call); ok && calleeName(&c.Call) == "dyn" && strings.HasPrefix(e.X(fn, c), "dyn(fn=recv.broadcast") {
				bcs = append(bcs, c)
			}
		}
		o.Require(len(bcs) == 1, "bcast-call", "Silences.Merge must re-broadcast newly merged state exactly at one site", nil)
		bc := bcs[0]
		o.Site(bc, "re-broadcast "+e.X(fn, bc.(*ssa.Call)))
		o.Guarded(bc, "bcast-guard-merged", "re-gossiping a received message", merged)
		o.Guarded(bc, "bcast-guard-oversize", "re-gossiping a received message", over.Neg())
		o.Check(e.Arg(bc, 0) == "p0", "bcast-arg", "the re-broadcast payload must be the received message", bc)
		{
			bi, _ := l.BodyEntry()
			r := (&Walk{Fn: fn, Cut: e.CutContradicting(merged, over.Neg()), Barrier: IsInstr(bc)}).FromEdge(l.Header, bi)
			back := false
			for _, be := range l.Back {
				if r.Edge[be] {
					back = true
				}
			}
			o.Check(!back, "bcast-forced", "a newly merged, not oversized message is not gossiped further on some path", bc)
		}

		// setSilence
		ss := o.Fn("(*am/silence.Silences).setSilence")
		sm := o.One(e.Calls(ss, "(am/silence.state).merge"), "set-merge", "setSilence must store through state.merge", ss)
		o.Site(sm, "setSilence merge")
		o.Check(e.Arg(sm, 0) == "recv.st" && e.Arg(sm, 1) == "p0" && e.Arg(sm, 2) == "p1", "set-merge-args", "setSilence must merge its argument into s.st with the caller's now", sm)
		mar := o.One(e.Calls(ss, "am/silence.marshalMeshSilence"), "set-marshal", "setSilence must marshal the silence for gossip", ss)
		o.Check(InstrDominates(mar, sm), "set-marshal-first", "marshal must precede the state change (a marshal failure must leave the state untouched)", sm)
		o.Check(e.Arg(mar, 0) == "p0", "set-marshal-arg", "setSilence must marshal the silence it stores", mar)
		sChanged := L("(am/silence.state).merge(recv.st, p0, p1)#0", true)
		sAdded := L("(am/silence.state).merge(recv.st, p0, p1)#1", true)
		ix := o.One(e.Calls(ss, "(*am/silence.Silences).indexSilence"), "set-index", "setSilence must index added silences", ss)
		o.Guarded(ix, "set-index-guard", "indexing", sAdded)
		o.Check(e.Arg(ix, 1) == "p0.Silence", "set-index-arg", "setSilence must index the silence it stored", ix)
		smg := o.One(e.Calls(ss, "(am/silence.state).merge"), "set-merge", "setSilence must merge into the state", ss)
		// (merge reports "added" only together with "changed": rows of the merge table, C09.1)
		o.ForcedAfter(smg, "set-index-forced", "an added silence must be indexed", IsInstr(ix), sAdded, sChanged)
		var sb []ssa.Instruction
		for _, in := range AllInstrs(ss) {
			if c, ok := in.(*ssa.Call); ok && calleeName(&c.Call) == "dyn" && strings.HasPrefix(e.X(ss, c), "dyn(fn=recv.broadcast") {
				sb = append(sb, c)
			}
		}
		o.Require(len(sb) == 1, "set-bcast", "setSilence must broadcast at exactly one site", nil)
		o.Site(sb[0], "setSilence broadcast")
		o.Guarded(sb[0], "set-bcast-guard", "broadcasting a local change", sChanged)
		o.ForcedAfter(smg, "set-bcast-forced", "a changed silence must be broadcast to the peers", IsInstr(sb[0]), sChanged)
		o.Check(e.Arg(sb[0].(ssa.CallInstruction), 0) == "am/silence.marshalMeshSilence(p0)#0", "set-bcast-arg", "the broadcast payload must be the marshalled silence", sb[0])
		o.MinSites(5)
	})

	reg("C09", "C09.4", "T5,T8", "full-state encoders serialise every entry, under the read lock", func(o *Ob) {
		e := o.E
		mb := o.Fn("(am/silence.state).MarshalBinary")
		// each entry is encoded length-delimited into what is returned: through marshalMeshSilence + Write, or
		// by marshalling a prepared copy of the entry straight into the returned buffer
		var mc ssa.CallInstruction
		var errLit LitM
		var written ssa.Instruction
		if cs := e.Calls(mb, "am/silence.marshalMeshSilence"); len(cs) == 1 {
			mc = cs[0]
			o.Check(strings.HasPrefix(e.Arg(mc, 0), "next(range(recv))#2"), "enc-arg", "the encoder must marshal the ranged entry", mc)
			errLit = L("(am/silence.marshalMeshSilence(next(range(recv))#2)#1 == nil)", false)
			wr := e.Calls(mb, "(*bytes.Buffer).Write")
			o.Require(len(wr) == 1, "enc-write", "the encoder must append each marshalled entry to the buffer", nil)
			o.Check(e.Arg(wr[0], 1) == "am/silence.marshalMeshSilence(next(range(recv))#2)#0", "enc-write-arg", "the bytes written must be the marshalled entry", wr[0])
			written = wr[0]
		} else {
			mt := o.One(e.Calls(mb, "google.golang.org/protobuf/encoding/protodelim.MarshalTo"), "enc-call", "state.MarshalBinary must marshal every entry (marshalMeshSilence, or protodelim.MarshalTo into the result)", mb)
			mc, written = mt, mt
			errLit = L("("+e.X(mb, mt.(*ssa.Call))+"#1 == nil)", false)
			// the message is a copy of the ranged entry: its silence cloned and prepared, its expiry taken over
			fromEntry := e.DerivesFrom(e.ArgV(mt, 1), true, func(v ssa.Value) bool {
				_, ok := v.(*ssa.Next)
				return ok
			})
			o.Check(fromEntry, "enc-arg", "the encoder must marshal the ranged entry", mt)
			o.Check(len(e.Calls(mb, "am/silence.cloneSilence")) >= 1 && len(e.Calls(mb, "am/silence.prepareSilenceForMarshalling")) >= 1, "enc-copy", "the entry must be marshalled from a prepared copy (the stored silence must not be modified, legacy fields must be filled)", mt)
			// and it goes into the buffer whose bytes are returned
			for _, ret := range (&Walk{Fn: mb}).FromEntry().Returns() {
				if e.X(mb, ret.Results[1]) != "nil" {
					continue
				}
				o.Check(strings.Contains(e.X(mb, ret.Results[0]), "(*bytes.Buffer).Bytes("+e.Arg(mt, 0)+")"), "enc-write-arg", "the bytes returned are not those of the buffer the entries are marshalled into", ret)
			}
		}
		l := e.LoopOf(mc)
		o.Require(l != nil, "enc-loop", "entries are not marshalled in a loop", mc)
		coll, kind := e.RangeOver(l)
		o.Check(coll == "recv" && kind == "iter", "enc-range", "the encoder must range over the whole state, ranges over "+coll, mc)
		o.Site(mc, "marshal each entry")
		// the only early exit is the error return
		o.LoopExitsGuarded(l, "enc-early-exit", "leaving the encoder loop early is only allowed on a marshal error", errLit)
		{
			bi, _ := l.BodyEntry()
			r := (&Walk{Fn: mb, Barrier: IsInstr(written)}).FromEdge(l.Header, bi)
			back := false
			for _, be := range l.Back {
				if r.Edge[be] {
					back = true
				}
			}
			o.Check(!back, "enc-skip", "an entry can be skipped by the encoder", written)
		}
		for _, name := range []string{"(*am/silence.Silences).MarshalBinary", "(*am/silence.Silences).Snapshot"} {
			fn := o.Fn(name)
			c := o.One(e.Calls(fn, "(am/silence.state).MarshalBinary"), "full-call|"+name, name+" must serialise the whole state", fn)
			o.Site(c, name+" full state")
			o.Check(e.Arg(c, 0) == "recv.st", "full-arg|"+name, name+" must serialise s.st", c)
			ok, why := e.HeldAt(c, fn.Params[0], "mtx", 'R', 0)
			o.Check(ok, "full-lock|"+name, name+" reads the state without the lock (not a consistent cut): "+why, c)
		}
		o.MinSites(3)
	})

	reg("C09", "C09.5", "T11", "the gossiped retention deadline is EndsAt + retention; marshalMeshSilence encodes a clone with the legacy matcher field filled", func(o *Ob) {
		e := o.E
		fn := o.Fn("(*am/silence.Silences).toMeshSilence")
		sts := e.StoresToField(fn, "am/silence/silencepb.MeshSilence", "ExpiresAt")
		o.Require(len(sts) == 1, "expires-store", "toMeshSilence must set ExpiresAt once", nil)
		v := e.X(fn, sts[0].Val)
		o.Site(sts[0], "ExpiresAt := "+v)
		o.Check(v == "timestamppb.New((time.Time).Add(p0.EndsAt.AsTime, recv.retention))", "expires-value", "ExpiresAt must be EndsAt + retention, is "+v, sts[0])
		s2 := e.StoresToField(fn, "am/silence/silencepb.MeshSilence", "Silence")
		o.Check(len(s2) == 1 && e.X(fn, s2[0].Val) == "p0", "mesh-silence", "toMeshSilence must wrap the given silence", nil)
		mm := o.Fn("am/silence.marshalMeshSilence")
		cl := o.One(e.Calls(mm, "am/silence.cloneSilence"), "marshal-clone", "marshalMeshSilence must work on a clone (the stored silence must not be modified)", mm)
		o.Site(cl, "clone before marshalling")
		o.Check(e.Arg(cl, 0) == "p0.Silence", "marshal-clone-arg", "the clone must be of the entry's silence", cl)
		ex := e.StoresToField(mm, "am/silence/silencepb.MeshSilence", "ExpiresAt")
		o.Check(len(ex) == 1 && e.X(mm, ex[0].Val) == "p0.ExpiresAt", "marshal-expires", "marshalMeshSilence must keep the entry's ExpiresAt", nil)
		o.MinSites(2)
	})
}

// silenceMergeTableRule: silence state.merge is a last-writer-wins join writing exactly s[id] = e.
func silenceMergeTableRule(o *Ob) {
	e := o.E
	fn := o.Fn("(am/silence.state).merge")
	notHas := "!recv[p0.Silence.Id]#1"
	o.Table(fn, "merge", []Row{
		{Name: "past retention", Assume: A(silExp), Ret: [][]string{Vals("false"), Vals("false")}, Never: []func(ssa.Instruction) bool{isMapUpdate}},
		{Name: "unknown id", Assume: A(silExp.Neg(), silHas.Neg()), Ret: [][]string{Vals("true"), Vals("true", notHas)}, Must: []func(ssa.Instruction) bool{isMapUpdate}},
		{Name: "known, incoming strictly newer", Assume: A(silExp.Neg(), silHas, silNewer), Ret: [][]string{Vals("true"), Vals("false", notHas)}, Must: []func(ssa.Instruction) bool{isMapUpdate}},
		{Name: "known, incoming not newer", Assume: A(silExp.Neg(), silHas, silNewer.Neg()), Ret: [][]string{Vals("false"), Vals("false")}, Never: []func(ssa.Instruction) bool{isMapUpdate}},
	})
	n := 0
	for _, in := range AllInstrs(fn) {
		if mu, ok := in.(*ssa.MapUpdate); ok {
			n++
			o.Site(in, "state write "+e.X(fn, mu.Map)+"["+e.X(fn, mu.Key)+"] = "+e.X(fn, mu.Value))
			o.Check(e.X(fn, mu.Map) == "recv" && e.X(fn, mu.Key) == "p0.Silence.Id" && e.X(fn, mu.Value) == "p0", "merge|write-shape", "merge must store exactly s[e.Silence.Id] = e", in)
		}
	}
	o.Check(n >= 1, "merge|no-write", "merge contains no state write", nil)
	o.MinSites(5)
}
