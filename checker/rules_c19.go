package main

import (
	"go/constant"
	"go/token"
	"strings"

	"golang.org/x/tools/go/ssa"
)

func loopBackWithout(o *Ob, l *Loop, barrier func(ssa.Instruction) bool, cut func(*ssa.BasicBlock, int) bool) bool {
	bi, ok := l.BodyEntry()
	if !ok {
		return false
	}
	r := (&Walk{Fn: l.Fn, Barrier: barrier, Cut: cut}).FromEdge(l.Header, bi)
	for _, be := range l.Back {
		if r.Edge[be] {
			return true
		}
	}
	return false
}

func init() {
	propInfos["C19"] = &propInfo{
		Explanation: "Decides the transport's dispatch structure: (1) Channel.Broadcast wraps the update in a Part with the channel's key, drops only on a marshal error, enqueues oversized messages without blocking and otherwise hands them to the gossip queue; the oversize predicate is the single function OversizedMessage (len > MaxGossipPacketSize/2) also used by the states to suppress re-gossip; (2) a full oversize queue is counted; (3) every dequeued oversized message is sent to every peer returned by peers() (all members but self), failures counted, no early exit; (4) NotifyMsg drops undecodable messages and unknown keys and merges exactly the addressed state, states read under the lock; (5) the full-state exchange merges every part independently (no exit from the parts loop but exhaustion) and LocalState contains every registered state; (6) AddState registers the state under the lock before handing out the channel; the gossip packet buffer is at least MaxGossipPacketSize, twice the oversize threshold.",
		NotDecided:  "delivery by memberlist itself (gossip fan-out, TCP push/pull), cluster membership dynamics, queue capacity sufficiency.",
		Trusted:     []string{"hashicorp/memberlist delivers queued broadcasts and reliable sends to live peers"},
	}

	reg("C19", "C19.1", "T6,T4", "Channel.Broadcast: marshal error → drop; oversized → non-blocking enqueue; else gossip queue; one oversize predicate everywhere", func(o *Ob) {
		e := o.E
		fn := o.Fn("(*am/cluster.Channel).Broadcast")
		mar := o.One(e.Calls(fn, "proto.Marshal"), "marshal", "Broadcast must wrap the update in a Part", fn)
		k := e.StoresToField(fn, "am/cluster/clusterpb.Part", "Key")
		d := e.StoresToField(fn, "am/cluster/clusterpb.Part", "Data")
		o.Check(len(k) == 1 && e.X(fn, k[0].Val) == "recv.key", "part-key", "the Part must carry the channel's state key", nil)
		o.Check(len(d) == 1 && e.X(fn, d[0].Val) == "p0", "part-data", "the Part must carry the update", nil)
		mx := e.X(fn, mar.(*ssa.Call))
		mOK := L("("+mx+"#1 == nil)", true)
		over := L("am/cluster.OversizedMessage("+mx+"#0)", true)
		var send ssa.Instruction
		for _, in := range AllInstrs(fn) {
			if c, ok := in.(*ssa.Call); ok && strings.HasPrefix(e.X(fn, c), "dyn(fn=recv.send,") {
				send = c
			}
		}
		var sel *ssa.Select
		for _, in := range AllInstrs(fn) {
			if s, ok := in.(*ssa.Select); ok {
				sel = s
			}
		}
		o.Require(send != nil, "send", "small messages are no longer handed to the gossip queue", nil)
		o.Require(sel != nil, "enqueue", "oversized messages are no longer enqueued for reliable sending", nil)
		o.Site(send, "gossip send")
		o.Site(sel, "oversize enqueue "+e.X(fn, sel))
		o.Check(e.Arg(send.(ssa.CallInstruction), 0) == mx+"#0", "send-arg", "the gossiped bytes must be the marshalled Part", send)
		o.Check(!sel.Blocking && len(sel.States) == 1 && e.X(fn, sel.States[0].Chan) == "recv.msgc" && e.X(fn, sel.States[0].Send) == mx+"#0", "enqueue-shape", "the oversize enqueue must be a non-blocking send of the marshalled Part on msgc (Broadcast is called with state locks held and must never block)", sel)
		isSend, isSel := IsInstr(send), IsInstr(sel)
		o.Table(fn, "Broadcast", []Row{
			{Name: "marshal error", Assume: A(mOK.Neg()), Never: []func(ssa.Instruction) bool{isSend, isSel}},
			{Name: "oversized", Assume: A(mOK, over), Must: []func(ssa.Instruction) bool{isSel}, Never: []func(ssa.Instruction) bool{isSend}},
			{Name: "small", Assume: A(mOK, over.Neg()), Must: []func(ssa.Instruction) bool{isSend}, Never: []func(ssa.Instruction) bool{isSel}},
		})
		// predicate
		om := o.Fn("am/cluster.OversizedMessage")
		rets := (&Walk{Fn: om}).FromEntry().Returns()
		o.Require(len(rets) == 1, "pred", "OversizedMessage must be a single comparison", nil)
		max, ok := e.ConstInt("am/cluster", "MaxGossipPacketSize")
		o.Require(ok, "pred-const", "MaxGossipPacketSize not found", nil)
		v := e.X(om, rets[0].Results[0])
		o.Site(rets[0], "OversizedMessage = "+v)
		o.Check(v == "(len(p0) > "+itoa(int(max/2))+")", "pred-value", "OversizedMessage must be len(b) > MaxGossipPacketSize/2, is "+v, rets[0])
		// one predicate: states use it
		for _, name := range []string{"(*am/silence.Silences).Merge", "(*am/nflog.Log).Merge", "(*am/cluster.Channel).Broadcast"} {
			f := o.Fn(name)
			cs := e.Calls(f, "am/cluster.OversizedMessage")
			o.Check(len(cs) == 1, "pred-user|"+name, name+" must decide oversize with cluster.OversizedMessage (the sender's and the re-gossip suppressor's notion must agree)", nil)
		}
		// what is not oversized must fit into a gossip datagram: the transport's packet buffer is at least
		// MaxGossipPacketSize, twice the oversize threshold (memberlist subtracts its own framing from it)
		cr := o.Fn("am/cluster.Create")
		maxPkt, okc := e.ConstInt("am/cluster", "MaxGossipPacketSize")
		o.Require(okc, "max-packet-const", "cluster.MaxGossipPacketSize not found", nil)
		nb := 0
		for _, in := range AllInstrs(cr) {
			st, ok := in.(*ssa.Store)
			if !ok {
				continue
			}
			fa, ok := st.Addr.(*ssa.FieldAddr)
			if !ok || fieldName(fa.X.Type(), fa.Field) != "UDPBufferSize" {
				continue
			}
			nb++
			o.Site(st, "memberlist UDPBufferSize := "+e.X(cr, st.Val))
			v, isC := st.Val.(*ssa.Const)
			vi := int64(-1)
			if isC && v.Value != nil {
				vi, _ = constant.Int64Val(v.Value)
			}
			o.Check(isC && vi >= maxPkt, "udp-buffer", "the gossip packet buffer ("+e.X(cr, st.Val)+") is smaller than MaxGossipPacketSize ("+itoa(int(maxPkt))+"): updates just below the oversize threshold fit neither a datagram nor the reliable path and are never delivered", st)
		}
		o.Check(nb == 1, "udp-buffer-set", "cluster.Create must size the gossip packet buffer", nil)
		// and the threshold is half of it
		om2 := o.Fn("am/cluster.OversizedMessage")
		for _, ret := range (&Walk{Fn: om2}).FromEntry().Returns() {
			l := e.CondLit(om2, ret.Results[0])
			o.Check(l.Atom == "("+itoa(int(maxPkt/2))+" < len(p0))" && l.Pos || l.Atom == "(len(p0) < "+itoa(int(maxPkt/2)+1)+")" && !l.Pos, "oversize-threshold", "the oversize predicate must be len > MaxGossipPacketSize/2, is "+l.String(), ret)
		}
		o.MinSites(3)
	})

	reg("C19", "C19.2", "T1", "a full oversize queue is never silent: the dropped counter is incremented", func(o *Ob) {
		e := o.E
		fn := o.Fn("(*am/cluster.Channel).Broadcast")
		var inc ssa.CallInstruction
		for _, c := range e.Calls(fn, "invoke:prometheus.Counter.Inc") {
			if e.Arg(c, 0) == "recv.oversizeGossipMessageDroppedTotal" {
				inc = c
			}
		}
		o.Require(inc != nil, "dropped-counter", "a dropped oversized message is no longer counted", nil)
		o.Site(inc, "dropped counter")
		enq := L("nb-sel:send:recv.msgc", true)
		o.Guarded(inc, "dropped-guard", "counting a drop", enq.Neg())
		var sel2 *ssa.Select
		for _, in := range AllInstrs(fn) {
			if s, ok := in.(*ssa.Select); ok && !s.Blocking {
				sel2 = s
			}
		}
		o.Require(sel2 != nil, "enqueue-try", "Broadcast no longer tries to enqueue without blocking", nil)
		o.ForcedAfter(sel2, "dropped-forced", "a message that could not be enqueued must be counted as dropped", IsInstr(inc), enq.Neg())
		o.MinSites(1)
	})

	reg("C19", "C19.3", "T8", "every dequeued oversized message is sent to every other member; a failed send is counted and does not stop the others", func(o *Ob) {
		e := o.E
		fn := o.Fn("(*am/cluster.Channel).handleOverSizedMessages")
		// the send is either handed to a goroutine per peer or made in line by the loop over the peers
		var g *ssa.Go
		for _, in := range AllInstrs(fn) {
			if x, ok := in.(*ssa.Go); ok {
				g = x
			}
		}
		findSend := func(f *ssa.Function, pre string) ssa.CallInstruction {
			var snd ssa.CallInstruction
			for _, in := range AllInstrs(f) {
				if c, ok := in.(*ssa.Call); ok && strings.HasPrefix(e.X(f, c), "dyn(fn="+pre+"recv.sendOversize,") {
					snd = c
				}
			}
			return snd
		}
		var anchor ssa.Instruction // the per-iteration instruction in fn
		var body *ssa.Function     // the function that holds the send
		var snd ssa.CallInstruction
		up := ""
		if g != nil {
			anchor = g
			if mc, ok := g.Call.Value.(*ssa.MakeClosure); ok {
				body, up = mc.Fn.(*ssa.Function), "^"
				snd = findSend(body, "^")
			}
		} else {
			body = fn
			snd = findSend(fn, "")
			if snd != nil {
				anchor = snd
			}
		}
		o.Require(anchor != nil && body != nil, "go", "oversized messages are no longer sent to the peers (neither a goroutine per peer nor a send in the loop)", nil)
		o.Require(snd != nil, "sendOversize", "the per-peer send is gone", nil)
		o.Site(anchor, "send to the peer of the iteration")
		// the innermost loop containing the send ranges over peers()
		var inner *Loop
		for _, lp := range e.Loops(fn) {
			if lp.Blocks[anchor.Block().Index] && (inner == nil || len(lp.Blocks) < len(inner.Blocks)) {
				inner = lp
			}
		}
		o.Require(inner != nil, "peer-loop", "sends are not in a loop over the peers", anchor)
		coll, kind := e.RangeOver(inner)
		o.Check(coll == "dyn(fn=recv.peers)" && kind == "index", "peer-range", "the message must go to every peer returned by peers(), loop ranges over "+coll, anchor)
		o.Check(len(e.EarlyExits(inner)) == 0, "peer-early-exit", "the loop over the peers can stop early (a failed send must not stop the others)", anchor)
		o.Check(!loopBackWithout(o, inner, IsInstr(anchor), nil), "peer-skip", "a peer can be skipped", anchor)
		if g != nil {
			o.Check(e.X(fn, g.Call.Args[0]) == "dyn(fn=recv.peers)[i]", "peer-arg", "each send must target the peer of the iteration", g)
			o.Check(e.Arg(snd, 0) == "p0" && strings.Contains(e.Arg(snd, 1), "recv:^recv.msgc"), "sendOversize-args", "the message sent must be the one dequeued, to the goroutine's peer", snd)
			// unconditional
			o.Check(len((&Walk{Fn: body, Barrier: IsInstr(snd)}).FromEntry().Returns()) == 0, "send-skipped", "the per-peer goroutine can return without sending", snd)
		} else {
			o.Check(e.Arg(snd, 0) == "dyn(fn=recv.peers)[i]" && strings.Contains(e.Arg(snd, 1), "recv:recv.msgc"), "sendOversize-args", "the message sent must be the one dequeued, to the peer of the iteration", snd)
		}
		fail := L("("+e.X(body, snd.(*ssa.Call))+" == nil)", false)
		var finc ssa.CallInstruction
		for _, c := range e.Calls(body, "invoke:prometheus.Counter.Inc") {
			if e.Arg(c, 0) == up+"recv.oversizeGossipMessageFailureTotal" {
				finc = c
			}
		}
		if o.Check(finc != nil, "failure-counter", "a failed reliable send is no longer counted", nil) {
			if g != nil {
				o.Forced(body, "failure-forced", "a failed reliable send must be counted", IsInstr(finc), fail)
			} else {
				o.ForcedAfter(snd, "failure-forced", "a failed reliable send must be counted", IsInstr(finc), fail)
			}
		}
		// the dequeue loop only ends on stop
		for _, in := range AllInstrs(fn) {
			if ret, ok := in.(*ssa.Return); ok {
				o.Guarded(ret, "handler-exit", "terminating the oversize handler", L("sel:recv:p0", true))
			}
		}
		// peers(): all members except self
		// the functions the channel is wired to (literals or method values)
		as := o.Fn("(*am/cluster.Peer).AddState")
		nc := o.One(e.Calls(as, "am/cluster.NewChannel"), "newchannel", "AddState must create the channel", as)
		s1, ps, s3 := e.FuncValue(e.ArgV(nc, 1)), e.FuncValue(e.ArgV(nc, 2)), e.FuncValue(e.ArgV(nc, 3))
		o.Require(e.Arg(nc, 0) == "p0" && s1 != nil && ps != nil && s3 != nil, "newchannel-args", "the channel must be wired to (key, gossip send, peers, reliable send)", nc)
		mem := o.One(e.Calls(ps, "(*github.com/hashicorp/memberlist.Memberlist).Members"), "members", "peers() must start from the member list", ps)
		o.Site(mem, "peers() = members − self")
		self := LRe(`\(\(\*am/cluster\.Peer\)\.Self\(\^?recv\)\.Name == \(\*github\.com/hashicorp/memberlist\.Node\)\.String\(.*\[i\]\)\)`, true)
		if peersByFoundIndex(o, ps, mem.(*ssa.Call), self) || peersByIndexFunc(o, ps, mem.(*ssa.Call)) {
			goto wiring
		}
		{
			anyTail := false
			for _, ret := range (&Walk{Fn: ps}).FromEntry().Returns() {
				bases, parts := e.AppendParts(ret.Results[0])
				okBase := false
				for _, b := range bases {
					s := e.X(ps, b)
					if s == e.X(ps, mem.(*ssa.Call)) || strings.HasPrefix(s, "slice("+e.X(ps, mem.(*ssa.Call))+",hi=i") {
						okBase = true
					}
				}
				o.Check(okBase, "peers-base", "peers() must return the members", ret)
				tail := false
				for _, p := range parts {
					o.Guarded(p.Call, "peers-remove-guard", "removing a member from the peer list", self)
					if p.Spread && e.X(ps, p.V) == "slice("+e.X(ps, mem.(*ssa.Call))+",lo=(i + 1))" {
						tail = true
					}
				}
				if len(parts) == 0 {
					// the unmodified member list: only when self was not found
					continue
				}
				anyTail = true
				o.Check(tail, "peers-tail", "removing self from the member list must keep every member after it (append(nodes[:i], nodes[i+1:]...))", ret)
			}
			o.Check(anyTail, "peers-tail", "peers() never removes self from the member list", mem)
			// once self was found it is removed: no return of the unmodified list after the match
			for _, ec := range e.EdgesAsserting(ps, self) {
				r := (&Walk{Fn: ps}).FromEdgeCtx(ec)
				for _, ret := range r.Returns() {
					for _, v := range e.RetVals(r, ret, 0) {
						_, parts := e.AppendPartsUnder(r, v)
						o.Check(len(parts) > 0, "peers-self-kept", "peers() can return the member list with self still in it", ret)
					}
				}
			}
		}
	wiring:
		// AddState wiring
		qb := o.One(e.Calls(s1, "(*github.com/hashicorp/memberlist.TransmitLimitedQueue).QueueBroadcast"), "queue", "the gossip send must queue a broadcast", s1)
		o.Check(e.Arg(qb, 1) == "p0", "queue-arg", "the queued broadcast must be the message", qb)
		sr := o.One(e.Calls(s3, "(*github.com/hashicorp/memberlist.Memberlist).SendReliable"), "reliable", "the oversize send must use the reliable channel", s3)
		o.Check(e.Arg(sr, 1) == "p0" && e.Arg(sr, 2) == "p1", "reliable-args", "the reliable send must target the given node with the given message", sr)
		nch := o.Fn("am/cluster.NewChannel")
		var hg *ssa.Go
		for _, in := range AllInstrs(nch) {
			if x, ok := in.(*ssa.Go); ok && calleeName(&x.Call) == "(*am/cluster.Channel).handleOverSizedMessages" {
				hg = x
			}
		}
		o.Check(hg != nil, "handler-started", "NewChannel no longer starts the oversize handler: enqueued messages would never be sent", nil)
		for f, want := range map[string]string{"send": "p1", "peers": "p2", "sendOversize": "p3", "key": "p0"} {
			st := e.StoresToField(nch, "am/cluster.Channel", f)
			o.Check(len(st) == 1 && e.X(nch, st[0].Val) == want, "channel-field|"+f, "Channel."+f+" must be the corresponding argument", nil)
		}
		o.MinSites(2)
	})

	notifyMsgRule := func(o *Ob) {
		e := o.E
		fn := o.Fn("(*am/cluster.delegate).NotifyMsg")
		um := o.One(e.Calls(fn, "proto.Unmarshal"), "unmarshal", "NotifyMsg must decode the Part", fn)
		o.Check(e.Arg(um, 0) == "p0", "unmarshal-arg", "the decoded bytes must be the received message", um)
		mg := o.One(e.Calls(fn, "invoke:am/cluster.State.Merge"), "merge", "NotifyMsg must merge the update", fn)
		o.Site(mg, "merge "+e.X(fn, mg.(*ssa.Call)))
		pv := e.Arg(um, 1) // the Part the message is decoded into
		o.Check(regexpMatch(`&\w+:am/cluster/clusterpb\.Part`, pv), "unmarshal-into", "the message must be decoded into a Part, is decoded into "+pv, um)
		key := pv + ".Key"
		o.Check(e.Arg(mg, 0) == "recv.Peer.states["+key+"]#0" && e.Arg(mg, 1) == pv+".Data", "merge-args", "the state addressed by the Part's key must merge the Part's data, got "+e.X(fn, mg.(*ssa.Call)), mg)
		o.Guarded(mg, "merge-decoded", "merging", L("("+e.X(fn, um.(*ssa.Call))+" == nil)", true))
		o.Guarded(mg, "merge-known", "merging", L("recv.Peer.states["+key+"]#1", true))
		o.Forced(fn, "merge-forced", "a decodable update for a known state must be merged", IsInstr(mg), L("("+e.X(fn, um.(*ssa.Call))+" == nil)", true), L("recv.Peer.states["+key+"]#1", true))
		n := o.LockedAccesses("am/cluster.Peer", "states", "mtx", map[string]string{"am/cluster.Create": "constructor"})
		o.Check(n >= 4, "states-accesses", "implausibly few accesses to Peer.states", nil)
		o.MinSites(4)
	}
	reg("C19", "C19.4", "T1,T5", "NotifyMsg: undecodable → drop; unknown key → drop; otherwise Merge exactly the addressed state with the Part's data; states read under the lock", notifyMsgRule)
	reg("C09", "C09.6", "T1,T5", "a gossiped silence update reaches the silence state: NotifyMsg merges exactly the addressed state with the Part's data", notifyMsgRule)
	reg("C10", "C10.8", "T1,T5", "a gossiped log entry reaches the log: NotifyMsg merges exactly the addressed state with the Part's data", notifyMsgRule)

	fullStateRule := func(o *Ob) {
		e := o.E
		fn := o.Fn("(*am/cluster.delegate).MergeRemoteState")
		mg := o.One(e.Calls(fn, "invoke:am/cluster.State.Merge"), "merge", "MergeRemoteState must merge the parts", fn)
		o.Site(mg, "merge part")
		fsUm := o.One(e.Calls(fn, "proto.Unmarshal"), "unmarshal", "MergeRemoteState must decode the full state", fn)
		fsv := e.Arg(fsUm, 1)
		o.Check(regexpMatch(`&\w+:am/cluster/clusterpb\.FullState`, fsv), "unmarshal-into", "the remote state must be decoded into a FullState, is decoded into "+fsv, fsUm)
		part := fsv + ".Parts[i]"
		o.Check(e.Arg(mg, 0) == "recv.Peer.states["+part+".Key]#0" && e.Arg(mg, 1) == part+".Data", "merge-args", "each part must be merged by the state with the part's key", mg)
		l := e.LoopOf(mg)
		o.Require(l != nil, "loop", "parts are not merged in a loop", mg)
		coll, kind := e.RangeOver(l)
		o.Check(coll == fsv+".Parts" && kind == "index", "range", "the loop must range over all parts", mg)
		for _, ex := range e.EarlyExits(l) {
			o.Fail("parts-early-exit|(*am/cluster.delegate).MergeRemoteState", "the parts loop can be left before all parts were handled: a part with an unknown key or one that fails to merge prevents the remaining states from being merged", ex)
		}
		if len(e.EarlyExits(l)) == 0 {
			o.Check(true, "", "", nil)
		}
		known := L("recv.Peer.states["+part+".Key]#1", true)
		o.Check(!loopBackWithout(o, l, IsInstr(mg), e.CutContradicting(known)), "part-skipped", "a part with a known key can be skipped without merging", mg)
		held, why := e.HeldAt(mg, fn.Params[0], "Peer.mtx", 'R', 0)
		_ = held
		_ = why
		// LocalState
		ls := o.Fn("(*am/cluster.delegate).LocalState")
		mb := o.One(e.Calls(ls, "invoke:am/cluster.State.MarshalBinary"), "local-marshal", "LocalState must serialise the states", ls)
		o.Site(mb, "serialise each state")
		ll := e.LoopOf(mb)
		o.Require(ll != nil, "local-loop", "states are not serialised in a loop", mb)
		coll, _ = e.RangeOver(ll)
		o.Check(coll == "recv.Peer.states", "local-range", "LocalState must range over every registered state", mb)
		o.Check(e.Arg(mb, 0) == "next(range(recv.Peer.states))#2", "local-arg", "the serialised state must be the ranged one", mb)
		mOK := L("("+e.X(ls, mb.(*ssa.Call))+"#1 == nil)", true)
		o.LoopExitsGuarded(ll, "local-early-exit", "leaving the loop over the states early is only allowed on a marshal error", mOK.Neg())
		k := e.StoresToField(ls, "am/cluster/clusterpb.Part", "Key")
		d := e.StoresToField(ls, "am/cluster/clusterpb.Part", "Data")
		o.Check(len(k) == 1 && e.X(ls, k[0].Val) == "next(range(recv.Peer.states))#1", "local-key", "each part must carry its state's key", nil)
		o.Check(len(d) == 1 && e.X(ls, d[0].Val) == e.X(ls, mb.(*ssa.Call))+"#0", "local-data", "each part must carry its state's serialisation", nil)
		// the part of the iteration is appended to what becomes FullState.Parts (directly, or to a list stored there later)
		var app ssa.Instruction
		var inLoop []ssa.Instruction
		for _, st := range e.StoresToField(ls, "am/cluster/clusterpb.FullState", "Parts") {
			if _, parts := e.AppendParts(st.Val); len(parts) > 0 {
				app = st
				for _, p := range parts {
					if p.Call != nil && ll.Blocks[p.Call.Block().Index] {
						inLoop = append(inLoop, p.Call)
					}
				}
			}
		}
		// the full state is always handed out: nothing is answered before the states were serialised, and
		// "nothing" (nil) is answered only when serialising failed — not depending on whether the exchange is
		// a join or on what is queued (a periodic exchange is what repairs lost gossip)
		for _, ret := range (&Walk{Fn: ls, Barrier: func(in ssa.Instruction) bool { return in.Block() == ll.Header }}).FromEntry().Returns() {
			o.Fail("local-unconditional", "LocalState can answer without serialising the states", ret)
		}
		if pm := e.Calls(ls, "proto.Marshal"); o.Check(len(pm) == 1, "local-encode", "LocalState must encode the collected parts once", fnFirst(ls)) {
			pOK := L("("+e.X(ls, pm[0].(*ssa.Call))+"#1 == nil)", true)
			for _, in := range AllInstrs(ls) {
				ret, ok := in.(*ssa.Return)
				if !ok || ret.Block() == ls.Recover {
					continue
				}
				for _, v := range e.ValStrs(ls, e.ValsUnder(nil, ret.Results[0])) {
					if v == "nil" {
						o.Check(e.OnlyUnder(ret, mOK.Neg(), pOK.Neg()), "local-nil", "LocalState answers nothing although serialising succeeded", ret)
					} else {
						o.Check(v == e.X(ls, pm[0].(*ssa.Call))+"#0", "local-result", "LocalState answers "+clip(v)+", not the encoded full state", ret)
					}
				}
			}
		}
		// likewise every decodable remote state is merged, whatever the kind of exchange
		uOK := L("("+e.X(fn, fsUm.(*ssa.Call))+" == nil)", true)
		for _, ret := range (&Walk{Fn: fn, Cut: e.CutContradicting(uOK), Barrier: func(in ssa.Instruction) bool { return in.Block() == l.Header }}).FromEntry().Returns() {
			o.Fail("merge-unconditional", "MergeRemoteState can return without merging a decodable remote state", ret)
		}
		if o.Check(app != nil && len(inLoop) > 0, "local-append", "parts are not collected", nil) {
			o.Check(!loopBackWithout(o, ll, IsInstr(inLoop...), e.CutContradicting(mOK)), "local-skip", "a state can be left out of the full state", app)
		}
		o.MinSites(2)
	}
	reg("C19", "C19.5", "T8", "full-state exchange: every part is merged independently (no exit from the parts loop other than exhaustion); LocalState contains every registered state", fullStateRule)
	reg("C09", "C09.7", "T8", "the full-state exchange repairs lost gossip: every part is merged independently, the local state contains every registered state", fullStateRule)
	reg("C10", "C10.9", "T8", "the full-state exchange repairs lost gossip: every part is merged independently, the local state contains every registered state", fullStateRule)

	reg("C19", "C19.7", "T2,T5", "every mutex acquired in the cluster package is released on every return path (a leaked read lock blocks AddState and then all message handling)", func(o *Ob) {
		e := o.E
		// tlsConn.read leaves conn.mtx locked on its first error return.  The receiver is a throw-away wrapper:
		// its only caller creates it with rcvTLSConn for this one read and drops it on error, so nothing can block on it.
		rd := o.Fn("(*am/cluster.tlsConn).read")
		for _, cs := range e.callers[rd] {
			o.Check(e.Arg(cs.Instr, 0) == "am/cluster.rcvTLSConn(p0)" && fnName(cs.Caller) == "(*am/cluster.TLSTransport).handle", "tlsconn-read-caller", "tlsConn.read is now called on a connection that outlives the call ("+e.Arg(cs.Instr, 0)+" in "+fnName(cs.Caller)+"): its error path returns with the connection mutex held", cs.Instr)
		}
		lockBalanceRuleEx(o, map[string]string{"(*am/cluster.tlsConn).read": "receiver is a per-read wrapper (rcvTLSConn) dropped on error; asserted above"}, "am/cluster")
		o.MinSites(5)
	})

	reg("C19", "C19.6", "T2,T5", "AddState registers the state under the lock before the channel exists", func(o *Ob) {
		e := o.E
		as := o.Fn("(*am/cluster.Peer).AddState")
		var mu *ssa.MapUpdate
		for _, in := range AllInstrs(as) {
			if m, ok := in.(*ssa.MapUpdate); ok && e.X(as, m.Map) == "recv.states" {
				mu = m
			}
		}
		o.Require(mu != nil, "register", "AddState no longer registers the state", nil)
		o.Site(mu, "states[key] = s")
		o.Check(e.X(as, mu.Key) == "p0" && e.X(as, mu.Value) == "p1", "register-args", "the state must be registered under its key", mu)
		nc := o.One(e.Calls(as, "am/cluster.NewChannel"), "newchannel", "AddState must create the channel", as)
		o.Check(InstrDominates(mu, nc), "register-first", "the state must be registered before its channel can broadcast", nc)
		o.MinSites(1)
	})
}

// peersByFoundIndex: peers() written as "find the own index, then cut it out": a variable K starts negative
// and is given the loop index only where the own name matched; the unmodified list is returned only while K
// is negative, otherwise append(members[:K], members[K+1:]...); the search ends early only once K is set.
// (The index given to K has been used to index the list on that path, so it is not negative.)
func peersByFoundIndex(o *Ob, ps *ssa.Function, mem *ssa.Call, self LitM) bool {
	e := o.E
	mx := e.X(ps, mem)
	// the removal
	var rm *ssa.Call
	var K ssa.Value
	for _, in := range AllInstrs(ps) {
		c, ok := in.(*ssa.Call)
		if !ok || !isBuiltinCall("append")(in) || len(c.Call.Args) != 2 {
			continue
		}
		lo, ok1 := c.Call.Args[0].(*ssa.Slice)
		hi, ok2 := c.Call.Args[1].(*ssa.Slice)
		if !ok1 || !ok2 || lo.X != ssa.Value(mem) || hi.X != ssa.Value(mem) || lo.Low != nil || lo.High == nil || hi.High != nil || hi.Low == nil {
			continue
		}
		if _, isPhi := lo.High.(*ssa.Phi); !isPhi {
			continue
		}
		if b, ok := hi.Low.(*ssa.BinOp); ok && b.Op == token.ADD && b.X == lo.High && isIntConst(b.Y, 1) {
			rm, K = c, lo.High
		}
	}
	if rm == nil {
		return false
	}
	o.Site(rm, "peers() = members[:k] + members[k+1:], k the index of the own name")
	// the index the own name was compared at
	var idx ssa.Value
	for _, c := range e.Calls(ps, "(*github.com/hashicorp/memberlist.Node).String") {
		if u, ok := c.Common().Args[0].(*ssa.UnOp); ok {
			if ia, ok := u.X.(*ssa.IndexAddr); ok && ia.X == ssa.Value(mem) {
				idx = ia.Index
			}
		}
	}
	if !o.Check(idx != nil, "peers-remove-guard", "peers() no longer compares the own name with the members", rm) {
		return true
	}
	seen := map[ssa.Value]bool{}
	var leaves func(v ssa.Value, pred, at *ssa.BasicBlock)
	leaves = func(v ssa.Value, pred, at *ssa.BasicBlock) {
		if v == idx {
			o.Check(pred != nil && e.AltUnder(Alt{v, pred, at}, self), "peers-remove-guard", "the index to cut out is set without the own name having matched there", rm)
			return
		}
		if p, ok := v.(*ssa.Phi); ok {
			if seen[p] {
				return
			}
			seen[p] = true
			for i, ed := range p.Edges {
				leaves(ed, p.Block().Preds[i], p.Block())
			}
			return
		}
		if k, ok := v.(*ssa.Const); ok && k.Value != nil && k.Value.Kind() == constant.Int {
			n, _ := constant.Int64Val(k.Value)
			o.Check(n < 0, "peers-remove-guard", "the index to cut out starts at "+itoa(int(n))+": member "+itoa(int(n))+" would be removed when the own name is not found", rm)
			return
		}
		o.Check(v == idx && e.AltUnder(Alt{v, pred, at}, self), "peers-remove-guard", "the index to cut out is set to "+clip(e.X(ps, v))+" without the own name having matched there", rm)
	}
	leaves(K, nil, nil)
	neg := L("("+e.X(ps, K)+" < 0)", true)
	o.Check(e.CountLitEdges(ps, neg)+e.CountLitEdges(ps, neg.Neg()) > 0, "peers-self-kept", "peers() does not test whether the own name was found", rm)
	o.Guarded(rm, "peers-remove-guard", "cutting a member out of the list", neg.Neg())
	for _, ret := range (&Walk{Fn: ps}).FromEntry().Returns() {
		switch v := ret.Results[0]; {
		case v == ssa.Value(rm):
		case v == ssa.Value(mem):
			o.Guarded(ret, "peers-self-kept", "returning the member list unchanged", neg)
		default:
			o.Fail("peers-base", "peers() must return the members, returns "+clip(e.X(ps, v)), ret)
		}
	}
	// the search: over the members from the front, left early only once the index is set
	var search *Loop
	for _, l := range e.Loops(ps) {
		if c, start, ok := e.IndexLoopFrom(l); ok && c == mx && start == "0" {
			search = l
		}
	}
	if o.Check(search != nil, "peers-search", "peers() must look for the own name among all members", rm) {
		o.LoopExitsGuarded(search, "peers-search", "the search for the own name may stop early only once it was found", neg.Neg())
	}
	return true
}

// peersByIndexFunc: peers() with the library's search: k = slices.IndexFunc(members, "is the own name");
// the members unchanged only while k < 0, otherwise a list made of members[:k] followed by members[k+1:].
func peersByIndexFunc(o *Ob, ps *ssa.Function, mem *ssa.Call) bool {
	e := o.E
	var ix *ssa.Call
	for _, c := range e.Calls(ps, "slices.IndexFunc") {
		if c.Common().Args[0] == ssa.Value(mem) {
			ix = c.(*ssa.Call)
		}
	}
	if ix == nil {
		return false
	}
	o.Site(ix, "peers() = members without the one IndexFunc finds")
	pred := e.FuncValue(ix.Call.Args[1])
	if o.Check(pred != nil, "peers-remove-guard", "the search predicate of peers() cannot be resolved", ix) {
		arg := "p0"
		for _, ret := range (&Walk{Fn: pred}).FromEntry().Returns() {
			v := e.X(pred, ret.Results[0])
			// (the member's name, read directly or through Node.String, which returns it)
			nameOf := `(\(\*github\.com/hashicorp/memberlist\.Node\)\.String\(` + arg + `\)|` + arg + `\.Name)`
			selfName := `\(\*am/cluster\.Peer\)\.Self\(\^?(recv|p0)\)\.Name`
			okp := regexpMatch(`^\(`+selfName+` == `+nameOf+`\)$`, v) || regexpMatch(`^\(`+nameOf+` == `+selfName+`\)$`, v)
			if strings.Contains(v, arg+".Name") {
				if ns := e.Func("(*github.com/hashicorp/memberlist.Node).String"); ns != nil {
					for _, r2 := range (&Walk{Fn: ns}).FromEntry().Returns() {
						okp = okp && e.X(ns, r2.Results[0]) == "recv.Name"
					}
				}
			}
			o.Check(okp, "peers-remove-guard", "the member left out of the peer list is the one for which "+clip(v)+", not the one with the own name", ret)
		}
	}
	kx, mx := e.X(ps, ix), e.X(ps, mem)
	neg := L("("+kx+" < 0)", true)
	o.Check(e.CountLitEdges(ps, neg)+e.CountLitEdges(ps, neg.Neg()) > 0, "peers-self-kept", "peers() does not test whether the own name was found", ix)
	for _, ret := range (&Walk{Fn: ps}).FromEntry().Returns() {
		v := ret.Results[0]
		if v == ssa.Value(mem) {
			o.Guarded(ret, "peers-self-kept", "returning the member list unchanged", neg)
			continue
		}
		bases, parts := e.AppendParts(v)
		okBase := true
		for _, b := range bases {
			if !IsEmptySlice(b) {
				if _, isMake := b.(*ssa.MakeSlice); !isMake {
					okBase = false
				}
			}
		}
		var ps2 []string
		for _, p := range parts {
			if p.Spread {
				ps2 = append(ps2, e.X(ps, p.V))
			} else {
				ps2 = append(ps2, "elem:"+e.X(ps, p.V))
			}
		}
		want := []string{"slice(" + mx + ",hi=" + kx + ")", "slice(" + mx + ",lo=(" + kx + " + 1))"}
		o.Check(okBase && len(ps2) == 2 && ps2[0] == want[0] && ps2[1] == want[1], "peers-tail", "peers() must be the members before and after the own entry, is built from "+clip(strings.Join(ps2, " , ")), ret)
		o.Guarded(ret, "peers-remove-guard", "cutting a member out of the list", neg.Neg())
	}
	return true
}
