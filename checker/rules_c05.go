package main

import (
	"go/types"
	"strings"

	"golang.org/x/tools/go/ssa"
)

// deleteIfNotModifiedRule: an alert is removed iff it is still stored under its fingerprint with the same UpdatedAt.
func deleteIfNotModifiedRule(o *Ob) {
	e := o.E
	fn := o.Fn("(*am/store.Alerts).DeleteIfNotModified")
	var del ssa.Instruction
	for _, in := range AllInstrs(fn) {
		if isBuiltinCall("delete")(in) {
			o.Check(del == nil, "two-deletes", "DeleteIfNotModified deletes at more than one site", in)
			del = in
		}
	}
	o.Require(del != nil, "delete", "DeleteIfNotModified no longer deletes", nil)
	o.Site(del, "delete(alerts, fp)")
	fp := `(*model.Alert).Fingerprint(p0[i].Alert)`
	c := del.(*ssa.Call)
	o.Check(e.X(fn, c.Call.Args[0]) == "recv.alerts" && e.X(fn, c.Call.Args[1]) == fp, "delete-key", "the deleted entry must be the one of the alert under test", del)
	has := L("recv.alerts["+fp+"]#1", true)
	same := L("(p0[i].UpdatedAt ==t recv.alerts["+fp+"]#0.UpdatedAt)", true)
	o.Guarded(del, "delete-has", "deleting an alert", has)
	o.Guarded(del, "delete-unmodified", "deleting an alert (an alert that fired again during delivery has a different UpdatedAt and must stay)", same)
	l := e.LoopOf(del)
	if o.Check(l != nil, "loop", "alerts are not examined in a loop", del) {
		coll, kind := e.RangeOver(l)
		o.Check(coll == "p0" && kind == "index" && len(e.EarlyExits(l)) == 0, "range", "every alert of the list must be examined", del)
		o.Check(!loopBackWithout(o, l, IsInstr(del), e.CutContradicting(has, same)), "delete-forced", "an unmodified alert of the list can survive the deletion (it would be reported resolved again)", del)
	}
	held, why := e.HeldAt(del, fn.Params[0], "Mutex", 'W', 0)
	o.Check(held, "lock", "DeleteIfNotModified deletes without the store mutex: "+why, del)
	// the store (and with it the aggregation group) is declared destroyed only when it really is empty:
	// an alert that was kept because it fired again must keep its group alive
	empty := L("(len(recv.alerts) == 0)", true)
	for _, w := range e.Writers("am/store.Alerts", "destroyed") {
		if w.Fn != fn {
			continue
		}
		st, ok := w.Instr.(*ssa.Store)
		if !ok {
			continue
		}
		o.Site(st, "destroyed := "+e.X(fn, st.Val))
		if e.X(fn, st.Val) == "true" {
			o.Guarded(st, "destroy-empty", "marking the store destroyed", empty)
			o.Guarded(st, "destroy-asked", "marking the store destroyed", L("p1", true))
			// the emptiness that is tested is the one after the deletions
			o.Check(!(&Walk{Fn: fn}).After(st).Has(del), "destroy-before-delete", "the store is declared destroyed before the deletions happened", st)
			for _, in := range AllInstrs(fn) {
				if isBuiltinCall("len")(in) && e.X(fn, in.(*ssa.Call).Call.Args[0]) == "recv.alerts" {
					o.Check(!(&Walk{Fn: fn}).After(in).Has(del), "destroy-stale-count", "the emptiness test uses a count taken before the deletions", in)
				}
			}
		}
	}
}

func init() {
	propInfos["C05"] = &propInfo{
		Explanation: "Decides the resolution path's structure: (1) flush works on copies, treats an alert as resolved iff its end time has passed at the flush's clock, clears the end time of firing copies, sends the whole group, and removes resolved alerts (and destroys the group) only after the pipeline reported success; (2) the store removes an alert only if it is unmodified since the flush read it (same UpdatedAt), so a re-fire during delivery survives; (3) with send_resolved off RetryStage never notifies a resolved alert and reports success without notifying when nothing fires; with send_resolved on it sends the whole batch; (4) the de-duplication table notifies once when everything resolved / a new alert resolved and partitions alerts by Resolved(); (5) pipeline errors of any integration propagate to the flush so a failed resolved-notification is retried; the store (and group) is declared destroyed only when it is empty after the deletions.",
		NotDecided:  "'never reported resolved early' rests on model.Alert.ResolvedAt (library); timing of the next flush.",
	}
	reg("C05", "C05.20", "T3,T12", "a stored alert is never changed in place: fields of an alert are written only on an object the writing function built or copied", storedAlertImmutableRule)
	reg("C05", "C05.1", "T1,T8", "flush: copies; resolved iff ResolvedAt(now); EndsAt cleared on firing copies; whole group sent; resolved removed only after success", func(o *Ob) {
		flushDischargeRule(o)
		o.MinSites(4)
	})
	reg("C05", "C05.3", "T1", "DeleteIfNotModified removes an alert iff it is still stored with the same UpdatedAt", func(o *Ob) {
		deleteIfNotModifiedRule(o)
		o.MinSites(1)
	})
	reg("C05", "C05.4", "T6", "RetryStage: send_resolved off never notifies resolved alerts; nothing firing → success without notifying; send_resolved on → whole batch", func(o *Ob) {
		retryStageRule(o)
		o.MinSites(6)
	})
	reg("C05", "C05.5", "T6", "needsUpdate table (resolved rows) and partition of alerts by Resolved()", func(o *Ob) {
		needsUpdateRule(o)
		for i := range registry {
			if registry[i].ID == "C04.7" {
				registry[i].Run(o)
			}
		}
		o.MinSites(10)
	})
	reg("C05", "C05.6", "T1,T2", "delivery failures propagate to the flush: MultiStage, FanoutStage, RoutingStage", func(o *Ob) {
		multiStageRule(o)
		fanoutStageRule(o)
		routingStageRule(o)
		o.MinSites(3)
	})
	reg("C05", "C05.7", "T1", "the marker of a resolved alert is dropped only if the store no longer has the alert", func(o *Ob) {
		e := o.E
		fn := o.Fn("(*am/dispatch.aggrGroup).flush")
		for _, c := range o.Some(e.Calls(fn, "invoke:am/marker.AlertMarker.Delete"), "marker-delete", "flush must clean up markers of removed alerts", fn) {
			o.Site(c, "marker.Delete")
			o.Guarded(c, "marker-guard", "dropping an alert's marker", LRe(`errors\.Is\(\(\*am/store\.Alerts\)\.Get\(recv\.alerts, .*\)#1, am/store\.ErrNotFound\)`, true))
			o.Check(strings.Contains(e.Arg(c, 1), "Fingerprint("), "marker-arg", "the dropped marker must be the examined alert's", c)
		}
		o.MinSites(1)
	})
}

// exposeAlertsReadOnlyRule: alert.Alerts turns stored alerts into what templates and integrations see.  It is called
// on the objects the group store and the provider hold (the groups API renders route labels from them), so it must
// not change them: every result is a per-alert copy, the end time is hidden in the copy only, and only for alerts
// that are not resolved yet.
func exposeAlertsReadOnlyRule(o *Ob) {
	e := o.E
	fn := o.Fn("am/alert.Alerts")
	o.Site(fnFirst(fn), "alert.Alerts")
	for _, w := range e.WritesThroughParam(fn, 0, 2) {
		o.Fail("expose-writes", "alert.Alerts changes the alerts it is given ("+w.What+"): the stored alert would lose its end time and never resolve", w.Instr)
	}
	o.Checks++
	o.Passed++
	// the hidden end time: a zero stored into the copy, only for unresolved alerts, and for all of them.  The test may
	// be made on the alert or on its copy, and the stored value may be "zero or the own end time" chosen by that test.
	resolvedRe := `\(\*model\.Alert\)\.Resolved\((p0\[i\](\.Alert)?|&\w+:model\.Alert)\)|\(\*am/alert\.Alert\)\.Resolved\(p0\[i\]\)`
	unresolved := LRe(resolvedRe, false)
	var hides []ssa.Instruction
	for _, st := range e.StoresToField(fn, "github.com/prometheus/common/model.Alert", "EndsAt") {
		alts := AltsOf(st.Val)
		isHide := false
		for _, a := range alts {
			if e.X(fn, a.V) == "zero:time.Time" {
				isHide = true
			}
		}
		if !isHide {
			continue
		}
		hides = append(hides, st)
		base := st.Addr.(*ssa.FieldAddr).X
		_, fresh := base.(*ssa.Alloc)
		if ia, ok := base.(*ssa.IndexAddr); ok && localValueSlot(ia) {
			fresh = true
		}
		o.Check(fresh, "expose-hide-copy", "the end time must be hidden in the copy, is hidden in "+e.X(fn, base), st)
		for _, a := range alts {
			v := e.X(fn, a.V)
			switch {
			case v == "zero:time.Time" && len(alts) == 1:
				o.Guarded(st, "expose-hide-guard", "hiding the end time", unresolved)
			case v == "zero:time.Time":
				o.Check(e.AltUnder(a, unresolved), "expose-hide-guard", "the end time can be hidden for an alert that is resolved", st)
			case strings.HasSuffix(v, ".EndsAt"):
				o.Check(e.AltUnder(a, unresolved.Neg()), "expose-hide-forced", "an unresolved alert can be exposed with its end time", st)
			default:
				o.Fail("expose-end", "an exposed alert's end time must be its own or hidden, is "+clip(v), st)
			}
		}
	}
	// one copy per alert, made in the iteration
	var app ssa.Instruction
	checkCopy := func(v ssa.Value, at ssa.Instruction) {
		// the copy as the iteration's slot of a list of values made here (one allocation for all copies)
		if ia, ok := v.(*ssa.IndexAddr); ok && localValueSlot(ia) {
			l := e.LoopOf(at)
			o.Check(l != nil && l.Blocks[ia.Block().Index] && e.X(fn, ia.Index) == "i", "expose-copy-shared", "the exposed alerts do not each get a slot of their own: "+clip(e.X(fn, ia)), at)
			n := 0
			for _, r := range *ia.Referrers() {
				if st, ok := r.(*ssa.Store); ok && st.Addr == ssa.Value(ia) {
					n++
					o.Check(regexpMatch(`p0\[i\](\.Alert)?`, e.X(fn, st.Val)), "expose-copy-of", "the copy must be of the alert of the iteration, is of "+e.X(fn, st.Val), st)
				}
			}
			o.Check(n == 1, "expose-copy-init", "the copy is not initialised from the alert", at)
			return
		}
		al, isA := v.(*ssa.Alloc)
		if !o.Check(isA, "expose-copy", "each exposed alert must be a copy of its own, is "+e.X(fn, v), at) {
			return
		}
		l := e.LoopOf(at)
		o.Check(l != nil && l.Blocks[al.Block().Index], "expose-copy-shared", "all exposed alerts share one copy declared outside the loop", at)
		n := 0
		for _, r := range *al.Referrers() {
			if st, ok := r.(*ssa.Store); ok && st.Addr == ssa.Value(al) {
				n++
				o.Check(regexpMatch(`p0\[i\](\.Alert)?`, e.X(fn, st.Val)), "expose-copy-of", "the copy must be of the alert of the iteration, is of "+e.X(fn, st.Val), st)
			}
		}
		o.Check(n == 1, "expose-copy-init", "the copy is not initialised from the alert", at)
	}
	for _, ret := range (&Walk{Fn: fn}).FromEntry().Returns() {
		_, parts := e.AppendParts(ret.Results[0])
		for _, p := range parts {
			if p.Call == nil {
				continue
			}
			app = p.Call
			checkCopy(p.V, p.Call)
		}
		if app == nil {
			// filled by index: res[i] = &v
			rx := e.X(fn, ret.Results[0])
			for _, in := range AllInstrs(fn) {
				if st, ok := in.(*ssa.Store); ok {
					if ia, ok := st.Addr.(*ssa.IndexAddr); ok && e.X(fn, ia.X) == rx {
						app = st
						o.Check(strings.HasSuffix(e.X(fn, st.Addr), "[i]"), "expose-slot", "each alert must be put into its own slot", st)
						checkCopy(st.Val, st)
					}
				}
			}
			if app != nil {
				ms, isMk := ret.Results[0].(*ssa.MakeSlice)
				o.Check(isMk && e.X(fn, ms.Len) == "len(p0)", "expose-size", "the result must have one slot per alert", app)
			}
		}
	}
	if o.Check(app != nil, "expose-collect", "alert.Alerts no longer collects its results", fnFirst(fn)) {
		if l := e.LoopOf(app); o.Check(l != nil, "expose-loop", "alerts must be exposed in a loop", app) {
			o.Check(e.CoversAll(l, "p0") && len(e.EarlyExits(l)) == 0 && !loopBackWithout(o, l, IsInstr(app), nil), "expose-all", "an alert can be left out", app)
			if len(hides) > 0 {
				o.Check(!loopBackWithout(o, l, IsInstr(hides...), e.CutContradicting(unresolved)), "expose-hide-forced", "an unresolved alert can be exposed with its end time", app)
			}
		}
	}
	o.Check(len(hides) >= 1, "expose-hide", "the end time of unresolved alerts is no longer hidden", fnFirst(fn))
	// the template data is built from read-only views as well
	td := o.Fn("(*am/template.Template).Data")
	for i := range td.Params {
		if strings.Contains(typeStr(td.Params[i].Type()), "alert.Alert") {
			for _, w := range e.WritesThroughParam(td, i, 3) {
				o.Fail("data-writes", "Template.Data changes the alerts it is given ("+w.What+")", w.Instr)
			}
			o.Checks++
			o.Passed++
		}
	}
}

func init() {
	desc := "alert.Alerts and Template.Data never write through the alerts they are given; each exposed alert is its own copy; the end time is hidden in the copy, exactly for unresolved alerts"
	reg("C05", "C05.14", "T12,T8", "rendering an alert never changes when it resolves: "+desc, func(o *Ob) { exposeAlertsReadOnlyRule(o); o.MinSites(1) })
	reg("C13", "C13.10", "T12,T8", "reading alerts does not change what is stored: "+desc, func(o *Ob) { exposeAlertsReadOnlyRule(o); o.MinSites(1) })
	reg("C20", "C20.11", "T12,T8", "the data handed to templates lists the alerts unchanged: "+desc, func(o *Ob) { exposeAlertsReadOnlyRule(o); o.MinSites(1) })
}

// storedAlertImmutableRule: the provider hands the stored *alert.Alert itself to subscribers, groups,
// the inhibitor and the API; a newer version is a new object put through Put (merge, store, fan-out).
// So a field of an alert is written only on an object the writing function built or copied.
func storedAlertImmutableRule(o *Ob) {
	e := o.E
	ownParam := map[string]string{}
	n := 0
	for _, T := range []string{"am/alert.Alert", "github.com/prometheus/common/model.Alert"} {
		var st *types.Struct
		if T != "am/alert.Alert" {
			if nt := e.NamedType("github.com/prometheus/common/model", "Alert"); nt != nil {
				st, _ = nt.Underlying().(*types.Struct)
			}
		} else if nt := e.NamedType("am/alert", "Alert"); nt != nil {
			st, _ = nt.Underlying().(*types.Struct)
		}
		if !o.Check(st != nil, "type|"+T, T+" no longer exists", nil) {
			continue
		}
		for i := 0; i < st.NumFields(); i++ {
			f := st.Field(i).Name()
			for _, w := range e.Writers(T, f) {
				n++
				o.Site(w.Instr, w.Kind+" of "+T+"."+f+" in "+fnName(w.Fn))
				why := ownedValue(e, w.Fn, w.Base, map[ssa.Value]bool{}, ownParam, []string{"am/api/v2.OpenAPIAlertsToAlerts"}, "")
				o.Check(why == "", "alert-write|"+fnName(w.Fn)+"|"+f, fnName(w.Fn)+" writes "+T+"."+f+" of an alert it neither built nor copied ("+why+"): stored alerts are shared with every subscriber, group and API response", w.Instr)
			}
		}
	}
	o.Check(n >= 5, "few", "implausibly few writes of alert fields found: "+itoa(n), nil)
	o.MinSites(5)
}

// localValueSlot: the address of an element of a list of struct values that this function made.
func localValueSlot(ia *ssa.IndexAddr) bool {
	ms, ok := ia.X.(*ssa.MakeSlice)
	if !ok {
		return false
	}
	sl, ok := ms.Type().Underlying().(*types.Slice)
	if !ok {
		return false
	}
	_, isStruct := sl.Elem().Underlying().(*types.Struct)
	return isStruct
}
