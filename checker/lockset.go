package main

import (
	"sort"
	"strings"

	"golang.org/x/tools/go/ssa"
)

// ---------------------------------------------------------------------------
// Lockset: forward must-analysis of held mutexes.
// A lock is named by the canonical rendering of the mutex address
// ("recv.mtx", "^recv.mtx", "p0.Mutex").  Mode 'W' (Lock) or 'R' (RLock).
// Deferred unlocks are ignored: the lock stays held until the function returns.
// ---------------------------------------------------------------------------

type lockset map[string]byte

func (l lockset) clone() lockset {
	m := lockset{}
	for k, v := range l {
		m[k] = v
	}
	return m
}

func meet(a, b lockset) lockset {
	m := lockset{}
	for k, v := range a {
		if w, ok := b[k]; ok {
			if v == 'R' || w == 'R' {
				m[k] = 'R'
			} else {
				m[k] = 'W'
			}
		}
	}
	return m
}

func eqLS(a, b lockset) bool {
	if len(a) != len(b) {
		return false
	}
	for k, v := range a {
		if b[k] != v {
			return false
		}
	}
	return true
}

func (l lockset) String() string {
	var ks []string
	for k, v := range l {
		ks = append(ks, k+":"+string(v))
	}
	sort.Strings(ks)
	return "{" + strings.Join(ks, ",") + "}"
}

// lockOp classifies a call as a mutex operation.
func (e *Eng) lockOp(in ssa.Instruction) (lock string, op string) {
	c, ok := in.(*ssa.Call)
	if !ok {
		return "", ""
	}
	cn := calleeName(&c.Call)
	switch cn {
	case "(*sync.Mutex).Lock", "(*sync.RWMutex).Lock":
		op = "W"
	case "(*sync.RWMutex).RLock":
		op = "R"
	case "(*sync.Mutex).Unlock", "(*sync.RWMutex).Unlock", "(*sync.RWMutex).RUnlock":
		op = "U"
	default:
		return "", ""
	}
	if len(c.Call.Args) == 0 {
		return "", ""
	}
	return e.X(in.Parent(), c.Call.Args[0]), op
}

// Locksets computes the must-held lockset before every instruction of fn,
// given the set held at entry.
func (e *Eng) Locksets(fn *ssa.Function, entry lockset) map[ssa.Instruction]lockset {
	in := map[int]lockset{}
	out := map[int]lockset{}
	res := map[ssa.Instruction]lockset{}
	if len(fn.Blocks) == 0 {
		return res
	}
	transfer := func(b *ssa.BasicBlock, s lockset, record bool) lockset {
		cur := s.clone()
		for _, ins := range b.Instrs {
			if record {
				res[ins] = cur.clone()
			}
			if lk, op := e.lockOp(ins); op != "" {
				switch op {
				case "W":
					cur[lk] = 'W'
				case "R":
					if cur[lk] != 'W' {
						cur[lk] = 'R'
					}
				case "U":
					delete(cur, lk)
				}
			}
		}
		return cur
	}
	in[0] = entry.clone()
	changed := true
	visited := map[int]bool{0: true}
	for iter := 0; changed && iter < 100; iter++ {
		changed = false
		for _, b := range fn.Blocks {
			if b.Index != 0 {
				var s lockset
				first := true
				for _, p := range b.Preds {
					if !visited[p.Index] {
						continue
					}
					o, ok := out[p.Index]
					if !ok {
						continue
					}
					if first {
						s = o.clone()
						first = false
					} else {
						s = meet(s, o)
					}
				}
				if first {
					continue
				}
				if old, ok := in[b.Index]; !ok || !eqLS(old, s) {
					in[b.Index] = s
					changed = true
				}
				visited[b.Index] = true
			}
			o := transfer(b, in[b.Index], false)
			if old, ok := out[b.Index]; !ok || !eqLS(old, o) {
				out[b.Index] = o
				changed = true
			}
		}
	}
	for _, b := range fn.Blocks {
		if s, ok := in[b.Index]; ok {
			transfer(b, s, true)
		}
	}
	return res
}

// HeldAt decides whether the mutex `mutexField` of the object `base` (a value
// of function in.Parent()) is held at instruction in, in at least the given
// mode ('R' or 'W').  If it is not held locally and base is a parameter /
// receiver / captured variable, every static caller (or the creation site of
// the enclosing literal, when it is only called or deferred in place) must
// hold it, to the given depth.  The returned string explains a failure.
func (e *Eng) HeldAt(in ssa.Instruction, base ssa.Value, mutexField string, mode byte, depth int) (bool, string) {
	fn := in.Parent()
	ls := e.Locksets(fn, lockset{})
	bs := e.X(fn, base)
	want := bs + "." + mutexField
	if m, ok := ls[in][want]; ok && (m == 'W' || mode == 'R') {
		return true, ""
	}
	if depth <= 0 {
		return false, "lock " + want + " not held in " + fnName(fn) + " at " + e.InstrPos(in) + " (caller depth exhausted)"
	}
	// base must be caller-provided
	switch b := stripLoads(base).(type) {
	case *ssa.Parameter:
		if b.Parent() != fn {
			break
		}
		idx := -1
		for i, p := range fn.Params {
			if p == b {
				idx = i
			}
		}
		sites := e.callers[fn]
		if len(sites) == 0 {
			return false, "lock " + want + " not held in " + fnName(fn) + " at " + e.InstrPos(in) + " and the function has no static caller"
		}
		for _, s := range sites {
			c := s.Instr.Common()
			var arg ssa.Value
			if idx < len(c.Args) {
				arg = c.Args[idx]
			}
			if arg == nil {
				return false, "cannot map receiver at call " + e.InstrPos(s.Instr)
			}
			if _, isGo := s.Instr.(*ssa.Go); isGo {
				return false, "lock " + want + " not held: " + fnName(fn) + " started as goroutine at " + e.InstrPos(s.Instr)
			}
			ok, why := e.HeldAt(s.Instr, arg, mutexField, mode, depth-1)
			if !ok {
				return false, why + " <- called from " + fnName(s.Caller) + " at " + e.InstrPos(s.Instr)
			}
		}
		return true, ""
	case *ssa.FreeVar, *ssa.Alloc:
		// captured variable of an enclosing function: find how the literal is used
		par := fn.Parent()
		if par == nil {
			break
		}
		// resolve the captured value in the parent
		var pv ssa.Value
		if fv, ok := b.(*ssa.FreeVar); ok {
			pv = freeVarBinding(fv)
		}
		if pv == nil {
			break
		}
		// the value held in the box
		var inner ssa.Value = pv
		if a, ok := pv.(*ssa.Alloc); ok {
			vals, esc := e.boxValues(a)
			if esc || len(vals) != 1 {
				return false, "captured variable " + bs + " is not single-assignment"
			}
			inner = vals[0]
		}
		for _, blk := range par.Blocks {
			for _, pin := range blk.Instrs {
				mc, ok := pin.(*ssa.MakeClosure)
				if !ok || mc.Fn != fn {
					continue
				}
				refs := mc.Referrers()
				if refs == nil || len(*refs) == 0 {
					return false, "literal " + fnName(fn) + " is never used"
				}
				for _, r := range *refs {
					switch r := r.(type) {
					case *ssa.Call:
						if r.Call.Value != mc {
							return false, "literal " + fnName(fn) + " escapes as an argument at " + e.InstrPos(r)
						}
						ok, why := e.HeldAt(r, inner, mutexField, mode, depth-1)
						if !ok {
							return false, why
						}
					case *ssa.Defer:
						if r.Call.Value != mc {
							return false, "literal " + fnName(fn) + " escapes as an argument at " + e.InstrPos(r)
						}
						ok, why := e.HeldAt(r, inner, mutexField, mode, depth-1)
						if !ok {
							return false, why
						}
					default:
						return false, "literal " + fnName(fn) + " escapes (" + e.InstrPos(r) + "), lock " + want + " not held inside it"
					}
				}
			}
		}
		return true, ""
	}
	return false, "lock " + want + " not held in " + fnName(fn) + " at " + e.InstrPos(in)
}

func stripLoads(v ssa.Value) ssa.Value {
	for {
		switch x := v.(type) {
		case *ssa.UnOp:
			if x.Op.String() == "*" {
				v = x.X
				continue
			}
		case *ssa.ChangeType:
			v = x.X
			continue
		}
		return v
	}
}

// LockLeaks finds returns of fn at which a mutex may still be held although no
// deferred unlock for it is registered on every path (acquire without release).
func (e *Eng) LockLeaks(fn *ssa.Function) []struct {
	Ret  *ssa.Return
	Lock string
} {
	type st struct {
		may lockset // may be held
		def lockset // deferred unlock registered on every path
	}
	in := map[int]*st{}
	var out []struct {
		Ret  *ssa.Return
		Lock string
	}
	if len(fn.Blocks) == 0 {
		return out
	}
	union := func(a, b lockset) lockset {
		m := a.clone()
		for k, v := range b {
			m[k] = v
		}
		return m
	}
	transfer := func(b *ssa.BasicBlock, s *st, report bool) *st {
		cur := &st{s.may.clone(), s.def.clone()}
		for _, ins := range b.Instrs {
			if lk, op := e.lockOp(ins); op != "" {
				switch op {
				case "W", "R":
					cur.may[lk] = op[0]
				case "U":
					delete(cur.may, lk)
				}
			}
			if d, ok := ins.(*ssa.Defer); ok {
				cn := calleeName(&d.Call)
				if (cn == "(*sync.Mutex).Unlock" || cn == "(*sync.RWMutex).Unlock" || cn == "(*sync.RWMutex).RUnlock") && len(d.Call.Args) > 0 {
					cur.def[e.X(fn, d.Call.Args[0])] = 'U'
				}
				// deferred literal that unlocks
				if mc, ok := d.Call.Value.(*ssa.MakeClosure); ok {
					lf := mc.Fn.(*ssa.Function)
					for _, x := range AllInstrs(lf) {
						if lk, op := e.lockOp(x); op == "U" {
							cur.def[strings.TrimPrefix(lk, "^")] = 'U'
						}
					}
				}
			}
			if ret, ok := ins.(*ssa.Return); ok && report {
				for lk := range cur.may {
					if _, ok := cur.def[lk]; !ok {
						out = append(out, struct {
							Ret  *ssa.Return
							Lock string
						}{ret, lk})
					}
				}
			}
		}
		return cur
	}
	in[0] = &st{lockset{}, lockset{}}
	outS := map[int]*st{}
	for iter := 0; iter < 50; iter++ {
		changed := false
		for _, b := range fn.Blocks {
			if b.Index != 0 {
				var s *st
				for _, p := range b.Preds {
					o, ok := outS[p.Index]
					if !ok {
						continue
					}
					if s == nil {
						s = &st{o.may.clone(), o.def.clone()}
					} else {
						s.may = union(s.may, o.may)
						s.def = meet(s.def, o.def)
					}
				}
				if s == nil {
					continue
				}
				if old, ok := in[b.Index]; !ok || !eqLS(old.may, s.may) || !eqLS(old.def, s.def) {
					in[b.Index] = s
					changed = true
				}
			}
			if s, ok := in[b.Index]; ok {
				o := transfer(b, s, false)
				if old, ok := outS[b.Index]; !ok || !eqLS(old.may, o.may) || !eqLS(old.def, o.def) {
					outS[b.Index] = o
					changed = true
				}
			}
		}
		if !changed {
			break
		}
	}
	for _, b := range fn.Blocks {
		if s, ok := in[b.Index]; ok {
			transfer(b, s, true)
		}
	}
	return out
}
