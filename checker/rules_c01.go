package main

import (
	"go/types"
	"sort"
	"strings"

	"golang.org/x/tools/go/ssa"
)

func isNilConst(v ssa.Value) bool {
	k, ok := v.(*ssa.Const)
	return ok && k.Value == nil
}

// putFanoutRule: mem.Alerts.Put delivers every stored alert to every listener with a blocking select
// (send on the listener's channel | its done channel), inside the critical section that stored it.
func putFanoutRule(o *Ob) {
	e := o.E
	fn := o.Fn("(*am/provider/mem.Alerts).Put")
	set := o.One(e.Calls(fn, "(*am/store.Alerts).Set"), "set", "Put must store through store.Set", fn)
	o.Check(e.Arg(set, 0) == "recv.alerts", "set-target", "Put must store into the provider's store", set)
	var sel *ssa.Select
	for _, in := range AllInstrs(fn) {
		if s, ok := in.(*ssa.Select); ok {
			o.Check(sel == nil, "two-selects", "Put has more than one select", in)
			sel = s
		}
	}
	o.Require(sel != nil, "fanout", "Put no longer hands stored alerts to the subscribers", nil)
	o.Site(sel, "fan-out "+e.X(fn, sel))
	o.Check(sel.Blocking, "fanout-nonblocking", "the hand-over to a subscriber must block until the subscriber takes the alert or goes away: with a default case an alert is silently dropped whenever the subscriber's buffer is full", sel)
	okStates := len(sel.States) == 2
	var sendV ssa.Value
	for _, st := range sel.States {
		c := e.X(fn, st.Chan)
		if st.Send != nil {
			sendV = st.Send
			okStates = okStates && strings.HasSuffix(c, ".alerts")
		} else {
			okStates = okStates && strings.HasSuffix(c, ".done")
		}
	}
	o.Check(okStates && sendV != nil, "fanout-states", "the fan-out select must be exactly {send on the listener's channel, receive on its done channel}", sel)
	// the message carries the stored alert
	if sendV != nil {
		src := e.Sources(sendV, false)
		has := false
		for s := range src {
			if st, ok := s.(*ssa.Alloc); ok && st.Comment == "complit" {
				for _, fs := range e.StoresToField(fn, "am/provider.Alert", "Data") {
					_ = fs
					has = true
				}
			}
		}
		o.Check(has, "fanout-msg", "the message handed to subscribers does not carry the alert", sel)
		// … and it is the version that was stored (after merging with the stored one), not the raw submission:
		// subscribers (dispatcher, inhibitor) must see the end time the store holds
		for _, fs := range e.StoresToField(fn, "am/provider.Alert", "Data") {
			stored := e.ArgV(set, 1)
			same := fs.Val == stored
			if !same {
				// the same set of possible values at both places
				a, b := e.ValStrs(fn, e.ValsUnder(nil, fs.Val)), e.ValStrs(fn, e.ValsUnder(nil, stored))
				same = strings.Join(a, "|") == strings.Join(b, "|")
			}
			if !same {
				// the same set of versions once "nothing" is left out: a helper that stores hands back nothing on
				// the path where it did not store, and the caller skips the hand-over there
				a, b := e.ValStrs(fn, e.ValsUnder(nil, fs.Val)), e.ValStrs(fn, e.ValsUnder(nil, stored))
				drop := func(xs []string) string {
					var out []string
					for _, x := range xs {
						if x != "nil" {
							out = append(out, x)
						}
					}
					sort.Strings(out)
					return strings.Join(out, "|")
				}
				same = drop(a) != "" && drop(a) == drop(b)
			}
			o.Check(same, "fanout-stored-version", "subscribers are handed "+e.X(fn, fs.Val)+" while "+e.X(fn, stored)+" is stored: after a merge the inhibitor and the dispatcher would work with an end time the store does not hold", fs)
		}
	}
	ls := e.Loops(fn)
	var inner, outer *Loop
	for _, l := range ls {
		if l.Blocks[sel.Block().Index] {
			if inner == nil || len(l.Blocks) < len(inner.Blocks) {
				inner = l
			}
			if outer == nil || len(l.Blocks) > len(outer.Blocks) {
				outer = l
			}
		}
	}
	o.Require(inner != nil && outer != nil && inner != outer, "fanout-loops", "the fan-out must be a loop over the listeners inside the loop over the alerts", sel)
	coll, _ := e.RangeOver(inner)
	o.Check(coll == "recv.listeners", "fanout-range", "every listener must be served, loop ranges over "+coll, sel)
	o.Check(len(e.EarlyExits(inner)) == 0, "fanout-early-exit", "the loop over the listeners can stop early", sel)
	o.Check(!loopBackWithout(o, inner, IsInstr(sel), nil), "fanout-skip", "a listener can be skipped", sel)
	coll, kind := e.RangeOver(outer)
	o.Check(coll == "p1" && kind == "index", "alerts-range", "every submitted alert must be processed", set)
	o.Check(len(e.EarlyExits(outer)) == 0, "alerts-early-exit", "a failing alert aborts the rest of the batch (best effort per alert is required)", set)
	// successful Set ⇒ the fan-out loop is entered before the next alert
	setOK := L("("+e.X(fn, set.(*ssa.Call))+" == nil)", true)
	{
		n := 0
		for _, b := range fn.Blocks {
			for si := range b.Succs {
				if li, ok := e.EdgeLit(b, si); ok && setOK.F(li) {
					n++
					// reach the inner loop header before the outer back edge
					r := (&Walk{Fn: fn, Barrier: func(in ssa.Instruction) bool { return in.Block() == inner.Header }}).FromEdge(b, si)
					for _, be := range outer.Back {
						o.Check(!r.Edge[be], "stored-not-published", "an alert that was stored can skip the hand-over to the subscribers (it would never reach the dispatcher or the inhibitor)", set)
					}
				}
			}
		}
		o.Check(n > 0, "set-test", "Put does not test the result of Set", set)
	}
	// and only stored alerts are published
	o.Guarded(sel, "published-unstored", "handing an alert to subscribers", setOK)
	// critical section spans Set and fan-out
	for _, in := range []ssa.Instruction{set, sel} {
		held, why := e.HeldAt(in, fn.Params[0], "mtx", 'W', 0)
		o.Check(held, "put-lock", "Put stores/publishes outside the provider lock (order of the channel would no longer be the order of the store, and subscribers could miss alerts): "+why, in)
	}
}

func init() {
	propInfos["C01"] = &propInfo{
		Explanation: "Decides the hand-over chain from the API to the integration, link by link: (1) the provider publishes every stored alert to every subscriber with a blocking hand-over inside the critical section that stored it, and subscribing is atomic with the snapshot; (2) the dispatcher routes every slurped and every received alert to every matching route; (3) an insert refused by a destroyed group is always retried on a fresh group (the result is never ignored), the store refuses only when destroyed, and 'destroyed' is only set when a successful flush emptied the store; (4) a group's run loop ends only when destroyed or cancelled, re-arms its timer to group_interval before flushing and bounds the flush by timeout(group_interval); (5) every stored group is started (on the running branch and at start-up), idempotently; (6) a flush sends the whole group and discharges (deletes resolved alerts, marks destroyed) only if the pipeline reported success; the pipeline stages propagate failure and isolate integrations; (7) every configured integration type is built into the pipeline.",
		NotDecided:  "the time bound itself (timers, scheduling, retry back-off), the integrations' own HTTP behaviour.",
	}

	reg("C01", "C01.1", "T1,T8,T5", "provider fan-out is lossless: blocking hand-over of every stored alert to every subscriber, inside the storing critical section", func(o *Ob) {
		putFanoutRule(o)
		o.MinSites(1)
	})

	reg("C01", "C01.2", "T5,T2", "subscribe is atomic with the snapshot: List() and the listener registration happen in one critical section", func(o *Ob) {
		e := o.E
		for _, name := range []string{"(*am/provider/mem.Alerts).SlurpAndSubscribe", "(*am/provider/mem.Alerts).Subscribe"} {
			fn := o.Fn(name)
			ls := o.One(e.Calls(fn, "(*am/store.Alerts).List"), "list|"+name, name+" must snapshot the store", fn)
			var reg *ssa.MapUpdate
			for _, in := range AllInstrs(fn) {
				if m, ok := in.(*ssa.MapUpdate); ok && e.X(fn, m.Map) == "recv.listeners" {
					reg = m
				}
			}
			o.Require(reg != nil, "register|"+name, name+" no longer registers the listener", nil)
			o.Site(reg, name+": listeners[next] = …")
			for _, in := range []ssa.Instruction{ls, reg} {
				held, why := e.HeldAt(in, fn.Params[0], "mtx", 'W', 0)
				o.Check(held, "lock|"+name, name+": snapshot and registration must both happen under the provider lock: "+why, in)
			}
			// no unlock between them
			r := (&Walk{Fn: fn, Barrier: IsInstr(reg)}).After(ls)
			for _, in := range AllInstrs(fn) {
				if _, op := e.lockOp(in); op == "U" && r.Has(in) {
					o.Fail("gap|"+name, name+" releases the lock between taking the snapshot and registering the listener: an alert stored in between is in neither", in)
				}
			}
			o.Checks++
			o.Passed++
		}
		// SlurpAndSubscribe returns the snapshot
		fn := o.Fn("(*am/provider/mem.Alerts).SlurpAndSubscribe")
		for _, rs := range e.ResultStores(fn, 0) {
			o.Check(e.X(fn, rs.Val) == "(*am/store.Alerts).List(recv.alerts)", "slurp-result", "SlurpAndSubscribe must return the snapshot it took under the lock", rs.Instr)
		}
		lockBalanceRule(o, "am/provider/mem")
		n := 0
		for _, f := range []string{"listeners", "next"} {
			n += o.LockedAccesses("am/provider/mem.Alerts", f, "mtx", map[string]string{"am/provider/mem.NewAlerts": "constructor"})
		}
		o.Check(n >= 5, "few", "implausibly few listener accesses", nil)
		o.MinSites(4)
	})

	reg("C01", "C01.3", "T8", "the dispatcher consumes everything: every slurped alert routed before loading is signalled; every received alert routed; every matched route gets the alert", func(o *Ob) {
		e := o.E
		run := o.Fn("(*am/dispatch.Dispatcher).Run")
		sl := o.One(e.Calls(run, "invoke:am/provider.Alerts.SlurpAndSubscribe"), "slurp", "the dispatcher must slurp and subscribe atomically", run)
		ra := o.One(e.Calls(run, "(*am/dispatch.Dispatcher).routeAlert"), "route-slurped", "slurped alerts must be routed", run)
		o.Site(ra, "route slurped alert")
		sx := e.X(run, sl.(*ssa.Call))
		o.Check(e.Arg(ra, 2) == sx+"#0[i]", "route-slurped-arg", "each slurped alert must be routed", ra)
		l := e.LoopOf(ra)
		if o.Check(l != nil, "slurp-loop", "slurped alerts are not routed in a loop", ra) {
			coll, kind := e.RangeOver(l)
			o.Check(coll == sx+"#0" && kind == "index" && len(e.EarlyExits(l)) == 0, "slurp-range", "every slurped alert must be routed", ra)
			o.Check(!loopBackWithout(o, l, IsInstr(ra), nil), "slurp-skip", "a slurped alert can be skipped", ra)
		}
		var cl ssa.Instruction
		for _, in := range AllInstrs(run) {
			if isBuiltinCall("close")(in) && e.X(run, in.(*ssa.Call).Call.Args[0]) == "recv.loaded" {
				cl = in
			}
		}
		if o.Check(cl != nil, "loaded", "the dispatcher never signals that loading finished", nil) && l != nil {
			hx, _ := l.HeaderExit()
			r := (&Walk{Fn: run, Cut: func(b *ssa.BasicBlock, s int) bool { return b == l.Header && s == hx }}).FromEntry()
			o.Check(!r.Has(cl), "loaded-early", "loading is signalled before all slurped alerts were routed", cl)
		}
		rn := o.One(e.Calls(run, "(*am/dispatch.Dispatcher).run"), "run", "Run must start the ingestion loop", run)
		o.Check(e.Arg(rn, 1) == sx+"#1", "run-iter", "the ingestion loop must read the subscription obtained together with the snapshot", rn)
		// worker literal
		d := o.Fn("(*am/dispatch.Dispatcher).run")
		var worker *ssa.Function
		var workerGo *GoSite
		for _, gs := range e.GoSites(d) {
			// the ingestion goroutine: a literal or a method, started with go or WaitGroup.Go
			gs := gs
			if f := gs.Fn; f != nil && len(f.Blocks) > 0 && len(e.Calls(f, "(*am/dispatch.Dispatcher).routeAlert")) > 0 {
				worker, workerGo = f, &gs
			}
		}
		o.RequireFn(worker != nil, "worker", "no ingestion worker routes received alerts", d)
		wr := o.One(e.Calls(worker, "(*am/dispatch.Dispatcher).routeAlert"), "worker-route", "the worker must route received alerts", worker)
		o.Site(wr, "route received alert")
		// from a successful receive (ok) without iterator error, routeAlert is reached before the next receive
		// the channel the worker receives from is the subscription's (it.Next()), read in the worker or handed to it
		chS := ""
		recvIdx := -1
		for _, in := range AllInstrs(worker) {
			sel, ok := in.(*ssa.Select)
			if !ok {
				continue
			}
			for _, st := range sel.States {
				src := e.X(worker, st.Chan)
				if p, isP := st.Chan.(*ssa.Parameter); isP && workerGo != nil {
					for i, q := range worker.Params {
						if q == p && i < len(workerGo.Args) {
							src = e.X(d, workerGo.Args[i])
						}
					}
				}
				if strings.Contains(src, "invoke:am/provider.AlertIterator.Next(") {
					chS = e.X(worker, st.Chan)
					// the received value is tuple element 2 + (number of receive cases before this one)
					recvIdx = 2
					for _, prev := range sel.States {
						if prev == st {
							break
						}
						if prev.Dir == types.RecvOnly {
							recvIdx++
						}
					}
				}
			}
		}
		o.Require(chS != "", "worker-recv", "the ingestion worker does not receive from the alert subscription", worker.Blocks[0].Instrs[0])
		o.Check(strings.HasSuffix(e.Arg(wr, 2), "#"+itoa(recvIdx)+".Data") && strings.Contains(e.Arg(wr, 2), "recv:"+chS), "worker-route-arg", "the worker must route the alert it received, routes "+e.Arg(wr, 2), wr)
		okRecv := LRe(`select\[blocking\]\(.*recv:`+regexpQuote(chS)+`.*\)#1`, true)
		itErr := LRe(`\(invoke:am/provider\.AlertIterator\.Err\(.*\) == nil\)`, true)
		for _, wl := range e.Loops(worker) {
			o.Check(!loopBackWithoutFromHeader(o, wl, IsInstr(wr), e.CutContradicting(okRecv, itErr, L("sel:recv:"+chS, true))), "worker-skip", "a received alert can be dropped by the ingestion worker", wr)
		}
		// the worker only stops when the channel is closed or the dispatcher is cancelled
		for _, in := range AllInstrs(worker) {
			if ret, ok := in.(*ssa.Return); ok {
				o.Guarded(ret, "worker-exit", "terminating an ingestion worker", okRecv.Neg(), LRe(`sel:recv:invoke:context\.Context\.Done\(ctx\)`, true))
			}
		}
		// routeAlert → groupAlert for every matched route
		rt := o.Fn("(*am/dispatch.Dispatcher).routeAlert")
		ga := o.One(e.Calls(rt, "(*am/dispatch.Dispatcher).groupAlert"), "group", "routeAlert must group the alert", rt)
		mx := "(*am/dispatch.Route).Match(recv.route, p1.Alert.Labels)"
		o.Check(e.Arg(ga, 2) == "p1" && e.Arg(ga, 3) == mx+"[i]", "group-args", "the alert must be grouped under each matched route", ga)
		gl := e.LoopOf(ga)
		if o.Check(gl != nil, "group-loop", "routes are not visited in a loop", ga) {
			coll, kind := e.RangeOver(gl)
			o.Check(coll == mx && kind == "index" && len(e.EarlyExits(gl)) == 0, "group-range", "every matched route must get the alert", ga)
			o.Check(!loopBackWithout(o, gl, IsInstr(ga), nil), "group-skip", "a matched route can be skipped", ga)
		}
		o.MinSites(2)
	})

	reg("C01", "C01.4", "T7", "a destroyed group never swallows an alert: the result of insert on a group taken from the map is always acted on", func(o *Ob) {
		e := o.E
		f := resolveGroupAlert(o)
		fn := f.fn
		nx := e.X(fn, f.newAG.(*ssa.Call))
		n := 0
		for _, ins := range f.inserts {
			recvS := e.Arg(ins, 0)
			if recvS == nx {
				o.Note("insert on the group just created by newAggrGroup cannot be refused: result may be ignored")
				continue
			}
			n++
			o.Site(ins, "insert into existing group")
			c := ins.(*ssa.Call)
			refs := c.Referrers()
			used := false
			if refs != nil {
				for _, r := range *refs {
					if _, ok := r.(*ssa.If); ok {
						used = true
					}
				}
			}
			o.Check(used, "insert-ignored", "the result of insert into a group from the map is ignored: if the group was destroyed meanwhile the alert is lost", ins)
			// refused ⇒ no return before another attempt (LoadOrStore / CompareAndSwap) or the accounted give-up
			refused := L(e.X(fn, c), false)
			for _, b := range fn.Blocks {
				for si := range b.Succs {
					if li, ok := e.EdgeLit(b, si); ok && refused.F(li) {
						// an accounted give-up (counted) also ends the attempt
						var giveUps []ssa.Instruction
						for _, ci := range e.Calls(fn, "invoke:prometheus.Counter.Inc") {
							if a0 := e.Arg(ci, 0); a0 == "recv.metrics.aggrGroupCreationGivenUp" || a0 == "recv.metrics.aggrGroupLimitReached" {
								giveUps = append(giveUps, ci)
							}
						}
						r := (&Walk{Fn: fn, Barrier: AnyOf(IsInstr(f.los), IsInstr(f.cas), IsInstr(giveUps...))}).FromEdge(b, si)
						for _, ret := range r.Returns() {
							o.Fail("refused-return", "after a group refused the alert (destroyed) groupAlert can return without retrying on a new group and without accounting for it", ret)
						}
						if len(r.Returns()) == 0 {
							o.Checks++
							o.Passed++
						}
					}
				}
			}
		}
		o.Check(n >= 2, "few-inserts", "expected inserts into the loaded and the concurrently created group", nil)
		// a successful insert returns; the new group gets the alert before it is published
		var first ssa.CallInstruction
		for _, ins := range f.inserts {
			if e.Arg(ins, 0) == nx {
				first = ins
			}
		}
		if o.Check(first != nil, "first-insert", "the first alert is not inserted into the new group", nil) {
			o.Check(InstrDominates(first, f.los) && InstrDominates(first, f.cas), "first-insert-order", "the first alert must be in the new group before the group becomes visible in the map", first)
		}
		// insert's table
		ins := o.Fn("(*am/dispatch.aggrGroup).insert")
		st := o.One(e.Calls(ins, "(*am/store.Alerts).Set"), "insert-set", "insert must store the alert", ins)
		o.Check(e.Arg(st, 0) == "recv.alerts" && e.Arg(st, 1) == "p1", "insert-set-args", "insert must store the given alert in the group's store", st)
		sx := e.X(ins, st.(*ssa.Call))
		o.Table(ins, "insert", []Row{
			{Name: "stored", Assume: A(L("("+sx+" == nil)", true)), Ret: [][]string{Vals("true")}},
			{Name: "store destroyed", Assume: A(L("("+sx+" == nil)", false), L("errors.Is("+sx+", am/store.ErrDestroyed)", true)), Ret: [][]string{Vals("false")}},
			{Name: "other error", Assume: A(L("("+sx+" == nil)", false), L("errors.Is("+sx+", am/store.ErrDestroyed)", false)), Ret: [][]string{Vals("true")}},
		})
		o.MinSites(3)
	})

	reg("C01", "C01.5", "T1,T6,T3", "the store refuses inserts only when destroyed; destroyed is set only when a delete emptied the store and the caller asked for it", func(o *Ob) {
		e := o.E
		storeSetRule(o)
		ws := e.Writers("am/store.Alerts", "destroyed")
		o.Check(len(ws) == 1, "destroyed-writers", "store.Alerts.destroyed must have exactly one writer, has "+itoa(len(ws)), nil)
		for _, w := range ws {
			o.Site(w.Instr, "destroyed := …")
			o.Check(fnName(w.Fn) == "(*am/store.Alerts).DeleteIfNotModified", "destroyed-writer", "store.Alerts.destroyed is written by "+fnName(w.Fn), w.Instr)
			st := w.Instr.(*ssa.Store)
			o.Check(e.X(w.Fn, st.Val) == "true", "destroyed-value", "destroyed may only be set, never cleared", st)
			o.Guarded(st, "destroyed-empty", "marking the store destroyed", L("(len(recv.alerts) == 0)", true))
			o.Guarded(st, "destroyed-asked", "marking the store destroyed", L("p1", true))
			// after the deletes
			for _, in := range AllInstrs(w.Fn) {
				if isBuiltinCall("delete")(in) {
					r := (&Walk{Fn: w.Fn}).After(st)
					o.Check(!r.Has(in), "destroyed-before-delete", "the store is marked destroyed before the deletions are done", in)
				}
			}
			held, why := e.HeldAt(st, w.Fn.Params[0], "Mutex", 'W', 0)
			o.Check(held, "destroyed-lock", "destroyed written without the store mutex: "+why, st)
		}
		o.MinSites(2)
	})

	reg("C01", "C01.7", "T1", "a group's run loop ends only when the group is destroyed or cancelled", func(o *Ob) {
		_ = o.E
		fn := o.Fn("(*am/dispatch.aggrGroup).run")
		dest := L("(*am/dispatch.aggrGroup).destroyed(recv)", true)
		done := LRe(`sel:recv:invoke:context\.Context\.Done\(ctx\)`, true)
		n := 0
		for _, in := range AllInstrs(fn) {
			if ret, ok := in.(*ssa.Return); ok && len(ret.Block().Preds) > 0 {
				n++
				o.Site(ret, "run returns")
				o.Guarded(ret, "run-exit", "terminating a group's run loop (a group that exits while still in the map accepts alerts that are never flushed)", dest, done)
			}
		}
		o.Check(n >= 1, "no-exit", "run never returns", nil)
		// the context that ends the loop is the group's own
		o.MinSites(1)
	})

	reg("C01", "C01.8", "T2,T11", "timer discipline: armed with group_wait at creation; on a tick re-armed to group_interval before the flush; the flush is bounded by timeout(group_interval) on the group's context", func(o *Ob) {
		e := o.E
		na := o.Fn("am/dispatch.newAggrGroup")
		nt := o.One(e.Calls(na, "time.NewTimer"), "arm", "a new group must arm its timer", na)
		o.Site(nt, "NewTimer("+e.Arg(nt, 0)+")")
		o.Check(strings.HasSuffix(e.Arg(nt, 0), ".opts.GroupWait"), "arm-wait", "a new group's first flush must be after group_wait, timer is armed with "+e.Arg(nt, 0), nt)
		st := e.StoresToField(na, "am/dispatch.aggrGroup", "next")
		o.Check(len(st) == 1 && e.X(na, st[0].Val) == e.X(na, nt.(*ssa.Call)), "arm-field", "the armed timer must be the group's flush timer", nil)
		fn := o.Fn("(*am/dispatch.aggrGroup).run")
		rs := o.One(e.Calls(fn, "(*am/dispatch.aggrGroup).resetTimer"), "rearm", "run must re-arm the timer", fn)
		fl := o.One(e.Calls(fn, "(*am/dispatch.aggrGroup).flush"), "flush", "run must flush", fn)
		o.Site(rs, "resetTimer("+e.Arg(rs, 1)+")")
		o.Check(e.Arg(rs, 1) == "recv.opts.GroupInterval", "rearm-interval", "the timer must be re-armed with group_interval, is re-armed with "+e.Arg(rs, 1), rs)
		o.Check(InstrDominates(rs, fl), "rearm-before-flush", "the timer must be re-armed before the flush (a hanging receiver would otherwise delay every later flush by the hang)", fl)
		tick := L("sel:recv:recv.next.C", true)
		o.Guarded(fl, "flush-on-tick", "flushing", tick)
		o.Forced(fn, "tick-flushes", "a timer tick must lead to a flush", IsInstr(fl), tick)
		wt := o.One(e.Calls(fn, "context.WithTimeout"), "timeout", "the flush must be bounded", fn)
		o.Check(e.Arg(wt, 1) == "dyn(fn=recv.timeout, recv.opts.GroupInterval)", "timeout-value", "the flush must be bounded by timeout(group_interval), is bounded by "+e.Arg(wt, 1), wt)
		rt := o.Fn("(*am/dispatch.aggrGroup).resetTimer")
		rr := o.One(e.Calls(rt, "(*time.Timer).Reset"), "reset", "resetTimer must reset the group's timer", rt)
		o.Check(e.Arg(rr, 0) == "recv.next" && e.Arg(rr, 1) == "p0", "reset-args", "resetTimer must reset the group's own timer to the given duration", rr)
		o.MinSites(2)
	})

	reg("C01", "C01.9", "T2", "every stored group is started: runAG on the running branch after a successful store/swap, at start-up for all existing groups; runAG is idempotent", func(o *Ob) {
		e := o.E
		f := resolveGroupAlert(o)
		fn := f.fn
		o.Require(len(f.runAG) >= 1, "runag", "groupAlert never starts the new group", nil)
		running := LRe(`\(\(\*sync/atomic\.Int32\)\.Load\(recv\.state\) == 2\)`, true)
		rv, ok := e.ConstInt("am/dispatch", "DispatcherStateRunning")
		o.Check(ok && rv == 2, "running-const", "DispatcherStateRunning changed value; the rule's literal must follow", nil)
		for _, c := range f.runAG {
			o.Site(c, "runAG(new group)")
			o.Check(e.Arg(c, 1) == e.X(fn, f.newAG.(*ssa.Call)), "runag-arg", "the started group must be the new group", c)
		}
		// after stored or swapped, under running: runAG before return
		for _, lit := range []LitM{f.stored, f.swapped} {
			for _, b := range fn.Blocks {
				for si := range b.Succs {
					if li, ok := e.EdgeLit(b, si); ok && lit.F(li) {
						notWaiting := LRe(`\(\(\*sync/atomic\.Int32\)\.Load\(recv\.state\) == 1\)`, false)
						r := (&Walk{Fn: fn, Cut: e.CutContradicting(running, notWaiting), Barrier: IsCall("(*am/dispatch.Dispatcher).runAG")}).FromEdge(b, si)
						o.Check(len(r.Returns()) == 0, "stored-not-started", "a group that was put into the map while the dispatcher is running can be left without its run loop: its alerts would never be flushed", f.los)
					}
				}
			}
		}
		// start-up literal
		d := o.Fn("(*am/dispatch.Dispatcher).run")
		var starter *ssa.Function
		for _, a := range Anons(d) {
			if len(e.Calls(a, "(*am/dispatch.Dispatcher).runAG")) > 0 {
				starter = a
			}
		}
		if o.CheckFn(starter != nil, "starter", "existing groups are never started when the dispatcher starts running", d) {
			c := e.Calls(starter, "(*am/dispatch.Dispatcher).runAG")[0]
			o.Site(c, "runAG(existing group)")
			for _, ret := range (&Walk{Fn: starter}).FromEntry().Returns() {
				if len(ret.Results) == 1 {
					o.Check(e.X(starter, ret.Results[0]) == "true", "starter-continue", "starting the existing groups stops early", ret)
				}
			}
		}
		ra := o.Fn("(*am/dispatch.Dispatcher).runAG")
		cas := o.One(e.Calls(ra, "(*sync/atomic.Bool).CompareAndSwap"), "idempotent", "runAG must be idempotent", ra)
		o.Check(e.Arg(cas, 0) == "p0.running" && e.Arg(cas, 1) == "false" && e.Arg(cas, 2) == "true", "idempotent-args", "runAG must flip running false→true", cas)
		var g *ssa.Go
		for _, in := range AllInstrs(ra) {
			if x, ok := in.(*ssa.Go); ok {
				g = x
			}
		}
		if o.Check(g != nil && calleeName(&g.Call) == "(*am/dispatch.aggrGroup).run", "runag-go", "runAG must start the group's run loop", nil) {
			o.Guarded(g, "runag-once", "starting a run loop", L(e.X(ra, cas.(*ssa.Call)), true))
			o.Forced(ra, "runag-forced", "a group that was not running must be started", IsInstr(g), L(e.X(ra, cas.(*ssa.Call)), true))
		}
		o.MinSites(2)
	})

	reg("C01", "C01.10", "T8", "a flush sends the whole group (no filtering between the store's alerts and the notified batch)", func(o *Ob) {
		flushBatchRule(o)
		o.MinSites(1)
	})

	reg("C01", "C01.11", "T1,T11", "failure never discharges: resolved alerts are deleted and the group destroyed only if the pipeline reported success; stage errors propagate; integrations are isolated", func(o *Ob) {
		flushDischargeRule(o)
		multiStageRule(o)
		fanoutStageRule(o)
		routingStageRule(o)
		o.MinSites(5)
	})

	reg("C01", "C01.14", "T1,T6,T8", "the routing function selects the documented routes (shared with C07.1)", func(o *Ob) {
		for i := range registry {
			if registry[i].ID == "C07.1" {
				registry[i].Run(o)
				return
			}
		}
		o.Fail("missing", "rule C07.1 not registered", nil)
	})

	reg("C01", "C01.15", "T11,T8", "each integration of a receiver has its own notification-log key (receiver name, integration name, index)", func(o *Ob) {
		integrationLogKeyRule(o)
		o.MinSites(2)
	})

	reg("C01", "C01.13", "T9", "every configured integration type is built into the receiver's pipeline", func(o *Ob) {
		integrationsBuiltRule(o)
		o.MinSites(10)
	})
}

// loopBackWithoutFromHeader is loopBackWithout starting at the loop header (for loops whose header holds the select).
func loopBackWithoutFromHeader(o *Ob, l *Loop, barrier func(ssa.Instruction) bool, cut func(*ssa.BasicBlock, int) bool) bool {
	r := (&Walk{Fn: l.Fn, Barrier: barrier, Cut: cut}).run([]*ssa.BasicBlock{l.Header}, []int{0})
	for _, be := range l.Back {
		if r.Edge[be] {
			return true
		}
	}
	return false
}

// flushDischargeRule: in aggrGroup.flush, DeleteIfNotModified(resolved, true),
// the resolved events and the marker deletion happen only under notify(...) ==
// true; the runAG literal returns err == nil of the pipeline; the flush
// literal returns the notify function's result.
func flushDischargeRule(o *Ob) {
	e := o.E
	fn := o.Fn("(*am/dispatch.aggrGroup).flush")
	_, _, nf := flushBatchRule(o)
	ok := L(e.X(fn, nf.(*ssa.Call)), true)
	del := o.One(e.Calls(fn, "(*am/store.Alerts).DeleteIfNotModified"), "delete", "flush must remove notified resolved alerts", fn)
	o.Site(del, "DeleteIfNotModified")
	o.Guarded(del, "delete-guard", "removing resolved alerts / destroying the group", ok)
	o.Check(e.Arg(del, 0) == "recv.alerts" && e.Arg(del, 2) == "true", "delete-args", "flush must delete from its own store with destroyIfEmpty", del)
	o.ForcedAfter(nf, "delete-forced", "after a successful notification the resolved alerts must be removed (they would otherwise be notified as resolved again)", IsInstr(del), ok)
	for _, name := range []string{"(*am/dispatch.aggrGroup).recordResolvedEvents", "invoke:am/marker.AlertMarker.Delete"} {
		for _, c := range e.Calls(fn, name) {
			o.Guarded(c, "discharge-guard|"+name, name, ok)
		}
	}
	// no other deleting method of the store is used by package dispatch
	for _, f := range e.FuncsOfPkg("am/dispatch") {
		for _, in := range AllInstrs(f) {
			if c, isC := in.(ssa.CallInstruction); isC {
				cn := calleeName(c.Common())
				if cn == "(*am/store.Alerts).GC" || cn == "(*am/store.Alerts).Delete" || cn == "(*am/store.Alerts).gcAlerts" {
					o.Fail("foreign-delete|"+fnName(f), fnName(f)+" removes alerts from a group's store with "+cn+": alerts may leave a group only through DeleteIfNotModified after a successful flush", in)
				}
			}
		}
	}
	// the resolved slice: appended iff ResolvedAt(now); EndsAt cleared otherwise, on the copy
	resolved := del.Common().Args[1]
	_, parts := e.AppendParts(resolved)
	resAt := LRe(`\(\*model\.Alert\)\.ResolvedAt\(&\w+:am/alert\.Alert(\.Alert)?, time\.Now\(\)\)`, true)
	o.Check(len(parts) >= 1, "resolved-empty", "the list of resolved alerts is never filled", del)
	for _, p := range parts {
		o.Site(p.Call, "resolved += copy")
		o.Guarded(p.Call, "resolved-guard", "treating an alert as resolved", resAt)
		if l := e.LoopOf(p.Call); l != nil {
			o.Check(!loopBackWithout(o, l, IsInstr(p.Call), e.CutContradicting(resAt)), "resolved-forced", "an alert whose end time has passed can be left out of the resolved list (it would never be removed from the group)", p.Call)
		}
	}
	for _, in := range AllInstrs(fn) {
		if st, isS := in.(*ssa.Store); isS && strings.HasSuffix(e.X(fn, st.Addr), ".EndsAt") {
			o.Site(st, "EndsAt cleared on "+e.X(fn, st.Addr))
			o.Check(regexpMatch(`&\w+:am/alert\.Alert\b.*`, e.X(fn, st.Addr)), "endsat-on-stored", "flush modifies the stored alert's EndsAt (it must only touch its copy)", st)
			o.Guarded(st, "endsat-guard", "clearing the end time of a copy", resAt.Neg())
			o.Check(e.X(fn, st.Val) == "zero:time.Time", "endsat-value", "a firing alert's copy must have its EndsAt cleared", st)
		}
	}
	// runAG literal
	lit := o.Fn("(*am/dispatch.Dispatcher).runAG$1")
	ex := o.One(e.Calls(lit, "invoke:am/notify.Stage.Exec"), "exec", "the notify function must run the pipeline", lit)
	o.Check(e.Arg(ex, 0) == "^recv.stage" && e.Arg(ex, 3) == "p1", "exec-args", "the pipeline must be run on the flushed batch", ex)
	for _, ret := range (&Walk{Fn: lit}).FromEntry().Returns() {
		v := e.X(lit, ret.Results[0])
		o.Site(ret, "notify result "+v)
		o.Check(v == "("+e.X(lit, ex.(*ssa.Call))+"#2 == nil)", "exec-result", "the notify function must report success iff the pipeline returned no error, reports "+v, ret)
	}
	// flush literal in run returns nf's result
	rl := o.Fn("(*am/dispatch.aggrGroup).run$1")
	var nfc ssa.Instruction
	for _, in := range AllInstrs(rl) {
		if c, isC := in.(*ssa.Call); isC && strings.HasPrefix(e.X(rl, c), "dyn(fn=^p0,") {
			nfc = c
		}
	}
	if o.Check(nfc != nil, "run-nf", "the flush callback no longer calls the notify function", nil) {
		for _, rs := range e.ResultStores(rl, 0) {
			// the verdict itself, or the constant it stands for under the test of the verdict
			nx := e.X(rl, nfc.(*ssa.Call))
			v := e.X(rl, rs.Val)
			okv := v == nx || v == "true" && e.OnlyUnder(rs.Instr, L(nx, true)) || v == "false" && e.OnlyUnder(rs.Instr, L(nx, false))
			o.Check(okv, "run-nf-result", "the flush callback must return the notify function's verdict, returns "+clip(v), rs.Instr)
		}
		o.Check(e.Arg(nfc.(ssa.CallInstruction), 1) == "p0", "run-nf-arg", "the notify function must get the flushed batch", nfc)
	}
}

// integrationsBuiltRule: every []*XConfig field of config.Receiver is ranged over in BuildReceiverIntegrations.
func integrationsBuiltRule(o *Ob) {
	e := o.E
	fn := o.Fn("am/config/receiver.BuildReceiverIntegrations")
	rt := e.NamedType("am/config", "Receiver")
	o.RequireFn(rt != nil, "receiver-type", "config.Receiver not found", fn)
	ranged := map[string]bool{}
	for _, l := range e.Loops(fn) {
		coll, _ := e.RangeOver(l)
		coll = strings.Replace(coll, "&nc:am/config.Receiver.", "p0.", 1)
		if strings.HasPrefix(coll, "p0.") {
			ranged[strings.TrimPrefix(coll, "p0.")] = true
			// the loop body calls the add literal
			called := false
			for bi := range l.Blocks {
				for _, in := range fn.Blocks[bi].Instrs {
					if c, ok := in.(*ssa.Call); ok && calleeName(&c.Call) != "" {
						if f := c.Call.StaticCallee(); f != nil && f.Parent() == fn {
							called = true
						}
					}
				}
			}
			o.Check(called, "not-added|"+coll, "integrations of "+coll+" are ranged over but never added", nil)
			o.Check(len(e.EarlyExits(l)) == 0, "early-exit|"+coll, "the loop over "+coll+" can stop early", nil)
		}
	}
	st := structOf(rt)
	n := 0
	for i := 0; i < st.NumFields(); i++ {
		f := st.Field(i)
		if !strings.HasSuffix(f.Name(), "Configs") {
			continue
		}
		n++
		o.SiteS("config.Receiver." + f.Name())
		o.Check(ranged[f.Name()], "unbuilt|"+f.Name(), "config.Receiver."+f.Name()+" is configured and validated but never turned into integrations: such receivers would silently never notify", nil)
	}
	o.Check(n >= 10, "few-integrations", "implausibly few integration fields", nil)
}

// integrationLogKeyRule: in createReceiverStage the *nflogpb.Receiver given to the dedup and set-notifies stages
// is allocated per integration (inside the loop) and filled from that integration's name and index.
func integrationLogKeyRule(o *Ob) {
	e := o.E
	fn := o.Fn("am/notify.createReceiverStage")
	dd := o.One(e.Calls(fn, "am/notify.NewDedupStage"), "dedup", "each integration needs a dedup stage", fn)
	sn := o.One(e.Calls(fn, "am/notify.NewSetNotifiesStage"), "setnotifies", "each integration needs a set-notifies stage", fn)
	rk := e.ArgV(dd, 2)
	o.Site(dd, "dedup stage key "+e.X(fn, rk))
	o.Site(sn, "set-notifies stage key "+e.X(fn, e.ArgV(sn, 1)))
	o.Check(rk == e.ArgV(sn, 1), "same-key", "the dedup and the set-notifies stage of one integration must use the same log key", sn)
	al, ok := rk.(*ssa.Alloc)
	o.Require(ok, "key-alloc", "the log key is not a Receiver value built in createReceiverStage", dd)
	l := e.LoopOf(dd)
	o.Require(l != nil, "loop", "integration chains are not built in a loop", dd)
	o.Check(l.Blocks[al.Block().Index], "key-shared", "all integrations of a receiver share one log key allocated outside the loop: a success of one integration is logged for all, a failed sibling is then de-duplicated away until repeat_interval", dd)
	for f, want := range map[string]string{"GroupName": "p0", "Integration": "(*am/notify.Integration).Name(p1[i])", "Idx": "conv:uint32((*am/notify.Integration).Index(p1[i]))"} {
		st := e.StoresToField(fn, "am/nflog/nflogpb.Receiver", f)
		if o.Check(len(st) == 1, "key-field|"+f, "Receiver."+f+" must be set once per integration", nil) {
			o.Check(e.X(fn, st[0].Val) == want, "key-value|"+f, "Receiver."+f+" must be "+want+", is "+e.X(fn, st[0].Val), st[0])
			o.Check(l.Blocks[st[0].Block().Index], "key-field-outside|"+f, "Receiver."+f+" is set outside the per-integration loop", st[0])
		}
	}
	// dedup/retry get this iteration's integration
	rt := o.One(e.Calls(fn, "am/notify.NewRetryStage"), "retry", "each integration needs a retry stage", fn)
	o.Check(e.Arg(rt, 0) == "p1[i]" && e.Arg(dd, 0) == "p1[i]", "integration-arg", "the stages of a chain must belong to the iteration's integration", rt)
	o.Check(e.Arg(dd, 1) == e.Arg(sn, 0), "same-log", "dedup and set-notifies must use the same notification log", sn)
}

// reloadKeepsNotifyingRule: a configuration reload replaces the dispatcher.  For C01 the replacement must be
// complete: once the old dispatcher is stopped a new one is started on every path; it reads the same alert
// provider, routes with the tree built from the new configuration and notifies through a pipeline that holds the
// integrations of every receiver some route refers to, the silencer, the new inhibitor, the time intervals and the
// notification log.
func reloadKeepsNotifyingRule(o *Ob) {
	e := o.E
	fn := o.Fn("(*am/app.reloader).reload")
	nd := o.One(e.Calls(fn, "am/dispatch.NewDispatcher"), "new-dispatcher", "reload must build the new dispatcher", fn)
	o.Site(nd, "reload: new dispatcher")
	pl := o.One(e.Calls(fn, "(*am/notify.PipelineBuilder).New"), "new-pipeline", "reload must build the notification pipeline", fn)
	nrs := o.Some(e.Calls(fn, "am/dispatch.NewRoute"), "new-route", "reload must build the routing tree", fn)
	tree := ""
	for _, nr := range nrs {
		// every tree built here is the tree of the new configuration (equal trees render alike)
		o.Check(e.Arg(nr, 0) == "p0.Route" && e.Arg(nr, 1) == "nil", "new-route-args", "the routing tree must be built from the new configuration's root route", nr)
		tree = e.X(fn, nr.(*ssa.Call))
	}
	o.Check(e.Arg(nd, 0) == "recv.alerts", "dispatcher-alerts", "the new dispatcher must read the instance's alert provider, reads "+clip(e.Arg(nd, 0)), nd)
	o.Check(e.Arg(nd, 1) == tree, "dispatcher-route", "the new dispatcher must route with the tree of the new configuration", nd)
	o.Check(e.Arg(nd, 2) == e.X(fn, pl.(*ssa.Call)), "dispatcher-pipeline", "the new dispatcher must notify through the pipeline built for the new configuration", nd)
	// pipeline parts
	rmap := "makemap:map[string][]am/notify.Integration"
	ni := o.One(e.Calls(fn, "am/inhibit.NewInhibitor"), "new-inhibitor", "reload must build the new inhibitor", fn)
	o.Check(e.Arg(pl, 1) == rmap, "pipeline-receivers", "the pipeline must be built from the receiver map of this reload, gets "+clip(e.Arg(pl, 1)), pl)
	o.Check(e.Arg(pl, 3) == e.X(fn, ni.(*ssa.Call)), "pipeline-inhibitor", "the pipeline must hold the new inhibitor", pl)
	o.Check(e.Arg(pl, 4) == "recv.silencer", "pipeline-silencer", "the pipeline must hold the silencer", pl)
	o.Check(strings.HasPrefix(e.Arg(pl, 5), "am/timeinterval.NewIntervener("), "pipeline-intervals", "the pipeline must hold the time intervals of the new configuration", pl)
	o.Check(e.Arg(pl, 7) == "recv.notificationLog", "pipeline-nflog", "the pipeline must hold the notification log", pl)
	// the receiver map: every receiver some route refers to
	var mu *ssa.MapUpdate
	for _, in := range AllInstrs(fn) {
		if m, ok := in.(*ssa.MapUpdate); ok && e.X(fn, m.Map) == rmap {
			o.Check(mu == nil, "receivers-one-writer", "the receiver map is written in more than one place", m)
			mu = m
		}
	}
	if o.Check(mu != nil, "receivers-filled", "the receiver map is never filled", nil) {
		o.Site(mu, "reload: receivers[name] = integrations")
		l := e.LoopOf(mu)
		if o.Check(l != nil, "receivers-loop", "the receiver map must be filled in a loop over the configured receivers", mu) {
			coll, _ := e.RangeOver(l)
			o.Check(coll == "p0.Receivers", "receivers-range", "the loop must range over all configured receivers, ranges over "+coll, mu)
			k := e.X(fn, mu.Key)
			o.Check(k == "p0.Receivers[i].Name", "receivers-key", "integrations must be filed under the receiver's name, key is "+k, mu)
			v := e.X(fn, mu.Value)
			o.Check(strings.HasPrefix(v, "am/config/receiver.BuildReceiverIntegrations(p0.Receivers[i],") && strings.HasSuffix(v, "#0"), "receivers-value", "what is filed must be the integrations built from this receiver, is "+clip(v), mu)
			used := LRe(`makemap:map\[string\]struct\{\}\[p0\.Receivers\[i\]\.Name\]#1`, true)
			buildOK := LRe(`\(am/config/receiver\.BuildReceiverIntegrations\(p0\.Receivers\[i\],.*\)#1 == nil\)`, true)
			o.Check(!loopBackWithout(o, l, IsInstr(mu), e.CutContradicting(used, buildOK)), "receivers-skipped", "a receiver that a route refers to can be left out of the pipeline", mu)
		}
	}
	// which receivers are in use: every node of the tree
	n := 0
	for _, w := range e.Calls(fn, "(*am/dispatch.Route).Walk") {
		lit := e.FuncValue(w.Common().Args[1])
		if lit == nil {
			continue
		}
		for _, in := range AllInstrs(lit) {
			if m, ok := in.(*ssa.MapUpdate); ok && strings.HasPrefix(e.X(lit, m.Map), "makemap:map[string]struct{}") {
				n++
				o.Check(e.Arg(w, 0) == tree, "used-tree", "the receivers in use must be collected from the tree the dispatcher routes with", w)
				o.Check(e.X(lit, m.Key) == "p0.RouteOpts.Receiver", "used-key", "the receiver in use is the route's receiver, is "+e.X(lit, m.Key), m)
				o.Check(len((&Walk{Fn: lit, Barrier: IsInstr(m)}).FromEntry().Returns()) == 0, "used-skip", "a route's receiver can be left out of the set of receivers in use", m)
			}
		}
	}
	o.Check(n == 1, "used-collect", "the set of receivers in use must be collected by one walk over the routing tree", nil)
	routeWalkRule(o)
	// started on every path once the old one is stopped
	var run ssa.Instruction
	for _, g := range e.GoSites(fn) {
		if g.Fn != nil && fnName(g.Fn) == "(*am/dispatch.Dispatcher).Run" && len(g.Args) > 0 && e.X(fn, g.Args[0]) == e.X(fn, nd.(*ssa.Call)) {
			run = g.Instr
		}
	}
	if o.Check(run != nil, "run", "the new dispatcher is never started", nd) {
		o.Site(run, "reload: go newDispatcher.Run")
		stops := e.Calls(fn, "(*am/dispatch.Dispatcher).Stop")
		o.Check(len(stops) >= 1, "stop-old", "the old dispatcher is no longer stopped (two dispatchers would notify)", nil)
		for _, s := range stops {
			o.ForcedAfter(s, "run-after-stop", "once the old dispatcher is stopped a new one must be started on every path", IsInstr(run))
		}
		var st ssa.CallInstruction
		for _, c := range e.Calls(fn, "(*sync/atomic.Pointer[T]).Store") {
			if e.Arg(c, 0) == "recv.dispatcher" {
				st = c
			}
		}
		if o.Check(st != nil, "publish", "the new dispatcher is never published (stop and the API would keep using the old one)", nil) {
			o.Check(e.Arg(st, 1) == e.X(fn, nd.(*ssa.Call)), "publish-value", "what is published must be the new dispatcher", st)
			o.ForcedAfter(run, "publish-forced", "the started dispatcher must be published on every path", IsInstr(st))
		}
	}
}

func init() {
	reg("C01", "C01.24", "T1,T8,T11", "a reload keeps notifications flowing: after the old dispatcher is stopped a new one is started and published on every path; it reads the same provider, routes with the new tree and its pipeline holds every receiver in use, silencer, new inhibitor, time intervals and notification log", func(o *Ob) {
		reloadKeepsNotifyingRule(o)
		o.MinSites(3)
	})
}

// routeWalkRule: Route.Walk hands every node of the tree to the visitor, as a recursion (visit the node, walk every
// child) or as a work list (start with the node; visit what is taken off the list and put all its children on it).
func routeWalkRule(o *Ob) {
	e := o.E
	wk := o.Fn("(*am/dispatch.Route).Walk")
	var vis *ssa.Call
	var rec ssa.CallInstruction
	for _, in := range AllInstrs(wk) {
		if c, ok := in.(*ssa.Call); ok {
			if !c.Call.IsInvoke() && e.X(wk, c.Call.Value) == "p0" && len(c.Call.Args) == 1 {
				o.Check(vis == nil, "walk-visit-once", "Route.Walk calls the visitor in more than one place", c)
				vis = c
			}
			if calleeName(&c.Call) == "(*am/dispatch.Route).Walk" {
				rec = c
			}
		}
	}
	if !o.Check(vis != nil, "walk-shape", "Route.Walk must hand the nodes to the visitor", fnFirst(wk)) {
		return
	}
	node := e.X(wk, vis.Call.Args[0])
	if rec != nil {
		o.Check(node == "recv", "walk-self-arg", "Route.Walk must visit the node it is called on, visits "+node, vis)
		o.Check(len((&Walk{Fn: wk, Barrier: IsInstr(vis)}).FromEntry().Returns()) == 0, "walk-self", "Route.Walk can return without visiting the node", vis)
		o.Check(e.Arg(rec, 0) == "recv.Routes[i]" && e.Arg(rec, 1) == "p0", "walk-child-args", "Route.Walk must hand the same visitor to every child", rec)
		if l := e.LoopOf(rec); o.Check(l != nil, "walk-loop", "children must be walked in a loop", rec) {
			o.Check(e.CoversAll(l, "recv.Routes") && len(e.EarlyExits(l)) == 0 && !loopBackWithout(o, l, IsInstr(rec), nil), "walk-all", "Route.Walk must reach every child", rec)
		}
		return
	}
	// work list
	outer := e.LoopOf(vis)
	if !o.Check(outer != nil, "walk-shape", "Route.Walk neither recurses nor loops over a work list", vis) {
		return
	}
	o.Check(!loopBackWithout(o, outer, IsInstr(vis), nil), "walk-self", "a node taken off the work list can go unvisited", vis)
	o.Check(!leavesLoopAlive(e, outer) || len(e.EarlyExits(outer)) == 0, "walk-early-exit", "the work list loop can stop before the list is empty", vis)
	// the list starts with the node itself
	seeded := false
	for _, in := range AllInstrs(wk) {
		if st, ok := in.(*ssa.Store); ok && !outer.Blocks[st.Block().Index] && e.X(wk, st.Val) == "recv" {
			if _, isIdx := st.Addr.(*ssa.IndexAddr); isIdx {
				seeded = true
			}
		}
	}
	o.Check(seeded, "walk-seed", "the work list does not start with the node Walk is called on", vis)
	// every child of the visited node is put on the list
	var push ssa.Instruction
	pushColl := node + ".Routes"
	for _, in := range AllInstrs(wk) {
		c, ok := in.(*ssa.Call)
		if !ok || !outer.Blocks[c.Block().Index] {
			continue
		}
		if b, isB := c.Call.Value.(*ssa.Builtin); !isB || b.Name() != "append" {
			continue
		}
		for _, el := range VariadicElems(c) {
			if nv, coll, ok := elemOfField(e, wk, el, "Routes"); ok && nv == vis.Call.Args[0] {
				push, pushColl = c, coll
			}
		}
		if len(c.Call.Args) == 2 && e.X(wk, c.Call.Args[1]) == node+".Routes" {
			push = c // append(list, node.Routes...)
		}
	}
	if o.Check(push != nil, "walk-push", "the children of a visited node are not put on the work list", vis) {
		if l := e.LoopOf(push); l != nil && l.Header != outer.Header {
			o.Check(e.CoversAll(l, pushColl) && len(e.EarlyExits(l)) == 0 && !loopBackWithout(o, l, IsInstr(push), nil), "walk-all", "a child can be left off the work list", push)
		}
		o.Check(!loopBackWithout(o, outer, IsInstr(push), nil) || e.LoopOf(push).Header != outer.Header, "walk-push-skip", "the children of a visited node can be left off the work list", push)
	}
}

// elemOfField: el is x.<field>[i] for some value x; returns x and the rendering of x.<field>.
func elemOfField(e *Eng, fn *ssa.Function, el ssa.Value, field string) (ssa.Value, string, bool) {
	u, ok := el.(*ssa.UnOp)
	if !ok {
		return nil, "", false
	}
	ia, ok := u.X.(*ssa.IndexAddr)
	if !ok {
		return nil, "", false
	}
	sl, ok := ia.X.(*ssa.UnOp)
	if !ok {
		return nil, "", false
	}
	fa, ok := sl.X.(*ssa.FieldAddr)
	if !ok || fieldName(fa.X.Type(), fa.Field) != field {
		return nil, "", false
	}
	return fa.X, e.X(fn, sl), true
}
