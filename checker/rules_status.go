package main

import (
	"strings"

	"golang.org/x/tools/go/ssa"
)

// alertStatusReportRule: what the API reports as an alert's suppression status is what the silencer and the
// inhibitor say about it now.  The chain decided here, link by link:
//
//	marker:  SetSilenced / SetInhibited file the given ids under the alert's fingerprint; Status hands back the
//	         ids filed under that fingerprint and derives the state from them (suppressed iff any id);
//	API:     the status of an alert is predicted by running the mute callback with a marker in the context and
//	         reading that marker for the same alert; the callback installed by a reload asks the current inhibitor
//	         and the silencer, unconditionally; the conversion copies state and both id lists into the answer;
//	filter:  silenced / inhibited / active filters drop an alert only on its own status.
func alertStatusReportRule(o *Ob) {
	e := o.E
	// --- marker ---
	for _, s := range []struct{ fn, field string }{{"SetSilenced", "SilencedBy"}, {"SetInhibited", "InhibitedBy"}} {
		fn := o.Fn("(*am/marker.alertMarker)." + s.fn)
		o.Site(fnFirst(fn), "marker."+s.fn)
		found := L("recv.status[p0]#1", true)
		n := 0
		isSt := map[ssa.Instruction]bool{}
		for _, st := range e.StoresToField(fn, "am/marker.alertStatus", s.field) {
			n++
			isSt[st] = true
			v, a := e.X(fn, st.Val), e.X(fn, st.Addr)
			// the ids themselves or a copy of them (Clone, append to an empty slice, copy into a fresh one)
			fromIDs := v == "slices.Clone(p1)" || v == "p1" || v == "acc(nil; p1...)" || (len(fn.Params) > 2 && e.DerivesFrom(st.Val, true, func(x ssa.Value) bool { return x == ssa.Value(fn.Params[2]) }) && !strings.Contains(v, "recv."))
			o.Check(fromIDs, "marker-set-value|"+s.fn, s.fn+" must file the given ids, files "+v, st)
			o.Check(strings.Contains(a, "recv.status[p0]") || strings.HasPrefix(a, "&complit:am/marker.alertStatus"), "marker-set-key|"+s.fn, s.fn+" must file the ids under the given fingerprint, writes "+a, st)
		}
		for _, other := range []string{"SilencedBy", "InhibitedBy"} {
			if other != s.field {
				o.Check(len(e.StoresToField(fn, "am/marker.alertStatus", other)) == 0, "marker-set-other|"+s.fn, s.fn+" writes "+other, fnFirst(fn))
			}
		}
		if o.Check(n >= 1, "marker-set|"+s.fn, s.fn+" no longer files the ids", fnFirst(fn)) {
			o.Forced(fn, "marker-set-forced|"+s.fn, s.fn+" must file the ids on every path", func(in ssa.Instruction) bool { return isSt[in] })
		}
		for _, in := range AllInstrs(fn) {
			if m, ok := in.(*ssa.MapUpdate); ok {
				o.Check(e.X(fn, m.Key) == "p0", "marker-insert-key|"+s.fn, "a new status must be filed under the given fingerprint", m)
			}
		}
		o.Forced(fn, "marker-insert-forced|"+s.fn, "the status of an alert seen for the first time must be filed in the map", isMapUpdate, found.Neg())
	}
	{
		fn := o.Fn("(*am/marker.alertMarker).Status")
		o.Site(fnFirst(fn), "marker.Status")
		found := L("recv.status[p0]#1", true)
		src := "recv.status[p0]#0"
		for _, f := range []string{"SilencedBy", "InhibitedBy"} {
			isSt := map[ssa.Instruction]bool{}
			for _, st := range e.StoresToField(fn, "am/alert.AlertStatus", f) {
				// every alternative of what is stored: the filed ids (or a copy), or an empty list when there are none
				none := LRe(`\(`+regexpQuote(src+"."+f)+` == nil\)|\(len\(`+regexpQuote(src+"."+f)+`\) == 0\)`, true)
				alts := AltsOf(st.Val)
				for _, a := range alts {
					v := e.X(fn, a.V)
					switch {
					case v == "slices.Clone("+src+"."+f+")" || v == src+"."+f || v == "acc(nil; "+src+"."+f+"...)":
						isSt[st] = true
					case strings.Contains(v, src):
						o.Fail("marker-status-field|"+f, "Status must report the ids filed as "+f+", reports "+clip(v), st)
					default:
						empty := strings.HasPrefix(v, "slice(&slicelit:[0]string") || v == "nil" || strings.HasPrefix(v, "makeslice:")
						o.Check(empty, "marker-status-default|"+f, "without filed ids Status must report an empty list, reports "+clip(v), st)
						if len(alts) > 1 {
							o.Check(e.AltUnder(a, none), "marker-status-default-guard|"+f, "Status can report an empty "+f+" although ids are filed", st)
						}
					}
				}
			}
			if o.Check(len(isSt) >= 1, "marker-status|"+f, "Status no longer reports "+f, fnFirst(fn)) {
				o.Forced(fn, "marker-status-forced|"+f, "Status must report the filed "+f, func(in ssa.Instruction) bool { return isSt[in] }, found, L("("+src+"."+f+" == nil)", false))
			}
		}
		isSt := map[ssa.Instruction]bool{}
		for _, st := range e.StoresToField(fn, "am/alert.AlertStatus", "State") {
			v := e.X(fn, st.Val)
			if v == "(*am/marker.alertStatus).state("+src+")" {
				isSt[st] = true
			} else {
				o.Check(v == `"unprocessed"`, "marker-status-state-default", "an alert without status is unprocessed, reported as "+v, st)
			}
		}
		if o.Check(len(isSt) >= 1, "marker-status-state", "Status no longer derives the state from the filed ids", fnFirst(fn)) {
			o.Forced(fn, "marker-status-state-forced", "Status must derive the state of a known alert from its filed ids", func(in ssa.Instruction) bool { return isSt[in] }, found)
		}
		sf := o.Fn("(*am/marker.alertStatus).state")
		inh, sil := LRe(`\(len\(recv\.InhibitedBy\) == 0\)|\(len\(recv\.InhibitedBy\) < 1\)`, true), LRe(`\(len\(recv\.SilencedBy\) == 0\)|\(len\(recv\.SilencedBy\) < 1\)`, true)
		o.Table(sf, "state", []Row{
			{Name: "inhibited", Assume: A(inh.Neg()), Ret: [][]string{Vals(`"suppressed"`)}},
			{Name: "silenced", Assume: A(sil.Neg()), Ret: [][]string{Vals(`"suppressed"`)}},
			{Name: "neither", Assume: A(inh, sil), Ret: [][]string{Vals(`"active"`)}},
		})
	}
	// --- context ---
	{
		wc, fc := o.Fn("am/marker.WithContext"), o.Fn("am/marker.FromContext")
		wv := o.One(e.Calls(wc, "context.WithValue"), "ctx-with", "WithContext must attach the marker to the context", wc)
		var fv ssa.CallInstruction
		for _, in := range AllInstrs(fc) {
			if c, ok := in.(*ssa.Call); ok && c.Call.IsInvoke() && c.Call.Method.Name() == "Value" {
				fv = c
			}
		}
		if o.Check(fv != nil, "ctx-from", "FromContext must read the context", fnFirst(fc)) {
			o.Check(e.X(wc, wv.Common().Args[1]) == e.X(fc, fv.Common().Args[0]), "ctx-key", "WithContext and FromContext must use the same key", fv)
		}
		o.Check(e.X(wc, wv.Common().Args[2]) == "p1" || strings.Contains(e.X(wc, wv.Common().Args[2]), "p1"), "ctx-value", "WithContext must attach the given marker", wv)
	}
	// --- prediction ---
	predicted := func(fn *ssa.Function, cb string, alertPfx string) (status string) {
		// fn runs the callback `cb` with a marker in the context and reads that marker for the same alert
		var dyn *ssa.Call
		for _, in := range AllInstrs(fn) {
			if c, ok := in.(*ssa.Call); ok && !c.Call.IsInvoke() && e.X(fn, c.Call.Value) == cb {
				o.Check(dyn == nil, "predict-once|"+fnName(fn), "the mute callback is run more than once", c)
				dyn = c
			}
		}
		if !o.Check(dyn != nil, "predict-callback|"+fnName(fn), fnName(fn)+" no longer runs the mute callback", fnFirst(fn)) {
			return ""
		}
		o.Site(dyn, "status prediction")
		o.Check(len(dyn.Call.Args) == 2 && e.X(fn, dyn.Call.Args[1]) == alertPfx+".Labels", "predict-labels|"+fnName(fn), "the callback must get the labels of the alert, gets "+e.X(fn, dyn.Call.Args[len(dyn.Call.Args)-1]), dyn)
		wc, ok := dyn.Call.Args[0].(*ssa.Call)
		if !o.Check(ok && calleeName(&wc.Call) == "am/marker.WithContext", "predict-ctx|"+fnName(fn), "the callback must run with a marker in its context", dyn) {
			return ""
		}
		// the very marker (value identity: two fresh markers render alike)
		strip := func(v ssa.Value) ssa.Value {
			for {
				switch x := v.(type) {
				case *ssa.MakeInterface:
					v = x.X
				case *ssa.ChangeInterface:
					v = x.X
				case *ssa.ChangeType:
					v = x.X
				default:
					return v
				}
			}
		}
		mk := strip(wc.Call.Args[1])
		var st ssa.CallInstruction
		for _, c := range e.Calls(fn, "invoke:am/marker.AlertMarker.Status") {
			if strip(c.Common().Value) == mk {
				st = c
			}
		}
		if !o.Check(st != nil, "predict-read|"+fnName(fn), "the status must be read from the marker the callback wrote to", dyn) {
			return ""
		}
		o.Check(e.Arg(st, 1) == "(*model.Alert).Fingerprint("+alertPfx+")", "predict-fp|"+fnName(fn), "the status must be read for the same alert, read for "+e.Arg(st, 1), st)
		o.Check(InstrDominates(dyn, st), "predict-order|"+fnName(fn), "the status must be read after the callback ran", st)
		return e.X(fn, st.(*ssa.Call))
	}
	pa := o.Fn("am/api/v2.predictAlertStatus")
	ps := predicted(pa, "p1", "p2.Alert")
	for _, ret := range (&Walk{Fn: pa}).FromEntry().Returns() {
		o.Check(e.X(pa, ret.Results[0]) == ps, "predict-return", "predictAlertStatus must return the status it read", ret)
	}
	// the predicate that looks at the status (alertFilter may hand out others for callers that keep every state)
	var af *ssa.Function
	for _, f := range alertFilterClosures(o) {
		for _, in := range AllInstrs(f) {
			if c, ok := in.(*ssa.Call); ok && !c.Call.IsInvoke() && strings.HasSuffix(e.X(f, c.Call.Value), "recv.setAlertStatus") {
				af = f
			}
		}
	}
	if !o.Check(af != nil, "filter-status-predicate", "no alert predicate runs the mute callback any more", nil) {
		return
	}
	fs := predicted(af, "^recv.setAlertStatus", "p0.Alert")
	if fs != "" {
		// the filter decides on the alert's own status
		n := 0
		for _, in := range AllInstrs(af) {
			if st, ok := in.(*ssa.Store); ok && e.X(af, st.Val) == fs {
				n++
			}
		}
		o.Check(n >= 1, "filter-status", "the filter no longer looks at the status it predicted", fnFirst(af))
		sv := "&status:am/alert.AlertStatus"
		act := L("("+sv+`.State == "active")`, true)
		sil := L("(len("+sv+".SilencedBy) == 0)", true)
		inh := L("(len("+sv+".InhibitedBy) == 0)", true)
		F := [][]string{Vals("false")}
		o.Table(af, "filter", []Row{
			{Name: "active not wanted", Assume: A(L("^p4", false), act), Ret: F},
			{Name: "silenced not wanted", Assume: A(L("^p2", false), sil.Neg()), Ret: F},
			{Name: "inhibited not wanted", Assume: A(L("^p3", false), inh.Neg()), Ret: F},
		})
	}
	// the filter's closure is built by alertFilter from (silenced, inhibited, active, marker) in this order
	gah := o.Fn("(*am/api/v2.API).getAlertsHandler")
	afc := o.One(e.Calls(gah, "(*am/api/v2.API).alertFilter"), "alerts-filter", "GET /alerts must filter on the alert status", gah)
	o.Check(strings.HasSuffix(e.Arg(afc, 3), ".Silenced") && strings.HasSuffix(e.Arg(afc, 4), ".Inhibited") && strings.HasSuffix(e.Arg(afc, 5), ".Active"), "alerts-filter-args", "the filter must get (silenced, inhibited, active) in this order", afc)
	tm := e.Arg(afc, 6)
	for _, c := range o.Some(e.Calls(gah, "am/api/v2.AlertToOpenAPIAlert"), "alerts-convert", "GET /alerts must convert alerts", gah) {
		a0 := e.Arg(c, 0)
		want := "invoke:am/marker.AlertMarker.Status(" + tm + ", (*model.Alert).Fingerprint(" + a0 + ".Alert))"
		o.Check(e.Arg(c, 1) == want, "alerts-status", "GET /alerts must report the status the filter just computed for this alert, reports "+clip(e.Arg(c, 1)), c)
		var fcall ssa.Instruction
		for _, in := range AllInstrs(gah) {
			if d, ok := in.(*ssa.Call); ok && !d.Call.IsInvoke() && e.X(gah, d.Call.Value) == e.X(gah, afc.(*ssa.Call)) && len(d.Call.Args) >= 1 && e.X(gah, d.Call.Args[0]) == a0 {
				fcall = d
			}
		}
		if o.Check(fcall != nil, "alerts-filter-run", "the filter must be run on the alert that is reported", c) {
			o.Check(InstrDominates(fcall, c), "alerts-filter-order", "the status is read before the filter computed it", c)
		}
	}
	gh := o.Fn("(*am/api/v2.API).getAlertGroupsHandler")
	for _, c := range o.Some(e.Calls(gh, "am/api/v2.AlertToOpenAPIAlert"), "groups-convert", "GET /alerts/groups must convert alerts", gh) {
		a0 := e.Arg(c, 0)
		ok := false
		for _, p := range e.Calls(gh, "am/api/v2.predictAlertStatus") {
			if e.X(gh, p.(*ssa.Call)) == e.Arg(c, 1) {
				ok = e.Arg(p, 2) == a0 && strings.HasSuffix(e.Arg(p, 1), "recv.setAlertStatus")
			}
		}
		o.Check(ok, "groups-status", "GET /alerts/groups must report, per alert, the status predicted for that alert with the installed callback", c)
	}
	// --- conversion ---
	cv := o.Fn("am/api/v2.AlertToOpenAPIAlert")
	for _, f := range []string{"SilencedBy", "InhibitedBy"} {
		n := 0
		for _, st := range e.StoresToField(cv, "am/api/v2/models.AlertStatus", f) {
			n++
			none := LRe(`\(.*\.`+f+` == nil\)|\(len\(.*\.`+f+`\) == 0\)`, true)
			alts := AltsOf(st.Val)
			for _, a := range alts {
				v := e.X(cv, a.V)
				if strings.HasPrefix(v, "slice(&slicelit:[0]string") || strings.HasPrefix(v, "makeslice:[]string") {
					// an empty list instead of null, only when there are no ids
					if len(alts) > 1 {
						o.Check(e.AltUnder(a, none), "convert-default|"+f, "replacing "+f+" by an empty list although ids are present", st)
					} else {
						o.Guarded(st, "convert-default|"+f, "replacing "+f+" by an empty list", none)
					}
					continue
				}
				o.Check(strings.HasSuffix(v, "AlertStatus."+f) || v == "p1."+f, "convert-field|"+f, "the answer's "+f+" must be the status's "+f+", is "+clip(v), st)
			}
		}
		o.Check(n >= 1, "convert|"+f, "the answer no longer carries "+f, fnFirst(cv))
	}
	{
		muted := LRe(`\(len\(p3\) == 0\)|\(len\(p3\) < 1\)`, true)
		n := 0
		for _, in := range AllInstrs(cv) {
			st, ok := in.(*ssa.Store)
			if !ok || e.X(cv, st.Addr) != "&state:string" {
				continue
			}
			n++
			v := e.X(cv, st.Val)
			if v == `"suppressed"` {
				o.Guarded(st, "convert-state-muted", "overriding the state with 'suppressed'", muted.Neg())
			} else {
				o.Check(strings.HasSuffix(v, "AlertStatus.State") || v == "p1.State" || strings.Contains(v, ".State"), "convert-state", "the answer's state must be the status's state, is "+v, st)
			}
		}
		o.Check(n >= 1, "convert-state-site", "the answer no longer carries the state", fnFirst(cv))
	}
	// --- the callback installed by a reload ---
	rl := o.Fn("(*am/app.reloader).reload")
	up := o.One(e.Calls(rl, "(*am/api.API).Update"), "install", "reload must hand the mute callback to the API", rl)
	cb := e.FuncValue(up.Common().Args[2])
	if o.Check(cb != nil, "install-fn", "the mute callback cannot be resolved", up) {
		o.Site(up, "reload installs the mute callback")
		im := o.One(e.Calls(cb, "(*am/inhibit.Inhibitor).Mutes"), "callback-inhibitor", "the callback must ask the inhibitor", cb)
		sm := o.One(e.Calls(cb, "(*am/silence.Silencer).Mutes"), "callback-silencer", "the callback must ask the silencer", cb)
		// the callback is a literal closing over the reloader or one of its methods
		unfree := func(s string) string { return strings.ReplaceAll(s, "^", "") }
		o.Check(unfree(e.Arg(im, 0)) == "(*sync/atomic.Pointer[T]).Load(recv.inhibitor)" && e.Arg(im, 1) == "ctx" && e.Arg(im, 2) == "p1", "callback-inhibitor-args", "the current inhibitor must be asked about the given labels in the given context", im)
		o.Check(unfree(e.Arg(sm, 0)) == "recv.silencer" && e.Arg(sm, 1) == "ctx" && e.Arg(sm, 2) == "p1", "callback-silencer-args", "the silencer must be asked about the given labels in the given context", sm)
		for _, c := range []ssa.CallInstruction{im, sm} {
			o.Check(len((&Walk{Fn: cb, Barrier: IsInstr(c)}).FromEntry().Returns()) == 0, "callback-skip|"+calleeName(c.Common()), "the callback can return without asking "+calleeName(c.Common()), c)
		}
	}
	au := o.Fn("(*am/api.API).Update")
	v2u := o.One(e.Calls(au, "(*am/api/v2.API).Update"), "install-v2", "api.Update must update the v2 API", au)
	o.Check(e.Arg(v2u, 2) == "p1", "install-v2-arg", "the v2 API must get the callback given to api.Update", v2u)
	v2 := o.Fn("(*am/api/v2.API).Update")
	n := 0
	for _, st := range e.StoresToField(v2, "am/api/v2.API", "setAlertStatus") {
		n++
		o.Check(e.X(v2, st.Val) == "p1", "install-store", "API.setAlertStatus must become the given callback", st)
	}
	o.Check(n == 1, "install-store-site", "Update must install the callback exactly once", fnFirst(v2))
}

func init() {
	desc := "marker files ids per fingerprint and derives the state from them; the API predicts an alert's status by running the installed callback (current inhibitor, silencer) with a marker in the context and reading it for the same alert; filters and conversion use that status"
	reg("C02", "C02.15", "T6,T8,T11", "the API reports the silencer's verdict: "+desc, alertStatusReportRule)
	reg("C03", "C03.15", "T6,T8,T11", "the API reports the inhibitor's verdict: "+desc, alertStatusReportRule)
	reg("C13", "C13.8", "T6,T8,T11", "GET /alerts reports the current suppression status: "+desc, alertStatusReportRule)
}
