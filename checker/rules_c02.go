package main

import (
	"go/constant"
	"go/token"
	"sort"
	"strings"

	"golang.org/x/tools/go/ssa"
)

// OrderedElems returns the elements of a slice value built either as a slice
// literal (by constant index) or by a straight-line chain of appends (in order).
func (e *Eng) OrderedElems(v ssa.Value) []ssa.Value {
	for {
		switch x := v.(type) {
		case *ssa.MakeInterface:
			v = x.X
			continue
		case *ssa.ChangeType:
			v = x.X
			continue
		}
		break
	}
	if sl, ok := v.(*ssa.Slice); ok {
		if a, ok := sl.X.(*ssa.Alloc); ok {
			type iv struct {
				i int64
				v ssa.Value
			}
			var ivs []iv
			if refs := a.Referrers(); refs != nil {
				for _, r := range *refs {
					if ia, ok := r.(*ssa.IndexAddr); ok {
						k, ok := ia.Index.(*ssa.Const)
						if !ok || k.Value == nil {
							continue
						}
						idx, _ := constant.Int64Val(k.Value)
						if rr := ia.Referrers(); rr != nil {
							for _, u := range *rr {
								if st, ok := u.(*ssa.Store); ok && st.Addr == ia {
									ivs = append(ivs, iv{idx, st.Val})
								}
							}
						}
					}
				}
			}
			sort.Slice(ivs, func(i, j int) bool { return ivs[i].i < ivs[j].i })
			var out []ssa.Value
			for _, x := range ivs {
				out = append(out, x.v)
			}
			return out
		}
	}
	_, parts := e.AppendParts(v)
	var out []ssa.Value
	for _, p := range parts {
		out = append(out, p.V)
	}
	return out
}

// pipelineOrder resolves the per-receiver stage list of PipelineBuilder.New and the per-integration chain.
func pipelineOrder(o *Ob) (outer []string, inner []string) {
	e := o.E
	fn := o.Fn("(*am/notify.PipelineBuilder).New")
	var mu *ssa.MapUpdate
	for _, in := range AllInstrs(fn) {
		if m, ok := in.(*ssa.MapUpdate); ok && typeKey(m.Map.Type()) == "am/notify.RoutingStage" {
			o.Require(mu == nil, "pipeline-two-stores", "PipelineBuilder.New stores receiver pipelines at more than one site", in)
			mu = m
		}
	}
	o.Require(mu != nil, "pipeline-store", "PipelineBuilder.New no longer stores a pipeline per receiver", nil)
	o.Site(mu, "pipeline of a receiver")
	val := mu.Value
	for {
		switch x := val.(type) {
		case *ssa.MakeInterface:
			val = x.X
			continue
		case *ssa.ChangeType:
			val = x.X
			continue
		}
		break
	}
	for _, el := range e.OrderedElems(val) {
		outer = append(outer, e.X(fn, el))
	}
	// every receiver gets one
	l := e.LoopOf(mu)
	o.Require(l != nil, "pipeline-loop", "receiver pipelines are not built in a loop over the receivers", mu)
	coll, _ := e.RangeOver(l)
	o.Check(coll == "p0", "pipeline-range", "a pipeline must be built for every configured receiver", mu)
	o.Check(len(e.EarlyExits(l)) == 0, "pipeline-early-exit", "the loop building receiver pipelines can stop early", mu)
	o.Check(e.X(fn, mu.Key) == "next(range(p0))#1", "pipeline-key", "the pipeline must be stored under the receiver's name", mu)
	crs := o.Fn("am/notify.createReceiverStage")
	rets := (&Walk{Fn: crs}).FromEntry().Returns()
	o.Require(len(rets) == 1, "chain-ret", "createReceiverStage must have one return", nil)
	fan := e.OrderedElems(rets[0].Results[0])
	o.Require(len(fan) == 1, "chain-fanout", "createReceiverStage must add exactly one chain per integration", rets[0])
	for _, el := range e.OrderedElems(fan[0]) {
		inner = append(inner, e.X(crs, el))
	}
	o.SiteS("per-receiver stages: " + strings.Join(outer, " → "))
	o.SiteS("per-integration chain: " + strings.Join(inner, " → "))
	// one chain per integration, all integrations
	for _, c := range e.Calls(crs, "am/notify.NewRetryStage") {
		l := e.LoopOf(c)
		if o.Check(l != nil, "chain-loop", "integration chains are not built in a loop", c) {
			coll, kind := e.RangeOver(l)
			o.Check(coll == "p1" && kind == "index", "chain-range", "a chain must be built for every integration of the receiver", c)
			o.Check(len(e.EarlyExits(l)) == 0, "chain-early-exit", "the loop over integrations can stop early", c)
		}
	}
	return outer, inner
}

func indexOfPrefix(xs []string, prefix string) int {
	for i, x := range xs {
		if strings.HasPrefix(x, prefix) {
			return i
		}
	}
	return -1
}

// muteStageRule: MuteStage.Exec passes an alert on iff the muter does not mute it.
func muteStageRule(o *Ob) {
	e := o.E
	fn := o.Fn("(*am/notify.MuteStage).Exec")
	muted := LRe(`invoke:am/notify\.Muter\.Mutes\(recv\.muter, .*, p2\[i\](\.Alert)?\.Labels\)`, true)
	o.RequireFn(e.CountLitEdges(fn, muted)+e.CountLitEdges(fn, muted.Neg()) > 0, "no-mutes-test", "MuteStage.Exec no longer asks the muter per alert (with the alert's labels)", fn)
	n := 0
	for _, rs := range e.ResultStores(fn, 1) {
		if k, ok := rs.Val.(*ssa.Const); ok && k.Value == nil {
			continue
		}
		bases, parts := e.AppendParts(rs.Val)
		for _, b := range bases {
			o.Check(IsEmptySlice(b), "passed-base", "the alerts passed on by MuteStage are seeded with "+e.X(fn, b), rs.Instr)
		}
		for _, p := range parts {
			n++
			o.Site(p.Call, "alert passed on: "+e.X(fn, p.V))
			o.Check(!p.Spread && e.X(fn, p.V) == "p2[i]", "passed-elem", "MuteStage passes on "+e.X(fn, p.V)+" instead of the alert it tested", p.Call)
			o.Guarded(p.Call, "passed-guard", "passing an alert on to delivery", muted.Neg())
		}
		// not muted ⇒ passed on (per iteration)
		for _, p := range parts {
			l := e.LoopOf(p.Call)
			if !o.Check(l != nil, "passed-loop", "alerts are not filtered in a loop", p.Call) {
				continue
			}
			coll, kind := e.RangeOver(l)
			o.Check(coll == "p2" && kind == "index", "passed-range", "MuteStage must examine every alert of the batch", p.Call)
			o.Check(len(e.EarlyExits(l)) == 0, "passed-early-exit", "the filtering loop can stop early", p.Call)
			bi, _ := l.BodyEntry()
			r := (&Walk{Fn: fn, Cut: e.CutContradicting(muted.Neg()), Barrier: IsInstr(p.Call)}).FromEdge(l.Header, bi)
			back := false
			for _, be := range l.Back {
				if r.Edge[be] {
					back = true
				}
			}
			o.Check(!back, "passed-forced", "an alert that is not muted can be dropped by MuteStage", p.Call)
		}
	}
	o.Check(n >= 1, "passed-none", "MuteStage.Exec no longer returns the alerts that were not muted", nil)
}

func init() {
	propInfos["C02"] = &propInfo{
		Explanation: "Decides the structure the mute verdict rests on: (1) the silencer stage sits in every receiver pipeline before delivery and passes an alert on iff Mutes is false; (2) getState's strict table; (3) Silencer.Mutes takes the fast path only when the cached version equals the store version and nothing was cached, re-queries cached ids (active+pending) iff any, queries silences newer than the cached version (matching the labels) iff versions differ, caches that query's version (never a later one) with all active+pending ids, and mutes iff an id is active now; (4) the store's indexes have a fixed writer set, all under the write lock, version bumped before indexing; (5) cache-invalidation discipline: every overwrite of an existing id must either bump the version or be unable to revive an expired silence; (6) Query applies all filters, QState uses the query's now, QMatches the compiled matcher sets (one fresh slice per set); (7) alert GC evicts the cache; cache under its lock; (7) what is stored is the newest version of a silence: state.merge is a last-writer-wins join (shared with C09).",
		NotDecided:  "equality of Mutes with a brute-force evaluation over all histories (C02.5 is the per-mutation discipline that equality needs, not the induction); 'takes effect at the next flush' (timing).",
	}

	reg("C02", "C02.0", "T6", "getState: pending iff now < start; expired iff now > end; else active (both comparisons strict)", getStateRule)

	reg("C02", "C02.1", "T2,T1", "every receiver pipeline contains inhibitor and silencer mute stages before the delivery stage; MuteStage passes an alert on iff the muter says not muted", func(o *Ob) {
		outer, _ := pipelineOrder(o)
		sil := indexOfPrefix(outer, "am/notify.NewMuteStage(p3,")
		inh := indexOfPrefix(outer, "am/notify.NewMuteStage(p2,")
		del := indexOfPrefix(outer, "am/notify.createReceiverStage(")
		o.Check(sil >= 0, "no-silencer-stage", "the receiver pipeline has no mute stage for the silencer", nil)
		o.Check(inh >= 0, "no-inhibitor-stage", "the receiver pipeline has no mute stage for the inhibitor", nil)
		o.Check(del >= 0, "no-delivery-stage", "the receiver pipeline has no delivery stage", nil)
		o.Check(sil >= 0 && del >= 0 && sil < del, "silencer-after-delivery", "the silencer stage must come before delivery, order is: "+strings.Join(outer, " → "), nil)
		o.Check(inh >= 0 && del >= 0 && inh < del, "inhibitor-after-delivery", "the inhibitor stage must come before delivery, order is: "+strings.Join(outer, " → "), nil)
		o.Check(del == len(outer)-1, "delivery-not-last", "delivery must be the last stage of a receiver pipeline", nil)
		// NewMuteStage keeps its muter
		nm := o.Fn("am/notify.NewMuteStage")
		st := o.E.StoresToField(nm, "am/notify.MuteStage", "muter")
		o.Check(len(st) == 1 && o.E.X(nm, st[0].Val) == "p0", "mutestage-muter", "NewMuteStage must keep the muter it is given", nil)
		muteStageRule(o)
		o.MinSites(4)
	})

	reg("C02", "C02.3", "T1,T11", "Silencer.Mutes: fast path only when version unchanged ∧ nothing cached; id query iff cached ids; since-query iff version changed; cached version from that query; verdict = some id active now", func(o *Ob) {
		e := o.E
		fn := o.Fn("(*am/silence.Silencer).Mutes")
		fp := "(model.LabelSet).Fingerprint(p1)"
		ce := "(*am/silence.cache).get(recv.cache, " + fp + ")"
		VE := L("((*am/silence.Silences).Version(recv.silences) == "+ce+".version)", true)
		cnt := "(*am/silence.cacheEntry).count(" + ce + ")"
		cnt0 := LitM{"nothing cached", func(l Lit) bool {
			return l.Pos && (l.Atom == "("+cnt+" == 0)" || l.Atom == "(len("+ce+".silenceIDs) == 0)") || l.Pos && (l.Atom == "("+cnt+" < 1)")
		}}
		o.RequireFn(e.CountLitEdges(fn, VE)+e.CountLitEdges(fn, VE.Neg()) > 0, "no-version-test", "Mutes no longer compares the cached version with the store version", fn)
		o.RequireFn(e.CountLitEdges(fn, cnt0)+e.CountLitEdges(fn, cnt0.Neg()) > 0, "no-count-test", "Mutes no longer tests whether silence ids are cached for the alert", fn)
		// queries
		var idsQ, sinceQ ssa.CallInstruction
		for _, q := range e.Calls(fn, "(*am/silence.Silences).Query") {
			o.Check(e.Arg(q, 0) == "recv.silences", "query-target", "Mutes must query its own silences", q)
			var names []string
			kinds := map[string]string{}
			for _, el := range VariadicElems(q) {
				if c, ok := el.(*ssa.Call); ok {
					n := calleeName(&c.Call)
					names = append(names, n)
					arg := ""
					if len(c.Call.Args) > 0 {
						if els, ok := varargElems(c.Call.Args[0]); ok {
							var xs []string
							for _, x := range els {
								xs = append(xs, e.X(fn, x))
							}
							sort.Strings(xs)
							arg = strings.Join(xs, ",")
						} else {
							arg = e.X(fn, c.Call.Args[0])
						}
					}
					kinds[n] = arg
				}
			}
			sort.Strings(names)
			o.Site(q, "query with "+strings.Join(names, ", "))
			switch {
			case kinds["am/silence.QIDs"] != "":
				o.Check(idsQ == nil, "two-id-queries", "more than one id query", q)
				idsQ = q
				o.Check(kinds["am/silence.QIDs"] == ce+".silenceIDs", "idq-ids", "the id query must ask for the cached ids, asks for "+kinds["am/silence.QIDs"], q)
				o.Check(kinds["am/silence.QState"] == `"active","pending"`, "idq-state", "the id query must keep active and pending silences, keeps "+kinds["am/silence.QState"], q)
				o.Check(len(names) == 2, "idq-extra", "the id query has unexpected parameters: "+strings.Join(names, ", "), q)
			case kinds["am/silence.QSince"] != "":
				o.Check(sinceQ == nil, "two-since-queries", "more than one since query", q)
				sinceQ = q
				o.Check(kinds["am/silence.QSince"] == ce+".version", "sinceq-version", "the incremental query must start after the cached version, starts after "+kinds["am/silence.QSince"], q)
				o.Check(kinds["am/silence.QState"] == `"active","pending"`, "sinceq-state", "the incremental query must keep active and pending silences, keeps "+kinds["am/silence.QState"], q)
				o.Check(kinds["am/silence.QMatches"] == "p1", "sinceq-matches", "the incremental query must match the alert's labels, matches "+kinds["am/silence.QMatches"], q)
				o.Check(len(names) == 3, "sinceq-extra", "the incremental query has unexpected parameters: "+strings.Join(names, ", "), q)
			default:
				o.Fail("query-unknown", "Mutes issues a query that is neither by cached ids nor incremental: "+strings.Join(names, ", "), q)
			}
		}
		o.Require(idsQ != nil && sinceQ != nil, "queries", "Mutes must issue the cached-id query and the incremental query", nil)
		o.Guarded(idsQ, "idq-guard", "re-checking cached silences", cnt0.Neg())
		o.Guarded(sinceQ, "sinceq-guard", "querying newer silences", VE.Neg())
		o.Forced(fn, "idq-forced", "cached silence ids must be re-checked", IsInstr(idsQ), cnt0.Neg())
		o.Forced(fn, "sinceq-forced", "silences newer than the cached version must be evaluated", IsInstr(sinceQ), VE.Neg())
		q1, q2 := e.X(fn, idsQ.(*ssa.Call)), e.X(fn, sinceQ.(*ssa.Call))
		total0 := LitM{"no active/pending silence found", func(l Lit) bool {
			// (a sum of lengths is zero iff it is below one)
			return l.Pos && strings.HasPrefix(l.Atom, "((len(") && (strings.HasSuffix(l.Atom, " == 0)") || strings.HasSuffix(l.Atom, " < 1)")) && strings.Contains(l.Atom, q1+"#0") && strings.Contains(l.Atom, q2+"#0")
		}}
		// verdict: "at least one active silence id" — returned as that comparison, or as true / false under it
		var active ssa.Value
		isState0 := func(s string) LitM {
			return LitM{"state==" + s, func(l Lit) bool {
				return l.Pos && strings.HasPrefix(l.Atom, "(am/silence.getState(") && strings.HasSuffix(l.Atom, `, (*am/silence.Silences).nowUTC(recv.silences)) == "`+s+`")`)
			}}
		}
		// the list of active ids: a list compared with empty whose elements are only added for active silences
		for _, in := range AllInstrs(fn) {
			c, ok := in.(*ssa.Call)
			if !ok || !isBuiltinCall("len")(in) {
				continue
			}
			_, parts := e.AppendParts(c.Call.Args[0])
			if len(parts) == 0 {
				continue
			}
			all := true
			for _, p := range parts {
				if !e.OnlyUnder(p.Call, isState0("active")) {
					all = false
				}
			}
			if all {
				active = c.Call.Args[0]
			}
		}
		o.Require(active != nil, "verdict", "Mutes has no verdict derived from the active silence ids", nil)
		// (the two id lists render alike; they are told apart by value: a list is "the active ids" iff every
		// element is added under state == active)
		activeOnly := func(v ssa.Value) bool {
			_, parts := e.AppendParts(v)
			if len(parts) == 0 {
				return false
			}
			for _, p := range parts {
				if !e.OnlyUnder(p.Call, isState0("active")) {
					return false
				}
			}
			return true
		}
		// lenOfActive: the condition compares len(<active ids>) with 0
		lenOfActive := func(cond ssa.Value) bool {
			for {
				if u, ok := cond.(*ssa.UnOp); ok && u.Op == token.NOT {
					cond = u.X
					continue
				}
				break
			}
			b, ok := cond.(*ssa.BinOp)
			if !ok {
				return false
			}
			for _, side := range []ssa.Value{b.X, b.Y} {
				if isLenCall(side) && activeOnly(side.(*ssa.Call).Call.Args[0]) {
					return true
				}
			}
			return false
		}
		noActiveAtom := "(len(" + e.X(fn, active) + ") == 0)"
		cutOn := func(pos bool) func(*ssa.BasicBlock, int) bool {
			return func(b *ssa.BasicBlock, si int) bool {
				l, ok := e.EdgeLit(b, si)
				if !ok || l.Atom != noActiveAtom || l.Pos != pos {
					return false
				}
				return lenOfActive(b.Instrs[len(b.Instrs)-1].(*ssa.If).Cond)
			}
		}
		onlyUnderActive := func(target ssa.Instruction, pos bool) bool {
			return !(&Walk{Fn: fn, Cut: cutOn(pos)}).FromEntry().Has(target)
		}
		for _, rs := range e.ResultStores(fn, 0) {
			if k, ok := rs.Val.(*ssa.Const); ok && k.Value != nil && k.Value.Kind() == constant.Bool {
				if constant.BoolVal(k.Value) {
					o.Site(rs.Instr, "returns true")
					o.Check(onlyUnderActive(rs.Instr, false), "const-true", "Mutes answers 'muted' on a path that has not established that an active silence id was found", rs.Instr)
					continue
				}
				o.Site(rs.Instr, "returns false")
				ok1 := onlyUnderActive(rs.Instr, true) || e.OnlyUnder(rs.Instr, VE, total0) && e.OnlyUnder(rs.Instr, cnt0, total0)
				o.Check(ok1, "false-guard", "Mutes answers 'not muted' without evaluation although the cache may be stale: this exit needs (version unchanged ∧ nothing cached), (no active/pending silence found) or (no active silence id)", rs.Instr)
				continue
			}
			vl := e.CondLit(fn, rs.Val)
			o.Site(rs.Instr, "verdict "+e.X(fn, rs.Val))
			o.Check(vl.Atom == noActiveAtom && !vl.Pos && lenOfActive(rs.Val), "verdict-shape", "the verdict must be 'at least one active silence id', is "+e.X(fn, rs.Val), rs.Instr)
		}
		o.Require(active != nil, "verdict", "Mutes has no verdict derived from the active silence ids", nil)
		isState := func(s string) LitM {
			return LitM{"state==" + s, func(l Lit) bool {
				return l.Pos && strings.HasPrefix(l.Atom, "(am/silence.getState(") && strings.HasSuffix(l.Atom, `, (*am/silence.Silences).nowUTC(recv.silences)) == "`+s+`")`)
			}}
		}
		_, aparts := e.AppendParts(active)
		o.Require(len(aparts) >= 1, "active-parts", "the active id list is not built by appending", nil)
		// (the evaluation may be written once over both result lists or once per list)
		var gsCalls []*ssa.Call
		for _, in := range AllInstrs(fn) {
			if c, ok := in.(*ssa.Call); ok && calleeName(&c.Call) == "am/silence.getState" {
				gsCalls = append(gsCalls, c)
				o.Check(e.X(fn, c.Call.Args[1]) == "(*am/silence.Silences).nowUTC(recv.silences)", "state-now", "the state of a silence must be evaluated at the silences' current time", c)
			}
		}
		o.Require(len(gsCalls) > 0, "state-eval", "Mutes no longer evaluates the state of the candidate silences", nil)
		// the evaluation an append belongs to: the one that dominates it
		evaluated := func(at ssa.Instruction) string {
			for _, g := range gsCalls {
				if InstrDominates(g, at) {
					return e.X(fn, g.Call.Args[0])
				}
			}
			return "?"
		}
		for _, p := range aparts {
			o.Site(p.Call, "active id "+e.X(fn, p.V))
			o.Guarded(p.Call, "active-guard", "counting a silence as muting", isState("active"))
			o.Check(e.X(fn, p.V) == evaluated(p.Call)+".Id", "active-id", "the id recorded as active must be the id of the silence whose state was evaluated", p.Call)
		}
		// candidates come from both queries
		has1, has2 := false, false
		for _, g := range gsCalls {
			for s := range e.Sources(g.Call.Args[0], false) {
				if s == ssa.Value(idsQ.(*ssa.Call)) {
					has1 = true
				}
				if s == ssa.Value(sinceQ.(*ssa.Call)) {
					has2 = true
				}
			}
		}
		o.Check(has1, "cand-ids", "silences found by the cached-id query are not evaluated", idsQ)
		o.Check(has2, "cand-since", "silences found by the incremental query are not evaluated", sinceQ)
		// cache updates
		sets := o.Some(e.Calls(fn, "(*am/silence.cache).set"), "cache-set", "Mutes must update the cache", fn)
		var allAcc ssa.Value
		for _, cs := range sets {
			o.Check(e.Arg(cs, 0) == "recv.cache" && e.Arg(cs, 1) == fp, "cache-key", "the cache entry must be stored under the alert's fingerprint", cs)
			ne, ok := e.ArgV(cs, 2).(*ssa.Call)
			if !o.Check(ok && calleeName(&ne.Call) == "am/silence.newCacheEntry", "cache-entry", "the cache entry must be built with newCacheEntry", cs) {
				continue
			}
			o.Site(cs, "cache.set "+e.X(fn, ne))
			for _, v := range e.ValsUnder(nil, ne.Call.Args[0]) {
				s := e.X(fn, v)
				o.Check(s == ce+".version" || s == q2+"#1", "cache-version", "the cached version is "+s+": it must be the version returned by the incremental query (or stay unchanged), otherwise silences added in between are never evaluated", cs)
			}
			hasQ := false
			for _, v := range e.ValsUnder(nil, ne.Call.Args[0]) {
				if e.X(fn, v) == q2+"#1" {
					hasQ = true
				}
			}
			o.Check(hasQ, "cache-version-stuck", "the cached version never advances to the incremental query's version", cs)
			ids := ne.Call.Args[1]
			if k, ok := ids.(*ssa.Const); ok && k.Value == nil {
				o.Guarded(cs, "cache-clear-guard", "caching 'no silences' for the alert", total0)
				continue
			}
			allAcc = ids
		}
		if o.Check(allAcc != nil, "cache-ids", "Mutes never caches the ids of matching silences", nil) {
			_, parts := e.AppendParts(allAcc)
			var appends []ssa.Instruction
			for _, p := range parts {
				o.Check(e.X(fn, p.V) == evaluated(p.Call)+".Id", "cache-id", "a cached id is not the id of the evaluated silence", p.Call)
				o.Guarded(p.Call, "cache-id-guard", "caching a silence id", isState("active"), isState("pending"))
				appends = append(appends, p.Call)
			}
			// under each live state, every way on from the state evaluation caches the id
			missingAt := func(gsCall *ssa.Call, state string) bool {
				l := e.LoopOf(gsCall)
				if l == nil || len(appends) == 0 {
					return true
				}
				r := (&Walk{Fn: fn, Cut: e.CutContradicting(isState(state)), Barrier: IsInstr(appends...)}).After(gsCall)
				for _, be := range l.Back {
					if r.Edge[be] {
						return true
					}
				}
				for _, ex := range l.Exits {
					if r.Edge[[2]int{ex[0], fn.Blocks[ex[0]].Succs[ex[1]].Index}] {
						return true
					}
				}
				return len(r.Returns()) > 0
			}
			missing := func(state string) bool {
				for _, g := range gsCalls {
					if missingAt(g, state) {
						return true
					}
				}
				return false
			}
			nAct, nPend := 1, 1
			if missing("active") {
				nAct = 0
			}
			if missing("pending") {
				nPend = 0
			}
			o.Check(nAct >= 1, "cache-active-missing", "ids of active silences are not cached (their expiry would go unnoticed)", nil)
			o.Check(nPend >= 1, "cache-pending-missing", "ids of pending silences are not cached (they would never become effective: they are older than the cached version)", nil)
		}
		o.Forced(fn, "cache-forced", "after evaluating newer silences the cache must be updated", IsCall("(*am/silence.cache).set"), VE.Neg())
		// marker: deferred literal sets the active ids
		var deferred *ssa.Function
		for _, in := range AllInstrs(fn) {
			if d, ok := in.(*ssa.Defer); ok {
				if mc, ok := d.Call.Value.(*ssa.MakeClosure); ok {
					f := mc.Fn.(*ssa.Function)
					if len(e.Calls(f, "invoke:am/marker.AlertMarker.SetSilenced")) > 0 {
						deferred = f
						for _, rs := range e.ResultStores(fn, 0) {
							o.Check(InstrDominates(d, rs.Instr), "marker-defer-late", "an exit of Mutes is not covered by the deferred marker update", rs.Instr)
						}
					}
				}
			}
		}
		if o.Check(deferred != nil, "marker-defer", "Mutes no longer records the silencing ids in the marker on exit", nil) {
			c := e.Calls(deferred, "invoke:am/marker.AlertMarker.SetSilenced")[0]
			o.Site(c, "SetSilenced")
			o.Check(e.Arg(c, 1) == "(model.LabelSet).Fingerprint(^p1)", "marker-fp", "the marker must be updated for the alert's fingerprint", c)
			okSrc := e.DerivesFrom(e.ArgV(c, 2), false, func(v ssa.Value) bool {
				for _, p := range aparts {
					if v == ssa.Value(p.Call) {
						return true
					}
				}
				return false
			})
			o.Check(okSrc, "marker-ids", "the ids recorded in the marker are not the active silence ids", c)
		}
		o.MinSites(8)
	})

	reg("C02", "C02.20", "T5,T2", "the version a query reports is the version of the state it scanned: read under the scan's read lock and handed on unchanged by Query", queryVersionRule)
	reg("C02", "C02.4", "T3,T5,T2", "store indexes st/mi/vi/version: fixed writer set, every access under the lock (write lock for writes), version bumped before indexing and on every snapshot load, strict version search", func(o *Ob) {
		e := o.E
		T := "am/silence.Silences"
		exempt := map[string]string{
			"am/silence.New": "runs before the object is shared",
		}
		o.WritersWithin(T, "version", map[string]string{"(*am/silence.Silences).indexSilence": "", "(*am/silence.Silences).loadSnapshot": ""})
		o.WritersWithin(T, "vi", map[string]string{"(*am/silence.Silences).indexSilence": "", "(*am/silence.Silences).loadSnapshot": "", "(*am/silence.Silences).GC": "", "am/silence.New": ""})
		o.WritersWithin(T, "mi", map[string]string{"(*am/silence.Silences).indexSilence": "", "(*am/silence.Silences).loadSnapshot": "", "(*am/silence.Silences).GC": "", "am/silence.New": ""})
		exempt["am/silence.QMatches$1$1"] = "filter closure: only invoked through query's filter calls, which hold the read lock (asserted below)"
		n := 0
		for _, f := range []string{"st", "mi", "vi", "version"} {
			ex := exempt
			if f == "version" {
				ex = map[string]string{"am/silence.New": "constructor",
					"(*am/silence.Silences).loadSnapshot": "reads the version while building the new index before publishing under the lock; called from New only (asserted below)"}
			}
			n += o.LockedAccesses(T, f, "mtx", ex)
		}
		// the filters of a query are evaluated under the read lock
		for _, fc := range queryFilterSites(o) {
			ok, why := e.HeldAt(fc, fc.Call.Args[1], "mtx", 'R', 2)
			o.Check(ok, "filter-helper-unlocked", "query filters are evaluated without the read lock: "+why, fc)
		}
		// loadSnapshot is only called from New
		ls := o.Fn("(*am/silence.Silences).loadSnapshot")
		for _, cs := range e.callers[ls] {
			o.Check(fnName(cs.Caller) == "am/silence.New", "loadsnapshot-caller", "loadSnapshot is called from "+fnName(cs.Caller)+": it replaces the whole state and is exempt from the lock rule only during construction", cs.Instr)
		}
		// version++ before vi.add
		ix := o.Fn("(*am/silence.Silences).indexSilence")
		vs := e.StoresTo(ix, "recv.version")
		o.Require(len(vs) == 1, "bump", "indexSilence must bump the version exactly once", nil)
		o.Check(e.X(ix, vs[0].Val) == "(recv.version + 1)", "bump-value", "the version must increase by one per indexed silence", vs[0])
		add := o.One(e.Calls(ix, "(*am/silence.versionIndex).add"), "vi-add", "indexSilence must append to the version index", ix)
		o.Check(InstrDominates(vs[0], add), "bump-first", "the version must be bumped before the id is added to the version index (the index must stay sorted, the new entry must be newer than every cached version)", add)
		o.Check(e.Arg(add, 1) == "recv.version" && e.Arg(add, 2) == "p0.Id", "vi-add-args", "the version index entry must be (new version, silence id)", add)
		mi := o.One(e.Calls(ix, "(am/silence.matcherIndex).add"), "mi-add", "indexSilence must compile the matchers into the matcher index", ix)
		o.Check(e.Arg(mi, 1) == "p0", "mi-add-arg", "the matcher index must be fed the indexed silence", mi)
		// a loaded snapshot is indexed under the version the store has after the load (an entry indexed at or
		// below a version some alert's cache already holds is never evaluated for that alert)
		if lv := e.StoresTo(ls, "recv.version"); o.Check(len(lv) == 1, "load-bump", "loadSnapshot must set the store version exactly once", nil) {
			after := e.X(ls, lv[0].Val)
			o.Check(after == "(recv.version + 1)", "load-bump-value", "loading a snapshot must advance the version, sets "+after, lv[0])
			// … on every load: the bump and the publication of the loaded state go together
			for _, pub := range e.StoresTo(ls, "recv.st") {
				before := !(&Walk{Fn: ls, Barrier: IsInstr(lv[0])}).FromEntry().Has(pub)
				after := len((&Walk{Fn: ls, Barrier: IsInstr(lv[0])}).After(pub).Returns()) == 0
				o.Check(before || after, "load-bump-forced", "a snapshot can be loaded without advancing the store version: its silences are indexed at a version the store never reaches, a cache at that version never evaluates them and the loaded silences do not mute", pub)
			}
			adds := e.Calls(ls, "(*am/silence.versionIndex).add")
			o.Check(len(adds) >= 1, "load-vi-add", "loadSnapshot no longer fills the version index", nil)
			for _, a := range adds {
				o.Site(a, "snapshot entry indexed at "+e.Arg(a, 1))
				o.Check(e.Arg(a, 1) == after, "load-vi-version", "snapshot entries are indexed at "+e.Arg(a, 1)+" while the store version becomes "+after+": a cache at the old version skips them, the loaded silences never mute", a)
				o.Check(strings.HasSuffix(e.Arg(a, 2), ".Silence.Id"), "load-vi-id", "the version index entry must name the loaded silence", a)
			}
		}
		// findVersionGreaterThan strict
		fv := o.Fn("(am/silence.versionIndex).findVersionGreaterThan$1")
		rets := (&Walk{Fn: fv}).FromEntry().Returns()
		o.Require(len(rets) == 1, "fvgt", "findVersionGreaterThan's predicate must be a single comparison", nil)
		v := e.X(fv, rets[0].Results[0])
		o.Site(rets[0], "version search predicate "+v)
		o.Check(v == "(^recv[p0].version > ^p0)" || v == "(^p0 < ^recv[p0].version)", "fvgt-strict", "the version search must find entries strictly newer than the given version, predicate is "+v, rets[0])
		lockBalanceRule(o, "am/silence")
		o.Check(n >= 20, "few-accesses", "implausibly few index accesses found: "+itoa(n), nil)
		o.MinSites(20)
	})

	reg("C02", "C02.5", "T1", "cache invalidation: every overwrite of an existing silence id either bumps the version or cannot revive an expired silence", func(o *Ob) {
		e := o.E
		merge := o.Fn("(am/silence.state).merge")
		for _, cs := range e.callers[merge] {
			caller := cs.Caller
			name := fnName(caller)
			// only merges into the shared store matter
			if e.Arg(cs.Instr, 0) != "recv.st" {
				o.Note("merge into %s in %s: not the shared store", e.Arg(cs.Instr, 0), name)
				continue
			}
			o.Site(cs.Instr, "merge into the shared store")
			call := cs.Instr.(*ssa.Call)
			added := L(e.X(caller, call)+"#1", true)
			changed := L(e.X(caller, call)+"#0", true)
			// (i) version bump on the changed ∧ ¬added path before returning to the loop / function exit
			bumped := func() bool {
				w := &Walk{Fn: caller, Cut: e.CutContradicting(changed, added.Neg()), Barrier: IsCall("(*am/silence.Silences).indexSilence")}
				r := w.After(cs.Instr)
				if len(r.Returns()) > 0 {
					return false
				}
				if l := e.LoopOf(cs.Instr); l != nil {
					for _, be := range l.Back {
						if r.Edge[be] {
							return false
						}
					}
				}
				return true
			}()
			if bumped {
				o.Check(true, "", "", nil)
				continue
			}
			// (ii)-(iv): the caller's own call sites establish that an expired silence cannot be revived
			if name == "(*am/silence.Silences).setSilence" {
				for _, up := range e.callers[caller] {
					un := fnName(up.Caller)
					o.Site(up.Instr, "store of an existing or new id via setSilence")
					ok, how := false, ""
					switch un {
					case "(*am/silence.Silences).Set":
						f := up.Caller
						cu := e.Calls(f, "am/silence.canUpdate")
						if len(cu) == 1 && e.OnlyUnder(up.Instr, L(e.X(f, cu[0].(*ssa.Call)), true)) {
							// canUpdate's table (C12.2) is false for expired silences
							ok, how = true, "guarded by canUpdate(prev, …), which is false for an expired silence (C12.2)"
						} else {
							// fresh id
							ids := e.StoresTo(f, "p1.Id")
							fresh := len(ids) > 0
							for _, st := range ids {
								if !strings.Contains(e.X(f, st.Val), "github.com/google/uuid.NewRandom()#0") {
									fresh = false
								}
							}
							if fresh && !(&Walk{Fn: f, Barrier: func(in ssa.Instruction) bool {
								st, ok := in.(*ssa.Store)
								return ok && e.X(f, st.Addr) == "p1.Id"
							}, Cut: func(b *ssa.BasicBlock, s int) bool {
								return len(cu) == 1 && e.CutLits(L(e.X(f, cu[0].(*ssa.Call)), true))(b, s)
							}}).FromEntry().Has(up.Instr) {
								ok, how = true, "the stored id is a fresh UUID: it cannot overwrite an existing silence"
							}
						}
					case "(*am/silence.Silences).expire":
						f := up.Caller
						// EndsAt is only ever assigned now
						all := true
						for _, in := range AllInstrs(f) {
							if st, isSt := in.(*ssa.Store); isSt && strings.HasSuffix(e.X(f, st.Addr), ".EndsAt") {
								if e.X(f, st.Val) != "timestamppb.New((*am/silence.Silences).nowUTC(recv))" {
									all = false
								}
							}
						}
						if all {
							ok, how = true, "expire only ever moves EndsAt to now: the silence cannot become active again"
						}
					}
					o.Check(ok, "revive|"+un, un+" overwrites an existing silence id through setSilence without a version bump and without a guard that excludes reviving an expired silence: Silencer caches that dropped the id will never see it again", up.Instr)
					if ok {
						o.Note("%s: %s", un, how)
					}
				}
				continue
			}
			o.Fail("revive|"+name, name+" overwrites an existing silence id (merge reports changed ∧ ¬added) without bumping the version: an expired silence revived by a later replicated edit is active for Query but Silencer.Mutes, whose cache dropped the id, keeps answering 'not muted'", cs.Instr)
		}
		o.MinSites(3)
	})

	reg("C02", "C02.6", "T8,T4,T5", "alert GC evicts the silencer cache; the cache map is only touched under its lock", func(o *Ob) {
		e := o.E
		pg := o.Fn("(*am/silence.Silencer).PostGC")
		// every collected fingerprint is evicted: through cache.delete, or by deleting from the cache's map directly
		var d ssa.Instruction
		for _, c := range e.Calls(pg, "(*am/silence.cache).delete") {
			if o.Check(e.Arg(c, 0) == "recv.cache" && e.Arg(c, 1) == "p0[i]", "postgc-arg", "PostGC must evict every collected fingerprint", c) {
				d = c
			}
		}
		for _, in := range AllInstrs(pg) {
			if c, ok := in.(*ssa.Call); ok && isBuiltinCall("delete")(in) && e.X(pg, c.Call.Args[0]) == "recv.cache.entries" {
				if o.Check(e.X(pg, c.Call.Args[1]) == "p0[i]", "postgc-arg", "PostGC must evict every collected fingerprint", c) {
					d = c
				}
			}
		}
		o.Require(d != nil, "postgc-delete", "PostGC must evict the cache", nil)
		o.Site(d, "evict on alert GC")
		l := e.LoopOf(d)
		if o.Check(l != nil, "postgc-loop", "PostGC must loop over the collected fingerprints", d) {
			o.Check(e.CoversAll(l, "p0") && len(e.EarlyExits(l)) == 0 && !loopBackWithout(o, l, IsInstr(d), nil), "postgc-all", "PostGC must visit all collected fingerprints", d)
			// the loop itself is skipped at most when nothing was collected
			nothing := LRe(`\(len\(p0\) == 0\)|\(len\(p0\) < 1\)`, true)
			skip := (&Walk{Fn: pg, Cut: e.CutContradicting(nothing.Neg()), Barrier: func(in ssa.Instruction) bool { return in.Block() == l.Header }}).FromEntry().Returns()
			o.Check(len(skip) == 0, "postgc-skipped", "PostGC can return without evicting although fingerprints were collected", firstRet(skip))
		}
		// mem.Alerts.gc hands all deleted fingerprints to the callback
		gc := o.Fn("(*am/provider/mem.Alerts).gc")
		pc := o.One(e.Calls(gc, "invoke:am/provider/mem.AlertStoreCallback.PostGC"), "gc-callback", "the alert provider's GC must notify its callback", gc)
		o.Site(pc, "provider GC callback")
		// app wires the silencer as callback
		n := o.LockedAccesses("am/silence.cache", "entries", "mtx", map[string]string{"am/silence.NewSilencer": "constructor"})
		o.Check(n >= 3, "cache-accesses", "implausibly few cache accesses", nil)
		o.MinSites(4)
	})

	reg("C02", "C02.8", "T1,T8,T11", "Query: a silence is returned iff all filters match; QState uses the query's now; QMatches uses the compiled matcher sets; matcherIndex.add compiles every set into its own slice with the right operator", func(o *Ob) {
		e := o.E
		queryFilterRule(o)
		// QState
		qs := o.Fn("am/silence.QState$1$1")
		in := LRe(`slices\.Contains\(\^\^p0, am/silence\.getState\(p0, p2\)\)`, true)
		o.Table(qs, "qstate", []Row{
			{Name: "state listed", Assume: A(in), Ret: [][]string{Vals("true"), Vals("nil")}},
			{Name: "state not listed", Assume: A(in.Neg()), Ret: [][]string{Vals("false"), Vals("nil")}},
		})
		// QMatches
		qm := o.Fn("am/silence.QMatches$1$1")
		// (the index lookup is read in place: matcherIndex.get is transparent)
		mm := o.One(e.Calls(qm, "(am/pkg/labels.MatcherSet).Matches"), "qmatches-matches", "QMatches must evaluate MatcherSet.Matches", qm)
		o.Site(mm, "MatcherSet.Matches")
		const compiled = "p1.mi[p0.Id]"
		known := L(compiled+"#1", true)
		o.Check(e.CountLitEdges(qm, known)+e.CountLitEdges(qm, known.Neg()) > 0, "qmatches-get", "QMatches must use the compiled matchers of the silence: it no longer tests whether the silence is indexed", mm)
		{
			r := (&Walk{Fn: qm, Cut: e.CutContradicting(known)}).FromEntry()
			o.Check(r.Has(mm), "qmatches-get", "an indexed silence is not evaluated", mm)
			for _, v := range e.ValStrs(qm, e.ValsAt(r, mm, mm.Common().Args[0])) {
				o.Check(v == compiled+"#0", "qmatches-args", "QMatches must match the silence's compiled matchers from the store's index, matches "+clip(v), mm)
			}
			o.Check(e.Arg(mm, 1) == "^^p0", "qmatches-args", "QMatches must match against the query's label set, matches against "+e.Arg(mm, 1), mm)
			for _, ret := range r.Returns() {
				for _, v := range e.ValStrs(qm, e.RetVals(r, ret, 0)) {
					o.Check(v == e.X(qm, mm.(*ssa.Call)), "qmatches-result", "QMatches must return the match result unchanged, returns "+clip(v), ret)
				}
			}
		}
		{
			r := (&Walk{Fn: qm, Cut: e.CutContradicting(known.Neg())}).FromEntry()
			for _, ret := range r.Returns() {
				for _, v := range e.ValStrs(qm, e.RetVals(r, ret, 1)) {
					o.Check(v != "nil", "qmatches-unindexed", "a silence without compiled matchers must be an error of the query, not a verdict", ret)
				}
			}
		}
		// matcherIndex.add
		matcherIndexAddRule(o)
		o.MinSites(6)
	})
}

// matcherIndexAddRule: every matcher set of the silence is compiled into its own
// fresh Matchers value (no aliasing between sets), every matcher of a set is
// compiled with the operator corresponding to its protobuf type, and the
// result is stored under the silence id.
func matcherIndexAddRule(o *Ob) {
	e := o.E
	fn := o.Fn("(am/silence.matcherIndex).add")
	nm := o.Some(e.Calls(fn, "am/pkg/labels.NewMatcher"), "mi-newmatcher", "matcherIndex.add must compile matchers with labels.NewMatcher", fn)
	pairs := [][2]string{{"Matcher_EQUAL", "MatchEqual"}, {"Matcher_NOT_EQUAL", "MatchNotEqual"}, {"Matcher_REGEXP", "MatchRegexp"}, {"Matcher_NOT_REGEXP", "MatchNotRegexp"}}
	want := map[int64]int64{}
	for _, pr := range pairs {
		a, ok1 := e.ConstInt("am/silence/silencepb", pr[0])
		b, ok2 := e.ConstInt("am/pkg/labels", pr[1])
		o.Require(ok1 && ok2, "mi-consts", "matcher type constants "+pr[0]+" / "+pr[1]+" not found", nil)
		want[a] = b
	}
	for _, c := range nm {
		o.Site(c, "compile "+e.X(fn, c.(*ssa.Call)))
		o.Check(strings.HasSuffix(e.Arg(c, 1), ".Name") && strings.HasSuffix(e.Arg(c, 2), ".Pattern"), "mi-args", "a matcher must be compiled from the protobuf matcher's name and pattern", c)
		mt := c.Common().Args[0]
		phi, ok := mt.(*ssa.Phi)
		if !o.Check(ok, "mi-type-phi", "the match type is not selected per protobuf type", c) {
			continue
		}
		// each incoming edge comes from a block entered under (m.Type == K): it must carry the labels constant for K
		seen := map[int64]bool{}
		for i, ed := range phi.Edges {
			k, ok := ed.(*ssa.Const)
			if !ok {
				o.Fail("mi-type-nonconst", "the match type is not a constant per protobuf type", c)
				continue
			}
			pred := phi.Block().Preds[i]
			lit := ""
			if len(pred.Preds) == 1 {
				pp := pred.Preds[0]
				for si, sx := range pp.Succs {
					if sx == pred {
						if l, ok := e.EdgeLit(pp, si); ok && l.Pos {
							lit = l.Atom
						}
					}
				}
			}
			kv, _ := constant.Int64Val(k.Value)
			idx := strings.LastIndex(lit, ".Type == ")
			if !o.Check(idx > 0, "mi-type-test", "cannot relate match type "+itoa(int(kv))+" to a test of the protobuf matcher type (controlling condition: '"+lit+"')", c) {
				continue
			}
			var pbv int64
			for _, ch := range strings.TrimSuffix(lit[idx+len(".Type == "):], ")") {
				pbv = pbv*10 + int64(ch-'0')
			}
			seen[pbv] = true
			o.Check(want[pbv] == kv, "mi-type-map", "protobuf matcher type "+itoa(int(pbv))+" is compiled as labels match type "+itoa(int(kv))+", expected "+itoa(int(want[pbv]))+": the silence would use a different operator than the one stored", c)
		}
		o.Check(len(seen) == 4, "mi-type-cover", "not all four protobuf matcher types are compiled", c)
		// loops: inner over ms.Matchers, outer over s.MatcherSets; no early exit but error returns
		l := e.LoopOf(c)
		if o.Check(l != nil, "mi-inner-loop", "matchers are not compiled in a loop", c) {
			coll, _ := e.RangeOver(l)
			o.Check(strings.HasSuffix(coll, ".Matchers"), "mi-inner-range", "every matcher of a set must be compiled, loop ranges over "+coll, c)
		}
	}
	// the per-set Matchers value must be allocated inside the outer loop (fresh per set)
	var mu *ssa.MapUpdate
	for _, in := range AllInstrs(fn) {
		if m, ok := in.(*ssa.MapUpdate); ok && e.X(fn, m.Map) == "recv" {
			mu = m
		}
	}
	o.Require(mu != nil, "mi-store", "matcherIndex.add no longer stores the compiled set", nil)
	o.Check(e.X(fn, mu.Key) == "p0.Id", "mi-store-key", "the compiled set must be stored under the silence id", mu)
	_, parts := e.AppendParts(mu.Value)
	o.Require(len(parts) >= 1, "mi-sets", "the compiled matcher set is not built by appending per-set matchers", mu)
	for _, p := range parts {
		l := e.LoopOf(p.Call)
		if !o.Check(l != nil, "mi-outer-loop", "matcher sets are not compiled in a loop", p.Call) {
			continue
		}
		coll, _ := e.RangeOver(l)
		o.Check(coll == "p0.MatcherSets", "mi-outer-range", "every matcher set of the silence must be compiled", p.Call)
		// p.V is a pointer to the Matchers cell: it must be allocated inside the loop
		al, ok := p.V.(*ssa.Alloc)
		o.Site(p.Call, "set appended: "+e.X(fn, p.V))
		if o.Check(ok, "mi-set-alloc", "a compiled set must be appended as a pointer to its own Matchers value", p.Call) {
			o.Check(l.Blocks[al.Block().Index], "mi-set-aliased", "all compiled matcher sets share one Matchers variable declared outside the loop: every set of a multi-set silence ends up equal to the last one", p.Call)
			// and the cell's slice must be made inside the loop too
			vals, _ := e.boxValues(al)
			for _, v := range vals {
				if ms, ok := v.(*ssa.MakeSlice); ok {
					o.Check(l.Blocks[ms.Block().Index], "mi-set-shared-backing", "the matchers slice of a set is allocated outside the per-set loop", p.Call)
				}
			}
		}
	}
}

// queryFilterSites: the calls through q.filters[i] in Silences.query and its literals.
func queryFilterSites(o *Ob) []*ssa.Call {
	e := o.E
	q := o.Fn("(*am/silence.Silences).query")
	var out []*ssa.Call
	for _, f := range append([]*ssa.Function{q}, Anons(q)...) {
		for _, in := range AllInstrs(f) {
			c, ok := in.(*ssa.Call)
			if !ok || c.Call.IsInvoke() || c.Call.StaticCallee() != nil {
				continue
			}
			if regexpMatch(`\^?p0\.filters\[i\]`, e.X(f, c.Call.Value)) {
				out = append(out, c)
			}
		}
	}
	o.Require(len(out) >= 1, "filters-call", "Silences.query no longer applies the query's filters", nil)
	return out
}

// queryFilterRule: a candidate silence is added to the result iff every filter of the query accepted it;
// a failing filter ends the query with its error; the id scan covers every requested id, the incremental scan
// the version index from the first entry newer than 'since'.  Stated per filter call site, wherever the filter
// loop lives (a literal, a method or the scan loops themselves).
func queryFilterRule(o *Ob) {
	e := o.E
	q := o.Fn("(*am/silence.Silences).query")
	for _, fc := range queryFilterSites(o) {
		f := fc.Parent()
		fx := e.X(f, fc)
		o.Site(fc, "filter call "+fx)
		o.Check(regexpMatch(`\^?recv`, e.X(f, fc.Call.Args[1])) && regexpMatch(`\^?p1`, e.X(f, fc.Call.Args[2])), "filters-now", "filters must be evaluated on this store at the query's now", fc)
		cand := e.X(f, fc.Call.Args[0])
		m := L(fx+"#0", true)
		errNil := L("("+fx+"#1 == nil)", true)
		inner := e.LoopOf(fc)
		if !o.Check(inner != nil, "filters-loop", "filters are not applied in a loop", fc) {
			continue
		}
		coll, kind := e.RangeOver(inner)
		o.Check(regexpMatch(`\^?p0\.filters`, coll) && kind == "index", "filters-range", "every filter of the query must be applied", fc)
		o.LoopExitsGuarded(inner, "filters-exit", "skipping the remaining filters is only allowed when one rejected or failed", m.Neg(), errNil.Neg())
		// the scan loop around the filter loop, if it is in the same function
		var outer *Loop
		for _, l := range e.Loops(f) {
			if l.Blocks[fc.Block().Index] && l.Header != inner.Header && (outer == nil || len(l.Blocks) < len(outer.Blocks)) {
				outer = l
			}
		}
		nextCandidate := func(in ssa.Instruction) bool {
			return outer != nil && in.Block() == outer.Header && in == outer.Header.Instrs[0]
		}
		clones := e.Calls(f, "am/silence.cloneSilence")
		isClone := func(in ssa.Instruction) bool {
			c, ok := in.(*ssa.Call)
			return ok && calleeName(&c.Call) == "am/silence.cloneSilence" && e.X(f, c.Call.Args[0]) == cand
		}
		o.Check(len(clones) >= 1, "append-clone", "a matching silence must be added to the result as a clone", fc)
		// rejected or failed ⇒ this candidate is not added
		for _, pr := range []struct {
			lit LitM
			key string
		}{{m.Neg(), "rejects"}, {errNil.Neg(), "fails"}} {
			ecs := e.EdgesAsserting(f, pr.lit)
			o.Check(len(ecs) > 0, pr.key+"-notest", "the result of a filter ("+pr.key+") is not tested", fc)
			for _, ec := range ecs {
				r := (&Walk{Fn: f, Barrier: nextCandidate}).FromEdgeCtx(ec)
				for _, in := range AllInstrs(f) {
					if r.Has(in) && isClone(in) {
						o.Fail(pr.key+"-appends", "after a filter "+pr.key+" the silence can still be added to the result", in)
					}
				}
				if pr.key == "fails" {
					for _, ret := range r.Returns() {
						last := len(ret.Results) - 1
						src := false
						for _, v := range e.RetVals(r, ret, last) {
							if e.DerivesFrom(v, false, func(x ssa.Value) bool { return x == ssa.Value(fc) }) {
								src = true
							} else {
								src = false
								break
							}
						}
						o.Check(src, "fails-ret", "a failing filter must end the evaluation with the filter's error", ret)
					}
					// a failing filter must not let the scan go on to the next candidate
					if outer != nil {
						for _, be := range outer.Back {
							o.Check(!r.Edge[be], "fails-continues", "after a failing filter the scan goes on", fc)
						}
					}
				}
				o.Checks++
				o.Passed++
			}
		}
		// all filters passed ⇒ added (before the next candidate / the return)
		hx, _ := inner.HeaderExit()
		r := (&Walk{Fn: f, Barrier: func(in ssa.Instruction) bool { return isClone(in) }}).FromEdge(inner.Header, hx)
		reachedNext := false
		if outer != nil {
			for _, be := range outer.Back {
				if r.Edge[be] {
					reachedNext = true
				}
			}
		}
		o.Check(len(r.Returns()) == 0 && !reachedNext, "filters-pass-noappend", "a silence that passed every filter may be left out of the result", fc)
	}
	// the scans: every requested id, or the version index from the first entry newer than 'since'
	fv := o.One(e.Calls(q, "(am/silence.versionIndex).findVersionGreaterThan"), "since-search", "the incremental query must locate its start with findVersionGreaterThan", q)
	o.Check(e.Arg(fv, 0) == "recv.vi" && e.Arg(fv, 1) == "*p0.since", "since-search-args", "the search must be over the version index for the requested version", fv)
	start := "phi(" + e.X(q, fv.(*ssa.Call)) + "#0|0)"
	evaluates := func(in ssa.Instruction) bool {
		c, ok := in.(*ssa.Call)
		if !ok {
			return false
		}
		if calleeName(&c.Call) == "(*am/silence.Silences).query$2" {
			return true
		}
		return !c.Call.IsInvoke() && c.Call.StaticCallee() == nil && regexpMatch(`p0\.filters\[i\]`, e.X(q, c.Call.Value))
	}
	nScan := 0
	for _, l := range e.Loops(q) {
		// a scan loop is an outermost loop that evaluates candidates
		has := false
		for bi := range l.Blocks {
			for _, in := range q.Blocks[bi].Instrs {
				if evaluates(in) {
					has = true
				}
			}
		}
		nested := false
		for _, l2 := range e.Loops(q) {
			if l2.Header != l.Header && l2.Blocks[l.Header.Index] {
				nested = true
			}
		}
		if !has || nested {
			continue
		}
		nScan++
		coll, kind := e.RangeOver(l)
		desc := coll
		okColl := coll == "p0.ids" && kind == "index" || strings.HasPrefix(coll, "slice(recv.vi,lo="+start+")")
		if !okColl {
			if c2, st, ok := e.IndexLoopFrom(l); ok {
				desc = c2 + " from " + st
				okColl = c2 == "recv.vi" && st == start
			}
		}
		o.SiteS("scan over " + desc)
		o.Check(okColl, "scan-range", "query scans "+desc+": it must scan all requested ids, or the version index from the first entry newer than 'since'", fnFirst(q))
		o.LoopExitsGuarded(l, "scan-exit", "a scan may only be abandoned on a filter error",
			LRe(`\(\(\*am/silence\.Silences\)\.query\$2\(.*\)#1 == nil\)`, false), LRe(`\(dyn\(fn=p0\.filters\[i\], .*\)#1 == nil\)`, false))
	}
	o.Check(nScan >= 2, "scans", "query must have the id scan and the version-index scan", fnFirst(q))
}

// silencerCacheCellRule: the silencer's per-alert cache pairs a list of silence ids with the store version that list
// was computed at.  The pair must stay a pair: an entry is immutable once built (its fields are only written in the
// function that allocates it), set files exactly the entry it is given under the given fingerprint, get hands back
// what is filed there (or an empty entry at version 0), delete removes it.
func silencerCacheCellRule(o *Ob) {
	e := o.E
	for _, fn := range e.FuncsOfPkg("am/silence") {
		for _, f := range []string{"version", "silenceIDs"} {
			for _, st := range e.StoresToField(fn, "am/silence.cacheEntry", f) {
				_, fresh := st.Addr.(*ssa.FieldAddr).X.(*ssa.Alloc)
				o.Site(st, fnName(fn)+" initialises cacheEntry."+f)
				o.Check(fresh, "entry-immutable|"+f+"|"+fnName(fn), fnName(fn)+" changes "+f+" of an existing cache entry: ids and version no longer belong together (a newer silence would never be looked at, or an older list would count as current)", st)
			}
		}
	}
	nc := o.Fn("am/silence.newCacheEntry")
	for f, want := range map[string]string{"version": "p0", "silenceIDs": "p1"} {
		sts := e.StoresToField(nc, "am/silence.cacheEntry", f)
		o.Check(len(sts) == 1 && e.X(nc, sts[0].Val) == want, "entry-new|"+f, "newCacheEntry must build the entry from its arguments ("+f+")", fnFirst(nc))
	}
	set := o.Fn("(*am/silence.cache).set")
	n := 0
	var mu ssa.Instruction
	for _, in := range AllInstrs(set) {
		if m, ok := in.(*ssa.MapUpdate); ok {
			n++
			mu = m
			o.Site(m, "cache.set")
			o.Check(e.X(set, m.Map) == "recv.entries" && e.X(set, m.Key) == "p0" && e.X(set, m.Value) == "p1", "set-value", "cache.set must file exactly the given entry under the given fingerprint, files "+e.X(set, m.Value)+" under "+e.X(set, m.Key), m)
		}
	}
	if o.Check(n == 1, "set-site", "cache.set must write the map in one place", fnFirst(set)) {
		o.Check(len((&Walk{Fn: set, Barrier: IsInstr(mu)}).FromEntry().Returns()) == 0, "set-skipped", "cache.set can return without filing the entry (a stale entry would stay current)", mu)
	}
	for _, w := range e.WritesThroughParam(set, 2, 1) {
		o.Fail("set-mutates", "cache.set changes the entry it is given ("+w.What+")", w.Instr)
	}
	get := o.Fn("(*am/silence.cache).get")
	found := L("recv.entries[p0]#1", true)
	o.Site(fnFirst(get), "cache.get")
	o.Table(get, "get", []Row{
		{Name: "filed", Assume: A(found), Ret: [][]string{Vals("recv.entries[p0]#0")}},
		{Name: "not filed", Assume: A(found.Neg()), Ret: [][]string{Vals("&complit:am/silence.cacheEntry", "am/silence.newCacheEntry(0, nil)", "am/silence.newCacheEntry(0, [])")}},
	})
	for _, f := range []string{"version", "silenceIDs"} {
		o.Check(len(e.StoresToField(get, "am/silence.cacheEntry", f)) == 0, "get-empty|"+f, "the entry for an unknown alert must be empty at version 0", fnFirst(get))
	}
	del := o.Fn("(*am/silence.cache).delete")
	d := 0
	for _, in := range AllInstrs(del) {
		if c, ok := in.(*ssa.Call); ok {
			if b, isB := c.Call.Value.(*ssa.Builtin); isB && b.Name() == "delete" {
				d++
				o.Check(e.X(del, c.Call.Args[0]) == "recv.entries" && e.X(del, c.Call.Args[1]) == "p0", "delete-key", "cache.delete must remove the given fingerprint", c)
			}
		}
	}
	o.Check(d == 1, "delete-site", "cache.delete no longer removes the entry", fnFirst(del))
}

func init() {
	reg("C02", "C02.16", "T3,T6", "the silencer cache keeps ids and version together: cache entries are immutable once built; set files exactly the given entry, get returns what is filed or an empty entry at version 0, delete removes it", func(o *Ob) {
		silencerCacheCellRule(o)
		o.MinSites(4)
	})
}

// queryVersionRule (C02.20): the version a query reports is the version of the state it scanned.  The
// silencer stamps its per-alert cache entry with that number and afterwards only looks at silences indexed
// above it; a number read after the scan's lock was released can already include a silence the scan did not
// see, which would then never be evaluated for that alert.
func queryVersionRule(o *Ob) {
	e := o.E
	q := o.Fn("(*am/silence.Silences).query")
	rl := o.One(e.Calls(q, "(*sync.RWMutex).RLock"), "scan-lock", "the scan must take the read lock once", q)
	o.Site(rl, "query: scan and version under one read lock")
	for _, c := range e.Calls(q, "(*sync.RWMutex).RUnlock") {
		_, deferred := c.(*ssa.Defer)
		o.Check(deferred, "scan-unlock", "the read lock is released inside the scan: version and result may belong to different states", c)
	}
	n := 0
	for _, rs := range e.ResultStores(q, 1) {
		if !(&Walk{Fn: q}).After(rl).Has(rs.Instr) {
			continue
		}
		n++
		v := e.X(q, rs.Val)
		o.Check(v == "recv.version", "scan-version", "the scan reports version "+clip(v)+", not the store's version", rs.Instr)
		if ld, ok := rs.Val.(ssa.Instruction); ok {
			held, why := e.HeldAt(ld, q.Params[0], "mtx", 'R', 0)
			o.Check(held, "scan-version-locked", "the reported version is read without the scan's read lock: "+why, ld)
		}
	}
	o.Check(n >= 1, "scan-version", "the scan no longer reports a version", fnFirst(q))
	Q := o.Fn("(*am/silence.Silences).Query")
	qc := o.One(e.Calls(Q, "(*am/silence.Silences).query"), "query-scan", "Query must scan through query", Q)
	want := e.X(Q, qc.(*ssa.Call)) + "#1"
	r := (&Walk{Fn: Q}).After(qc)
	m := 0
	for _, rs := range e.ResultStores(Q, 1) {
		if !r.Has(rs.Instr) {
			continue
		}
		m++
		o.Site(rs.Instr, "Query reports the scan's version")
		for _, v := range e.ValStrs(Q, e.ValsAt(r, rs.Instr, rs.Val)) {
			o.Check(v == want, "query-version", "Query reports version "+clip(v)+" with the result of a scan made at another moment: a silence stored in between is never evaluated for the alerts whose cache is stamped with it", rs.Instr)
		}
	}
	o.Check(m >= 1, "query-version", "Query no longer reports a version with its result", qc)
	o.MinSites(2)
}
