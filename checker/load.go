package main

import (
	"fmt"
	"go/constant"
	"go/token"
	"go/types"
	"os"
	"os/exec"
	"path/filepath"
	"sort"
	"strings"

	"golang.org/x/tools/go/packages"
	"golang.org/x/tools/go/ssa"
	"golang.org/x/tools/go/ssa/ssautil"
)

// Mod is the module path of the analysed repository; rules write "am/..." for it.
const Mod = "github.com/prometheus/alertmanager"

// Eng holds the resolved program of one run.
type Eng struct {
	Dir      string
	Fset     *token.FileSet
	Pkgs     []*packages.Package
	Prog     *ssa.Program
	SSAPkgs  map[string]*ssa.Package // by import path
	TypeErrs map[string][]string     // by import path
	GoVer    string

	allFuncs []*ssa.Function // functions of the module (incl. anonymous), deterministic order
	byName   map[string]*ssa.Function
	callers  map[*ssa.Function][]CallSite

	boxCache      map[*ssa.Alloc][]ssa.Value
	reachCache    map[[2]ssa.Instruction]bool
	edgeLitsCache map[[2]interface{}][]Lit
	eqConstCache  map[string][]string

	allSSA    map[*ssa.Function]bool
	InlineLog []string               // helpers made transparent (functions absent from the reference tree)
	absorbed  map[*ssa.Function]bool // such helpers with no remaining reference
}

// CallSite is a static call of a module function.
type CallSite struct {
	Caller *ssa.Function
	Instr  ssa.CallInstruction
}

var abbrev = strings.NewReplacer(
	Mod+"/", "am/",
	"google.golang.org/protobuf/types/known/timestamppb.", "timestamppb.",
	"google.golang.org/protobuf/proto.", "proto.",
	"github.com/prometheus/common/model.", "model.",
	"github.com/prometheus/client_golang/prometheus.", "prometheus.",
)

func short(s string) string { return abbrev.Replace(s) }
func long(s string) string  { return strings.ReplaceAll(s, "am/", Mod+"/") }

// Load loads and type-checks every package of dir and builds SSA.
func Load(dir string, overlay map[string][]byte) (*Eng, error) {
	e := &Eng{Dir: dir, TypeErrs: map[string][]string{}, SSAPkgs: map[string]*ssa.Package{},
		byName: map[string]*ssa.Function{}, callers: map[*ssa.Function][]CallSite{},
		boxCache: map[*ssa.Alloc][]ssa.Value{}}
	gobin, gover := findGo()
	if gobin == "" {
		return nil, fmt.Errorf("no Go >= 1.25 toolchain found")
	}
	e.GoVer = gover
	os.Setenv("PATH", gobin+string(os.PathListSeparator)+os.Getenv("PATH"))
	os.Unsetenv("GOSUMDB")
	var env []string
	for _, kv := range os.Environ() {
		if strings.HasPrefix(kv, "PATH=") || strings.HasPrefix(kv, "GOSUMDB=") || strings.HasPrefix(kv, "GOFLAGS=") ||
			strings.HasPrefix(kv, "GOPROXY=") || strings.HasPrefix(kv, "GOWORK=") || strings.HasPrefix(kv, "GOTOOLCHAIN=") {
			continue
		}
		env = append(env, kv)
	}
	env = append(env, "PATH="+gobin+string(os.PathListSeparator)+os.Getenv("PATH"),
		"GOFLAGS=-mod=mod", "GOPROXY=off", "GOWORK=off", "GOTOOLCHAIN=local")
	cfg := &packages.Config{
		Mode:    packages.LoadAllSyntax,
		Dir:     dir,
		Env:     env,
		Tests:   false,
		Overlay: overlay,
	}
	pkgs, err := packages.Load(cfg, "./...")
	if err != nil {
		return nil, fmt.Errorf("packages.Load: %w", err)
	}
	if len(pkgs) == 0 {
		return nil, fmt.Errorf("no packages loaded from %s", dir)
	}
	sort.Slice(pkgs, func(i, j int) bool { return pkgs[i].PkgPath < pkgs[j].PkgPath })
	e.Pkgs = pkgs
	e.Fset = pkgs[0].Fset
	for _, p := range pkgs {
		for _, er := range p.Errors {
			e.TypeErrs[p.PkgPath] = append(e.TypeErrs[p.PkgPath], er.Error())
		}
		if p.Types == nil || p.IllTyped && len(p.Syntax) == 0 {
			e.TypeErrs[p.PkgPath] = append(e.TypeErrs[p.PkgPath], "package has no type information")
		}
	}
	prog, ssapkgs := ssautil.AllPackages(pkgs, ssa.InstantiateGenerics)
	e.Prog = prog
	for i, sp := range ssapkgs {
		if sp != nil {
			e.SSAPkgs[pkgs[i].PkgPath] = sp
		}
	}
	func() {
		defer func() {
			if r := recover(); r != nil {
				err = fmt.Errorf("SSA build panicked: %v", r)
			}
		}()
		prog.Build()
	}()
	if err != nil {
		return nil, err
	}
	// Index module functions.
	all := ssautil.AllFunctions(prog)
	e.allSSA = all
	if os.Getenv("AMVERIF_NOINLINE") == "" {
		func() {
			defer func() {
				if r := recover(); r != nil {
					err = fmt.Errorf("helper inlining failed: %v", r)
				}
			}()
			e.inlineNewHelpers(all)
		}()
		if err != nil {
			// The program may be half-edited: load it again and analyse it as written.  The rules then
			// see new helpers as opaque calls (they may report what moved into them), but the run
			// still gives a verdict instead of failing.
			msg := err.Error()
			os.Setenv("AMVERIF_NOINLINE", "1")
			e2, err2 := Load(dir, overlay)
			os.Unsetenv("AMVERIF_NOINLINE")
			if err2 != nil {
				return nil, err2
			}
			e2.InlineLog = append(e2.InlineLog, "NOT APPLIED — "+msg+": new helpers are analysed as opaque calls in this run")
			return e2, nil
		}
	}
	for fn := range all {
		if e.absorbed[fn] {
			continue
		}
		if fn.Pkg == nil && fn.Origin() == nil {
			// synthetic wrappers without package: keep only if they belong to module types
		}
		p := fnPkgPath(fn)
		if !strings.HasPrefix(p, Mod) {
			continue
		}
		if fn.Blocks == nil {
			continue
		}
		if fn.Synthetic != "" && fn.Parent() == nil && fn.Origin() == nil {
			// wrappers, bound methods, thunks, init: skip wrappers but keep package init
			if fn.Name() != "init" {
				continue
			}
		}
		e.allFuncs = append(e.allFuncs, fn)
	}
	sort.Slice(e.allFuncs, func(i, j int) bool {
		a, b := e.allFuncs[i], e.allFuncs[j]
		if a.String() != b.String() {
			return a.String() < b.String()
		}
		return a.Pos() < b.Pos()
	})
	for _, fn := range e.allFuncs {
		if _, dup := e.byName[fn.String()]; !dup {
			e.byName[fn.String()] = fn
		}
	}
	// generic instances are also reachable under their origin's name (first instance in order)
	for _, fn := range e.allFuncs {
		if o := fn.Origin(); o != nil {
			if _, dup := e.byName[o.String()]; !dup {
				e.byName[o.String()] = fn
			}
		}
	}
	for _, fn := range e.allFuncs {
		for _, b := range fn.Blocks {
			for _, in := range b.Instrs {
				ci, ok := in.(ssa.CallInstruction)
				if !ok {
					continue
				}
				if cal := ci.Common().StaticCallee(); cal != nil {
					e.callers[cal] = append(e.callers[cal], CallSite{fn, ci})
					if o := cal.Origin(); o != nil {
						e.callers[o] = append(e.callers[o], CallSite{fn, ci})
					}
				}
			}
		}
	}
	return e, nil
}

// findGo locates a Go toolchain >= 1.25 offline (same candidates as tools/findgo.sh).
func findGo() (bindir, version string) {
	cands := []string{
		"/root/go/pkg/mod/golang.org/toolchain@v0.0.1-go1.25.0.linux-amd64/bin",
		"/opt/veriftools/go1.26.8/bin",
		"/root/go/pkg/mod/golang.org/toolchain@v0.0.1-go1.26.8.linux-amd64/bin",
		"/root/go/pkg/mod/golang.org/toolchain@v0.0.1-go1.26.0.linux-amd64/bin",
	}
	if d := os.Getenv("AMVERIF_GOBIN"); d != "" {
		cands = append([]string{d}, cands...)
	}
	for _, p := range filepath.SplitList(os.Getenv("PATH")) {
		cands = append(cands, p)
	}
	for _, d := range cands {
		g := filepath.Join(d, "go")
		if st, err := os.Stat(g); err != nil || st.IsDir() {
			continue
		}
		cmd := exec.Command(g, "env", "GOVERSION")
		cmd.Env = append(os.Environ(), "GOTOOLCHAIN=local")
		out, err := cmd.Output()
		if err != nil {
			continue
		}
		v := strings.TrimSpace(string(out))
		var maj, min int
		if _, err := fmt.Sscanf(v, "go%d.%d", &maj, &min); err == nil && (maj > 1 || maj == 1 && min >= 25) {
			return d, v
		}
	}
	return "", ""
}

func fnPkgPath(fn *ssa.Function) string {
	for f := fn; f != nil; f = f.Parent() {
		if f.Pkg != nil {
			return f.Pkg.Pkg.Path()
		}
		if o := f.Origin(); o != nil && o.Pkg != nil {
			return o.Pkg.Pkg.Path()
		}
		if f.Object() != nil && f.Object().Pkg() != nil {
			return f.Object().Pkg().Path()
		}
	}
	return ""
}

// Func resolves a function by its go/ssa name with "am/" standing for the module,
// e.g. "(*am/silence.Silences).Merge" or "am/silence.validateSilence".
func (e *Eng) Func(name string) *ssa.Function {
	return e.byName[long(name)]
}

// FuncsOfPkg returns the module functions (incl. literals) of one package.
func (e *Eng) FuncsOfPkg(pkg string) []*ssa.Function {
	pkg = long(pkg)
	var out []*ssa.Function
	for _, fn := range e.allFuncs {
		if fnPkgPath(fn) == pkg {
			out = append(out, fn)
		}
	}
	return out
}

// Anons returns fn's function literals, recursively, in source order.
func Anons(fn *ssa.Function) []*ssa.Function {
	var out []*ssa.Function
	var rec func(f *ssa.Function)
	rec = func(f *ssa.Function) {
		for _, a := range f.AnonFuncs {
			out = append(out, a)
			rec(a)
		}
	}
	rec(fn)
	return out
}

func (e *Eng) Pos(p token.Pos) string {
	if !p.IsValid() {
		return "?"
	}
	pp := e.Fset.Position(p)
	f := pp.Filename
	if strings.HasPrefix(f, e.Dir+"/") {
		f = f[len(e.Dir)+1:]
	}
	return fmt.Sprintf("%s:%d", f, pp.Line)
}

// InstrPos gives the best available position of an instruction.
func (e *Eng) InstrPos(in ssa.Instruction) string {
	if in == nil {
		return "?"
	}
	if p := in.Pos(); p.IsValid() {
		return e.Pos(p)
	}
	// look at operands / neighbours
	if v, ok := in.(ssa.Value); ok {
		_ = v
	}
	b := in.Block()
	if b != nil {
		idx := -1
		for i, x := range b.Instrs {
			if x == in {
				idx = i
			}
		}
		for i := idx - 1; i >= 0; i-- {
			if p := b.Instrs[i].Pos(); p.IsValid() {
				return e.Pos(p) + "+"
			}
		}
		for i := idx + 1; i < len(b.Instrs) && i >= 0; i++ {
			if p := b.Instrs[i].Pos(); p.IsValid() {
				return e.Pos(p) + "-"
			}
		}
	}
	if in.Parent() != nil {
		return e.Pos(in.Parent().Pos()) + "~"
	}
	return "?"
}

// NamedType looks up a named type of the module or its dependencies.
func (e *Eng) NamedType(pkg, name string) *types.Named {
	pkg = long(pkg)
	for _, p := range e.Prog.AllPackages() {
		if p.Pkg.Path() == pkg {
			if o := p.Pkg.Scope().Lookup(name); o != nil {
				if n, ok := o.Type().(*types.Named); ok {
					return n
				}
			}
		}
	}
	return nil
}

// ConstInt looks up an integer constant of a package by name.
func (e *Eng) ConstInt(pkg, name string) (int64, bool) {
	pkg = long(pkg)
	for _, p := range e.Prog.AllPackages() {
		if p.Pkg.Path() == pkg {
			if o := p.Pkg.Scope().Lookup(name); o != nil {
				if c, ok := o.(*types.Const); ok {
					return constant.Int64Val(constant.ToInt(c.Val()))
				}
			}
		}
	}
	return 0, false
}
