#!/usr/bin/env python3
"""Regenerate the rule table of DESIGN.md §13 from `bin/amverif list`."""
import re, subprocess
p = '/verif/DESIGN.md'
s = open(p).read()
out = subprocess.run(['/verif/bin/amverif', 'list'], capture_output=True, text=True).stdout
rows = []
for l in out.splitlines():
    m = re.match(r'^(C\d+) (C[\d.]+) \[([^\]]*)\](?: \(thorough\))? (.*)$', l)
    if m:
        rows.append('| %s | %s | %s |' % (m.group(2), m.group(3), m.group(4).replace('|', '\\|')))
hdr = '| rule | templates | decides |\n|---|---|---|\n'
a = s.index(hdr) + len(hdr)
b = s.index('\n## 14. Defects found on the pinned tree')
s = s[:a] + '\n'.join(rows) + '\n' + s[b:]
open(p, 'w').write(s)
print(len(rows), 'rules')
