#!/usr/bin/env python3
"""install_seed.py <prop> <A|B>: copy a confirmed seeded change from its scratch worktree into /verif/seeded/<prop>-<X>/."""
import json, os, shutil, sys, glob
prop, x = sys.argv[1], sys.argv[2]
base = sys.argv[3] if len(sys.argv) > 3 else "/tmp/wt"
src = f"{base}/{prop}/seedout/{x}"
dst = f"/verif/seeded/{prop}-{x}"
log = open(os.path.join(src, "confirm.log")).read()
res = [l for l in log.splitlines() if l.startswith("RESULT")]
assert res and "demo_without_patch=pass existing_tests_with_patch=pass demo_with_patch=fails" in res[-1], res
os.makedirs(dst, exist_ok=True)
shutil.copy(os.path.join(src, "patch.diff"), dst)
for f in glob.glob(os.path.join(src, "*.go")):
    shutil.copy(f, dst)
m = json.load(open(os.path.join(src, "meta.json")))
m["confirmed_by_me"] = {
    "how": "tools/confirm_seed.sh in the scratch worktree: demo passes on the clean tree; with the patch applied the existing tests of silence, notify, dispatch, api, cluster, nflog, inhibit, provider, store, config, cli, types, alert, limit, matcher, pkg, timeinterval, template, marker, featurecontrol, eventrecorder pass (go test -count=1 -vet=off); with patch + demo the demo fails",
    "result": res[-1],
}
json.dump(m, open(os.path.join(dst, "meta.json"), "w"), indent=1)
print("installed", dst)
