#!/bin/sh
# show the alarm lines and inlining log of one benign sweep result
f=/tmp/bensweep/$1.txt
grep "transparent" $f | sort -u
grep "^  rule" $f | sort -u | cut -c1-${2:-500}
