#!/bin/sh
# usage: benigntest.sh <patch.diff>  — apply a behaviour-preserving patch to a scratch copy and run ALL checks; any VIOLATION is a false alarm.
patch="$1"
d=$(mktemp -d /tmp/amben_XXXXXX)
rsync -a --exclude .git /repo/ "$d/"
( cd "$d" && patch -p1 -s < "$patch" ) || { echo "PATCH-FAILS $patch"; rm -rf "$d"; exit 3; }
AMVERIF_REPO="$d" AMVERIF_OUT="$d/.ev" /verif/bin/amverif all quick 2>&1 | grep -E "^(VIOLATION|  rule|amverif:)" | sed "s#$d/##g" | cut -c1-260
rm -rf "$d"
