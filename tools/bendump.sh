#!/bin/sh
# usage: bendump.sh <benign-name> <func-regexp> : dump the resolved form of functions on the patched tree
d=$(mktemp -d /tmp/amben_XXXXXX)
rsync -a --exclude .git /repo/ "$d/"
( cd "$d" && patch -p1 -s < /verif/benign/$1/patch.diff ) || { echo PATCH-FAILS; rm -rf "$d"; exit 3; }
AMVERIF_REPO="$d" /verif/bin/amverif dump "$2" 2>&1 | sed "s#$d/##g"
rm -rf "$d"
