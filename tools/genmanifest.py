#!/usr/bin/env python3
"""Regenerate MANIFEST.json from the rules registered in bin/amverif (claimed = properties that have rules)."""
import json, subprocess, collections
props=[json.loads(l) for l in open('/verif/properties.jsonl')]
out=subprocess.run(['/verif/bin/amverif','list'],capture_output=True,text=True).stdout
rules=collections.defaultdict(list)
for l in out.splitlines():
    p,rid,rest=l.split(' ',2)
    rules[p].append((rid,rest))
claimed=sorted(rules)
notes=json.load(open('/verif/tools/manifest_notes.json'))
checks=[]
for p in props:
    pid=p['id']
    if pid not in rules: continue
    n=notes.get(pid,{})
    checks.append({
      "property_id":pid,
      "quick_cmd":"./run.sh %s quick"%pid,
      "thorough_cmd":"./run.sh %s thorough"%pid,
      "evidence_file":"/verif/evidence/%s.json"%pid,
      "replay_cmd_template":"./bin/amverif explain {path}",
      "engine":"amverif",
      "level_claimed":{"category":"other",
         "text":n.get("text","Structural necessary conditions of the property (%d rule groups), decided for all paths of the anchored functions on the type-checked SSA of /repo's working tree. This is not a proof of the behavioural statement: it decides the part of it that is visible in the shape of the code; see DESIGN.md for what is not decided."%len(rules[pid])),
         "design_ref":"DESIGN.md §5 "+pid},
      "level_note":n.get("note","Trusted: go/types+go/ssa (x/tools v0.29.0) model of the source, Go runtime/stdlib contracts (sync, context, time, os), third-party libraries (protobuf, memberlist, yaml, prometheus/common). Rules decide guards, ordering, writer/caller sets, locksets and decision tables, never runtime values or timing."),
      "technique":n.get("technique","static analysis of the type-checked program (go/packages + go/ssa, x/tools v0.29.0), no execution and no solver: path-sensitive cut-reachability on the SSA control-flow graph (guarded effects, ordering, must-pass-through, decision tables over branch literals), whole-program writer/caller sets, locksets, backward dataflow provenance, sibling agreement; helpers absent from the reference tree are flattened into their callers before the rules run")
    })
na=[{"property_id":p['id'],"reason":notes.get(p['id'],{}).get("na","rules not implemented yet in this round (design: DESIGN.md §5); the property will be claimed once its rules exist")} for p in props if p['id'] not in rules]
base=json.load(open('/root/.vp/BASELINE.json'))
m={"version":1,"setup_cmd":"./setup.sh",
 "hooks":{"guard":"verif","enable":"none: the checker only loads and type-checks /repo's source; no hooks or instrumentation exist","baseline_off_cmd":base['cmd'],"source_commits":[],"add_only":True},
 "engines":[{"name":"amverif","path":"/verif/checker","serves_properties":claimed,"kind_free_text":"repository-specific static analyser over go/packages + go/ssa (x/tools v0.29.0): canonical value rendering, branch-literal normal forms, instruction-level cut-reachability, decision tables, locksets, writer/caller sets, dataflow provenance; rules per property in checker/rules_cXX.go"}],
 "checks":checks,"not_applicable":na,
 "notes":"Static analysis only (no test runs, no solver). Fix commits in /repo: see known_findings.json (status=fixed). Known findings are listed in known_findings.json (status=known). See DESIGN.md."}
json.dump(m,open('/verif/MANIFEST.json','w'),indent=1)
print("claimed:",claimed,"na:",[x['property_id'] for x in na])
