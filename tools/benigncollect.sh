#!/bin/sh
# copy finished benign-refactor outputs from the scratch worktrees into /verif/benign and drop the worktree
for p in "$@"; do
  for r in R1 R2 R3 R4; do
    if [ -f /tmp/wb/$p/out/$r/patch.diff ]; then mkdir -p /verif/benign/$p-$r && cp /tmp/wb/$p/out/$r/patch.diff /tmp/wb/$p/out/$r/meta.json /verif/benign/$p-$r/ 2>/dev/null; fi
  done
  git -C /repo worktree remove --force /tmp/wb/$p 2>/dev/null
done
git -C /repo worktree prune
