#!/usr/bin/env python3
"""Run every behaviour-preserving patch under /verif/benign through all checks (scratch copies, in parallel);
any VIOLATION is a false alarm.  Full outputs go to $BENIGN_OUT (default /tmp/bensweep)."""
import os, subprocess, sys, tempfile, shutil, glob, concurrent.futures as cf
V = '/verif'
OUT = os.environ.get('BENIGN_OUT', '/tmp/bensweep')
os.makedirs(OUT, exist_ok=True)
sel = sys.argv[1:]
def run(d):
    name = os.path.basename(d.rstrip('/'))
    t = tempfile.mkdtemp(prefix='amben_')
    try:
        subprocess.run(['rsync', '-a', '--exclude', '.git', '/repo/', t + '/'], check=True)
        p = subprocess.run(['patch', '-p1', '-s', '-i', os.path.join(d, 'patch.diff')], cwd=t, capture_output=True, text=True)
        if p.returncode != 0:
            return name, 'PATCH-FAILS', [p.stdout + p.stderr]
        env = dict(os.environ, AMVERIF_REPO=t, AMVERIF_OUT=t + '/.ev')
        r = subprocess.run([V + '/bin/amverif', 'all', 'quick'], env=env, capture_output=True, text=True)
        txt = (r.stdout + r.stderr).replace(t + '/', '')
        open(os.path.join(OUT, name + '.txt'), 'w').write(txt)
        rules = sorted({l.strip().split(' at ')[0] for l in txt.splitlines() if l.startswith('  rule ')})
        errs = [l for l in txt.splitlines() if l.startswith('amverif:')]
        if errs:
            return name, 'ERROR', errs
        return name, ('FALSE-ALARM' if rules else 'silent'), rules
    finally:
        shutil.rmtree(t, ignore_errors=True)
ds = sorted(glob.glob(V + '/benign/*/'))
if sel:
    ds = [d for d in ds if any(s in d for s in sel)]
import json
try:
    LIMITS = json.load(open(V + '/benign/KNOWN_LIMITS.json'))['limits']
except Exception:
    LIMITS = {}
bad = 0
doc = 0
with cf.ThreadPoolExecutor(max_workers=int(os.environ.get('J', '5'))) as ex:
    for name, st, rules in ex.map(run, ds):
        if st == 'FALSE-ALARM' and name in LIMITS:
            st = 'LIMIT'
            doc += 1
        print(f'{st:12s}{name}')
        if st == 'LIMIT':
            for r in rules[:int(os.environ.get('BENIGN_LINES', '6'))]:
                print('   ', r[:170])
            continue
        if st != 'silent':
            bad += 1
            for r in rules[:int(os.environ.get('BENIGN_LINES', '6'))]:
                print('   ', r[:170])
print(f'{bad} of {len(ds)} benign patches raise an alarm ({doc} documented limits not counted)')
sys.exit(1 if bad else 0)
