#!/bin/sh
# copy finished round-9 benign-refactor outputs into /verif/benign and drop the worktree
for p in "$@"; do
  for r in R23 R24 R25; do
    if [ -f /tmp/wb9/$p/out/$r/patch.diff ]; then mkdir -p /verif/benign/$p-$r && cp /tmp/wb9/$p/out/$r/patch.diff /tmp/wb9/$p/out/$r/meta.json /verif/benign/$p-$r/ 2>/dev/null; fi
  done
  git -C /repo worktree remove --force /tmp/wb9/$p 2>/dev/null
done
git -C /repo worktree prune
