#!/usr/bin/env python3
"""Run every seeded change under /verif/seeded against the check of its property (on a scratch copy of /repo,
static analysis only) and record which rules fire.  Writes /verif/seeded/RESULTS.md and updates meta.json."""
import json, os, subprocess, glob, tempfile, shutil, concurrent.futures, sys
def run(d):
    m = json.load(open(os.path.join(d, "meta.json")))
    prop = m["property"]
    t = tempfile.mkdtemp(prefix="amseed_", dir="/tmp")
    try:
        subprocess.run(["rsync", "-a", "--exclude", ".git", "/repo/", t + "/"], check=True)
        p = subprocess.run(["patch", "-p1", "-s", "-i", os.path.join(d, "patch.diff")], cwd=t, capture_output=True, text=True)
        if p.returncode != 0:
            return d, prop, "PATCH-FAILS", [p.stdout + p.stderr]
        tier = sys.argv[1] if len(sys.argv) > 1 else "quick"
        r = subprocess.run(["/verif/bin/amverif", "check", prop, tier], env=dict(os.environ, AMVERIF_REPO=t, AMVERIF_OUT=t + "/.ev"), capture_output=True, text=True)
        rules = [l.strip().split(" at ")[0].replace("rule ", "") for l in r.stdout.splitlines() if l.strip().startswith("rule ")]
        st = {0: "MISSED", 1: "detected", 2: "CHECKER-ERROR"}.get(r.returncode, "?")
        if "type-error" in r.stdout: st = "NOCOMPILE"
        return d, prop, st, rules
    finally:
        shutil.rmtree(t, ignore_errors=True)
dirs = sorted(glob.glob("/verif/seeded/C*-*"))
rows = []
with concurrent.futures.ThreadPoolExecutor(max_workers=6) as ex:
    for d, prop, st, rules in ex.map(run, dirs):
        m = json.load(open(os.path.join(d, "meta.json")))
        m["checker"] = {"status": st, "rules_fired": rules}
        json.dump(m, open(os.path.join(d, "meta.json"), "w"), indent=1)
        rows.append((os.path.basename(d), prop, st, ", ".join(rules[:4]), m.get("title", "")))
        print("%-8s %-10s %s" % (os.path.basename(d), st, ", ".join(rules[:3])))
with open("/verif/seeded/RESULTS.md", "w") as f:
    f.write("# Seeded changes vs. checks\n\n| seed | property | status | rules fired | bug |\n|---|---|---|---|---|\n")
    for r in rows:
        f.write("| %s | %s | %s | %s | %s |\n" % r)
print(sum(1 for r in rows if r[2] == "detected"), "of", len(rows), "detected")
