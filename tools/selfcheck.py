#!/usr/bin/env python3
"""Self-validation of one property's check (thorough tier).

Applies every committed mutant, seeded breakage and behaviour-preserving refactor of the property to a scratch copy of
the analysed tree (outside /repo and /verif, removed afterwards) and runs the property's quick check on it:
  break mutants / seeded breakage  -> must be reported,
  benign mutants / refactors       -> must stay silent (except the documented limits in benign/KNOWN_LIMITS.json).
Prints one SELF-CHECK line per deviation and a summary; writes <out>/<prop>.self.json.  It never decides anything about
/repo: its exit status is 0 unless the scratch machinery itself could not run (then 3)."""
import glob, json, os, shutil, subprocess, sys, tempfile, concurrent.futures as cf

V = os.environ.get('AMVERIF_HOME', '/verif')
REPO = os.environ.get('AMVERIF_REPO', '/repo')
prop = sys.argv[1]
out = sys.argv[2] if len(sys.argv) > 2 else os.path.join(V, 'evidence')
J = int(os.environ.get('SELFCHECK_J', '8'))

def items():
    its = []
    for f in sorted(glob.glob(V + '/mutants/*.json')):
        for m in json.load(open(f)):
            ps = m['prop'] if isinstance(m['prop'], list) else [m['prop']]
            if prop in ps:
                its.append(('mutant', m['id'], m.get('kind', 'break'), m))
    for d in sorted(glob.glob(V + '/seeded/%s-*/' % prop)):
        if os.path.exists(d + 'patch.diff'):
            its.append(('seeded', os.path.basename(d.rstrip('/')), 'break', d + 'patch.diff'))
    for d in sorted(glob.glob(V + '/benign/%s-*/' % prop)):
        if os.path.exists(d + 'patch.diff'):
            its.append(('refactor', os.path.basename(d.rstrip('/')), 'benign', d + 'patch.diff'))
    return its

def run(it):
    cls, name, kind, payload = it
    t = tempfile.mkdtemp(prefix='amself_')
    try:
        subprocess.run(['rsync', '-a', '--exclude', '.git', REPO + '/', t + '/'], check=True)
        if cls == 'mutant':
            for ed in (payload.get('edits') or [payload]):
                p = os.path.join(t, ed['file'])
                try:
                    src = open(p).read()
                except OSError:
                    return it, 'skipped', 'file missing'
                if src.count(ed['old']) != ed.get('count', 1):
                    return it, 'skipped', 'does not apply to this tree'
                open(p, 'w').write(src.replace(ed['old'], ed['new']))
        else:
            r = subprocess.run(['patch', '-p1', '-s', '-f', '-i', payload], cwd=t, capture_output=True, text=True)
            if r.returncode != 0:
                return it, 'skipped', 'does not apply to this tree'
        env = dict(os.environ, AMVERIF_REPO=t, AMVERIF_OUT=t + '/.ev')
        r = subprocess.run([V + '/bin/amverif', 'check', prop, 'quick'], env=env, capture_output=True, text=True)
        txt = r.stdout + r.stderr
        if r.returncode not in (0, 1):
            if 'type-error' in txt or 'load failed' in txt:
                return it, 'skipped', 'variant does not compile'
            return it, 'error', txt[-300:]
        rules = sorted({l.strip().split(' at ')[0].replace('rule ', '') for l in txt.splitlines() if l.startswith('  rule ')})
        if any(x.startswith('load|type-error') for x in rules):
            return it, 'skipped', 'variant does not compile'
        return it, ('alarm' if r.returncode == 1 else 'silent'), rules
    finally:
        shutil.rmtree(t, ignore_errors=True)

def main():
    limits = {}
    try:
        limits = json.load(open(V + '/benign/KNOWN_LIMITS.json'))['limits']
    except Exception:
        pass
    its = items()
    res = {'property': prop, 'break_total': 0, 'break_reported': 0, 'benign_total': 0, 'benign_silent': 0,
           'benign_documented_alarm': 0, 'skipped': 0, 'deviations': [], 'items': []}
    bad_machinery = False
    with cf.ThreadPoolExecutor(max_workers=J) as ex:
        for it, st, info in ex.map(run, its):
            cls, name, kind, _ = it
            rec = {'class': cls, 'name': name, 'kind': kind, 'outcome': st}
            if st == 'skipped':
                res['skipped'] += 1
                rec['why'] = info
            elif st == 'error':
                bad_machinery = True
                rec['why'] = info
                print('SELF-CHECK: %s %s could not be evaluated: %s' % (cls, name, str(info)[:200]))
            elif kind == 'break':
                res['break_total'] += 1
                if st == 'alarm':
                    res['break_reported'] += 1
                    rec['rules'] = info[:6]
                else:
                    res['deviations'].append(name)
                    print('SELF-CHECK: property=%s %s %s breaks the property but is NOT reported by this check' % (prop, cls, name))
            else:
                res['benign_total'] += 1
                if st == 'silent':
                    res['benign_silent'] += 1
                elif name in limits:
                    res['benign_documented_alarm'] += 1
                    rec['rules'] = info[:6]
                    rec['documented_limit'] = limits[name]
                else:
                    res['deviations'].append(name)
                    rec['rules'] = info[:6]
                    print('SELF-CHECK: property=%s %s %s preserves behaviour but the check alarms: %s' % (prop, cls, name, ', '.join(info[:3])))
            res['items'].append(rec)
    print('SELF-CHECK %s: breaking variants reported %d/%d; behaviour-preserving variants silent %d/%d (+%d documented limits); %d not applicable to this tree' % (
        prop, res['break_reported'], res['break_total'], res['benign_silent'], res['benign_total'], res['benign_documented_alarm'], res['skipped']))
    os.makedirs(out, exist_ok=True)
    # merge into the evidence file written by the check itself
    evp = os.path.join(out, prop + '.json')
    try:
        ev = json.load(open(evp))
        ev.setdefault('coverage', {})['self_validation'] = res
        json.dump(ev, open(evp, 'w'), indent=1)
    except Exception:
        json.dump(res, open(os.path.join(out, prop + '.self.json'), 'w'), indent=1)
    sys.exit(3 if bad_machinery else 0)

main()
