#!/bin/sh
# copy finished round-8 benign-refactor outputs into /verif/benign and drop the worktree
for p in "$@"; do
  for r in R20 R21 R22; do
    if [ -f /tmp/wb8/$p/out/$r/patch.diff ]; then mkdir -p /verif/benign/$p-$r && cp /tmp/wb8/$p/out/$r/patch.diff /tmp/wb8/$p/out/$r/meta.json /verif/benign/$p-$r/ 2>/dev/null; fi
  done
  git -C /repo worktree remove --force /tmp/wb8/$p 2>/dev/null
done
git -C /repo worktree prune
