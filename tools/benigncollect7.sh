#!/bin/sh
# copy finished round-7 benign-refactor outputs into /verif/benign and drop the worktree
for p in "$@"; do
  for r in R17 R18 R19; do
    if [ -f /tmp/wb7/$p/out/$r/patch.diff ]; then mkdir -p /verif/benign/$p-$r && cp /tmp/wb7/$p/out/$r/patch.diff /tmp/wb7/$p/out/$r/meta.json /verif/benign/$p-$r/ 2>/dev/null; fi
  done
  git -C /repo worktree remove --force /tmp/wb7/$p 2>/dev/null
done
git -C /repo worktree prune
