#!/bin/sh
# copy finished round-3 benign-refactor outputs into /verif/benign and drop the worktree
for p in "$@"; do
  for r in R5 R6 R7; do
    if [ -f /tmp/wb3/$p/out/$r/patch.diff ]; then mkdir -p /verif/benign/$p-$r && cp /tmp/wb3/$p/out/$r/patch.diff /tmp/wb3/$p/out/$r/meta.json /verif/benign/$p-$r/ 2>/dev/null; fi
  done
  git -C /repo worktree remove --force /tmp/wb3/$p 2>/dev/null
done
git -C /repo worktree prune
