#!/bin/sh
# copy finished round-4 benign-refactor outputs into /verif/benign and drop the worktree
for p in "$@"; do
  for r in R8 R9 R10; do
    if [ -f /tmp/wb4/$p/out/$r/patch.diff ]; then mkdir -p /verif/benign/$p-$r && cp /tmp/wb4/$p/out/$r/patch.diff /tmp/wb4/$p/out/$r/meta.json /verif/benign/$p-$r/ 2>/dev/null; fi
  done
  git -C /repo worktree remove --force /tmp/wb4/$p 2>/dev/null
done
git -C /repo worktree prune
