#!/bin/sh
# usage: confirm_seed.sh <worktree> <seed-dir>   (seed-dir has patch.diff, meta.json, demo files)
# Confirms: patch applies; tree compiles; existing tests pass with patch; demo fails with patch; demo passes without.
wt="$1"; sd="$2"
export GOFLAGS=-mod=mod GOPROXY=off
cd "$wt" || exit 9
git checkout -q -- . && git clean -fdq -e seedout
demo_cmd=$(python3 -c "import json;print(json.load(open('$sd/meta.json'))['demo_cmd'])")
log="$sd/confirm.log"; : > "$log"
copy_demo() {
  python3 - "$sd" <<'PY'
import json, sys, os, glob, shutil
sd = sys.argv[1]
m = json.load(open(os.path.join(sd, "meta.json")))
if "cp seedout" in m["demo_cmd"]:
    sys.exit(0)          # the demo command places the file itself
paths = m["demo_path"] if isinstance(m["demo_path"], list) else [m["demo_path"]]
files = sorted(glob.glob(os.path.join(sd, "*.go")))
if len(paths) == 1 and len(files) == 1 and paths[0].endswith(".go"):
    os.makedirs(os.path.dirname(paths[0]) or ".", exist_ok=True)
    shutil.copy(files[0], paths[0])
else:
    for f in files:
        dst = None
        for p in paths:
            if os.path.basename(p) == os.path.basename(f):
                dst = p
        if dst is None:
            d = paths[0] if not paths[0].endswith(".go") else os.path.dirname(paths[0])
            dst = os.path.join(d, os.path.basename(f))
        os.makedirs(os.path.dirname(dst) or ".", exist_ok=True)
        shutil.copy(f, dst)
PY
}
rm_demo() { git clean -fdq -e seedout; rm -rf ui/app/dist; }
echo "== demo without patch (expect pass)" >> "$log"
copy_demo
if sh -c "$demo_cmd" >> "$log" 2>&1; then r_nopatch=pass; else r_nopatch=FAIL; fi
rm_demo
git apply "$sd/patch.diff" 2>> "$log" || { echo "RESULT patch-does-not-apply" | tee -a "$log"; exit 1; }
echo "== existing tests with patch (expect pass)" >> "$log"
pk="./silence/... ./notify/... ./dispatch/... ./api/... ./cluster/... ./nflog/... ./inhibit/... ./provider/... ./store/... ./config/... ./cli/... ./types/... ./alert/... ./limit/... ./matcher/... ./pkg/... ./timeinterval/... ./template/... ./marker/... ./featurecontrol/... ./eventrecorder/..."
if go test -count=1 -vet=off $pk >> "$log" 2>&1; then r_tests=pass; else r_tests=FAIL; fi
echo "== demo with patch (expect fail)" >> "$log"
copy_demo
if sh -c "$demo_cmd" >> "$log" 2>&1; then r_patch=PASS-unexpected; else r_patch=fails; fi
rm_demo
git checkout -q -- .
echo "RESULT demo_without_patch=$r_nopatch existing_tests_with_patch=$r_tests demo_with_patch=$r_patch" | tee -a "$log"
