#!/bin/sh
# usage: confirm_seed.sh <worktree> <seed-dir>   (seed-dir has patch.diff, meta.json, demo files)
# Confirms: patch applies; tree compiles; existing tests pass with patch; demo fails with patch; demo passes without.
wt="$1"; sd="$2"
export GOFLAGS=-mod=mod GOPROXY=off
cd "$wt" || exit 9
git checkout -q -- . && git clean -fdq -e seedout
demo_path=$(python3 -c "import json;print(json.load(open('$sd/meta.json'))['demo_path'])")
demo_cmd=$(python3 -c "import json;print(json.load(open('$sd/meta.json'))['demo_cmd'])")
log="$sd/confirm.log"; : > "$log"
copy_demo() {
  # demo_path may be a file path or a directory; copy all *_test.go / *.go demo files from seed dir
  for f in "$sd"/*.go; do
    [ -f "$f" ] || continue
    case "$demo_path" in
      *.go) mkdir -p "$(dirname "$demo_path")"; cp "$f" "$(dirname "$demo_path")/$(basename "$f")";;
      *) mkdir -p "$demo_path"; cp "$f" "$demo_path/";;
    esac
  done
}
rm_demo() { git clean -fdq -e seedout; }
echo "== demo without patch (expect pass)" >> "$log"
copy_demo
if sh -c "$demo_cmd" >> "$log" 2>&1; then r_nopatch=pass; else r_nopatch=FAIL; fi
rm_demo
git apply "$sd/patch.diff" 2>> "$log" || { echo "RESULT patch-does-not-apply" | tee -a "$log"; exit 1; }
echo "== existing tests with patch (expect pass)" >> "$log"
pk="./silence/... ./notify/... ./dispatch/... ./api/... ./cluster/... ./nflog/... ./inhibit/... ./provider/... ./store/... ./config/... ./cli/... ./types/... ./alert/... ./limit/... ./matcher/... ./pkg/... ./timeinterval/... ./template/... ./marker/... ./featurecontrol/... ./eventrecorder/..."
if go test -count=1 -vet=off $pk >> "$log" 2>&1; then r_tests=pass; else r_tests=FAIL; fi
echo "== demo with patch (expect fail)" >> "$log"
copy_demo
if sh -c "$demo_cmd" >> "$log" 2>&1; then r_patch=PASS-unexpected; else r_patch=fails; fi
rm_demo
git checkout -q -- .
echo "RESULT demo_without_patch=$r_nopatch existing_tests_with_patch=$r_tests demo_with_patch=$r_patch" | tee -a "$log"
