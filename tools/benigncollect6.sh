#!/bin/sh
# copy finished round-6 benign-refactor outputs into /verif/benign and drop the worktree
for p in "$@"; do
  for r in R14 R15 R16; do
    if [ -f /tmp/wb6/$p/out/$r/patch.diff ]; then mkdir -p /verif/benign/$p-$r && cp /tmp/wb6/$p/out/$r/patch.diff /tmp/wb6/$p/out/$r/meta.json /verif/benign/$p-$r/ 2>/dev/null; fi
  done
  git -C /repo worktree remove --force /tmp/wb6/$p 2>/dev/null
done
git -C /repo worktree prune
