#!/usr/bin/env python3
"""Self-validation of the checker: apply small edits to a scratch copy of /repo
and report whether the rules of the named property fire (kind=break) or stay
silent (kind=benign).  Static only: the scratch copy is never built or run,
only loaded by bin/amverif.

usage: muttest.py [-j N] [-k substr] mutants/*.json
A mutant: {"id":..., "prop":"C07", "kind":"break"|"benign", "file":..., "old":..., "new":..., "count":1,
           "expect_rule": "C07.1" (optional), "why":...}
"""
import json, os, subprocess, sys, shutil, tempfile, concurrent.futures, re

VERIF = os.path.dirname(os.path.dirname(os.path.abspath(__file__)))
REPO = os.environ.get("AMVERIF_REPO", "/repo")

def run_one(m, idx):
    d = tempfile.mkdtemp(prefix="ammut%d_" % idx, dir=os.environ.get("MUT_TMP", "/tmp"))
    try:
        subprocess.run(["rsync", "-a", "--exclude", ".git", REPO + "/", d + "/"], check=True)
        edits = m.get("edits") or [m]
        for ed in edits:
            p = os.path.join(d, ed["file"])
            s = open(p).read()
            cnt = s.count(ed["old"])
            want = ed.get("count", 1)
            if cnt != want:
                return m, "BADMUT", "old text occurs %d times, expected %d in %s" % (cnt, want, ed["file"])
            s = s.replace(ed["old"], ed["new"])
            open(p, "w").write(s)
        env = dict(os.environ, AMVERIF_REPO=d, AMVERIF_OUT=os.path.join(d, ".ev"), AMVERIF_HOME=VERIF)
        props = m["prop"] if isinstance(m["prop"], list) else [m["prop"]]
        out = ""
        rc = 0
        for pr in props:
            r = subprocess.run([os.path.join(VERIF, "bin/amverif"), "check", pr, m.get("tier", "quick")], env=env, capture_output=True, text=True)
            out += r.stdout + r.stderr
            rc = max(rc, r.returncode)
        out = out.replace(d + "/", "")
        if "type-error" in out:
            return m, "NOCOMPILE", out
        fired = [l.strip() for l in out.splitlines() if l.strip().startswith("rule ")]
        if rc == 2:
            return m, "CHECKER-ERROR", out
        if m["kind"] == "break":
            if rc == 1:
                er = m.get("expect_rule")
                if er and not any(("rule " + er) in f for f in fired):
                    return m, "WRONG-RULE", "\n".join(fired)
                return m, "ok-fired", "\n".join(fired[:3])
            return m, "MISSED", ""
        else:
            if rc == 0:
                return m, "ok-silent", ""
            return m, "FALSE-ALARM", "\n".join(fired)
    finally:
        shutil.rmtree(d, ignore_errors=True)

def main():
    args = sys.argv[1:]
    j = 6
    sub = None
    files = []
    while args:
        a = args.pop(0)
        if a == "-j": j = int(args.pop(0))
        elif a == "-k": sub = args.pop(0)
        else: files.append(a)
    muts = []
    for f in files:
        for m in json.load(open(f)):
            if sub and sub not in m["id"]: continue
            muts.append(m)
    bad = 0
    with concurrent.futures.ThreadPoolExecutor(max_workers=j) as ex:
        futs = [ex.submit(run_one, m, i) for i, m in enumerate(muts)]
        for fu in futs:
            m, st, detail = fu.result()
            print("%-14s %-34s %s" % (st, m["id"], (m.get("why") or "")[:90]))
            if not st.startswith("ok"):
                bad += 1
                for l in detail.splitlines()[:12]:
                    print("      " + l)
            elif os.environ.get("MUT_VERBOSE") and detail:
                for l in detail.splitlines()[:3]:
                    print("      " + l[:200])
    print("%d mutants, %d not as expected" % (len(muts), bad))
    sys.exit(1 if bad else 0)

main()
