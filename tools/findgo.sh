#!/bin/sh
# Locate a Go >= 1.25 toolchain offline and export the environment every
# script of /verif uses.  Source it: . tools/findgo.sh
_gobin=""
for d in /root/go/pkg/mod/golang.org/toolchain@v0.0.1-go1.25.0.linux-amd64/bin \
         /opt/veriftools/go1.26.8/bin \
         /root/go/pkg/mod/golang.org/toolchain@v0.0.1-go1.26.8.linux-amd64/bin \
         /root/go/pkg/mod/golang.org/toolchain@v0.0.1-go1.26.0.linux-amd64/bin; do
  if [ -x "$d/go" ]; then _gobin="$d"; break; fi
done
if [ -z "$_gobin" ] && command -v go >/dev/null 2>&1; then
  v=$(GOTOOLCHAIN=local go env GOVERSION 2>/dev/null | sed 's/^go//')
  case "$v" in 1.2[5-9]*|1.[3-9][0-9]*) _gobin=$(dirname "$(command -v go)");; esac
fi
if [ -z "$_gobin" ]; then echo "findgo: no Go >= 1.25 found" >&2; return 2 2>/dev/null || exit 2; fi
PATH="$_gobin:$PATH"; export PATH
GOTOOLCHAIN=local; export GOTOOLCHAIN
GOFLAGS=-mod=mod; export GOFLAGS
GOPROXY=off; export GOPROXY
GOWORK=off; export GOWORK
unset GOSUMDB
