#!/bin/sh
# usage: seedtest.sh <patch.diff> <Cxx> [tier]  — apply a patch to a scratch copy of /repo and run the property's check on it.
patch="$1"; prop="$2"; tier="${3:-quick}"
d=$(mktemp -d /tmp/amseed_XXXXXX)
rsync -a --exclude .git /repo/ "$d/"
( cd "$d" && patch -p1 -s < "$patch" ) || { echo "patch failed"; rm -rf "$d"; exit 3; }
AMVERIF_REPO="$d" AMVERIF_OUT="$d/.ev" /verif/bin/amverif check "$prop" "$tier" | grep -E "^(VIOLATION|KNOWN|  rule|C[0-9]+ )" | sed "s#$d/##g"
rc=$?
rm -rf "$d"
