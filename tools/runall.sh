#!/bin/sh
# Run every claimed check (quick or given tier) on /repo and report failures; evidence is rewritten.
cd "$(dirname "$0")/.."
tier="${1:-quick}"
rc=0
for p in $(python3 -c "import json;print(' '.join(c['property_id'] for c in json.load(open('MANIFEST.json'))['checks']))"); do
  if ! ./run.sh $p $tier > /tmp/amverif_$p.out 2>&1; then echo "FAIL $p"; grep -E "VIOL|rule " /tmp/amverif_$p.out | head -5; rc=1; else head -1 /tmp/amverif_$p.out; grep KNOWN /tmp/amverif_$p.out | cut -c1-120; fi
done
exit $rc
